#!/bin/bash
# Offline setup: warm the Go build cache for the harness and build the gofail CLI.
set -e
cd "$(dirname "$0")"
export GOFLAGS=-mod=mod GOPROXY=off GOSUMDB=off GOTOOLCHAIN=local CGO_ENABLED=1
mkdir -p bin evidence replay
( cd harness && go build -o ../bin/gofail go.etcd.io/gofail )
( cd harness && go build -tags verif ./... )
# race-detector builds used by the quick tier (C14, C17, C18, C20 and the sanitizer passes of C09, C10)
( cd harness && go build -tags verif -race ./cmd/w_c09 ./cmd/w_c10 ./cmd/w_c19 ./cmd/w_c14 ./cmd/w_c17 ./cmd/w_c18 ./cmd/w_c20 )
rm -f harness/w_c09 harness/w_c10 harness/w_c19 harness/w_c14 harness/w_c17 harness/w_c18 harness/w_c20
echo setup ok
