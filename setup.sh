#!/bin/bash
# Offline setup: warm the Go build cache for the harness and build the gofail CLI.
set -e
cd "$(dirname "$0")"
export GOFLAGS=-mod=mod GOPROXY=off GOSUMDB=off GOTOOLCHAIN=local CGO_ENABLED=1
mkdir -p bin evidence replay
( cd harness && go build -o ../bin/gofail go.etcd.io/gofail )
( cd harness && go build -tags verif ./... )
echo setup ok
