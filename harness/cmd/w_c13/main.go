// Worker for C13: block commit and removal are crash-atomic (fault enumeration over every
// file-system write/sync boundary of the step, unsynced data lost at the crash).
package main

import (
	"bytes"
	"context"
	"encoding/binary"
	"fmt"
	"sort"

	"github.com/cockroachdb/pebble"

	"github.com/LiskHQ/lisk-engine/pkg/blockchain"
	"github.com/LiskHQ/lisk-engine/pkg/consensus/liskbft"
	"github.com/LiskHQ/lisk-engine/pkg/db/diffdb"

	"verifharness/internal/crashfs"
	"verifharness/internal/mon"
	"verifharness/internal/node"
)

func canon(d []node.KV) []node.KV {
	for i, kv := range d {
		if kv.K[0] != 51 {
			continue
		}
		df := &diffdb.Diff{}
		if err := df.Decode(kv.V); err != nil {
			continue
		}
		sort.Slice(df.Added, func(a, b int) bool { return bytes.Compare(df.Added[a], df.Added[b]) < 0 })
		sort.Slice(df.Updated, func(a, b int) bool { return bytes.Compare(df.Updated[a].Key, df.Updated[b].Key) < 0 })
		sort.Slice(df.Deleted, func(a, b int) bool { return bytes.Compare(df.Deleted[a].Key, df.Deleted[b].Key) < 0 })
		d[i].V = df.Encode()
	}
	return d
}

type step struct {
	kind string
	// sub-steps; each is one atomic engine operation
	ops []func(n *node.Node) error
}

func be32(b []byte) uint32 { return binary.BigEndian.Uint32(b) }

// consistency invariants of a restarted node (statement: no height index pointing at
// missing data, consensus store level with the tip, no diff without its block).
func checkConsistency(k *mon.Case, n *node.Node, wit map[string]any) {
	d := node.Dump(n.DB)
	has := map[string]bool{}
	for _, kv := range d {
		has[string(kv.K)] = true
	}
	tip := n.Tip()
	if tip == nil {
		k.Violation("restart:no-tip", "node restarted without a tip", wit)
		return
	}
	maxH, cnt := uint32(0), 0
	for _, kv := range d {
		switch kv.K[0] {
		case 4:
			h := be32(kv.K[1:])
			cnt++
			if h > maxH {
				maxH = h
			}
			if !has[string(append([]byte{3}, kv.V...))] {
				k.Violation("torn:height-index-without-header", "height index points at a missing header", wit)
			}
			if txs, ok := n.DB.Get(append([]byte{5}, kv.V...)); ok {
				for i := 0; i+32 <= len(txs); i += 32 {
					if !has[string(append([]byte{6}, txs[i:i+32]...))] {
						k.Violation("torn:transaction-index-without-transaction", "block's transaction list points at a missing transaction", wit)
					}
				}
			}
		case 51:
			if be32(kv.K[1:]) > tip.Header.Height {
				k.Violation("torn:diff-above-tip", "a state diff exists for a height above the tip", wit)
			}
		case 27:
			if be32(kv.V) > tip.Header.Height {
				k.Violation("torn:finalized-above-tip", "finalized height above the tip", wit)
			}
		}
	}
	if maxH != tip.Header.Height || cnt != int(maxH)+1 {
		k.Violation("torn:height-index-not-contiguous", "height index is not 0..tip", wit)
	}
	dk := append([]byte{51}, make([]byte, 4)...)
	binary.BigEndian.PutUint32(dk[1:], tip.Header.Height)
	if !has[string(dk)] {
		k.Violation("torn:tip-without-diff", "the tip has no state diff (cannot be reverted)", wit)
	}
	votes, err := liskbft.VerifDumpVotes(n.Exec.VerifStateStore())
	if err != nil {
		k.Violation("torn:bft-store-unreadable", "consensus store unreadable after restart: "+err.Error(), wit)
		return
	}
	if len(votes.Blocks) > 0 {
		if votes.Blocks[0].Height != tip.Header.Height {
			wit["bft_newest"] = votes.Blocks[0].Height
			wit["tip"] = tip.Header.Height
			k.Violation("torn:consensus-store-not-level-with-tip", "newest header in the BFT window differs from the tip height", wit)
		}
	} else if tip.Header.Height != 0 {
		k.Violation("torn:consensus-store-not-level-with-tip", "BFT window empty but tip above genesis", wit)
	}
}

func sameDump(a, b []node.KV) bool {
	if len(a) != len(b) {
		return false
	}
	for i := range a {
		if !bytes.Equal(a[i].K, b[i].K) || !bytes.Equal(a[i].V, b[i].V) {
			return false
		}
	}
	return true
}

func main() {
	mon.Main(mon.Options{
		Property: "C13", Level: "fault_enumeration",
		Rule: "per scenario (genesis init, apply block incl. finality-raising/pruning blocks and blocks whose write batch runs to 100-200 KiB, delete tip with/without temp block, delete+apply reorg, re-apply from temp with removeTemp, ClearTempBlocks) the step is run once on a counting strict in-memory FS to enumerate its mutating FS calls (create/write/sync/rename/remove...), then once per call boundary j with a power loss at j (nothing from call j on is durable); after the crash all handles are dropped, unsynced data discarded, the DB reopened by a fresh Chain+Executer; the dump must equal the dump before or after one atomic sub-step, consistency invariants must hold and the node must accept the next block. non-trivial+distinct = (scenario kind, op name at the crash boundary, which allowed state was found)",
		Assumptions: []string{
			"pebble's batch+WAL atomicity and the strict MemFS power-loss model (SetIgnoreSyncs/ResetToSyncedState) are trusted",
			"the application-side commit (labi.Commit precedes the engine's batch) is outside this DB; the harness realigns the scripted application after the crash (C16 covers recovery)",
		},
		Exhaustive: true,
	}, func(c *mon.Ctx) {
		c.Cases("stall", c.N(3, 40), stallCase)
		c.Cases("scenario", c.N(480, 8000), func(k *mon.Case) {
			r := k.R
			g := node.EqualGenesis(1 + r.Intn(4))
			if r.Intn(3) == 0 {
				g = node.RandomChange(r, 6, 5)
			}
			cfg := node.Config{Genesis: g, Universe: 6, BatchSize: 5, MaxBlockCache: 6 + r.Intn(10), KeepEventsForHeights: []int{-1, 0, 2}[r.Intn(3)]}
			small := !c.Quick() && r.Intn(4) == 0
			if small {
				// force memtable flushes / WAL rotation inside the scenario (background work makes
				// the op trace schedule-dependent: such cases are not counted as exhaustive)
				cfg.PebbleOpts = &pebble.Options{MemTableSize: 16 << 10, MemTableStopWritesThreshold: 4}
			}
			// ---------- reference run
			fs0 := crashfs.New()
			cfg.FS = fs0
			// big: blocks whose write batch runs to 100-200 KiB (payload limit raised; transaction
			// bodies are stored once per transaction) - however large the step, it stays one atomic write
			big := r.Intn(6) == 0
			if big {
				cfg.MaxTransactionsLength = 192 * 1024
			}
			bigBlock := func(n *node.Node) (*blockchain.Block, error) {
				var txs []*blockchain.Transaction
				for j := 0; j < 7+r.Intn(6); j++ {
					txs = append(txs, n.NewTx(n.Universe[r.Intn(len(n.Universe))], uint64(5000+j), uint64(1000+r.Intn(100000)), node.TxVerifyOK, node.TxExecOK, 9000+r.Intn(4500)))
				}
				k.Count("big_blocks_built", 1)
				return n.NextBlock(node.BlockOpts{Txs: txs, Directive: &node.Directive{Salt: r.Intn(1 << 20), Events: r.Intn(3)}})
			}
			kinds := []string{"genesis", "apply", "apply", "apply", "delete", "delete-temp", "reorg", "reapply-temp", "clear-temp"}
			kind := kinds[r.Intn(len(kinds))]
			var preBlocks []*blockchain.Block
			var n0 *node.Node
			var err error
			allowed := [][]node.KV{}
			var st step
			st.kind = kind
			if kind == "genesis" {
				allowed = append(allowed, []node.KV{})
				fs0.StartTrace()
				c0 := fs0.Count()
				n0, err = node.New(cfg)
				if err != nil {
					k.Inconclusive("node-init")
					return
				}
				cfg.GenesisTimestamp = n0.Cfg.GenesisTimestamp
				allowed = append(allowed, canon(node.Dump(n0.DB)))
				trace := fs0.StopTrace()
				N := fs0.Count() - c0
				n0.Close()
				runCrashes(k, cfg, nil, st, allowed, trace, N, true, small)
				return
			}
			n0, err = node.New(cfg)
			if err != nil {
				k.Inconclusive("node-init")
				return
			}
			cfg.GenesisTimestamp = n0.Cfg.GenesisTimestamp
			pre := 1 + r.Intn(18)
			for i := 0; i < pre; i++ {
				b, _, err := n0.RandomValid(r)
				if big && i == pre-1 && kind != "apply" {
					b, err = bigBlock(n0) // the block that the step removes / re-applies
				}
				if err != nil {
					k.Inconclusive("build")
					n0.Close()
					return
				}
				if err := n0.Apply(b); err != nil {
					k.Inconclusive("valid-block-rejected")
					n0.Close()
					return
				}
				preBlocks = append(preBlocks, b)
			}
			apply := func(b *blockchain.Block) func(n *node.Node) error {
				return func(n *node.Node) error { return n.Apply(node.CloneBlock(b)) }
			}
			del := func(temp bool) func(n *node.Node) error {
				return func(n *node.Node) error { return n.DeleteTip(temp) }
			}
			// make sure the tip is deletable for delete scenarios
			deletable := n0.Tip().Header.Height > n0.Finalized()
			switch kind {
			case "apply":
				b, _, err := n0.RandomValid(r)
				if big {
					b, err = bigBlock(n0)
				}
				if err != nil {
					k.Inconclusive("build")
					n0.Close()
					return
				}
				st.ops = append(st.ops, apply(b))
			case "delete", "delete-temp":
				if !deletable {
					k.Inconclusive("tip-finalized")
					n0.Close()
					return
				}
				st.ops = append(st.ops, del(kind == "delete-temp"))
			case "reorg":
				if !deletable {
					k.Inconclusive("tip-finalized")
					n0.Close()
					return
				}
				// sibling built on the parent: delete, build, re-apply the old tip
				old := n0.Tip()
				if err := n0.DeleteTip(false); err != nil {
					k.Inconclusive("setup")
					n0.Close()
					return
				}
				sib, _, err := n0.RandomValid(r)
				if err != nil || n0.Apply(node.CloneBlock(old)) != nil {
					k.Inconclusive("setup")
					n0.Close()
					return
				}
				preBlocks = append(preBlocks[:len(preBlocks)-1], old) // history: ... old ; (delete+re-apply is state neutral)
				st.ops = append(st.ops, del(r.Intn(2) == 0), apply(sib))
			case "reapply-temp", "clear-temp":
				if !deletable {
					k.Inconclusive("tip-finalized")
					n0.Close()
					return
				}
				// the delete with saveTemp belongs to the prefix; the step re-applies from temp or clears
				if kind == "reapply-temp" {
					st.ops = append(st.ops, func(n *node.Node) error {
						tb, err := n.Chain.DataAccess().GetTempBlocks()
						if err != nil || len(tb) == 0 {
							return fmt.Errorf("no temp block: %v", err)
						}
						return n.Exec.VerifProcessValidated(context.Background(), tb[0], false, true)
					})
				} else {
					st.ops = append(st.ops, func(n *node.Node) error { n.Chain.DataAccess().ClearTempBlocks(); return nil })
				}
			}
			n0.Close()
			referenceAndCrash(k, cfg, preBlocks, st, kind, small)
		})
	})
}

// referenceAndCrash rebuilds the prefix on a counting FS, runs the step once with a dump after each
// sub-step (the allowed states) and then once per FS-call boundary with a power loss there.
func referenceAndCrash(k *mon.Case, cfg node.Config, preBlocks []*blockchain.Block, st step, kind string, small bool) {
	allowed := [][]node.KV{}
	// reference: rebuild on a counting FS, run the step with dumps after each sub-step
	fsr := crashfs.New()
	cfgr := cfg
	cfgr.FS = fsr
	nr, err := rebuild(cfgr, preBlocks, kind)
	if err != nil {
		k.Inconclusive("rebuild:" + err.Error())
		return
	}
	allowed = append(allowed, canon(node.Dump(nr.DB)))
	fsr.StartTrace()
	c0 := fsr.Count()
	for _, op := range st.ops {
		if err := op(nr); err != nil {
			k.Inconclusive("reference-step-failed:" + err.Error())
			nr.Close()
			return
		}
		allowed = append(allowed, canon(node.Dump(nr.DB)))
	}
	trace := fsr.StopTrace()
	N := fsr.Count() - c0
	nr.Close()
	runCrashes(k, cfg, preBlocks, st, allowed, trace, N, false, small)
}

func rebuild(cfg node.Config, pre []*blockchain.Block, kind string) (*node.Node, error) {
	n, err := node.New(cfg)
	if err != nil {
		return nil, err
	}
	for _, b := range pre {
		if err := n.Apply(node.CloneBlock(b)); err != nil {
			n.Close()
			return nil, fmt.Errorf("prefix block rejected: %w", err)
		}
	}
	if kind == "reapply-temp" || kind == "clear-temp" {
		if err := n.DeleteTip(true); err != nil {
			n.Close()
			return nil, err
		}
	}
	return n, nil
}

func runCrashes(k *mon.Case, cfg node.Config, pre []*blockchain.Block, st step, allowed [][]node.KV, trace []string, N int, genesis bool, small bool) {
	k.Count("fs_ops_in_steps", N)
	k.Count("scenario_"+st.kind, 1)
	for j := 1; j <= N; j++ {
		k.Eval(1)
		fs := crashfs.New()
		c := cfg
		c.FS = fs
		var n *node.Node
		var err error
		opName := "?"
		if j-1 < len(trace) {
			opName = trace[j-1]
		}
		wit := map[string]any{"scenario": st.kind, "crash_before_fs_op": j, "of": N, "op": opName, "prefix_blocks": len(pre), "trace": trace}
		if genesis {
			fs.CrashAfter(j)
			n, err = node.New(c)
			if err != nil {
				k.Inconclusive("genesis-under-crash-failed")
				continue
			}
		} else {
			n, err = rebuild(c, pre, st.kind)
			if err != nil {
				k.Inconclusive("rebuild:" + err.Error())
				continue
			}
			fs.StartTrace()
			fs.CrashAfter(j)
			for _, op := range st.ops {
				op(n) //nolint:errcheck
			}
			got := fs.StopTrace()
			if !small && (len(got) != len(trace)) {
				k.Count("nondeterministic_traces", 1)
			}
		}
		if !fs.Crashed() {
			k.Count("crash_point_not_reached", 1)
		}
		// power loss: drop every handle, discard unsynced data, restart
		n.Abandon()
		n.DB.Close() //nolint:errcheck
		fs.Recover()
		if err := n.Reopen(); err != nil {
			wit["err"] = err.Error()
			k.Violation("restart:fails:"+st.kind, "node does not come up after a crash", wit)
			continue
		}
		d := canon(node.Dump(n.DB))
		found := -1
		for i, a := range allowed {
			if sameDump(a, d) {
				found = i
				break
			}
		}
		if found < 0 {
			// describe against the closest allowed state
			best, bestN := 0, 1<<30
			for i, a := range allowed {
				if df := node.Diff(a, d, nil); len(df) < bestN {
					best, bestN = i, len(df)
				}
			}
			df := node.Diff(allowed[best], d, nil)
			if len(df) > 12 {
				df = df[:12]
			}
			wit["closest_allowed_state"] = best
			wit["db_diff_to_closest"] = df
			k.Violation("torn:neither-before-nor-after:"+st.kind, "DB after the crash is neither the state before nor after an atomic step", wit)
		} else {
			k.Nontrivial(fmt.Sprintf("%s|%s|state%d", st.kind, opClass(opName), found))
			k.Count(fmt.Sprintf("recovered_state_%d", found), 1)
		}
		checkConsistency(k, n, wit)
		// the node must be able to go on
		if found >= 0 {
			if err := n.AlignABI(); err == nil {
				if b, err := n.NextBlock(node.BlockOpts{}); err == nil {
					if err := n.Apply(b); err != nil {
						wit["err"] = err.Error()
						k.Violation("restart:cannot-extend:"+st.kind, "restarted node rejects the next valid block", wit)
					} else {
						k.Count("extended_after_restart", 1)
					}
				}
			}
		}
		n.Close()
	}
	k.Sample(map[string]any{"scenario": st.kind, "prefix_blocks": len(pre), "fs_ops": N, "trace": trace, "allowed_states": len(allowed)})
}

func opClass(op string) string {
	for i := 0; i < len(op); i++ {
		if op[i] == ':' {
			name := op[i+1:]
			ext := ""
			for j := len(name) - 1; j >= 0; j-- {
				if name[j] == '.' {
					ext = name[j:]
					break
				}
			}
			if ext == "" {
				ext = name
				if len(ext) > 8 {
					ext = ext[:8]
				}
			}
			return op[:i] + ext
		}
	}
	return op
}

// stallCase: finality stalls for hundreds of blocks (one validator generates alone, events are kept
// until finality), then the other validators return and one block raises the finalized height by
// hundreds of heights at once: that block prunes the events / state diffs of all those heights.
// The step is that block; however much it deletes, it must stay one atomic write.
func stallCase(k *mon.Case) {
	r := k.R
	nv := 3 + r.Intn(2)
	cfg := node.Config{Genesis: node.EqualGenesis(nv), Universe: nv, BatchSize: nv, MaxBlockCache: 6 + r.Intn(10), KeepEventsForHeights: []int{0, 2}[r.Intn(2)]}
	cfg.FS = crashfs.New()
	n0, err := node.New(cfg)
	if err != nil {
		k.Inconclusive("node-init")
		return
	}
	defer n0.Close()
	cfg.GenesisTimestamp = n0.Cfg.GenesisTimestamp
	lone := n0.Universe[r.Intn(nv)]
	stall := 270 + r.Intn(80)
	var pre []*blockchain.Block
	for i := 0; i < stall; i++ {
		s := 0
		for t := 1; t <= 2*nv; t++ {
			if g, _, err := n0.SlotGenerator(t); err == nil && g == lone {
				s = t
				break
			}
		}
		if s == 0 {
			k.Inconclusive("no-slot-for-the-lone-generator")
			return
		}
		b, err := n0.NextBlock(node.BlockOpts{SlotsAhead: s, Directive: &node.Directive{Salt: r.Intn(1 << 20), Events: 1 + r.Intn(2)}})
		if err != nil || n0.Apply(b) != nil {
			k.Inconclusive("build-stall")
			return
		}
		pre = append(pre, b)
	}
	if n0.Finalized() != 0 {
		k.Inconclusive("finality-did-not-stall")
		return
	}
	// the others return: blocks by every validator in turn until one raises the finalized height
	var st step
	st.kind = "apply-after-finality-stall"
	for i := 0; i < 4*nv; i++ {
		b, err := n0.NextBlock(node.BlockOpts{Directive: &node.Directive{Salt: r.Intn(1 << 20), Events: r.Intn(2)}})
		if err != nil {
			k.Inconclusive("build-return")
			return
		}
		if err := n0.Apply(node.CloneBlock(b)); err != nil {
			k.Inconclusive("build-return-apply")
			return
		}
		if n0.Finalized() > 0 {
			k.Count("finalized_height_jump", int(n0.Finalized()))
			k.Count("stall_cases_with_jump_above_256", map[bool]int{true: 1, false: 0}[n0.Finalized() > 256])
			bb := b
			st.ops = append(st.ops, func(n *node.Node) error { return n.Apply(node.CloneBlock(bb)) })
			break
		}
		pre = append(pre, b)
	}
	if len(st.ops) == 0 {
		k.Inconclusive("finality-did-not-return")
		return
	}
	referenceAndCrash(k, cfg, pre, st, "apply", false)
}
