// Worker for C06: aggregate commits are sound, bounded and self-consistent.
package main

import (
	"bytes"
	"context"
	"fmt"
	"math/big"
	"math/rand"
	"sort"

	"github.com/LiskHQ/lisk-engine/pkg/blockchain"
	"github.com/LiskHQ/lisk-engine/pkg/codec"
	"github.com/LiskHQ/lisk-engine/pkg/consensus"
	"github.com/LiskHQ/lisk-engine/pkg/consensus/certificate"
	"github.com/LiskHQ/lisk-engine/pkg/consensus/liskbft"
	"github.com/LiskHQ/lisk-engine/pkg/crypto"
	"github.com/LiskHQ/lisk-engine/pkg/p2p"

	"verifharness/internal/mon"
	"verifharness/internal/node"
)

var certTag = []byte("LSK_CE_")

type valAt struct {
	v      *node.Validator
	weight uint64
}

type view struct {
	n            *node.Node
	certified    uint32
	precommitted uint32
	params       []liskbft.VerifParams // ascending by height
	sigCache     map[string][]byte
}

func newView(n *node.Node) *view {
	_, p, c := n.Heights()
	ps, err := liskbft.VerifDumpParams(n.Exec.VerifStateStore())
	if err != nil {
		panic(err)
	}
	return &view{n: n, certified: c, precommitted: p, params: ps, sigCache: map[string][]byte{}}
}

// paramsAt: latest stored parameters with height <= h (nil if none).
func (v *view) paramsAt(h uint32) *liskbft.VerifParams {
	var out *liskbft.VerifParams
	for i := range v.params {
		if v.params[i].Height <= h {
			out = &v.params[i]
		}
	}
	return out
}

// nextChange: first height > certified+1 at which parameters are stored (0 = none).
func (v *view) nextChange() uint32 {
	for _, p := range v.params {
		if p.Height > v.certified+1 {
			return p.Height
		}
	}
	return 0
}

// validatorsAt returns the BFT validators of height h sorted by BLS key ascending (the
// order in which aggregation bits are assigned, LIP-0061).
func (v *view) validatorsAt(h uint32) ([]valAt, uint64) {
	p := v.paramsAt(h)
	if p == nil {
		return nil, 0
	}
	out := []valAt{}
	for _, pv := range p.Validators {
		out = append(out, valAt{v.n.ValidatorByAddress(pv.Address), pv.Weight})
	}
	sort.Slice(out, func(i, j int) bool { return bytes.Compare(out[i].v.BLS.PublicKey, out[j].v.BLS.PublicKey) < 0 })
	return out, p.CertificateThreshold
}

func certMessage(chainID []byte, h *blockchain.BlockHeader) []byte {
	c := certificate.NewCertificateFromBlock(h)
	return crypto.Hash(append(append(append([]byte{}, certTag...), chainID...), c.SigningBytes()...))
}

func (v *view) sign(val *node.Validator, h *blockchain.BlockHeader) []byte {
	key := fmt.Sprintf("%d|%x", val.Index, h.ID)
	if s, ok := v.sigCache[key]; ok {
		return s
	}
	s := crypto.BLSSign(certMessage(v.n.Chain.ChainID(), h), val.BLS.PrivateKey)
	v.sigCache[key] = s
	return s
}

// aggregate builds the honest aggregate of `mask` (bit i = i-th validator in BLS-key order)
// over the certificate of header hdr, claimed for the validator list vals.
func (v *view) aggregate(vals []valAt, mask int, hdr *blockchain.BlockHeader) (bits, sig []byte, weight uint64) {
	keys := make([][]byte, len(vals))
	for i, va := range vals {
		keys[i] = va.v.BLS.PublicKey
	}
	pairs := []*crypto.BLSPublicKeySignaturePair{}
	for i, va := range vals {
		if mask&(1<<uint(i)) != 0 {
			pairs = append(pairs, &crypto.BLSPublicKeySignaturePair{PublicKey: va.v.BLS.PublicKey, Signature: v.sign(va.v, hdr)})
			weight += va.weight
		}
	}
	if len(pairs) == 0 {
		return make([]byte, (len(vals)+7)/8), nil, 0
	}
	bits, sig = crypto.BLSCreateAggSig(keys, pairs)
	return bits, sig, weight
}

// specAccept is the acceptance predicate of the statement for an HONEST aggregate (signature
// is exactly the aggregate of the signers named by the bits over the node's own block at h).
func (v *view) specAccept(h uint32, weight, threshold uint64, nonEmpty bool) (bool, string) {
	if !nonEmpty {
		return false, "empty-parts"
	}
	if h <= v.certified {
		return false, "height<=certified"
	}
	if h > v.precommitted {
		return false, "height>precommitted"
	}
	if nc := v.nextChange(); nc != 0 && h > nc-1 {
		return false, "height>next-change-1"
	}
	if weight < threshold {
		return false, "weight<threshold"
	}
	return true, "ok"
}

func (v *view) verify(ac *blockchain.AggregateCommit) (err error) {
	return v.n.Exec.VerifVerifyAggregateCommit(ac)
}

// blsOrder is the order of the BLS12-381 groups.
var blsOrder, _ = new(big.Int).SetString("73eda753299d7d483339d80809a1d80553bda402fffe5bfeffffffff00000001", 16)

// shiftScalar returns the secret key sk+d mod r (32 bytes, big endian).
func shiftScalar(sk []byte, d int64) []byte {
	x := new(big.Int).SetBytes(sk)
	x.Add(x, big.NewInt(d))
	x.Mod(x, blsOrder)
	out := make([]byte, 32)
	x.FillBytes(out)
	return out
}

func popcount(x int) int {
	c := 0
	for x != 0 {
		c += x & 1
		x >>= 1
	}
	return c
}

// buildChain grows a chain with parameter changes and (valid) aggregate commits included in
// some blocks, so that certified/precommitted/next-change take many relative positions.
// lagging: the chain carries no aggregate commit at all and changes the validator set early, so
// that certification lags finality by more than the range the pool keeps in full.
func buildChain(k *mon.Case, r *rand.Rand, n *node.Node, length int, lagging bool) bool {
	for i := 0; i < length; i++ {
		o := node.BlockOpts{}
		if r.Intn(10) == 0 {
			o.SlotsAhead = 1 + r.Intn(2)
		}
		if r.Intn(14) == 0 || (lagging && i == 3) {
			o.Directive = &node.Directive{Change: changeKeepingLiveness(r, n), Salt: r.Intn(1000)}
		}
		if !lagging && r.Intn(5) == 0 {
			v := newView(n)
			hi := v.precommitted
			if nc := v.nextChange(); nc != 0 && nc-1 < hi {
				hi = nc - 1
			}
			if hi > v.certified {
				h := v.certified + 1 + uint32(r.Intn(int(hi-v.certified)))
				hdr, err := n.Chain.DataAccess().GetBlockHeaderByHeight(h)
				vals, thr := v.validatorsAt(h)
				if err == nil && len(vals) > 0 {
					mask := (1 << uint(len(vals))) - 1
					bits, sig, w := v.aggregate(vals, mask, hdr)
					if w >= thr {
						o.AggregateCommit = &blockchain.AggregateCommit{Height: h, AggregationBits: bits, CertificateSignature: sig}
					}
				}
			}
		}
		var b *blockchain.Block
		var err error
		for try := 0; try < 8; try++ {
			b, err = n.NextBlock(o)
			if err != node.ErrWouldContradict {
				break
			}
			o.SlotsAhead++
		}
		if err != nil {
			k.Inconclusive("build")
			return false
		}
		if err := n.Apply(b); err != nil {
			if o.AggregateCommit != nil {
				k.Count("honest_full_aggregate_in_block_rejected", 1)
				o.AggregateCommit = nil
				b, err = n.NextBlock(o)
				if err == nil {
					err = n.Apply(b)
				}
			}
			if err != nil {
				k.Inconclusive("valid-block-rejected:" + err.Error())
				return false
			}
		} else if o.AggregateCommit != nil {
			k.Count("blocks_with_aggregate_commit", 1)
		}
	}
	return true
}

// a parameter change in which every member has positive weight (so finality keeps moving)
func changeKeepingLiveness(r *rand.Rand, n *node.Node) *node.ParamChange {
	k := 1 + r.Intn(n.Cfg.BatchSize)
	perm := r.Perm(len(n.Universe))[:k]
	pc := &node.ParamChange{}
	var w uint64
	for _, m := range perm {
		wt := uint64(1 + r.Intn(4))
		pc.Members = append(pc.Members, m)
		pc.Weights = append(pc.Weights, wt)
		w += wt
	}
	lo := w/3 + 1
	pc.Precommit = lo + uint64(r.Int63n(int64(w-lo+1)))
	pc.Cert = lo + uint64(r.Int63n(int64(w-lo+1)))
	return pc
}

func probeSoundness(k *mon.Case, r *rand.Rand, n *node.Node) {
	v := newView(n)
	tip := n.Tip().Header.Height
	nc := v.nextChange()
	cand := map[uint32]bool{1: true, v.certified: true, v.certified + 1: true, v.precommitted: true, v.precommitted + 1: true, (v.certified + v.precommitted) / 2: true}
	if nc != 0 {
		cand[nc-1], cand[nc], cand[nc+1] = true, true, true
	}
	if v.certified > 0 {
		cand[v.certified-1] = true
	}
	var hs []uint32
	for h := range cand {
		if h >= 1 && h <= tip {
			hs = append(hs, h)
		}
	}
	sort.Slice(hs, func(i, j int) bool { return hs[i] < hs[j] })
	rel := func(h uint32) string {
		s := ""
		switch {
		case h <= v.certified:
			s = "le-cert"
		case h > v.precommitted:
			s = "gt-precommit"
		default:
			s = "in-window"
		}
		if nc != 0 && h > nc-1 {
			s += "+past-next-change"
		}
		return s
	}
	// empty aggregate commit
	for _, h := range hs {
		k.Eval(1)
		err := v.verify(&blockchain.AggregateCommit{Height: h, AggregationBits: codec.Hex{}, CertificateSignature: codec.Hex{}})
		if (err == nil) != (h == v.certified) {
			k.Violation("empty-commit:"+map[bool]string{true: "accepted-at-wrong-height", false: "rejected-at-certified-height"}[err == nil], "empty aggregate commit must be accepted exactly at the certified height", map[string]any{"height": h, "certified": v.certified})
		}
	}
	for _, h := range hs {
		hdr, err := n.Chain.DataAccess().GetBlockHeaderByHeight(h)
		if err != nil {
			continue
		}
		vals, thr := v.validatorsAt(h)
		if len(vals) == 0 || len(vals) > 6 {
			continue
		}
		full := (1 << uint(len(vals))) - 1
		for mask := 1; mask <= full; mask++ {
			k.Eval(1)
			bits, sig, w := v.aggregate(vals, mask, hdr)
			ac := &blockchain.AggregateCommit{Height: h, AggregationBits: bits, CertificateSignature: sig}
			want, why := v.specAccept(h, w, thr, true)
			got := v.verify(ac) == nil
			k.Count("honest_aggregates", 1)
			wit := map[string]any{"height": h, "certified": v.certified, "precommitted": v.precommitted, "next_change": nc, "validators": len(vals), "signer_mask": mask, "weight": w, "threshold": thr, "tip": tip, "spec": why}
			if got && !want {
				k.Violation("sound:accepted:"+why, "verifyAggregateCommit accepted an aggregate commit the statement excludes ("+why+")", wit)
			}
			if !got && want {
				k.Count("spec_accepts_code_rejects", 1)
			}
			if got == want {
				k.Nontrivial(fmt.Sprintf("honest|%s|%s|n%d|s%d|%v", rel(h), why, len(vals), popcount(mask), got))
			}
			if got {
				k.Count("accepted", 1)
			} else {
				k.Count("rejected:"+why, 1)
			}
			// tamperings on aggregates that the spec would accept: each must be rejected
			if !want || r.Intn(3) != 0 {
				continue
			}
			tamper := func(name string, t *blockchain.AggregateCommit) {
				k.Eval(1)
				k.Count("tampered", 1)
				if v.verify(t) == nil {
					w2 := map[string]any{}
					for a, b := range wit {
						w2[a] = b
					}
					w2["tampering"] = name
					k.Violation("sound:accepted-tampered:"+name, "verifyAggregateCommit accepted a tampered aggregate commit ("+name+")", w2)
				} else {
					k.Nontrivial("tampered|" + name + "|" + rel(h))
				}
			}
			// a signer bit added or removed (signature no longer matches the named set)
			for i := range vals {
				fb := append([]byte{}, bits...)
				fb[i/8] ^= 1 << uint(i%8)
				allZero := true
				for _, x := range fb {
					if x != 0 {
						allZero = false
					}
				}
				if allZero {
					continue
				}
				tamper("signer-bit-flipped", &blockchain.AggregateCommit{Height: h, AggregationBits: fb, CertificateSignature: sig})
			}
			// signature over another certificate (sibling block: same height, different state root)
			sh := *hdr
			sh.StateRoot = append([]byte{}, hdr.StateRoot...)
			sh.StateRoot[0] ^= 1
			sh.ID = append([]byte{}, hdr.ID...)
			_, sigSib, _ := v.aggregateNoCache(vals, mask, &sh)
			tamper("signature-over-sibling-block", &blockchain.AggregateCommit{Height: h, AggregationBits: bits, CertificateSignature: sigSib})
			sh2 := *hdr
			sh2.ID = append([]byte{}, hdr.ID...)
			sh2.ID[5] ^= 4
			_, sigSib2, _ := v.aggregateNoCache(vals, mask, &sh2)
			tamper("signature-over-other-block-id", &blockchain.AggregateCommit{Height: h, AggregationBits: bits, CertificateSignature: sigSib2})
			// other chain id
			oc := crypto.Hash(append(append(append([]byte{}, certTag...), []byte{9, 9, 9, 9}...), certificate.NewCertificateFromBlock(hdr).SigningBytes()...))
			var sigs [][]byte
			for i, va := range vals {
				if mask&(1<<uint(i)) != 0 {
					sigs = append(sigs, crypto.BLSSign(oc, va.v.BLS.PrivateKey))
				}
			}
			tamper("signature-for-other-chain-id", &blockchain.AggregateCommit{Height: h, AggregationBits: bits, CertificateSignature: aggSigs(vals, mask, sigs)})
			// signed by keys that are not validators of that height (same positions claimed)
			var outsider [][]byte
			msg := certMessage(n.Chain.ChainID(), hdr)
			for i := range vals {
				if mask&(1<<uint(i)) != 0 {
					o := n.Universe[(vals[i].v.Index+1)%len(n.Universe)]
					same := false
					for _, va := range vals {
						if va.v.Index == o.Index {
							same = true
						}
					}
					if same {
						outsider = nil
						break
					}
					outsider = append(outsider, crypto.BLSSign(msg, o.BLS.PrivateKey))
				}
			}
			if outsider != nil {
				tamper("signed-by-non-validators", &blockchain.AggregateCommit{Height: h, AggregationBits: bits, CertificateSignature: aggSigs(vals, mask, outsider)})
			}
			// honest aggregate of this height presented for a neighbouring height
			for _, dh := range []int{-1, 1} {
				h2 := uint32(int(h) + dh)
				if h2 >= 1 && h2 <= tip {
					tamper("aggregate-of-another-height", &blockchain.AggregateCommit{Height: h2, AggregationBits: bits, CertificateSignature: sig})
				}
			}
		}
	}
}

func (v *view) aggregateNoCache(vals []valAt, mask int, hdr *blockchain.BlockHeader) ([]byte, []byte, uint64) {
	msg := certMessage(v.n.Chain.ChainID(), hdr)
	var sigs [][]byte
	for i, va := range vals {
		if mask&(1<<uint(i)) != 0 {
			sigs = append(sigs, crypto.BLSSign(msg, va.v.BLS.PrivateKey))
		}
	}
	return nil, aggSigs(vals, mask, sigs), 0
}

func aggSigs(vals []valAt, mask int, sigs [][]byte) []byte {
	keys := make([][]byte, len(vals))
	for i, va := range vals {
		keys[i] = va.v.BLS.PublicKey
	}
	pairs := []*crypto.BLSPublicKeySignaturePair{}
	j := 0
	for i, va := range vals {
		if mask&(1<<uint(i)) != 0 {
			pairs = append(pairs, &crypto.BLSPublicKeySignaturePair{PublicKey: va.v.BLS.PublicKey, Signature: sigs[j]})
			j++
		}
	}
	_, sig := crypto.BLSCreateAggSig(keys, pairs)
	return sig
}

// checkPool: every single commit in the pool is by a validator active at its height, with a
// valid signature over the certificate of the node's own block at that height.
func checkPool(k *mon.Case, n *node.Node, where string) int {
	v := newView(n)
	g, ng := n.Exec.VerifCertificatePool().VerifAll()
	all := append(g, ng...)
	seenCommit := map[string]bool{}
	_, preNow, _ := n.Heights()
	for _, sc := range all {
		ck := fmt.Sprintf("%d|%x", sc.Height(), []byte(sc.ValidatorAddress()))
		if seenCommit[ck] {
			k.Count("pool_same_commit_held_twice(observed)", 1)
		}
		seenCommit[ck] = true
		if preNow > certificate.CommitRangeStored && sc.Height() <= preNow-certificate.CommitRangeStored {
			k.Count("pool_commits_older_than_the_stored_range(observed)", 1)
		}
		hdr, err := n.Chain.DataAccess().GetBlockHeaderByHeight(sc.Height())
		wit := map[string]any{"height": sc.Height(), "where": where}
		if err != nil || !bytes.Equal(hdr.ID, sc.BlockID()) {
			k.Violation("pool:commit-for-block-not-on-chain", "the pool holds a single commit for a block that is not on the chain", wit)
			continue
		}
		vals, _ := v.validatorsAt(sc.Height())
		if vals == nil {
			// parameters of that height were pruned from the BFT store meanwhile: the commit
			// was checked against them when it entered; it cannot be audited any more
			k.Count("pool_commits_unjudged_params_pruned", 1)
			continue
		}
		var signer *valAt
		for i := range vals {
			if bytes.Equal(vals[i].v.Address, sc.ValidatorAddress()) {
				signer = &vals[i]
			}
		}
		if signer == nil {
			k.Violation("pool:commit-by-inactive-validator", "the pool holds a single commit by a validator that is not active at that height", wit)
			continue
		}
		if !crypto.BLSVerify(certMessage(n.Chain.ChainID(), hdr), sc.CertificateSignature(), signer.v.BLS.PublicKey) {
			k.Violation("pool:commit-with-invalid-signature", "the pool holds a single commit whose signature does not verify", wit)
		}
	}
	return len(all)
}

func encodeCommits(cs []*certificate.SingleCommit) []byte {
	w := codec.NewWriter()
	for _, c := range cs {
		w.WriteEncodable(1, c)
	}
	return w.Result()
}

func probePool(k *mon.Case, r *rand.Rand, n *node.Node) {
	v := newView(n)
	tip := n.Tip().Header.Height
	chainID := n.Chain.ChainID()
	// (1) gossip path: random batches of single commits, valid and invalid
	msgs := 6 + r.Intn(10)
	for m := 0; m < msgs; m++ {
		var cs []*certificate.SingleCommit
		kinds := []string{}
		for j := 0; j < 1+r.Intn(4); j++ {
			h := uint32(1 + r.Intn(int(tip)))
			if r.Intn(2) == 0 && v.precommitted > 0 {
				h = uint32(1 + r.Intn(int(v.precommitted)))
			}
			hdr, err := n.Chain.DataAccess().GetBlockHeaderByHeight(h)
			if err != nil {
				continue
			}
			vals, _ := v.validatorsAt(h)
			if len(vals) == 0 {
				continue
			}
			signer := vals[r.Intn(len(vals))].v
			kind := []string{"valid", "valid", "valid", "bad-signature", "inactive-validator", "other-block-id", "wrong-signer-key", "block-id-of-another-height-after-valid-commit", "compensating-signature-pair"}[r.Intn(9)]
			var sc *certificate.SingleCommit
			switch kind {
			case "compensating-signature-pair":
				// two commits for one block by two active validators, signed with (skA+1) and (skB-1):
				// neither signature verifies, their sum equals the sum of the two honest signatures
				if len(vals) < 2 {
					continue
				}
				p := r.Perm(len(vals))
				sa, sb := vals[p[0]].v, vals[p[1]].v
				msg := certMessage(chainID, hdr)
				cs = append(cs, certificate.VerifNewSingleCommit(hdr.ID, h, sa.Address, crypto.BLSSign(msg, shiftScalar(sa.BLS.PrivateKey, 1)), false))
				kinds = append(kinds, kind)
				sc = certificate.VerifNewSingleCommit(hdr.ID, h, sb.Address, crypto.BLSSign(msg, shiftScalar(sb.BLS.PrivateKey, -1)), false)
			case "block-id-of-another-height-after-valid-commit":
				// an ordinary commit for block h, then one that repeats h's block ID under another
				// height h2 (signer active at h2, signature over h's certificate): the chain has
				// another block at h2
				top := v.precommitted
				if top < 2 {
					continue
				}
				h2 := uint32(1 + r.Intn(int(top)))
				vals2, _ := v.validatorsAt(h2)
				if h2 == h || len(vals2) == 0 {
					continue
				}
				s2 := vals2[r.Intn(len(vals2))].v
				cs = append(cs, certificate.NewSingleCommit(hdr, signer.Address, chainID, signer.BLS.PrivateKey))
				kinds = append(kinds, "valid")
				sc = certificate.VerifNewSingleCommit(hdr.ID, h2, s2.Address, crypto.BLSSign(certMessage(chainID, hdr), s2.BLS.PrivateKey), false)
			case "valid":
				sc = certificate.NewSingleCommit(hdr, signer.Address, chainID, signer.BLS.PrivateKey)
			case "bad-signature":
				s := append([]byte{}, v.sign(signer, hdr)...)
				// a different but well-formed signature: sign another message
				s = crypto.BLSSign([]byte("something else"), signer.BLS.PrivateKey)
				sc = certificate.VerifNewSingleCommit(hdr.ID, h, signer.Address, s, false)
			case "wrong-signer-key":
				other := n.Universe[(signer.Index+1)%len(n.Universe)]
				sc = certificate.VerifNewSingleCommit(hdr.ID, h, signer.Address, crypto.BLSSign(certMessage(chainID, hdr), other.BLS.PrivateKey), false)
			case "inactive-validator":
				var out *node.Validator
				for _, u := range n.Universe {
					in := false
					for _, va := range vals {
						if va.v.Index == u.Index {
							in = true
						}
					}
					if !in {
						out = u
					}
				}
				if out == nil {
					continue
				}
				sc = certificate.NewSingleCommit(hdr, out.Address, chainID, out.BLS.PrivateKey)
			case "other-block-id":
				h2 := *hdr
				h2.ID = append([]byte{}, hdr.ID...)
				h2.ID[0] ^= 0x55
				sc = certificate.NewSingleCommit(&h2, signer.Address, chainID, signer.BLS.PrivateKey)
			}
			cs = append(cs, sc)
			kinds = append(kinds, kind)
		}
		if len(cs) == 0 {
			continue
		}
		k.Eval(1)
		res := n.Exec.VerifSingleCommitValidator(context.Background(), p2p.NewMessage(encodeCommits(cs)))
		k.Count("single_commit_messages", 1)
		k.Count(fmt.Sprintf("validator_result_%d", int(res)), 1)
		if res == p2p.ValidationAccept {
			k.Violation("pool:validator-returned-accept", "singleCommitValidator returned Accept (single commits must never be re-gossiped by pubsub)", map[string]any{"kinds": kinds})
		}
		size := checkPool(k, n, "after-gossip-message")
		k.Nontrivial(fmt.Sprintf("gossip|%v|res%d|pool%d", kinds, int(res), size/3))
	}
	// (1b) directed: single commits for the height just before a validator-set change, signed
	// (validly) by validators that are only in the NEW set: they are not active at that height
	for _, pr := range v.params {
		if pr.Height < 2 || pr.Height-1 > tip {
			continue
		}
		h := pr.Height - 1
		hdr, err := n.Chain.DataAccess().GetBlockHeaderByHeight(h)
		if err != nil {
			continue
		}
		setH, _ := v.validatorsAt(h)
		setC, _ := v.validatorsAt(pr.Height)
		if setH == nil || setC == nil {
			continue
		}
		inH := map[int]bool{}
		for _, va := range setH {
			inH[va.v.Index] = true
		}
		for _, va := range setC {
			if inH[va.v.Index] {
				continue
			}
			k.Eval(1)
			sc := certificate.NewSingleCommit(hdr, va.v.Address, chainID, va.v.BLS.PrivateKey)
			res := n.Exec.VerifSingleCommitValidator(context.Background(), p2p.NewMessage(encodeCommits([]*certificate.SingleCommit{sc})))
			k.Count("commits_by_incoming_validator_before_change", 1)
			if res == p2p.ValidationAccept {
				k.Violation("pool:validator-returned-accept", "singleCommitValidator returned Accept", nil)
			}
			checkPool(k, n, "after-commit-of-incoming-validator-before-set-change")
			k.Nontrivial(fmt.Sprintf("pre-change|res%d", int(res)))
		}
		inC := map[int]bool{}
		for _, va := range setC {
			inC[va.v.Index] = true
		}
		for _, va := range setH {
			if inC[va.v.Index] {
				continue
			}
			sc := certificate.NewSingleCommit(hdr, va.v.Address, chainID, va.v.BLS.PrivateKey)
			before := n.Exec.VerifCertificatePool().Size()
			res := n.Exec.VerifSingleCommitValidator(context.Background(), p2p.NewMessage(encodeCommits([]*certificate.SingleCommit{sc})))
			if res == p2p.ValidationReject {
				k.Count("valid_commit_of_outgoing_validator_rejected(not judged)", 1)
			} else if n.Exec.VerifCertificatePool().Size() > before {
				k.Count("valid_commit_of_outgoing_validator_pooled", 1)
			}
			checkPool(k, n, "after-commit-of-outgoing-validator-before-set-change")
		}
	}
	// (2) internal path: Certify for some validators over (from, to]
	fin := n.Finalized()
	certifiedBy := map[int]bool{} // the node calls Certify once per finality raise and validator
	if fin >= 1 {
		vals, _ := v.validatorsAt(fin)
		for _, va := range vals {
			if r.Intn(2) == 0 {
				from := uint32(0)
				if fin > 3 {
					from = fin - 1 - uint32(r.Intn(3))
				}
				certifiedBy[va.v.Index] = true
				if err := n.Exec.Certify(from, fin, va.v.Address, va.v.BLS.PrivateKey); err != nil {
					k.Count("certify_errors", 1)
				} else {
					k.Count("certify_calls", 1)
				}
			}
		}
		checkPool(k, n, "after-certify")
	}
	// (2b) targeted: valid commits of a random signer subset for one certifiable height,
	// through the gossip validator when the height is inside the accepted range, else Certify
	hi := v.precommitted
	if nc := v.nextChange(); nc != 0 && nc-1 < hi {
		hi = nc - 1
	}
	if hi > v.certified {
		h := v.certified + 1 + uint32(r.Intn(int(hi-v.certified)))
		if r.Intn(2) == 0 {
			h = hi
		}
		hdr, err := n.Chain.DataAccess().GetBlockHeaderByHeight(h)
		vals, thr := v.validatorsAt(h)
		if err == nil && len(vals) > 0 {
			mask := 1 + r.Intn((1<<uint(len(vals)))-1)
			if r.Intn(2) == 0 {
				mask = (1 << uint(len(vals))) - 1
				// drop random signers while the weight still reaches the threshold
				for _, i := range r.Perm(len(vals)) {
					var w uint64
					for j, va := range vals {
						if mask&(1<<uint(j)) != 0 && j != i {
							w += va.weight
						}
					}
					if w >= thr {
						mask &^= 1 << uint(i)
					}
				}
			}
			var cs []*certificate.SingleCommit
			for i, va := range vals {
				if mask&(1<<uint(i)) != 0 {
					cs = append(cs, certificate.NewSingleCommit(hdr, va.v.Address, chainID, va.v.BLS.PrivateKey))
				}
			}
			before := n.Exec.VerifCertificatePool().Size()
			n.Exec.VerifSingleCommitValidator(context.Background(), p2p.NewMessage(encodeCommits(cs)))
			if n.Exec.VerifCertificatePool().Size() == before && h == v.precommitted {
				// outside the gossip acceptance range (e.g. first 100 heights): use the internal path
				for i, va := range vals {
					if mask&(1<<uint(i)) != 0 && !certifiedBy[va.v.Index] {
						n.Exec.Certify(h-1, h, va.v.Address, va.v.BLS.PrivateKey) //nolint:errcheck
					}
				}
			}
			k.Count("targeted_rounds", 1)
			k.Count("targeted_commits_in_pool", n.Exec.VerifCertificatePool().Size()-before)
			checkPool(k, n, "after-targeted")
		}
	}
	// (2c) 0-3 successful broadcast rounds (select for gossip, mark the selection as gossiped):
	// the connection of this node is not started, so the harness plays the successful Publish
	if p, err := n.Exec.GetBFTParameters(n.Exec.VerifStateStore(), tip); err == nil {
		pool := n.Exec.VerifCertificatePool()
		for q := r.Intn(4); q > 0; q-- {
			pool.Upgrade(pool.Select(v.precommitted, len(p.Validators())))
			k.Count("probe_select_upgrade_rounds", 1)
		}
		checkPool(k, n, "after-select-upgrade")
	}
	// (3) self-consistency: what the node assembles must pass its own verification
	k.Eval(1)
	ac, err := n.Exec.GetAggregateCommit()
	if err != nil {
		k.Violation("assemble:error", "GetAggregateCommit failed: "+err.Error(), nil)
		return
	}
	k.Count("assembled", 1)
	if !ac.Empty() {
		k.Count("assembled_non_empty", 1)
		if v.precommitted > certificate.CommitRangeStored && ac.Height <= v.precommitted-certificate.CommitRangeStored {
			k.Count("assembled_non_empty_for_a_height_older_than_the_stored_range", 1)
		}
	}
	if verr := v.verify(ac); verr != nil {
		vals, thr := v.validatorsAt(ac.Height)
		signers := 0
		for _, b := range ac.AggregationBits {
			signers += popcount(int(b))
		}
		k.Violation("assemble:own-aggregate-rejected", "the aggregate commit assembled from the node's own pool is rejected by the node's own verification: "+verr.Error(),
			map[string]any{"height": ac.Height, "bits": fmt.Sprintf("%x", []byte(ac.AggregationBits)), "validators": len(vals), "signers": signers, "threshold": thr, "certified": v.certified, "precommitted": v.precommitted, "next_change": v.nextChange()})
	} else {
		signers := 0
		for _, b := range ac.AggregationBits {
			signers += popcount(int(b))
		}
		vals, _ := v.validatorsAt(ac.Height)
		k.Nontrivial(fmt.Sprintf("assembled|empty%v|n%d|signers%d", ac.Empty(), len(vals), signers))
		// and a block carrying it must be accepted
		b, err := n.NextBlock(node.BlockOpts{AggregateCommit: ac})
		if err == nil {
			if err := n.Apply(b); err != nil {
				k.Violation("assemble:block-with-own-aggregate-rejected", "a valid block carrying the node's own aggregate commit is rejected: "+err.Error(), map[string]any{"height": ac.Height})
			} else {
				k.Count("blocks_with_assembled_commit_applied", 1)
			}
		}
	}
}

// certifyLoop plays the whole certification loop the way a node hosting every validator does:
// after each finality raise (EventBlockFinalize: Original -> Next) Certify(Original, Next) is
// called once per validator, and every block carries GetAggregateCommit(); each assembled
// commit must pass the node's own verification and the block carrying it must be accepted.
// lag: the first lag blocks carry no aggregate commit although the pool could provide one
// (certification falls behind finality by more than the range the pool keeps in full).
func certifyLoop(k *mon.Case, r *rand.Rand, n *node.Node, blocks, lag int) {
	n.TakeEvents()
	for i := 0; i < blocks; i++ {
		k.Eval(1)
		ac, err := n.Exec.GetAggregateCommit()
		if err != nil {
			k.Violation("assemble:error", "GetAggregateCommit failed: "+err.Error(), nil)
			return
		}
		v := newView(n)
		if verr := v.verify(ac); verr != nil {
			vals, thr := v.validatorsAt(ac.Height)
			g, ng := n.Exec.VerifCertificatePool().VerifAll()
			dups := 0
			seen := map[string]bool{}
			for _, sc := range append(g, ng...) {
				key := fmt.Sprintf("%d|%x", sc.Height(), []byte(sc.ValidatorAddress()))
				if seen[key] {
					dups++
				}
				seen[key] = true
			}
			k.Violation("assemble:own-aggregate-rejected", "the aggregate commit assembled from the node's own pool is rejected by the node's own verification: "+verr.Error(),
				map[string]any{"height": ac.Height, "bits": fmt.Sprintf("%x", []byte(ac.AggregationBits)), "validators": len(vals), "threshold": thr, "certified": v.certified, "precommitted": v.precommitted, "next_change": v.nextChange(), "duplicate_commits_in_pool": dups, "loop_block": i})
			return
		}
		if !ac.Empty() {
			k.Count("loop_non_empty_commits", 1)
			if v.precommitted > certificate.CommitRangeStored && ac.Height <= v.precommitted-certificate.CommitRangeStored {
				k.Count("loop_non_empty_commits_for_heights_older_than_the_stored_range", 1)
			}
		}
		o := node.BlockOpts{AggregateCommit: ac}
		if i < lag {
			o.AggregateCommit = nil // the factory fills in the empty commit at the certified height
			k.Count("loop_blocks_withholding_the_aggregate", 1)
		}
		if r.Intn(9) == 0 {
			o.Directive = &node.Directive{Change: changeKeepingLiveness(r, n), Salt: i}
		}
		var b *blockchain.Block
		for try := 0; try < 8; try++ {
			b, err = n.NextBlock(o)
			if err != node.ErrWouldContradict {
				break
			}
			o.SlotsAhead++
		}
		if err != nil {
			k.Inconclusive("build")
			return
		}
		if err := n.Apply(b); err != nil {
			k.Violation("assemble:block-with-own-aggregate-rejected", "a valid block carrying the node's own aggregate commit is rejected: "+err.Error(), map[string]any{"height": ac.Height, "block": node.DescribeBlock(b)})
			return
		}
		k.Count("loop_blocks", 1)
		for _, e := range n.TakeEvents() {
			fm, ok := e.Msg.(*consensus.EventBlockFinalizeMessage)
			if !ok {
				continue
			}
			k.Count("loop_finality_raises", 1)
			st := n.Exec.VerifStateStore()
			seen := map[int]bool{}
			for h := fm.Original + 1; h <= fm.Next; h++ {
				p, err := n.Exec.GetBFTParameters(st, h)
				if err != nil {
					continue
				}
				for _, pv := range p.Validators() {
					val := n.ValidatorByAddress(pv.Address())
					if val != nil && !seen[val.Index] {
						seen[val.Index] = true
						if r.Intn(5) != 0 { // most validators are online
							n.Exec.Certify(fm.Original, fm.Next, val.Address, val.BLS.PrivateKey) //nolint:errcheck
						}
					}
				}
			}
			checkPool(k, n, "after-certify-on-raise")
		}
		if i%7 == 6 {
			n.Exec.VerifBroadcastCertificate() //nolint:errcheck // cleanup + select (Publish fails: connection not started)
		}
		if i%5 == 4 {
			// what broadcastCertificate does when the publication succeeds: the selected commits
			// are marked as gossiped (the connection of this node is not started, so the harness
			// plays the successful Publish)
			_, pre, _ := n.Heights()
			if p, err := n.Exec.GetBFTParameters(n.Exec.VerifStateStore(), n.Tip().Header.Height); err == nil {
				pool := n.Exec.VerifCertificatePool()
				sel := pool.Select(pre, len(p.Validators()))
				pool.Upgrade(sel)
				k.Count("loop_select_upgrade_rounds", 1)
				k.Count("loop_commits_marked_gossiped", len(sel))
				checkPool(k, n, "after-select-upgrade")
			}
		}
	}
	_, _, c := n.Heights()
	k.Nontrivial(fmt.Sprintf("loop|certified-reached-%d|lag%v", c/5, lag > 0))
}

func main() {
	mon.Main(mon.Options{
		Property: "C06", Level: "exploration",
		Rule: "node states: chains of 15..140 blocks over 1-6 validators with skewed weights, certificate thresholds anywhere in [W/3+1, W], validator-set changes and honest aggregate commits already included, probed at heights {certified, certified+1, mid, precommitted, precommitted+1, next-change-1, next-change, next-change+1}: ALL signer subsets (exhaustive per height) as honest BLS aggregates -> statement predicate vs Executer.verifyAggregateCommit, plus tamperings (flipped signer bit, signature over a sibling block / other block id / other chain id / by non-validators / presented at a neighbouring height); pool side: batches of valid and invalid single commits through singleCommitValidator and Certify, pool content audited, GetAggregateCommit fed back into verifyAggregateCommit and into a block. non-trivial+distinct = (relative height class, spec verdict reason, validator count, signer count, outcome) resp. (tampering, height class) resp. (message kinds, result, pool size bucket)",
		Assumptions: []string{
			"honest aggregates are known by construction (the harness holds every BLS key and labels every tampering)",
			"aggregation-bit positions follow the validators of that height sorted by BLS key ascending (LIP-0061)",
			"non-canonical bitmaps (bits at positions >= n, extra bytes) are not judged here: the statement does not exclude them; short bitmaps belong to C09",
		},
	}, func(c *mon.Ctx) {
		c.Cases("state", c.N(128, 2500), func(k *mon.Case) {
			r := k.R
			nv := 1 + r.Intn(6)
			g := &node.ParamChange{}
			var w uint64
			for i := 0; i < nv; i++ {
				wt := uint64(1 + r.Intn(5))
				g.Members = append(g.Members, i)
				g.Weights = append(g.Weights, wt)
				w += wt
			}
			lo := w/3 + 1
			g.Precommit = lo + uint64(r.Int63n(int64(w-lo+1)))
			g.Cert = lo + uint64(r.Int63n(int64(w-lo+1)))
			n, err := node.New(node.Config{Genesis: g, Universe: 8, BatchSize: 6, MaxBlockCache: 200})
			if err != nil {
				k.Inconclusive("node-init")
				return
			}
			defer n.Close()
			length := 15 + r.Intn(40)
			lagging := false
			switch r.Intn(8) {
			case 0, 1:
				length = 105 + r.Intn(35)
			case 2:
				length, lagging = 118+r.Intn(30), true
				k.Count("states_with_lagging_certification", 1)
			}
			if !buildChain(k, r, n, length, lagging) {
				return
			}
			v := newView(n)
			k.Sample(map[string]any{"validators": nv, "weights": g.Weights, "cert_threshold": g.Cert, "chain": n.Tip().Header.Height, "certified": v.certified, "precommitted": v.precommitted, "next_change": v.nextChange(), "param_entries": len(v.params)})
			probeSoundness(k, r, n)
			probePool(k, r, n)
		})
		c.Cases("loop", c.N(96, 1600), func(k *mon.Case) {
			r := k.R
			g := changeKeepingLiveness(r, &node.Node{Cfg: node.Config{BatchSize: 6}, Universe: node.Universe(6)})
			n, err := node.New(node.Config{Genesis: g, Universe: 6, BatchSize: 6, MaxBlockCache: 200})
			if err != nil {
				k.Inconclusive("node-init")
				return
			}
			defer n.Close()
			blocks, lag := 30+r.Intn(40), 0
			if r.Intn(4) == 0 {
				lag = 104 + r.Intn(30)
				blocks = lag + 25 + r.Intn(20)
			}
			certifyLoop(k, r, n, blocks, lag)
			k.Sample(map[string]any{"validators": len(g.Members), "weights": g.Weights, "cert_threshold": g.Cert, "tip": n.Tip().Header.Height})
		})
	})
}
