// Worker for C03: only fully valid blocks extend the chain; rejected blocks change nothing.
package main

import (
	"bytes"
	"fmt"
	"math/rand"
	"strings"
	"time"

	"github.com/LiskHQ/lisk-engine/pkg/blockchain"
	"github.com/LiskHQ/lisk-engine/pkg/codec"
	"github.com/LiskHQ/lisk-engine/pkg/trie/rmt"

	"verifharness/internal/mon"
	"verifharness/internal/node"
)

type mutant struct {
	class string // the rule it violates
	b     *blockchain.Block
	// viaProcess: the fork choice still sees a direct successor, so Executer.process is a
	// legitimate entry; otherwise only the sync path (Validate + processValidated) is used.
	viaProcess bool
}

func u32p(v uint32) *uint32 { return &v }

// rebuild roots that depend on content, then sign with the given key.
func reseal(n *node.Node, b *blockchain.Block, priv []byte) {
	b.Header.Sign(n.Chain.ChainID(), priv)
}

func genKey(n *node.Node, b *blockchain.Block) []byte {
	v := n.ValidatorByAddress(b.Header.GeneratorAddress)
	if v == nil {
		return n.Universe[0].EdPriv
	}
	return v.EdPriv
}

func fixTxRoot(b *blockchain.Block) {
	ids := make([][]byte, len(b.Transactions))
	for i, tx := range b.Transactions {
		ids[i] = tx.ID
	}
	b.Header.TransactionRoot = rmt.CalculateRoot(ids)
}

// contentRoots recomputes every root that follows from the block content (so that only the
// targeted rule is violated).
func contentRoots(n *node.Node, b *blockchain.Block) {
	fixTxRoot(b)
	b.Header.AssetRoot = blockchain.BlockAssets(b.Assets).GetRoot()
	ids := make([][]byte, len(b.Transactions))
	for i, tx := range b.Transactions {
		ids[i] = tx.ID
	}
	tip := n.Tip().Header
	b.Header.StateRoot = node.RootFor(tip.StateRoot, b.Header.Height, b.Assets, ids)
	er, err := blockchain.CalculateEventRoot(node.PredictEvents(b.Header.Height, b.Assets, b.Transactions))
	if err != nil {
		panic(err)
	}
	b.Header.EventRoot = er
}

func flip(b []byte, i int) []byte {
	c := append([]byte{}, b...)
	if len(c) == 0 {
		return []byte{1}
	}
	c[i%len(c)] ^= 1 << uint(i%8)
	return c
}

func mutants(n *node.Node, base *blockchain.Block, o node.BlockOpts, r *rand.Rand) []mutant {
	var out []mutant
	add := func(class string, viaProcess bool, f func(b *blockchain.Block) bool) {
		b := node.CloneBlock(base)
		if f(b) {
			out = append(out, mutant{class, b, viaProcess})
		}
	}
	key := genKey(n, base)
	tip := n.Tip().Header
	now := uint32(time.Now().Unix())

	// --- header rules, re-signed by the legitimate generator so only the rule fails
	for _, v := range []uint32{0, 1, 3} {
		v := v
		add(fmt.Sprintf("version=%d", v), true, func(b *blockchain.Block) bool { b.Header.Version = v; reseal(n, b, key); return true })
	}
	add("height+1", false, func(b *blockchain.Block) bool { b.Header.Height++; reseal(n, b, key); return true })
	add("height-1", false, func(b *blockchain.Block) bool { b.Header.Height--; reseal(n, b, key); return true })
	add("previousBlockID", false, func(b *blockchain.Block) bool {
		b.Header.PreviousBlockID = flip(b.Header.PreviousBlockID, r.Intn(256))
		reseal(n, b, key)
		return true
	})
	// timestamp: slot of the last block / earlier slot / future slot, each signed by the
	// generator that owns that slot (so the slot-owner rule is not what fails)
	slotMutAt := func(class string, slotsAhead int, offset uint32) {
		add(class, true, func(b *blockchain.Block) bool {
			tslot := n.Slot.GetSlotNumber(tip.Timestamp)
			slot := tslot + slotsAhead
			if slot < 0 {
				return false
			}
			store := n.Exec.VerifStateStore()
			gens, err := n.Exec.GetGeneratorKeys(store, b.Header.Height)
			if err != nil {
				return false
			}
			g := n.ValidatorByAddress(gens[slot%len(gens)].Address())
			if g == nil {
				return false
			}
			b.Header.Timestamp = n.Slot.GetSlotTime(slot) + offset
			if offset > 0 && (n.Slot.GetSlotNumber(b.Header.Timestamp) != slot || b.Header.Timestamp <= tip.Timestamp) {
				return false
			}
			b.Header.GeneratorAddress = g.Address
			b.Header.MaxHeightGenerated = n.GenHist[string(g.Address)]
			if b.Header.MaxHeightGenerated >= b.Header.Height {
				b.Header.MaxHeightGenerated = 0
			}
			reseal(n, b, g.EdPriv)
			return true
		})
	}
	slotMut := func(class string, slotsAhead int) { slotMutAt(class, slotsAhead, 0) }
	if tip.Version == 2 {
		slotMut("timestamp:same-slot-as-last-block", 0)
		// a later second of the tip's own slot: the timestamp grows, the slot does not
		slotMutAt("timestamp:later-second-of-last-block-slot", 0, tip.Timestamp-n.Slot.GetSlotTime(n.Slot.GetSlotNumber(tip.Timestamp))+1+uint32(r.Intn(int(n.Cfg.BlockTime)-1)))
		slotMut("timestamp:earlier-slot", -1-r.Intn(3))
	}
	// far enough ahead that it is still a future slot when the mutant is judged, however loaded
	// the machine is (the judgement re-checks this against the clock and skips otherwise)
	futureSlots := n.Slot.GetSlotNumber(now) - n.Slot.GetSlotNumber(tip.Timestamp) + 2000
	slotMut("timestamp:future-slot", futureSlots)

	// generator != slot owner, correctly signed by that other validator
	add("generator:not-slot-owner", true, func(b *blockchain.Block) bool {
		for _, v := range n.Universe {
			if !bytes.Equal(v.Address, b.Header.GeneratorAddress) {
				b.Header.GeneratorAddress = v.Address
				b.Header.MaxHeightGenerated = 0
				reseal(n, b, v.EdPriv)
				return true
			}
		}
		return false
	})
	add("signature:wrong-key", true, func(b *blockchain.Block) bool {
		for _, v := range n.Universe {
			if !bytes.Equal(v.Address, b.Header.GeneratorAddress) {
				reseal(n, b, v.EdPriv)
				return true
			}
		}
		return false
	})
	add("signature:bit-flip", true, func(b *blockchain.Block) bool {
		b.Header.Signature = flip(b.Header.Signature, r.Intn(512))
		b.Header.Init()
		return true
	})
	add("signature:other-chain-id", true, func(b *blockchain.Block) bool {
		b.Header.Sign([]byte{9, 9, 9, 9}, key)
		return true
	})
	// every signed field changed WITHOUT re-signing: the signature must cover it
	unsigned := map[string]func(h *blockchain.BlockHeader) bool{
		"timestamp(+1s same slot)": func(h *blockchain.BlockHeader) bool {
			if n.Slot.GetSlotNumber(h.Timestamp+1) != n.Slot.GetSlotNumber(h.Timestamp) {
				return false
			}
			h.Timestamp++
			return true
		},
		"transactionRoot":    func(h *blockchain.BlockHeader) bool { h.TransactionRoot = flip(h.TransactionRoot, 3); return true },
		"assetRoot":          func(h *blockchain.BlockHeader) bool { h.AssetRoot = flip(h.AssetRoot, 5); return true },
		"eventRoot":          func(h *blockchain.BlockHeader) bool { h.EventRoot = flip(h.EventRoot, 7); return true },
		"stateRoot":          func(h *blockchain.BlockHeader) bool { h.StateRoot = flip(h.StateRoot, 9); return true },
		"validatorsHash":     func(h *blockchain.BlockHeader) bool { h.ValidatorsHash = flip(h.ValidatorsHash, 11); return true },
		"maxHeightPrevoted":  func(h *blockchain.BlockHeader) bool { h.MaxHeightPrevoted++; return true },
		"maxHeightGenerated": func(h *blockchain.BlockHeader) bool { h.MaxHeightGenerated ^= 1; return true },
		"impliesMaxPrevotes": func(h *blockchain.BlockHeader) bool { h.ImpliesMaxPrevotes = !h.ImpliesMaxPrevotes; return true },
		"aggregateCommit.height": func(h *blockchain.BlockHeader) bool {
			h.AggregateCommit = &blockchain.AggregateCommit{Height: h.AggregateCommit.Height + 1, AggregationBits: h.AggregateCommit.AggregationBits, CertificateSignature: h.AggregateCommit.CertificateSignature}
			return true
		},
	}
	for name, f := range unsigned {
		f := f
		add("unsigned-change:"+name, true, func(b *blockchain.Block) bool {
			if !f(b.Header) {
				return false
			}
			b.Header.Init() // new ID, old signature
			return true
		})
	}
	// BFT fields, re-signed
	add("maxHeightPrevoted+1", true, func(b *blockchain.Block) bool { b.Header.MaxHeightPrevoted++; reseal(n, b, key); return true })
	if base.Header.MaxHeightPrevoted > 0 {
		add("maxHeightPrevoted-1", true, func(b *blockchain.Block) bool { b.Header.MaxHeightPrevoted--; reseal(n, b, key); return true })
	}
	// contradiction with the generator's previous header inside the window:
	// previous header A (height hA) by the same generator, new header reports
	// maxHeightGenerated < hA  => A.height > B.maxHeightGenerated  => contradicting (LIP-0014)
	add("maxHeightGenerated:contradicts-own-previous-header", true, func(b *blockchain.Block) bool {
		window := 3 * n.Cfg.BatchSize
		for back := 1; back < window && int(b.Header.Height)-back >= 1; back++ {
			h, err := n.Chain.DataAccess().GetBlockHeaderByHeight(b.Header.Height - uint32(back))
			if err != nil {
				return false
			}
			if bytes.Equal(h.GeneratorAddress, b.Header.GeneratorAddress) {
				if h.Height == 0 {
					return false
				}
				b.Header.MaxHeightGenerated = h.Height - 1
				reseal(n, b, key)
				return true
			}
		}
		return false
	})
	// aggregate commit
	_, precommitted, certified := n.Heights()
	add("aggregateCommit:empty-but-wrong-height", true, func(b *blockchain.Block) bool {
		b.Header.AggregateCommit = &blockchain.AggregateCommit{Height: certified + 1, AggregationBits: codec.Hex{}, CertificateSignature: codec.Hex{}}
		reseal(n, b, key)
		return true
	})
	if certified > 0 {
		// an empty commit may only repeat the certified height
		for _, h := range []uint32{certified - 1, 0} {
			h := h
			if h == certified {
				continue
			}
			add("aggregateCommit:empty-with-stale-height", true, func(b *blockchain.Block) bool {
				b.Header.AggregateCommit = &blockchain.AggregateCommit{Height: h, AggregationBits: codec.Hex{}, CertificateSignature: codec.Hex{}}
				reseal(n, b, key)
				return true
			})
		}
		// a non-empty, honest aggregate for an already certified height
		add("aggregateCommit:honest-but-not-above-certified", true, func(b *blockchain.Block) bool {
			hdr, err := n.Chain.DataAccess().GetBlockHeaderByHeight(certified)
			if err != nil || hdr.AggregateCommit == nil {
				return false
			}
			// re-use the commit that certified this height: find the block that carried it
			for h := certified; h <= tip.Height; h++ {
				bh, err := n.Chain.DataAccess().GetBlockHeaderByHeight(h)
				if err == nil && bh.AggregateCommit != nil && bh.AggregateCommit.Height == certified && !bh.AggregateCommit.Empty() {
					b.Header.AggregateCommit = bh.AggregateCommit
					reseal(n, b, key)
					return true
				}
			}
			return false
		})
	}
	// honest in everything but the weight: real signatures of validators of that height at the right
	// bit positions for the node's own block, together below the certificate threshold
	for i := 0; i < 3; i++ {
		hi := i%2 == 0
		add("aggregateCommit:honest-signers-below-certificate-threshold", true, func(b *blockchain.Block) bool {
			ac := n.UnderweightAggregate(hi, func(m int) []int { return r.Perm(m) })
			if ac == nil {
				return false
			}
			b.Header.AggregateCommit = ac
			reseal(n, b, key)
			return true
		})
	}
	garbageSig := bytes.Repeat([]byte{0xab}, 96)
	add("aggregateCommit:garbage-signature", true, func(b *blockchain.Block) bool {
		if precommitted <= certified {
			return false
		}
		b.Header.AggregateCommit = &blockchain.AggregateCommit{Height: certified + 1, AggregationBits: []byte{0xff}, CertificateSignature: garbageSig}
		reseal(n, b, key)
		return true
	})
	add("aggregateCommit:height-above-precommitted", true, func(b *blockchain.Block) bool {
		b.Header.AggregateCommit = &blockchain.AggregateCommit{Height: precommitted + 1, AggregationBits: []byte{0xff}, CertificateSignature: garbageSig}
		reseal(n, b, key)
		return true
	})
	add("aggregateCommit:bits-without-signature", true, func(b *blockchain.Block) bool {
		b.Header.AggregateCommit = &blockchain.AggregateCommit{Height: certified, AggregationBits: []byte{0x01}, CertificateSignature: codec.Hex{}}
		reseal(n, b, key)
		return true
	})
	// roots altered and re-signed
	for _, f := range []string{"transactionRoot", "assetRoot", "eventRoot", "stateRoot", "validatorsHash"} {
		f := f
		add("root-mismatch:"+f, true, func(b *blockchain.Block) bool {
			switch f {
			case "transactionRoot":
				b.Header.TransactionRoot = flip(b.Header.TransactionRoot, r.Intn(256))
			case "assetRoot":
				b.Header.AssetRoot = flip(b.Header.AssetRoot, r.Intn(256))
			case "eventRoot":
				b.Header.EventRoot = flip(b.Header.EventRoot, r.Intn(256))
			case "stateRoot":
				b.Header.StateRoot = flip(b.Header.StateRoot, r.Intn(256))
			case "validatorsHash":
				b.Header.ValidatorsHash = flip(b.Header.ValidatorsHash, r.Intn(256))
			}
			reseal(n, b, key)
			return true
		})
	}
	// a block that changes the validator set but carries the validators hash of the parameters
	// in force before it (re-signed): the hash must be the one of the execution result
	if d := node.DirectiveFromAssets(base.Assets); d.Change != nil {
		add("validatorsHash:of-superseded-parameters", true, func(b *blockchain.Block) bool {
			cur, err := n.Exec.GetBFTParameters(n.Exec.VerifStateStore(), b.Header.Height)
			if err != nil || bytes.Equal(cur.ValidatorsHash(), b.Header.ValidatorsHash) {
				return false
			}
			b.Header.ValidatorsHash = append([]byte{}, cur.ValidatorsHash()...)
			reseal(n, b, key)
			return true
		})
	}
	// payload changed without updating the root (header untouched => signature still valid)
	add("payload:transaction-added-root-unchanged", true, func(b *blockchain.Block) bool {
		b.Transactions = append(b.Transactions, n.NewTx(n.Universe[0], 7, 5000, node.TxVerifyOK, node.TxExecOK, 3))
		return true
	})
	if len(base.Transactions) > 0 {
		add("payload:transaction-dropped-root-unchanged", true, func(b *blockchain.Block) bool {
			b.Transactions = b.Transactions[1:]
			return true
		})
	}
	if len(base.Transactions) > 1 {
		add("payload:transactions-swapped-root-unchanged", true, func(b *blockchain.Block) bool {
			b.Transactions[0], b.Transactions[1] = b.Transactions[1], b.Transactions[0]
			return true
		})
	}
	// a transaction the application does not verify (all roots consistent)
	add("payload:transaction-fails-verification", true, func(b *blockchain.Block) bool {
		b.Transactions = append(b.Transactions, n.NewTx(n.Universe[1], 1, 5000, node.TxVerifyInvalid, node.TxExecOK, 0))
		contentRoots(n, b)
		reseal(n, b, key)
		return true
	})
	// payload above the size limit (roots consistent)
	add("payload:size-above-MaxTransactionsLength", true, func(b *blockchain.Block) bool {
		b.Transactions = nil
		for i := 0; i < 3; i++ {
			b.Transactions = append(b.Transactions, n.NewTx(n.Universe[i%len(n.Universe)], uint64(i), 9000, node.TxVerifyOK, node.TxExecOK, 6000))
		}
		contentRoots(n, b)
		reseal(n, b, key)
		return true
	})
	// statically invalid transactions with consistent roots
	static := map[string]func(tx *blockchain.Transaction){
		"senderPublicKey-length-31": func(tx *blockchain.Transaction) { tx.SenderPublicKey = tx.SenderPublicKey[:31] },
		"no-signatures":             func(tx *blockchain.Transaction) { tx.Signatures = []codec.Hex{} },
		"signature-length-63":       func(tx *blockchain.Transaction) { tx.Signatures = []codec.Hex{tx.Signatures[0][:63]} },
		"module-not-alphanumeric":   func(tx *blockchain.Transaction) { tx.Module = "ver-if" },
		// letters and digits outside [a-zA-Z0-9] are not alphanumeric in the protocol's sense
		"module-not-alphanumeric:latin-diacritic":    func(tx *blockchain.Transaction) { tx.Module = "v\u00e9rif" },
		"module-not-alphanumeric:cyrillic":           func(tx *blockchain.Transaction) { tx.Module = "\u0432\u0435rif" },
		"module-not-alphanumeric:cjk":                func(tx *blockchain.Transaction) { tx.Module = "\u6a21\u5757" },
		"module-not-alphanumeric:arabic-indic-digit": func(tx *blockchain.Transaction) { tx.Module = "verif\u0663" },
		"module-not-alphanumeric:full-width-latin":   func(tx *blockchain.Transaction) { tx.Module = "\uff56erif" },
		"module-not-alphanumeric:space":              func(tx *blockchain.Transaction) { tx.Module = "ver if" },
		"command-not-alphanumeric:greek":             func(tx *blockchain.Transaction) { tx.Command = "tr\u03b1nsfer" },
		"command-not-alphanumeric:underscore":        func(tx *blockchain.Transaction) { tx.Command = "trans_fer" },
		"params-above-14KiB":                         func(tx *blockchain.Transaction) { tx.Params = append([]byte{0, 0}, make([]byte, 14*1024)...) },
	}
	for name, f := range static {
		f := f
		add("payload:statically-invalid-transaction:"+name, true, func(b *blockchain.Block) bool {
			tx := n.NewTx(n.Universe[2%len(n.Universe)], 3, 7000, node.TxVerifyOK, node.TxExecOK, 2)
			f(tx)
			tx.Init()
			b.Transactions = []*blockchain.Transaction{tx}
			contentRoots(n, b)
			reseal(n, b, key)
			return true
		})
	}
	// assets
	add("assets:unsorted", true, func(b *blockchain.Block) bool {
		b.Assets = []*blockchain.BlockAsset{{Module: "zz", Data: []byte{1}}, {Module: "aa", Data: []byte{2}}}
		contentRoots(n, b)
		reseal(n, b, key)
		return true
	})
	add("assets:duplicate-module", true, func(b *blockchain.Block) bool {
		b.Assets = []*blockchain.BlockAsset{{Module: "aa", Data: []byte{1}}, {Module: "aa", Data: []byte{2}}}
		contentRoots(n, b)
		reseal(n, b, key)
		return true
	})
	_ = o
	return out
}

type snap struct {
	dump   []node.KV
	hash   string
	tipID  []byte
	app    string
	final  uint32
	height uint32
}

func take(n *node.Node) snap {
	d := node.Dump(n.DB)
	return snap{dump: d, hash: node.DumpHash(d), tipID: append([]byte{}, n.Tip().Header.ID...), app: n.ABI.StateString(), final: n.Finalized(), height: n.Tip().Header.Height}
}

func errClass(err error) string {
	if err == nil {
		return "accepted"
	}
	s := err.Error()
	for _, m := range []string{"version", "not consecutive", "previous block id", "future block", "less or equal to last block slot", "invalid block generator", "maxHeight prevoted", "contradicting", "aggregate commit", "invalid certificate", "invalid signature", "transaction root", "assets root", "assets must be sorted", "assets module must be unique", "validatorsHash", "state root mismatch", "failed to execute transaction", "event root", "transactions length", "senderPublicKey", "signatures must", "alphanumeric", "params size", "previous block id must", "generator address must", "block signature"} {
		if strings.Contains(s, m) {
			return m
		}
	}
	if len(s) > 40 {
		s = s[:40]
	}
	return s
}

// tieBreakCase: the tip was received after its own slot; a sibling of the tip from the following
// slot arrives inside its own (real, current) slot, so the fork choice takes the tie-break
// branch. The sibling violates one static rule: it must be refused with the tip still in place.
func tieBreakCase(k *mon.Case) {
	r := k.R
	g := node.EqualGenesis(2 + r.Intn(5))
	if r.Intn(3) == 0 {
		g = node.RandomChange(r, 7, 6)
	}
	// block time so large that the real current slot lasts for hours (see w_c04)
	cfg := node.Config{Genesis: g, Universe: 7, BatchSize: 6, MaxBlockCache: 8 + r.Intn(20), KeepEventsForHeights: []int{-1, 0, 3, 300}[r.Intn(4)], BlockTime: 100000}
	pre := 3 + r.Intn(16)
	cfg.GenesisTimestamp = uint32(time.Now().Unix()) - uint32(pre+1)*cfg.BlockTime - cfg.BlockTime/2
	n, err := node.New(cfg)
	if err != nil {
		k.Inconclusive("node-init:" + err.Error())
		return
	}
	defer n.Close()
	for i := 0; i < pre; i++ {
		var txs []*blockchain.Transaction
		for j := r.Intn(3); j > 0; j-- {
			txs = append(txs, n.NewTx(n.Universe[r.Intn(len(n.Universe))], uint64(100*i+j), 5000, node.TxVerifyOK, node.TxExecOK, r.Intn(20)))
		}
		b, err := n.NextBlock(node.BlockOpts{Txs: txs})
		if err != nil {
			k.Inconclusive("history-build")
			return
		}
		if err := n.Apply(b); err != nil {
			k.Inconclusive("history-valid-block-rejected:" + errClass(err))
			return
		}
	}
	tip := n.Tip()
	if n.Slot.GetSlotNumber(uint32(time.Now().Unix())) != n.Slot.GetSlotNumber(tip.Header.Timestamp)+1 {
		k.Inconclusive("slot-layout")
		return
	}
	if err := n.DeleteTip(false); err != nil {
		k.Inconclusive("tiebreak-setup")
		return
	}
	var stxs []*blockchain.Transaction
	for j := 1 + r.Intn(2); j > 0; j-- {
		stxs = append(stxs, n.NewTx(n.Universe[r.Intn(len(n.Universe))], uint64(9000+j), 5000, node.TxVerifyOK, node.TxExecOK, r.Intn(20)))
	}
	sib, err := n.NextBlock(node.BlockOpts{SlotsAhead: 2, Txs: stxs, Directive: &node.Directive{Salt: 77}})
	if err != nil {
		k.Inconclusive("tiebreak-sibling:" + err.Error())
		return
	}
	if err := n.Apply(node.CloneBlock(tip)); err != nil {
		k.Inconclusive("tiebreak-reapply")
		return
	}
	key := genKey(n, sib)
	type tm struct {
		class  string
		static bool // refused by Block.Validate, i.e. before the tip is touched
		f      func(b *blockchain.Block)
	}
	all := []tm{
		{"root-mismatch:transactionRoot", true, func(b *blockchain.Block) {
			b.Header.TransactionRoot = flip(b.Header.TransactionRoot, r.Intn(256))
			reseal(n, b, key)
		}},
		{"root-mismatch:assetRoot", true, func(b *blockchain.Block) {
			b.Header.AssetRoot = flip(b.Header.AssetRoot, r.Intn(256))
			reseal(n, b, key)
		}},
		{"payload:transaction-dropped-root-unchanged", true, func(b *blockchain.Block) { b.Transactions = b.Transactions[1:] }},
		{"payload:transaction-added-root-unchanged", true, func(b *blockchain.Block) {
			b.Transactions = append(b.Transactions, n.NewTx(n.Universe[0], 7, 5000, node.TxVerifyOK, node.TxExecOK, 3))
		}},
		{"payload:statically-invalid-transaction:signature-length-63", true, func(b *blockchain.Block) {
			tx := n.NewTx(n.Universe[2%len(n.Universe)], 3, 7000, node.TxVerifyOK, node.TxExecOK, 2)
			tx.Signatures = []codec.Hex{tx.Signatures[0][:63]}
			tx.Init()
			b.Transactions = append(b.Transactions, tx)
			fixTxRoot(b)
			reseal(n, b, key)
		}},
		{"assets:unsorted", true, func(b *blockchain.Block) {
			b.Assets = []*blockchain.BlockAsset{{Module: "zz", Data: []byte{1}}, {Module: "aa", Data: []byte{2}}}
			b.Header.AssetRoot = blockchain.BlockAssets(b.Assets).GetRoot()
			reseal(n, b, key)
		}},
		{"signature:bit-flip", false, func(b *blockchain.Block) { b.Header.Signature = flip(b.Header.Signature, r.Intn(512)); b.Header.Init() }},
	}
	n.TakeEvents()
	for _, m := range all {
		blk := node.CloneBlock(sib)
		m.f(blk)
		late := time.Unix(int64(tip.Header.Timestamp)+int64(cfg.BlockTime)+1, 0) // tip received outside its own slot
		n.Exec.VerifSetLastBlockReceived(&late)
		before := take(n)
		k.Eval(1)
		perr := n.Apply(blk)
		after := take(n)
		evs := n.TakeEvents()
		k.Count("mutants_tiebreak", 1)
		wit := map[string]any{"rule": m.class, "path": "process/tie-break", "state_height": before.height, "tip": node.DescribeBlock(tip), "block": node.DescribeBlock(blk), "error": fmt.Sprint(perr)}
		if bytes.Equal(after.tipID, blk.Header.ID) {
			k.Violation("accepted:"+m.class+":tie-break", "block violating rule '"+m.class+"' replaced the tip in a tie-break", wit)
			return
		}
		k.Nontrivial(m.class + "|tie-break|" + errClass(perr))
		bad := false
		if !bytes.Equal(after.tipID, before.tipID) {
			wit["height_after"] = after.height
			k.Violation("side-effect:tip:"+m.class+":tie-break", "a refused tie-break block removed the current tip", wit)
			bad = true
		} else if after.hash != before.hash {
			wit["db_diff"] = node.Diff(before.dump, after.dump, nil)
			k.Violation("side-effect:db:"+m.class+":tie-break", "rejected block changed the blockchain database", wit)
		}
		if after.app != before.app {
			wit["app_before"], wit["app_after"] = before.app, after.app
			k.Violation("side-effect:application-state:"+m.class+":tie-break", "rejected block changed the application state", wit)
			bad = true
		}
		// LIP-0014 tie-break: the tip is reverted before the candidate is verified and re-applied
		// when the candidate fails; that delete/new pair of the tip is the specified behaviour
		// and is not judged. A candidate failing the static rules is refused before that.
		if m.static && len(evs) != 0 {
			wit["events"] = len(evs)
			k.Violation("side-effect:events:"+m.class+":tie-break", "rejected block caused chain events to be emitted", wit)
		}
		if after.final != before.final {
			k.Violation("side-effect:finalized-height:"+m.class+":tie-break", "rejected block changed the finalized height", wit)
		}
		if bad {
			return
		}
	}
	// the untouched sibling wins the tie-break (sanity of the layout, not a verdict)
	late := time.Unix(int64(tip.Header.Timestamp)+int64(cfg.BlockTime)+1, 0)
	n.Exec.VerifSetLastBlockReceived(&late)
	if err := n.Apply(node.CloneBlock(sib)); err == nil && bytes.Equal(n.Tip().Header.ID, sib.Header.ID) {
		k.Count("tiebreak_valid_sibling_switched", 1)
	} else {
		k.Count("tiebreak_valid_sibling_kept", 1)
		k.Count("tiebreak_valid_sibling_kept:"+errClass(err), 1)
		k.Inconclusive("tiebreak-valid-sibling-not-adopted")
	}
}

func main() {
	mon.Main(mon.Options{
		Property: "C03", Level: "exploration",
		Rule: "node states = random histories (txs, assets, events, validator-set changes, skipped slots, finality advancing) on a real Chain+Executer; per state one valid successor and ~50 single-rule mutants of it (each named after the rule it violates), driven through Executer.process (when fork choice sees a direct successor) and through the sync path Block.Validate+processValidated; stream tiebreak: the tip was received after its slot and a sibling from the next slot arrives inside its own (real) slot, so the fork choice takes the tie-break branch; static-rule mutants of that sibling must leave tip, DB, application state and events untouched; non-trivial+distinct = (mutant class, path, rejection class, state shape) where the mutant was actually decided",
		Assumptions: []string{
			"application side effects are those of the scripted ABI (state root = hash chain over block content); its Commit refuses a wrong expectedStateRoot",
			"callers of processValidated run Block.Validate first (as fast sync and block sync do)",
			"block slots of the harness lie ~1e7 s in the past, so time.Now() in verifyBlock only matters for the future-slot mutant",
		},
	}, func(c *mon.Ctx) {
		c.Cases("tiebreak", c.N(160, 2400), tieBreakCase)
		states := c.N(960, 16000)
		c.Cases("state", states, func(k *mon.Case) {
			r := k.R
			nval := 2 + r.Intn(5)
			g := node.EqualGenesis(nval)
			if r.Intn(2) == 0 {
				g = node.RandomChange(r, 7, 6)
			}
			n, err := node.New(node.Config{Genesis: g, Universe: 7, BatchSize: 6, MaxBlockCache: 8 + r.Intn(40), KeepEventsForHeights: []int{-1, 0, 3, 300}[r.Intn(4)]})
			if err != nil {
				k.Inconclusive("node-init:" + err.Error())
				return
			}
			defer n.Close()
			hist := r.Intn(30)
			for i := 0; i < hist; i++ {
				b, _, err := n.RandomValid(r)
				if err != nil {
					k.Inconclusive("history-build")
					return
				}
				if err := n.Apply(b); err != nil {
					k.Count("history_valid_block_rejected", 1)
					k.Inconclusive("history-valid-block-rejected:" + errClass(err))
					return
				}
			}
			// one state in three is reached by a reorg: the last 1-5 blocks are removed again (as
			// fork switching and sync do), so the successor is verified against reverted consensus
			// state - generator list, BFT votes, validators hash of an earlier height
			removed := 0
			if hist > 0 && r.Intn(3) == 0 {
				for want := 1 + r.Intn(5); removed < want; removed++ {
					if n.Tip().Header.Height <= n.Finalized()+1 || n.DeleteTip(false) != nil {
						break
					}
				}
				k.Count("states_reached_by_removing_blocks", 1)
			}
			n.TakeEvents()
			base, o, err := n.RandomValid(r)
			if err != nil {
				k.Inconclusive("base-build")
				return
			}
			_, precommitted, certified := n.Heights()
			shape := fmt.Sprintf("tx%v/fin%v/cert%v/reorg%v", len(base.Transactions) > 0, n.Finalized() > 0, precommitted > certified, removed > 0)
			before := take(n)
			ms := mutants(n, base, o, r)
			for _, m := range ms {
				paths := []string{"sync"}
				if m.viaProcess {
					paths = append(paths, "process")
				}
				for _, p := range paths {
					k.Eval(1)
					var perr error
					blk := node.CloneBlock(m.b)
					// NewBlock(Encode) loses nothing but makes sure we hand over what a peer would send
					if p == "process" {
						perr = n.Apply(blk)
					} else {
						perr = blk.Validate()
						if perr == nil {
							perr = n.ApplyValidated(blk)
						}
					}
					after := take(n)
					evs := n.TakeEvents()
					k.Count("mutants_"+p, 1)
					k.Count("mutant_class:"+m.class, 1)
					wit := map[string]any{"rule": m.class, "path": p, "state_height": before.height, "block": node.DescribeBlock(m.b), "error": fmt.Sprint(perr)}
					if m.class == "timestamp:future-slot" && n.Slot.GetSlotNumber(m.b.Header.Timestamp) <= n.Slot.GetSlotNumber(uint32(time.Now().Unix())) {
						k.Inconclusive("future-slot-mutant-overtaken-by-the-clock")
						if !bytes.Equal(after.tipID, before.tipID) {
							return
						}
						continue
					}
					if perr == nil || !bytes.Equal(after.tipID, before.tipID) {
						k.Violation("accepted:"+m.class+":"+p, "block violating rule '"+m.class+"' was accepted via "+p, wit)
						k.Count("mutants_accepted", 1)
						// restore the node for the following mutants: remove the accepted block
						if !bytes.Equal(after.tipID, before.tipID) {
							if derr := n.DeleteTip(false); derr != nil {
								k.Inconclusive("cannot-restore-after-accepted-mutant")
								return
							}
							n.TakeEvents()
							before = take(n)
						}
						continue
					}
					k.Count("mutants_rejected", 1)
					k.Nontrivial(m.class + "|" + p + "|" + errClass(perr) + "|" + shape)
					if after.hash != before.hash {
						d := node.Diff(before.dump, after.dump, nil)
						wit["db_diff"] = d
						k.Violation("side-effect:db:"+m.class+":"+p, "rejected block changed the blockchain database", wit)
					}
					if after.app != before.app {
						wit["app_before"], wit["app_after"] = before.app, after.app
						k.Violation("side-effect:application-state:"+m.class+":"+p, "rejected block changed the application state", wit)
					}
					if len(evs) != 0 {
						wit["events"] = len(evs)
						k.Violation("side-effect:events:"+m.class+":"+p, "rejected block caused chain events to be emitted", wit)
					}
					if after.final != before.final {
						k.Violation("side-effect:finalized-height:"+m.class+":"+p, "rejected block changed the finalized height", wit)
					}
				}
			}
			// the valid base itself must be accepted (sanity of the harness, not a verdict)
			if err := n.Apply(node.CloneBlock(base)); err != nil {
				k.Count("valid_base_rejected", 1)
				k.Inconclusive("valid-base-rejected:" + errClass(err))
			} else {
				k.Count("valid_base_accepted", 1)
			}
			k.Sample(map[string]any{"validators": nval, "history": hist, "base": node.DescribeBlock(base), "mutants": len(ms), "shape": shape})
		})
	})
}
