package main

import (
	"context"
	"encoding/hex"
	"errors"
	"fmt"
	"math/rand"
	"runtime"
	"runtime/debug"
	"sync"
	"time"

	"github.com/LiskHQ/lisk-engine/pkg/blockchain"
	"github.com/LiskHQ/lisk-engine/pkg/codec"
	"github.com/LiskHQ/lisk-engine/pkg/crypto"
	"github.com/LiskHQ/lisk-engine/pkg/labi"
	"github.com/LiskHQ/lisk-engine/pkg/log"
	"github.com/LiskHQ/lisk-engine/pkg/p2p"
	"github.com/LiskHQ/lisk-engine/pkg/txpool"

	"verifharness/internal/mon"
)

const watchdog = 30 * time.Second

// ---------------------------------------------------------------------------------------
// senders and transactions (real Ed25519 keys, real signatures over TagTransaction|chainID|bytes)

var chainID = []byte{0, 0, 0, 0}

type sender struct {
	idx  int
	pub  []byte
	priv []byte
	addr string
}

const nSenders = 24

var (
	sendersOnce sync.Once
	senderTab   []*sender
	senderByAdr map[string]*sender
)

func senders() []*sender {
	sendersOnce.Do(func() {
		senderByAdr = map[string]*sender{}
		for i := 0; i < nSenders; i++ {
			pub, priv, err := crypto.GetKeys(fmt.Sprintf("verif c14 sender %d", i))
			if err != nil {
				panic(err)
			}
			s := &sender{idx: i, pub: pub, priv: priv, addr: string(crypto.GetAddress(pub))}
			senderTab = append(senderTab, s)
			senderByAdr[s.addr] = s
		}
	})
	return senderTab
}

func mkTx(s *sender, nonce, fee uint64, params []byte) *blockchain.Transaction {
	tx := &blockchain.Transaction{
		Module:          "token",
		Command:         "transfer",
		Nonce:           nonce,
		Fee:             fee,
		SenderPublicKey: codec.Hex(append([]byte{}, s.pub...)),
		Params:          codec.Hex(append([]byte{}, params...)),
	}
	tx.Signatures = []codec.Hex{tx.GetSignature(chainID, s.priv)}
	tx.Init()
	return tx
}

// mkTxPrio builds a transaction whose fee priority (fee / size) is prio where possible.
func mkTxPrio(r *rand.Rand, s *sender, nonce, prio uint64) *blockchain.Transaction {
	params := make([]byte, 4)
	r.Read(params)
	probe := mkTx(s, nonce, prio*130, params)
	size := uint64(probe.Size())
	fee := prio*size + uint64(r.Intn(int(size)))
	tx := mkTx(s, nonce, fee, params)
	if uint64(tx.Size()) != size { // varint length of the fee changed: settle once more
		size = uint64(tx.Size())
		tx = mkTx(s, nonce, prio*size+uint64(r.Intn(int(size))), params)
	}
	return tx
}

func prioOf(tx *blockchain.Transaction) uint64 { return tx.Fee / uint64(tx.Size()) }

func senderIdx(tx *blockchain.Transaction) int {
	senders()
	if s, ok := senderByAdr[string(tx.SenderAddress())]; ok {
		return s.idx
	}
	return -1
}

func short(id []byte) string {
	if len(id) > 4 {
		id = id[:4]
	}
	return hex.EncodeToString(id)
}

// descTx: sender index / nonce / fee / fee priority / id prefix.
func descTx(tx *blockchain.Transaction) string {
	if tx == nil {
		return "<nil>"
	}
	return fmt.Sprintf("s%d/n%d/f%d/p%d/%s", senderIdx(tx), tx.Nonce, tx.Fee, prioOf(tx), short(tx.ID))
}

// ---------------------------------------------------------------------------------------
// scripted verifier (the ABI): per transaction ok / pending / invalid / error, changeable
// between steps; records what it answered.

const verdictError int32 = 2 // the ABI call itself fails

func verdictName(v int32) string {
	switch v {
	case labi.TxVerifyResultOk:
		return "ok"
	case labi.TxVerifyResultPending:
		return "pending"
	case labi.TxVerifyResultInvalid:
		return "invalid"
	case verdictError:
		return "error"
	}
	return fmt.Sprint(v)
}

type verifyRec struct {
	id      string
	verdict int32
}

type verifier struct {
	mu      sync.Mutex
	verd    map[string]int32
	last    map[string]int32
	stepLog []verifyRec
	calls   int64
	// trigger: when the verifier is asked about trigID, trigFn runs once (outside mu) before
	// the answer is given - models an ABI call that takes long while another pool call is made.
	trigID string
	trigFn func()
	yield  bool
}

func newVerifier() *verifier {
	return &verifier{verd: map[string]int32{}, last: map[string]int32{}}
}

func (v *verifier) set(id []byte, verdict int32) {
	v.mu.Lock()
	v.verd[string(id)] = verdict
	v.mu.Unlock()
}

func (v *verifier) scripted(id []byte) int32 {
	v.mu.Lock()
	defer v.mu.Unlock()
	if x, ok := v.verd[string(id)]; ok {
		return x
	}
	return labi.TxVerifyResultOk
}

func (v *verifier) lastVerdict(id string) (int32, bool) {
	v.mu.Lock()
	defer v.mu.Unlock()
	x, ok := v.last[id]
	return x, ok
}

func (v *verifier) resetStep() {
	v.mu.Lock()
	v.stepLog = v.stepLog[:0]
	v.mu.Unlock()
}

func (v *verifier) step() []verifyRec {
	v.mu.Lock()
	defer v.mu.Unlock()
	return append([]verifyRec{}, v.stepLog...)
}

func (v *verifier) arm(id []byte, fn func()) {
	v.mu.Lock()
	v.trigID = string(id)
	v.trigFn = fn
	v.mu.Unlock()
}

func (v *verifier) disarm() (fired bool) {
	v.mu.Lock()
	fired = v.trigFn == nil
	v.trigFn = nil
	v.trigID = ""
	v.mu.Unlock()
	return fired
}

func (v *verifier) VerifyTransaction(req *labi.VerifyTransactionRequest) (*labi.VerifyTransactionResponse, error) {
	id := string(req.Transaction.ID)
	v.mu.Lock()
	var fn func()
	if v.trigFn != nil && v.trigID == id {
		fn = v.trigFn
		v.trigFn = nil
	}
	yield := v.yield
	v.mu.Unlock()
	if fn != nil {
		fn()
	}
	if yield {
		runtime.Gosched()
	}
	v.mu.Lock()
	verdict, ok := v.verd[id]
	if !ok {
		verdict = labi.TxVerifyResultOk
	}
	v.last[id] = verdict
	v.stepLog = append(v.stepLog, verifyRec{id: id, verdict: verdict})
	v.calls++
	v.mu.Unlock()
	if yield {
		runtime.Gosched()
	}
	if verdict == verdictError {
		return nil, errors.New("scripted ABI failure")
	}
	return &labi.VerifyTransactionResponse{Result: verdict}, nil
}

// ---------------------------------------------------------------------------------------
// fake p2p connection: only Publish is used by the pool after construction.

type fakeConn struct {
	mu        sync.Mutex
	failAll   bool
	failID    map[string]bool
	published int64
	failed    int64
}

func newConn() *fakeConn { return &fakeConn{failID: map[string]bool{}} }

func (c *fakeConn) Broadcast(ctx context.Context, event string, data []byte) error { return nil }
func (c *fakeConn) RegisterRPCHandler(endpoint string, handler p2p.RPCHandler, opts ...p2p.RPCHandlerOption) error {
	return nil
}
func (c *fakeConn) RegisterEventHandler(name string, handler p2p.EventHandler, validator p2p.Validator) error {
	return nil
}
func (c *fakeConn) ApplyPenalty(pid p2p.PeerID, score int) {}
func (c *fakeConn) RequestFrom(ctx context.Context, peerID p2p.PeerID, procedure string, data []byte) p2p.Response {
	return *p2p.NewResponse(0, "", nil, errors.New("not connected"))
}
func (c *fakeConn) Publish(ctx context.Context, topicName string, data []byte) error {
	id := string(crypto.Hash(data))
	c.mu.Lock()
	defer c.mu.Unlock()
	if c.failAll || c.failID[id] {
		c.failed++
		return errors.New("scripted publish failure")
	}
	c.published++
	return nil
}
func (c *fakeConn) setFailAll(b bool) { c.mu.Lock(); c.failAll = b; c.mu.Unlock() }
func (c *fakeConn) setFailID(id []byte, b bool) {
	c.mu.Lock()
	c.failID[string(id)] = b
	c.mu.Unlock()
}
func (c *fakeConn) fails(id []byte) bool {
	c.mu.Lock()
	defer c.mu.Unlock()
	return c.failAll || c.failID[string(id)]
}

// ---------------------------------------------------------------------------------------
// silent logger

type nopLogger struct{}

func (nopLogger) Debug(msg string, others ...interface{})    {}
func (nopLogger) Info(msg string, others ...interface{})     {}
func (nopLogger) Error(msg string, others ...interface{})    {}
func (nopLogger) Debugf(msg string, others ...interface{})   {}
func (nopLogger) Infof(msg string, others ...interface{})    {}
func (nopLogger) Errorf(msg string, others ...interface{})   {}
func (nopLogger) Warning(msg string, others ...interface{})  {}
func (nopLogger) Warningf(msg string, others ...interface{}) {}
func (l nopLogger) With(kv ...interface{}) log.Logger        { return l }

// ---------------------------------------------------------------------------------------
// pool under test + watched calls

type poolCfg struct {
	Max      int    `json:"maxTransactions"`
	Per      int    `json:"maxTransactionsPerAccount"`
	Diff     uint64 `json:"minReplacementFeeDifference"`
	MinEntry uint64 `json:"minEntranceFeePriority"`
}

func (c poolCfg) String() string {
	return fmt.Sprintf("max=%d per=%d diff=%d minEntry=%d", c.Max, c.Per, c.Diff, c.MinEntry)
}

type env struct {
	cfg  poolCfg
	eff  txpool.TransactionPoolConfig
	pool *txpool.TransactionPool
	ver  *verifier
	conn *fakeConn
}

func newEnv(cfg poolCfg) *env {
	e := &env{cfg: cfg, ver: newVerifier(), conn: newConn()}
	e.pool = txpool.VerifNewPool(context.Background(), &txpool.TransactionPoolConfig{
		MaxTransactions:             cfg.Max,
		MaxTransactionsPerAccount:   cfg.Per,
		MinEntranceFeePriority:      cfg.MinEntry,
		MinReplacementFeeDifference: cfg.Diff,
	}, nopLogger{}, e.conn, e.ver)
	e.eff = e.pool.VerifConfig()
	return e
}

// sink receives findings; the live run reports through mon, shrinking replays collect only.
type finding struct {
	Key  string
	What string
}

// caller runs every pool call under the deadlock rule (mon.Watch) and turns a panic inside the
// call into a finding with a stream-independent key.
type caller struct {
	k        *mon.Case
	panicked *finding
	context  func() string // short history for the watchdog's witness
}

// call returns false if fn panicked (the finding is in c.panicked). If fn never returns,
// mon.Watch decides by its two-dump rule and ends the process.
func (c *caller) call(name string, fn func()) bool {
	ok := false
	label := name
	if c.context != nil {
		if h := c.context(); h != "" {
			label = name + " after [" + h + "]"
		}
	}
	c.k.Watch(label, watchdog, func() {
		defer func() {
			if r := recover(); r != nil {
				st := string(debug.Stack())
				c.panicked = &finding{
					Key:  "panic:" + mon.PanicKey(r, st),
					What: fmt.Sprintf("panic in %s: %v", name, r),
				}
			}
		}()
		fn()
		ok = true
	})
	return ok
}
