package main

import (
	"fmt"
	"math/rand"
	"os"
	"runtime"
	"runtime/debug"
	"sort"
	"strings"
	"sync"
	"time"

	"github.com/anishathalye/porcupine"

	"github.com/LiskHQ/lisk-engine/pkg/blockchain"
	"github.com/LiskHQ/lisk-engine/pkg/labi"
	"github.com/LiskHQ/lisk-engine/pkg/txpool"

	"verifharness/internal/mon"
)

// ---------------------------------------------------------------------------------------
// Deadlock rule for a round of concurrent calls. Same decision procedure as mon.Watch (two
// goroutine dumps 2 s apart, identical set of lisk-engine goroutines, all parked in blocking
// states), but the finding key names only the goroutines that are stuck *inside* the pool
// (nested pool frames) and not the callers queued at the pool's front door behind them - which
// of those are in flight differs from run to run and would make the key unstable.

const repoPrefix = "github.com/LiskHQ/lisk-engine/pkg/"

var blockedStates = []string{"semacquire", "sync.Mutex.Lock", "sync.RWMutex.Lock", "sync.RWMutex.RLock", "chan send", "chan receive", "select", "sync.WaitGroup.Wait", "sync.Cond.Wait"}

func stacks() string {
	buf := make([]byte, 1<<20)
	for {
		n := runtime.Stack(buf, true)
		if n < len(buf) {
			return string(buf[:n])
		}
		buf = make([]byte, 2*len(buf))
	}
}

// chains returns, per goroutine that has lisk-engine frames, up to 4 innermost such frames
// joined by "<", and whether all of these goroutines are parked in a blocking state.
func chains(dump string) (out []string, allBlocked bool, text []string) {
	allBlocked = true
	for _, blk := range strings.Split(dump, "\n\n") {
		lines := strings.Split(strings.TrimSpace(blk), "\n")
		if len(lines) == 0 || !strings.HasPrefix(lines[0], "goroutine ") {
			continue
		}
		st := ""
		if i := strings.Index(lines[0], "["); i >= 0 {
			st = strings.TrimSuffix(lines[0][i+1:], "]:")
			if j := strings.Index(st, ","); j >= 0 {
				st = st[:j]
			}
		}
		var frames []string
		for _, ln := range lines[1:] {
			ln = strings.TrimSpace(ln)
			if strings.HasPrefix(ln, repoPrefix) {
				f := strings.TrimPrefix(ln, repoPrefix)
				if i := strings.LastIndex(f, "("); i > 0 {
					f = f[:i]
				}
				frames = append(frames, f)
			}
		}
		if len(frames) == 0 {
			continue
		}
		blocked := false
		for _, b := range blockedStates {
			if strings.HasPrefix(st, b) {
				blocked = true
			}
		}
		if !blocked {
			allBlocked = false
		}
		if len(frames) > 4 {
			frames = frames[:4]
		}
		out = append(out, strings.Join(frames, "<"))
		if len(lines) > 16 {
			lines = lines[:16]
		}
		text = append(text, strings.Join(lines, "\n"))
	}
	sort.Strings(out)
	var u []string
	for i, p := range out {
		if i == 0 || p != out[i-1] {
			u = append(u, p)
		}
	}
	return u, allBlocked, text
}

func methodName(frame string) string {
	if i := strings.LastIndex(frame, ")."); i >= 0 {
		return frame[i+2:]
	}
	if i := strings.LastIndex(frame, "."); i >= 0 {
		return frame[i+1:]
	}
	return frame
}

// stuckInside drops harness export frames (Verif*) and pure delegates (Remove -> remove) and
// keeps the chains that still have more than one pool frame; if there are none, all chains.
func stuckInside(cs []string) []string {
	var inside, all []string
	for _, c := range cs {
		var fr []string
		for _, f := range strings.Split(c, "<") {
			m := methodName(f)
			if strings.HasPrefix(m, "Verif") {
				continue
			}
			if n := len(fr); n > 0 && strings.EqualFold(methodName(fr[n-1]), m) {
				continue
			}
			fr = append(fr, f)
		}
		if len(fr) == 0 {
			continue
		}
		j := strings.Join(fr, "<")
		all = append(all, j)
		if len(fr) > 1 {
			inside = append(inside, j)
		}
	}
	pick := inside
	if len(pick) == 0 {
		pick = all
	}
	sort.Strings(pick)
	var u []string
	for i, p := range pick {
		if i == 0 || p != pick[i-1] {
			u = append(u, p)
		}
	}
	return u
}

// watchRound runs fn (which starts and joins the round's goroutines) under the deadlock rule.
func watchRound(c *mon.Ctx, k *mon.Case, name string, describe func() any, fn func()) {
	done := make(chan struct{})
	go func() {
		defer close(done)
		fn()
	}()
	select {
	case <-done:
		return
	case <-time.After(watchdog):
	}
	d1 := stacks()
	select {
	case <-done:
		k.Inconclusive("slow:" + name)
		return
	case <-time.After(2 * time.Second):
	}
	d2 := stacks()
	c1, b1, _ := chains(d1)
	c2, b2, text := chains(d2)
	if b1 && b2 && len(c1) > 0 && strings.Join(c1, " || ") == strings.Join(c2, " || ") {
		if len(text) > 10 {
			text = text[:10]
		}
		k.Violation("deadlock:"+strings.Join(stuckInside(c2), " || "),
			name+" never finished; all lisk-engine goroutines parked at identical frames in two dumps 2s apart",
			map[string]any{"round": describe(), "blocked": c2, "dump": strings.Join(text, "\n\n")})
	} else {
		k.Inconclusive("watchdog-unstable:" + name)
	}
	c.Flush()
	os.Exit(3)
}

// guard turns a panic in a worker goroutine into a finding instead of a process crash.
func guard(mu *sync.Mutex, out *[]finding, what string) {
	if r := recover(); r != nil {
		st := string(debug.Stack())
		mu.Lock()
		*out = append(*out, finding{Key: "panic:" + mon.PanicKey(r, st), What: fmt.Sprintf("panic in %s: %v", what, r)})
		mu.Unlock()
	}
}

// barrier evaluates the oracle at a quiescent point.
func barrier(k *mon.Case, e *env, extra [][]byte) ([]finding, *snapView, bool) {
	c := &caller{k: k}
	var s *txpool.VerifSnapshot
	f := &findings{}
	if !c.call("VerifSnapshot", func() { s = e.pool.VerifSnapshot() }) {
		return []finding{*c.panicked}, nil, false
	}
	v := checkSnapshot(s, e.eff, e.ver.lastVerdict, f)
	if !checkAPI(c, e, v, extra, f) && c.panicked != nil {
		f.add(c.panicked.Key, c.panicked.What)
	}
	k.Count("invariant_evaluations", 1)
	k.Count("pooled_transactions_seen", len(v.all))
	return f.list, v, true
}

// ---------------------------------------------------------------------------------------
// concurrent tier, invariants at barriers

type cop struct {
	kind string
	tx   *blockchain.Transaction
}

func (o cop) String() string {
	if o.tx != nil {
		return o.kind + "(" + descTx(o.tx) + ")"
	}
	return o.kind
}

func concInvariants(c *mon.Ctx, k *mon.Case) {
	r := k.R
	var cfg poolCfg
	kind := r.Intn(3)
	switch kind {
	case 0: // capacity pressure
		cfg = poolCfg{Max: 1 + r.Intn(6), Per: 2 + r.Intn(7)}
	case 1: // per-sender pressure, replacements
		cfg = poolCfg{Max: 64, Per: 1 + r.Intn(3)}
	default:
		cfg = poolCfg{Max: 2 + r.Intn(7), Per: 1 + r.Intn(4)}
	}
	cfg.Diff = []uint64{1, 2, 10}[r.Intn(3)]
	cfg.MinEntry = uint64(r.Intn(2))
	e := newEnv(cfg)
	e.ver.yield = true
	nS := 2 + r.Intn(4)
	var uni []*blockchain.Transaction
	for si := 0; si < nS; si++ {
		s := senders()[si]
		for n := uint64(0); n < 5; n++ {
			base := uint64(130 * (1 + r.Intn(10)))
			p := make([]byte, 4)
			for _, fee := range []uint64{base, base + cfg.Diff - 1, base + cfg.Diff, base + cfg.Diff + uint64(130*r.Intn(4))} {
				r.Read(p)
				tx := mkTx(s, n, fee, p)
				uni = append(uni, tx)
				if q := r.Intn(100); q < 12 {
					e.ver.set(tx.ID, labi.TxVerifyResultInvalid)
				} else if q < 25 {
					e.ver.set(tx.ID, labi.TxVerifyResultPending)
				}
			}
		}
	}
	var extra [][]byte
	for _, tx := range uni {
		extra = append(extra, tx.ID)
	}
	rounds := 3 + r.Intn(3)
	feat := map[string]bool{}
	for round := 0; round < rounds; round++ {
		const G = 8
		plans := make([][]cop, G)
		for g := 0; g < G; g++ {
			n := 4 + r.Intn(8)
			for i := 0; i < n; i++ {
				tx := uni[r.Intn(len(uni))]
				if g == 0 { // the single periodic promoter, plus reads
					switch r.Intn(4) {
					case 0:
						plans[g] = append(plans[g], cop{kind: "GetProcessable"})
					case 1:
						plans[g] = append(plans[g], cop{kind: "GetAll"})
					default:
						plans[g] = append(plans[g], cop{kind: "reorg"})
					}
					continue
				}
				switch q := r.Intn(100); {
				case q < 55:
					plans[g] = append(plans[g], cop{kind: "Add", tx: tx})
				case q < 82:
					plans[g] = append(plans[g], cop{kind: "Remove", tx: tx})
				case q < 92:
					plans[g] = append(plans[g], cop{kind: "Get", tx: tx})
				case q < 96:
					plans[g] = append(plans[g], cop{kind: "GetAll"})
				default:
					plans[g] = append(plans[g], cop{kind: "GetProcessable"})
				}
			}
		}
		describe := func() any {
			d := map[string]any{"config": cfg.String(), "round": round}
			for g := range plans {
				var s []string
				for _, o := range plans[g] {
					s = append(s, o.String())
				}
				d[fmt.Sprintf("goroutine%d", g)] = s
			}
			return d
		}
		var mu sync.Mutex
		var panics []finding
		var nAdd, nAddOK, nRem, nRemOK, nReorg, nRead int
		watchRound(c, k, "concurrent round", describe, func() {
			var wg sync.WaitGroup
			start := make(chan struct{})
			for g := 0; g < G; g++ {
				wg.Add(1)
				go func(plan []cop) {
					defer wg.Done()
					defer guard(&mu, &panics, "concurrent round")
					<-start
					var a, aok, rm, rmok, ro, rd int
					for _, o := range plan {
						switch o.kind {
						case "Add":
							a++
							if e.pool.Add(o.tx) {
								aok++
							}
						case "Remove":
							rm++
							if e.pool.Remove(o.tx.ID) {
								rmok++
							}
						case "Get":
							rd++
							if tx, ok := e.pool.Get(o.tx.ID); ok && (tx == nil || string(tx.ID) != string(o.tx.ID)) {
								mu.Lock()
								panics = append(panics, finding{Key: "model:api-mismatch:Get", What: "Get returned another transaction than asked for"})
								mu.Unlock()
							}
						case "GetAll":
							rd++
							e.pool.GetAll()
						case "GetProcessable":
							rd++
							e.pool.GetProcessable()
						case "reorg":
							ro++
							e.pool.VerifReorgStep()
						}
					}
					mu.Lock()
					nAdd, nAddOK, nRem, nRemOK, nReorg, nRead = nAdd+a, nAddOK+aok, nRem+rm, nRemOK+rmok, nReorg+ro, nRead+rd
					mu.Unlock()
				}(plans[g])
			}
			close(start)
			wg.Wait()
		})
		k.Count("conc_add", nAdd)
		k.Count("conc_add_true", nAddOK)
		k.Count("conc_remove", nRem)
		k.Count("conc_remove_true", nRemOK)
		k.Count("conc_reorg", nReorg)
		k.Count("conc_reads", nRead)
		k.Count("conc_rounds", 1)
		fs, v, _ := barrier(k, e, extra)
		fs = append(panics, fs...)
		if len(fs) > 0 {
			seen := map[string]bool{}
			for _, f := range fs {
				if seen[f.Key] {
					continue
				}
				seen[f.Key] = true
				k.Violation(f.Key, f.What+" (quiescent point after a round of 8 goroutines)", describe())
			}
			return
		}
		if v != nil {
			if len(v.all) >= e.eff.MaxTransactions {
				feat["full"] = true
			}
			if len(v.procIDs) > 0 {
				feat["proc"] = true
			}
			for _, a := range v.accounts {
				if len(a.Transactions) >= e.eff.MaxTransactionsPerAccount {
					feat["per-full"] = true
				}
			}
		}
		// between rounds: the application changes its mind about some transactions
		for i := 0; i < 3; i++ {
			e.ver.set(uni[r.Intn(len(uni))].ID, randVerdict(r))
		}
		e.conn.setFailAll(r.Intn(6) == 0)
	}
	var fs []string
	for f := range feat {
		fs = append(fs, f)
	}
	sort.Strings(fs)
	k.Nontrivial(fmt.Sprintf("kind%d/m%d/p%d/s%d/%s", kind, cfg.Max, cfg.Per, nS, strings.Join(fs, ",")))
	k.Sample(map[string]any{"config": cfg.String(), "senders": nS, "rounds": rounds, "universe": len(uni)})
}

// ---------------------------------------------------------------------------------------
// concurrent tier, linearizability of Add/Remove/Get below capacity (porcupine)

type linIn struct {
	op      int // 0 add, 1 remove, 2 get
	tx      int
	rejects bool // scripted: verifier says invalid/error, or below the entrance priority
	pubfail bool // scripted: Publish fails for this transaction
}
type linOut struct{ ok bool }

var linModel = porcupine.Model{
	Init: func() interface{} { return false },
	Step: func(state, input, output interface{}) (bool, interface{}) {
		present := state.(bool)
		in := input.(linIn)
		out := output.(linOut)
		switch in.op {
		case 0:
			if present || in.rejects {
				return !out.ok, present
			}
			return out.ok == !in.pubfail, true
		case 1:
			return out.ok == present, false
		default:
			return out.ok == present, present
		}
	},
	DescribeOperation: func(input, output interface{}) string {
		in := input.(linIn)
		return fmt.Sprintf("%s(tx%d) -> %v", []string{"Add", "Remove", "Get"}[in.op], in.tx, output.(linOut).ok)
	},
}

type evLog struct {
	mu sync.Mutex
	ev []porcupine.Event
	id int
}

func (l *evLog) call(client int, in linIn) int {
	l.mu.Lock()
	defer l.mu.Unlock()
	id := l.id
	l.id++
	l.ev = append(l.ev, porcupine.Event{ClientId: client, Kind: porcupine.CallEvent, Value: in, Id: id})
	return id
}
func (l *evLog) ret(client, id int, out linOut) {
	l.mu.Lock()
	defer l.mu.Unlock()
	l.ev = append(l.ev, porcupine.Event{ClientId: client, Kind: porcupine.ReturnEvent, Value: out, Id: id})
}

func concLinearizable(c *mon.Ctx, k *mon.Case) {
	r := k.R
	cfg := poolCfg{Max: 64, Per: 8, Diff: 1, MinEntry: uint64(r.Intn(2))}
	e := newEnv(cfg)
	e.ver.yield = true
	nS := 2 + r.Intn(5)
	nT := 3 + r.Intn(8)
	type ltx struct {
		tx      *blockchain.Transaction
		rejects bool
		pubfail bool
	}
	var txs []ltx
	var extra [][]byte
	for i := 0; i < nT; i++ {
		s := senders()[i%nS]
		prio := uint64(1 + r.Intn(8))
		t := ltx{}
		if cfg.MinEntry > 0 && r.Intn(8) == 0 {
			prio = 0
			t.rejects = true
		}
		t.tx = mkTxPrio(r, s, uint64(i/nS), prio)
		switch q := r.Intn(100); {
		case q < 10:
			e.ver.set(t.tx.ID, labi.TxVerifyResultInvalid)
			t.rejects = true
		case q < 15:
			e.ver.set(t.tx.ID, verdictError)
			t.rejects = true
		case q < 35:
			e.ver.set(t.tx.ID, labi.TxVerifyResultPending)
		}
		if r.Intn(8) == 0 {
			e.conn.setFailID(t.tx.ID, true)
			t.pubfail = true
		}
		txs = append(txs, t)
		extra = append(extra, t.tx.ID)
	}
	const G = 8
	type lop struct {
		op int
		tx int
	}
	plans := make([][]lop, G)
	nOps := 6 + r.Intn(12)
	for g := 0; g < G; g++ {
		for i := 0; i < nOps; i++ {
			o := lop{tx: r.Intn(nT)}
			switch q := r.Intn(100); {
			case q < 45:
				o.op = 0
			case q < 75:
				o.op = 1
			default:
				o.op = 2
			}
			plans[g] = append(plans[g], o)
		}
	}
	log := &evLog{}
	var mu sync.Mutex
	var panics []finding
	describe := func() any {
		return map[string]any{"config": cfg.String(), "transactions": nT, "ops_per_goroutine": nOps}
	}
	stopReorg := make(chan struct{})
	watchRound(c, k, "linearizability round", describe, func() {
		var wg, rg sync.WaitGroup
		start := make(chan struct{})
		rg.Add(1)
		go func() { // the periodic promoter runs alongside (not part of the history)
			defer rg.Done()
			defer guard(&mu, &panics, "reorg alongside linearizability round")
			<-start
			for i := 0; ; i++ {
				select {
				case <-stopReorg:
					return
				default:
				}
				e.pool.VerifReorgStep()
				if i%3 == 0 {
					e.pool.GetProcessable()
				}
				runtime.Gosched()
			}
		}()
		for g := 0; g < G; g++ {
			wg.Add(1)
			go func(g int, plan []lop) {
				defer wg.Done()
				defer guard(&mu, &panics, "linearizability round")
				<-start
				for _, o := range plan {
					t := txs[o.tx]
					in := linIn{op: o.op, tx: o.tx, rejects: t.rejects, pubfail: t.pubfail}
					id := log.call(g, in)
					var ok bool
					switch o.op {
					case 0:
						ok = e.pool.Add(t.tx)
					case 1:
						ok = e.pool.Remove(t.tx.ID)
					default:
						var got *blockchain.Transaction
						got, ok = e.pool.Get(t.tx.ID)
						if ok && (got == nil || string(got.ID) != string(t.tx.ID)) {
							mu.Lock()
							panics = append(panics, finding{Key: "model:api-mismatch:Get", What: "Get returned another transaction than asked for"})
							mu.Unlock()
						}
					}
					log.ret(g, id, linOut{ok: ok})
				}
			}(g, plans[g])
		}
		close(start)
		wg.Wait()
		close(stopReorg)
		rg.Wait()
	})
	k.Count("lin_ops", G*nOps)
	// per transaction ID (partition), so that the witness is the offending partition only
	parts := map[int][]porcupine.Event{}
	match := map[int]int{}
	for _, ev := range log.ev {
		if ev.Kind == porcupine.CallEvent {
			t := ev.Value.(linIn).tx
			match[ev.Id] = t
			parts[t] = append(parts[t], ev)
		} else {
			parts[match[ev.Id]] = append(parts[match[ev.Id]], ev)
		}
	}
	overlap := false
	for t, evs := range parts {
		depth := 0
		for _, ev := range evs {
			if ev.Kind == porcupine.CallEvent {
				depth++
				if depth > 1 {
					overlap = true
				}
			} else {
				depth--
			}
		}
		switch porcupine.CheckEventsTimeout(linModel, evs, 20*time.Second) {
		case porcupine.Ok:
			k.Count("lin_partitions_ok", 1)
		case porcupine.Unknown:
			k.Inconclusive("porcupine-unknown")
		case porcupine.Illegal:
			var h []string
			for _, ev := range evs {
				if ev.Kind == porcupine.CallEvent {
					in := ev.Value.(linIn)
					h = append(h, fmt.Sprintf("g%d call#%d %s(tx%d)", ev.ClientId, ev.Id, []string{"Add", "Remove", "Get"}[in.op], in.tx))
				} else {
					h = append(h, fmt.Sprintf("g%d ret#%d %v", ev.ClientId, ev.Id, ev.Value.(linOut).ok))
				}
			}
			k.Violation("model:not-linearizable:add-remove-get",
				"the Add/Remove/Get history of one transaction ID (distinct sender slots, pool below capacity) has no linearization against a set",
				map[string]any{"config": cfg.String(), "tx": descTx(txs[t].tx), "scripted_rejects": txs[t].rejects, "scripted_publish_failure": txs[t].pubfail, "history": h})
		}
	}
	fs, _, _ := barrier(k, e, extra)
	fs = append(panics, fs...)
	seen := map[string]bool{}
	for _, f := range fs {
		if !seen[f.Key] {
			seen[f.Key] = true
			k.Violation(f.Key, f.What+" (after a linearizability round)", describe())
		}
	}
	if overlap {
		k.Nontrivial(fmt.Sprintf("t%d/s%d/n%d/e%d", nT, nS, nOps, cfg.MinEntry))
	}
	k.Sample(map[string]any{"config": cfg.String(), "transactions": nT, "senders": nS, "goroutines": G, "ops_per_goroutine": nOps, "events": len(log.ev)})
}

var _ = rand.Int
