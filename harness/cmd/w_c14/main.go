// Worker for property C14: the transaction pool keeps its indexes consistent, bounded and live.
//
// Streams
//
//	scn   directed minimal scenarios (one per suspected defect class), same oracle as below
//	live  liveness only: keep adding to a pool that is at / over MaxTransactions
//	seq   random op sequences on pools with limits 1..8, oracle after every pool call
//	ilv   like seq, but reorg steps have one remove/add interleaved while the verifier (ABI) is
//	      being asked - an ABI call that takes long while a block notification arrives
//	conc  8 goroutines of mixed ops in rounds, oracle at the barriers, race detector
//	lin   8 goroutines Add/Remove/Get on distinct (sender, nonce) slots below capacity,
//	      porcupine linearizability against a set partitioned by transaction ID
//
// Every pool call runs under the deadlock rule (mon.Watch, or watchRound for a round of
// concurrent calls); no verdict depends on elapsed time.
package main

import (
	"fmt"
	"math"
	"os"
	"sync"

	"github.com/LiskHQ/lisk-engine/pkg/blockchain"
	"github.com/LiskHQ/lisk-engine/pkg/labi"

	"verifharness/internal/mon"
)

var (
	shrunkMu sync.Mutex
	shrunk   = map[string]int{}
)

// reportSeq reports the findings of a sequential run; the first occurrences of a key in this
// process are shrunk to a minimal op sequence first.
func reportSeq(k *mon.Case, cfg poolCfg, ops []*op, x *exec) {
	for _, f := range x.found {
		shrunkMu.Lock()
		n := shrunk[f.Key]
		shrunk[f.Key]++
		shrunkMu.Unlock()
		w := map[string]any{"config": cfg.String(), "history": x.hist}
		if n < 2 {
			if small, sx := shrink(k, cfg, ops, f.Key); small != nil {
				w = map[string]any{"config": cfg.String(), "minimal_history": sx.hist, "ops": len(small), "original_ops": len(ops)}
			}
		} else if n >= 3 {
			// mon keeps 3 witnesses per key and shard; still count the event
			w = nil
		}
		k.Violation(f.Key, f.What, w)
	}
}

func runRandomSeq(k *mon.Case, c *mon.Ctx, ilv bool) {
	r := k.R
	cfg := randCfg(r)
	g := &gen{r: r, cfg: cfg, nSend: 1 + r.Intn(5), ilv: ilv, reorgPct: 14, high: r.Intn(6) == 0}
	if ilv {
		g.reorgPct = 30
		if r.Intn(2) == 0 { // room for processable runs to build up
			cfg.Per = 3 + r.Intn(6)
			cfg.Max = 4 + r.Intn(5)
			g.cfg = cfg
		}
	}
	n := 20 + r.Intn(c.N(41, 101))
	x := newExec(k, cfg, true)
	var ops []*op
	for i := 0; i < n && !x.stopped; i++ {
		o := g.next(x)
		ops = append(ops, o)
		x.do(o)
	}
	k.Count("sequences", 1)
	k.Count("ops_total", len(ops))
	if len(x.found) > 0 {
		reportSeq(k, cfg, ops, x)
		return
	}
	k.Nontrivial(x.featureKey())
	k.Sample(map[string]any{"config": cfg.String(), "senders": g.nSend, "ops": len(ops), "history_head": head(x.hist, 12)})
}

func head(s []string, n int) []string {
	if len(s) > n {
		return s[:n]
	}
	return s
}

// ---------------------------------------------------------------------------------------
// directed scenarios

type scenario struct {
	name string
	cfg  poolCfg
	cont bool // keep going after a violated invariant (to show the consequence)
	ops  func() []*op
}

func addOp(tx *blockchain.Transaction) *op {
	return &op{Kind: "add", Tx: tx, Verdict: keepVerdict}
}
func rmOp(tx *blockchain.Transaction) *op { return &op{Kind: "remove", ID: tx.ID} }

func scenarios() []scenario {
	s := senders()
	p := func(b byte) []byte { return []byte{b, 0, 0, 0} }
	return []scenario{
		{name: "fill-to-capacity-plus-one", cfg: poolCfg{Max: 1, Per: 4, Diff: 1}, ops: func() []*op {
			return []*op{addOp(mkTx(s[0], 0, 1000, p(1))), addOp(mkTx(s[1], 0, 2000, p(2)))}
		}},
		{name: "add-to-full-pool-returns", cfg: poolCfg{Max: 1, Per: 4, Diff: 1}, cont: true, ops: func() []*op {
			return []*op{addOp(mkTx(s[0], 0, 1000, p(1))), addOp(mkTx(s[1], 0, 2000, p(2))), addOp(mkTx(s[2], 0, 3000, p(3))), addOp(mkTx(s[3], 0, 4000, p(4)))}
		}},
		{name: "replacement-evicts-old-everywhere", cfg: poolCfg{Max: 8, Per: 4, Diff: 10}, ops: func() []*op {
			return []*op{addOp(mkTx(s[0], 0, 1000, p(1))), addOp(mkTx(s[0], 0, 1010, p(2)))}
		}},
		{name: "per-sender-eviction-evicts-everywhere", cfg: poolCfg{Max: 8, Per: 1, Diff: 1}, ops: func() []*op {
			return []*op{addOp(mkTx(s[0], 1, 1000, p(1))), addOp(mkTx(s[0], 0, 1000, p(2)))}
		}},
		{name: "replace-then-remove-both", cfg: poolCfg{Max: 8, Per: 4, Diff: 10}, cont: true, ops: func() []*op {
			a, b := mkTx(s[0], 0, 1000, p(1)), mkTx(s[0], 0, 1010, p(2))
			return []*op{addOp(a), addOp(b), rmOp(b), rmOp(a)}
		}},
		{name: "replacement-threshold", cfg: poolCfg{Max: 8, Per: 4, Diff: 10}, ops: func() []*op {
			return []*op{addOp(mkTx(s[0], 0, 1000, p(1))), addOp(mkTx(s[0], 0, 1009, p(2))), addOp(mkTx(s[0], 0, 1000, p(3))), addOp(mkTx(s[0], 0, 999, p(4)))}
		}},
		{name: "replacement-threshold-overflow", cfg: poolCfg{Max: 8, Per: 4, Diff: 10}, ops: func() []*op {
			return []*op{addOp(mkTx(s[0], 0, math.MaxUint64-3, p(1))), addOp(mkTx(s[0], 0, 5, p(2)))}
		}},
		{name: "remove-while-reorg-verifies", cfg: poolCfg{Max: 8, Per: 8, Diff: 1}, ops: func() []*op {
			a, b, c := mkTx(s[0], 0, 1000, p(1)), mkTx(s[0], 1, 1000, p(2)), mkTx(s[0], 2, 1000, p(3))
			return []*op{addOp(a), addOp(b), {Kind: "reorg"}, addOp(c), {Kind: "reorg", Trig: c.ID, During: rmOp(b)}}
		}},
		{name: "replace-while-reorg-verifies", cfg: poolCfg{Max: 8, Per: 8, Diff: 1}, ops: func() []*op {
			a, b, c := mkTx(s[0], 0, 1000, p(1)), mkTx(s[0], 1, 1000, p(2)), mkTx(s[0], 2, 1000, p(3))
			return []*op{addOp(a), addOp(b), {Kind: "reorg"}, addOp(c), {Kind: "reorg", Trig: c.ID, During: addOp(mkTx(s[0], 1, 2000, p(4)))}}
		}},
		{name: "remove-lowest-while-reorg-verifies", cfg: poolCfg{Max: 8, Per: 8, Diff: 1}, ops: func() []*op {
			a, b, c := mkTx(s[0], 0, 1000, p(1)), mkTx(s[0], 1, 1000, p(2)), mkTx(s[0], 2, 1000, p(3))
			return []*op{addOp(a), addOp(b), {Kind: "reorg"}, addOp(c), {Kind: "reorg", Trig: c.ID, During: rmOp(a)}, {Kind: "reorg"}}
		}},
		{name: "replace-later-nonce-while-reorg-finds-earlier-one-invalid", cfg: poolCfg{Max: 8, Per: 8, Diff: 1}, cont: true, ops: func() []*op {
			a, b, c := mkTx(s[0], 0, 1000, p(1)), mkTx(s[0], 1, 1000, p(2)), mkTx(s[0], 2, 1000, p(3))
			return []*op{addOp(a), addOp(b), addOp(c), {Kind: "verdict", ID: b.ID, Verdict: labi.TxVerifyResultInvalid},
				{Kind: "reorg", Trig: b.ID, During: addOp(mkTx(s[0], 2, 2000, p(4)))}, {Kind: "reorg"}}
		}},
		{name: "replace-and-refill-while-reorg-finds-first-invalid", cfg: poolCfg{Max: 8, Per: 8, Diff: 1}, cont: true, ops: func() []*op {
			a, b := mkTx(s[0], 0, 1000, p(1)), mkTx(s[0], 1, 1000, p(2))
			return []*op{addOp(a), addOp(b), {Kind: "verdict", ID: a.ID, Verdict: labi.TxVerifyResultInvalid},
				{Kind: "reorg", Trig: a.ID, During: addOp(mkTx(s[0], 1, 2000, p(4)))}, addOp(mkTx(s[0], 0, 1500, p(5))), {Kind: "reorg"}}
		}},
		{name: "invalid-in-the-middle-drops-suffix", cfg: poolCfg{Max: 8, Per: 8, Diff: 1}, ops: func() []*op {
			a, b, c := mkTx(s[0], 0, 1000, p(1)), mkTx(s[0], 1, 1000, p(2)), mkTx(s[0], 2, 1000, p(3))
			return []*op{addOp(a), addOp(b), addOp(c), {Kind: "verdict", ID: b.ID, Verdict: labi.TxVerifyResultInvalid}, {Kind: "reorg"}}
		}},
		{name: "lower-nonce-after-promotion", cfg: poolCfg{Max: 8, Per: 8, Diff: 1}, ops: func() []*op {
			a, b, c := mkTx(s[0], 5, 1000, p(1)), mkTx(s[0], 6, 1000, p(2)), mkTx(s[0], 4, 1000, p(3))
			return []*op{addOp(a), addOp(b), {Kind: "reorg"}, addOp(c), {Kind: "reorg"}}
		}},
		{name: "block-applied-then-reverted-at-capacity", cfg: poolCfg{Max: 2, Per: 2, Diff: 1}, ops: func() []*op {
			a, b, c := mkTx(s[0], 0, 1000, p(1)), mkTx(s[0], 1, 1000, p(2)), mkTx(s[1], 0, 3000, p(3))
			return []*op{addOp(a), addOp(b), {Kind: "reorg"}, {Kind: "apply", Txs: []*blockchain.Transaction{a, b}}, addOp(c), {Kind: "revert", Txs: []*blockchain.Transaction{a, b}}, {Kind: "reorg"}}
		}},
	}
}

func runScenario(k *mon.Case) {
	sc := scenarios()[k.Index]
	x := newExec(k, sc.cfg, true)
	x.cont = sc.cont
	x.labelHist = true
	for _, o := range sc.ops() {
		x.do(o)
		if x.stopped {
			break
		}
	}
	k.Count("scenarios", 1)
	for _, f := range x.found {
		k.Violation(f.Key, f.What, map[string]any{"scenario": sc.name, "config": sc.cfg.String(), "history": x.hist})
	}
	k.Nontrivial(sc.name)
	k.Sample(map[string]any{"scenario": sc.name, "config": sc.cfg.String(), "history": x.hist})
}

// runLiveness: does every call return when the pool is at or over MaxTransactions? No
// invariants are judged here (the other streams do that and stop at the first violated one);
// this stream keeps going so that "returns" is observed in states the others never continue from.
func runLiveness(k *mon.Case) {
	r := k.R
	cfg := poolCfg{Max: 1 + r.Intn(4), Per: 1 + r.Intn(4), Diff: 1}
	// massInvalid: a larger pool with many senders whose waiting transactions the verifier turns
	// down in the same promotion pass (every sender list then needs the pool lock at once)
	massInvalid := r.Intn(4) == 0
	if massInvalid {
		cfg.Max = 6 + r.Intn(19)
	}
	e := newEnv(cfg)
	var hist []string
	c := &caller{k: k, context: func() string { return cfg.String() + ": " + fmt.Sprint(hist) }}
	var pooled []*blockchain.Transaction
	n := 3*cfg.Max + 6 + r.Intn(10)
	for i := 0; i < n; i++ {
		switch q := r.Intn(10); {
		case q < 7 || len(pooled) == 0:
			// rising fee priority, fresh sender slots: passes the fee-priority gate of a full pool
			s := senders()[i%nSenders]
			tx := mkTxPrio(r, s, uint64(i/nSenders), uint64(2+i))
			if r.Intn(5) == 0 {
				e.ver.set(tx.ID, labi.TxVerifyResultPending)
			}
			hist = append(hist, "add("+descTx(tx)+")")
			ret := false
			if !c.call("Add", func() { ret = e.pool.Add(tx) }) {
				k.Violation(c.panicked.Key, c.panicked.What, map[string]any{"config": cfg.String(), "history": hist})
				return
			}
			if ret {
				pooled = append(pooled, tx)
			}
			k.Count("live_add_returned", 1)
		case q < 8:
			tx := pooled[r.Intn(len(pooled))]
			hist = append(hist, "remove("+short(tx.ID)+")")
			if !c.call("Remove", func() { e.pool.Remove(tx.ID) }) {
				k.Violation(c.panicked.Key, c.panicked.What, map[string]any{"config": cfg.String(), "history": hist})
				return
			}
			k.Count("live_remove_returned", 1)
		default:
			if massInvalid {
				turned := 0
				for _, tx := range pooled {
					if r.Intn(5) != 0 {
						e.ver.set(tx.ID, labi.TxVerifyResultInvalid)
						turned++
					}
				}
				hist = append(hist, fmt.Sprintf("verdict-invalid(x%d)", turned))
				k.Count("live_mass_invalid_passes", 1)
				pooled = pooled[:0]
			}
			hist = append(hist, "reorg")
			if !c.call("reorg", func() { e.pool.VerifReorgStep() }) {
				k.Violation(c.panicked.Key, c.panicked.What, map[string]any{"config": cfg.String(), "history": hist})
				return
			}
			k.Count("live_reorg_returned", 1)
		}
		var size int
		if !c.call("GetAll", func() { size = len(e.pool.GetAll()) }) {
			return
		}
		if size >= cfg.Max {
			k.Count("live_calls_on_full_pool", 1)
		}
	}
	k.Nontrivial(fmt.Sprintf("m%d/p%d/mass%v", cfg.Max, cfg.Per, massInvalid))
	k.Sample(map[string]any{"config": cfg.String(), "calls": len(hist)})
}

func main() {
	// A shard is restarted after every case that ended in a non-returning call (each costs the
	// 30 s watchdog + 2 s); once the finding is recorded more of the same adds nothing, so the
	// number of restarts is kept small.
	maxRestarts := 6
	if os.Getenv("VERIF_TIER") == "thorough" {
		maxRestarts = 24
	}
	mon.Main(mon.Options{
		Property: "C14",
		Level:    "exploration",
		Rule: "(liveness stream also: pools of 6-24 transactions in which the verifier turns down most waiting transactions of many senders in one promotion pass.) Real signed transactions on a real TransactionPool (scripted verifier ok/pending/invalid/error per transaction, fake Publish that can fail), MaxTransactions and MaxTransactionsPerAccount drawn from 1..8. " +
			"seq/ilv: random sequences of add (next/gap/lower-than-all nonce, duplicate, replacement with fee -1/0/+1 around MinReplacementFeeDifference, fee priority around the pool's minimum, huge fees), remove, block applied/reverted, reorg step (ilv: with a remove/add interleaved while the verifier is asked), verdict and publish-failure changes; " +
			"after every pool call a snapshot of allTransactions/perAccount/feePriorityQueue taken under the pool's locks is checked conjunct by conjunct and compared with Get/GetAll/GetProcessable. " +
			"conc: 8 goroutines, rounds of mixed calls, same oracle at barriers, race detector; lin: porcupine on Add/Remove/Get per transaction ID below capacity. live/scn: full-pool liveness and directed minimal scenarios. " +
			"A sequence is non-trivial under the key (limits, set of pool paths it entered: capacity accept/reject, per-sender accept/reject, replacement accept/reject, promotion, invalid dropped, interleaving reached ...).",
		Assumptions: []string{
			"at most one reorg() runs at a time (the pool's own ticker loop is the only caller)",
			"a verification answer 'pending' counts as passed, as in the pool's verifyTransactions; only invalid/error answers are failures",
			"transactions reach Add initialised (ID and size set), as blockchain.NewTransaction/Init guarantee",
		},
		RacePkgs:    []string{"txpool"},
		MaxRestarts: maxRestarts,
	}, func(c *mon.Ctx) {
		senders()
		c.Cases("scn", len(scenarios()), runScenario)
		c.Cases("live", c.N(8, 16), runLiveness)
		c.Cases("seq", c.N(4000, 40000), func(k *mon.Case) { runRandomSeq(k, c, false) })
		c.Cases("ilv", c.N(1500, 15000), func(k *mon.Case) { runRandomSeq(k, c, true) })
		c.Cases("lin", c.N(80, 2000), func(k *mon.Case) { concLinearizable(c, k) })
		c.Cases("conc", c.N(32, 480), func(k *mon.Case) { concInvariants(c, k) })
	})
}
