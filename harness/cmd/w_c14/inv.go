package main

import (
	"fmt"
	"sort"

	"github.com/LiskHQ/lisk-engine/pkg/blockchain"
	"github.com/LiskHQ/lisk-engine/pkg/labi"
	"github.com/LiskHQ/lisk-engine/pkg/txpool"
)

// The oracle of C14, conjunct by conjunct (keys name the conjunct that failed):
//
//   model:index-mismatch:<which>   the three indexes do not agree
//   model:duplicate-sender-nonce   two pooled transactions with one (sender, nonce)
//   model:size-limit:pool|sender   more than MaxTransactions / MaxTransactionsPerAccount
//   model:processable:<which>      processable set not a gap-free ascending run of pooled,
//                                  verified transactions
//   model:replacement-below-min-fee[:overflow]   (transition check, sequential tiers)
//   model:api-mismatch:<call>      Get/GetAll/GetProcessable disagree with the snapshot
//
// Everything is evaluated on a snapshot taken under the pool's own lock at a quiescent point.

type findings struct {
	list []finding
	seen map[string]bool
}

func (f *findings) add(key, what string) {
	if f.seen == nil {
		f.seen = map[string]bool{}
	}
	if f.seen[key] {
		return
	}
	f.seen[key] = true
	f.list = append(f.list, finding{Key: key, What: what})
}

type snapView struct {
	all      map[string]*txpool.TransactionWithFeePriority // by ID
	accounts map[string]*txpool.VerifAccount               // by map key
	procIDs  map[string]bool                               // IDs in some processable list
	procList []string                                      // IDs, for GetProcessable comparison
}

func senderKey(tx *blockchain.Transaction) string { return string(tx.SenderAddress()) }

func checkSnapshot(s *txpool.VerifSnapshot, cfg txpool.TransactionPoolConfig, lastVerdict func(id string) (int32, bool), f *findings) *snapView {
	v := &snapView{all: map[string]*txpool.TransactionWithFeePriority{}, accounts: map[string]*txpool.VerifAccount{}, procIDs: map[string]bool{}}

	// allTransactions: key is the ID
	for _, e := range s.All {
		if e.Entry == nil || e.Entry.Transaction == nil {
			f.add("model:index-mismatch:all-nil-entry", "allTransactions holds a nil entry")
			continue
		}
		if e.Key != string(e.Entry.ID) {
			f.add("model:index-mismatch:all-key-vs-id", fmt.Sprintf("allTransactions key %x holds transaction %s", e.Key, descTx(e.Entry.Transaction)))
		}
		v.all[e.Key] = e.Entry
	}

	// per-sender lists -> allTransactions, list-internal agreement, bounds, processables
	for i := range s.Accounts {
		a := &s.Accounts[i]
		v.accounts[a.Key] = a
		if a.Transactions == nil {
			f.add("model:index-mismatch:sender-list-nil", "perAccount holds a nil list")
			continue
		}
		if a.Key != string(a.Address) {
			f.add("model:index-mismatch:sender-key-vs-address", "perAccount key differs from the list's address")
		}
		for nonce, e := range a.Transactions {
			if e == nil || e.Transaction == nil {
				f.add("model:index-mismatch:sender-nil-entry", "a sender list holds a nil entry")
				continue
			}
			if e.Nonce != nonce {
				f.add("model:index-mismatch:sender-nonce-key", fmt.Sprintf("sender list slot %d holds %s", nonce, descTx(e.Transaction)))
			}
			if senderKey(e.Transaction) != a.Key {
				f.add("model:index-mismatch:sender-wrong-list", fmt.Sprintf("%s is in the list of another sender", descTx(e.Transaction)))
			}
			ae, ok := v.all[string(e.ID)]
			switch {
			case !ok:
				f.add("model:index-mismatch:sender-entry-not-in-all", fmt.Sprintf("%s is in its sender list but not in allTransactions", descTx(e.Transaction)))
			case ae != e:
				f.add("model:index-mismatch:sender-entry-differs-from-all", fmt.Sprintf("%s: sender list and allTransactions hold different objects", descTx(e.Transaction)))
			}
		}
		// nonce heap == key set, and it is a min-heap (GetPromotable/GetUnprocessables pop from copies)
		nonceCount := map[uint64]int{}
		for _, n := range a.Nonces {
			nonceCount[n]++
		}
		okHeap := len(a.Nonces) == len(a.Transactions)
		for n, c := range nonceCount {
			if _, ok := a.Transactions[n]; !ok || c != 1 {
				okHeap = false
			}
		}
		if !okHeap {
			f.add("model:index-mismatch:nonce-heap", fmt.Sprintf("sender s%d: nonce heap %v vs transaction slots %v", senderOfKey(a.Key), a.Nonces, sortedNonces(a.Transactions)))
		}
		for j := 1; j < len(a.Nonces); j++ {
			if a.Nonces[(j-1)/2] > a.Nonces[j] {
				f.add("model:index-mismatch:nonce-heap-order", fmt.Sprintf("sender s%d: nonce heap %v is not a min-heap", senderOfKey(a.Key), a.Nonces))
				break
			}
		}
		if len(a.Transactions) > cfg.MaxTransactionsPerAccount || len(a.Nonces) > cfg.MaxTransactionsPerAccount {
			f.add("model:size-limit:sender", fmt.Sprintf("sender s%d holds %d transactions, MaxTransactionsPerAccount=%d", senderOfKey(a.Key), len(a.Transactions), cfg.MaxTransactionsPerAccount))
		}
		for j, n := range a.Processables {
			if j > 0 && (n != a.Processables[j-1]+1 || n <= a.Processables[j-1]) {
				f.add("model:processable:not-gapfree", fmt.Sprintf("sender s%d: processables %v (pooled nonces %v)", senderOfKey(a.Key), a.Processables, sortedNonces(a.Transactions)))
			}
			e, ok := a.Transactions[n]
			if !ok || e == nil {
				f.add("model:processable:missing-tx", fmt.Sprintf("sender s%d: processable nonce %d has no transaction (pooled nonces %v)", senderOfKey(a.Key), n, sortedNonces(a.Transactions)))
				continue
			}
			v.procIDs[string(e.ID)] = true
			v.procList = append(v.procList, string(e.ID))
			if lastVerdict != nil {
				verdict, known := lastVerdict(string(e.ID))
				if !known {
					f.add("model:processable:never-verified", fmt.Sprintf("%s is processable but was never submitted to the verifier", descTx(e.Transaction)))
				} else if verdict == labi.TxVerifyResultInvalid || verdict == verdictError {
					f.add("model:processable:failed-verification", fmt.Sprintf("%s is processable but its last verification answered %s", descTx(e.Transaction), verdictName(verdict)))
				}
			}
		}
	}

	// allTransactions -> exactly one sender list, at its nonce
	type sn struct {
		s string
		n uint64
	}
	bySN := map[sn][]string{}
	for id, e := range v.all {
		k := sn{senderKey(e.Transaction), e.Nonce}
		bySN[k] = append(bySN[k], id)
		a, ok := v.accounts[k.s]
		if !ok || a.Transactions == nil {
			f.add("model:index-mismatch:all-entry-without-sender-list", fmt.Sprintf("%s is in allTransactions but its sender has no list", descTx(e.Transaction)))
			continue
		}
		le, ok := a.Transactions[e.Nonce]
		switch {
		case !ok || le == nil:
			f.add("model:index-mismatch:all-entry-missing-in-sender-list", fmt.Sprintf("%s is in allTransactions but its sender list has nothing at nonce %d", descTx(e.Transaction), e.Nonce))
		case string(le.ID) != id:
			f.add("model:index-mismatch:all-entry-superseded-in-sender-list", fmt.Sprintf("%s is in allTransactions but its sender list holds %s at that nonce", descTx(e.Transaction), descTx(le.Transaction)))
		}
	}
	for k, ids := range bySN {
		if len(ids) > 1 {
			f.add("model:duplicate-sender-nonce", fmt.Sprintf("%d pooled transactions of sender s%d with nonce %d", len(ids), senderOfKey(k.s), k.n))
		}
	}

	// fee priority queue: same multiset as allTransactions, min-heap on FeePriority
	q := map[*txpool.TransactionWithFeePriority]int{}
	for _, e := range s.FeeQueue {
		q[e]++
	}
	okQ := len(s.FeeQueue) == len(v.all)
	for _, e := range v.all {
		if q[e] != 1 {
			okQ = false
		}
	}
	if !okQ {
		f.add("model:index-mismatch:fee-heap", fmt.Sprintf("feePriorityQueue has %d entries, allTransactions %d, or their members differ", len(s.FeeQueue), len(v.all)))
	}
	for j := 1; j < len(s.FeeQueue); j++ {
		p, c := s.FeeQueue[(j-1)/2], s.FeeQueue[j]
		if p != nil && c != nil && p.FeePriority > c.FeePriority {
			f.add("model:index-mismatch:fee-heap-order", "feePriorityQueue is not a min-heap on fee priority")
			break
		}
	}
	for _, e := range v.all {
		if e.FeePriority != prioOf(e.Transaction) {
			f.add("model:index-mismatch:fee-priority-value", fmt.Sprintf("%s is stored with fee priority %d", descTx(e.Transaction), e.FeePriority))
		}
	}

	if len(v.all) > cfg.MaxTransactions {
		f.add("model:size-limit:pool", fmt.Sprintf("pool holds %d transactions, MaxTransactions=%d", len(v.all), cfg.MaxTransactions))
	}
	return v
}

func senderOfKey(k string) int {
	senders()
	if s, ok := senderByAdr[k]; ok {
		return s.idx
	}
	return -1
}

func sortedNonces(m map[uint64]*txpool.TransactionWithFeePriority) []uint64 {
	out := make([]uint64, 0, len(m))
	for n := range m {
		out = append(out, n)
	}
	sort.Slice(out, func(i, j int) bool { return out[i] < out[j] })
	return out
}

// checkAPI compares Get / GetAll / GetProcessable with the snapshot (quiescent point).
// extra are IDs the harness knows about that may or may not be pooled.
func checkAPI(c *caller, e *env, v *snapView, extra [][]byte, f *findings) bool {
	var all, proc []*blockchain.Transaction
	if !c.call("GetAll", func() { all = e.pool.GetAll() }) {
		return false
	}
	if !sameIDs(all, keysOf(v.all)) {
		f.add("model:api-mismatch:GetAll", fmt.Sprintf("GetAll returned %d transactions, allTransactions holds %d (or members differ)", len(all), len(v.all)))
	}
	if !c.call("GetProcessable", func() { proc = e.pool.GetProcessable() }) {
		return false
	}
	if !sameIDs(proc, v.procList) {
		f.add("model:api-mismatch:GetProcessable", fmt.Sprintf("GetProcessable returned %d transactions, the processable lists hold %d (or members differ)", len(proc), len(v.procList)))
	}
	probe := func(id []byte) bool {
		var tx *blockchain.Transaction
		var ok bool
		if !c.call("Get", func() { tx, ok = e.pool.Get(id) }) {
			return false
		}
		_, want := v.all[string(id)]
		if ok != want || (ok && (tx == nil || string(tx.ID) != string(id))) {
			f.add("model:api-mismatch:Get", fmt.Sprintf("Get(%s) = (%s, %v), allTransactions says %v", short(id), descTx(tx), ok, want))
		}
		return true
	}
	for id := range v.all {
		if !probe([]byte(id)) {
			return false
		}
	}
	for _, id := range extra {
		if !probe(id) {
			return false
		}
	}
	return true
}

func keysOf(m map[string]*txpool.TransactionWithFeePriority) []string {
	out := make([]string, 0, len(m))
	for k := range m {
		out = append(out, k)
	}
	return out
}

func sameIDs(txs []*blockchain.Transaction, ids []string) bool {
	if len(txs) != len(ids) {
		return false
	}
	c := map[string]int{}
	for _, id := range ids {
		c[id]++
	}
	for _, tx := range txs {
		if tx == nil {
			return false
		}
		c[string(tx.ID)]--
	}
	for _, n := range c {
		if n != 0 {
			return false
		}
	}
	return true
}
