package main

import (
	"fmt"
	"math"
	"math/rand"
	"sort"
	"strings"

	"github.com/LiskHQ/lisk-engine/pkg/blockchain"
	"github.com/LiskHQ/lisk-engine/pkg/labi"
	"github.com/LiskHQ/lisk-engine/pkg/txpool"

	"verifharness/internal/mon"
)

// A concrete operation (replayable on a fresh pool).
type op struct {
	Kind    string // add | remove | apply | revert | reorg | verdict | pubfail | pubfail-all
	Tx      *blockchain.Transaction
	Txs     []*blockchain.Transaction
	ID      []byte
	Verdict int32 // add: verdict scripted for a new tx (-100 = leave); verdict: new verdict
	Flag    bool
	Note    string
	// reorg only: while the verifier is asked about Trig, run During (a remove or an add) from
	// another goroutine and wait for it - an ABI call that takes long while a notification arrives.
	Trig   []byte
	During *op
	// reorg only: verdict the verifier gives for Trig from this step on
	SetTrigVerdict bool
	TrigVerdict    int32
}

const keepVerdict int32 = -100

func (o *op) String() string {
	switch o.Kind {
	case "add":
		s := "add(" + descTx(o.Tx) + ")"
		if o.Verdict != keepVerdict {
			s += "[verifier:" + verdictName(o.Verdict) + "]"
		}
		if o.Note != "" {
			s += "{" + o.Note + "}"
		}
		return s
	case "remove":
		return "remove(" + short(o.ID) + ")"
	case "apply", "revert":
		var p []string
		for _, tx := range o.Txs {
			p = append(p, descTx(tx))
		}
		return "block-" + o.Kind + "(" + strings.Join(p, ",") + ")"
	case "reorg":
		if o.During != nil {
			tv := ""
			if o.SetTrigVerdict {
				tv = " (verifier:=" + verdictName(o.TrigVerdict) + ")"
			}
			return "reorg[while verifying " + short(o.Trig) + tv + ": " + o.During.String() + "]"
		}
		return "reorg"
	case "verdict":
		return "verifier(" + short(o.ID) + ":=" + verdictName(o.Verdict) + ")"
	case "pubfail":
		return fmt.Sprintf("publish-fails(%s,%v)", short(o.ID), o.Flag)
	case "pubfail-all":
		return fmt.Sprintf("publish-fails(all,%v)", o.Flag)
	}
	return o.Kind
}

// exec is one run of a sequence on a fresh pool.
type exec struct {
	k        *mon.Case
	e        *env
	c        *caller
	live     bool // count events / features (false during shrinking replays)
	cont     bool // continue after a violated invariant (scenarios showing consequences)
	hist     []string
	found    []finding
	foundSet map[string]bool
	stopped  bool
	view     *snapView // view after the last op
	snap     *txpool.VerifSnapshot
	feat     map[string]bool
	created  []*blockchain.Transaction
	createdM map[string]bool
	blocks   [][]*blockchain.Transaction
	nOps     int
	// labelHist: put the op history into the watchdog's label (directed scenarios, where the
	// label is the minimal witness of a non-returning call)
	labelHist bool
}

func newExec(k *mon.Case, cfg poolCfg, live bool) *exec {
	x := &exec{k: k, e: newEnv(cfg), live: live, feat: map[string]bool{}, foundSet: map[string]bool{}, createdM: map[string]bool{}}
	x.c = &caller{k: k, context: func() string {
		if !x.labelHist {
			return "" // random streams: (stream, index, seed) in the replay file reproduce the history
		}
		h := strings.Join(x.hist, "; ")
		if len(h) > 700 {
			h = "..." + h[len(h)-700:]
		}
		return cfg.String() + ": " + h
	}}
	x.view = &snapView{all: map[string]*txpool.TransactionWithFeePriority{}, accounts: map[string]*txpool.VerifAccount{}, procIDs: map[string]bool{}}
	return x
}

func (x *exec) count(name string) {
	if x.live {
		x.k.Count(name, 1)
	}
}
func (x *exec) feature(name string) {
	if x.live {
		x.feat[name] = true
	}
}

func (x *exec) report(fs []finding) {
	for _, f := range fs {
		if !x.foundSet[f.Key] {
			x.foundSet[f.Key] = true
			x.found = append(x.found, f)
		}
	}
	if len(fs) > 0 && !x.cont {
		x.stopped = true
	}
}

func (x *exec) track(tx *blockchain.Transaction) {
	if !x.createdM[string(tx.ID)] {
		x.createdM[string(tx.ID)] = true
		x.created = append(x.created, tx)
	}
}

// call runs one pool call under the watchdog; false = it panicked (reported, run stops).
func (x *exec) call(name string, fn func()) bool {
	if x.c.call(name, fn) {
		return true
	}
	if x.c.panicked != nil {
		p := *x.c.panicked
		x.c.panicked = nil
		x.foundSet[p.Key] = true
		x.found = append(x.found, p)
	}
	x.stopped = true // the pool's state after a panic is undefined
	return false
}

// add / remove as the pool's clients issue them.
func (x *exec) doAdd(tx *blockchain.Transaction) (ret, ok bool) {
	ok = x.call("Add", func() { ret = x.e.pool.Add(tx) })
	return ret, ok
}
func (x *exec) doRemove(id []byte) (ret, ok bool) {
	ok = x.call("Remove", func() { ret = x.e.pool.Remove(id) })
	return ret, ok
}

// do executes one (possibly composite) op; the oracle is evaluated after every pool-changing call.
func (x *exec) do(o *op) {
	if x.stopped {
		return
	}
	x.nOps++
	switch o.Kind {
	case "apply":
		// block applied: the generator's onNewBlock removes the block's transactions one by one
		x.count("op_block_applied")
		x.feature("apply")
		x.hist = append(x.hist, "block-applied:")
		for _, tx := range o.Txs {
			x.prim(&op{Kind: "remove", ID: tx.ID})
			if x.stopped {
				return
			}
		}
		x.blocks = append(x.blocks, o.Txs)
	case "revert":
		// block reverted: onDeleteBlock adds them back one by one
		x.count("op_block_reverted")
		x.feature("revert")
		x.hist = append(x.hist, "block-reverted:")
		for _, tx := range o.Txs {
			x.prim(&op{Kind: "add", Tx: tx, Verdict: keepVerdict, Note: "reverted"})
			if x.stopped {
				return
			}
		}
	default:
		x.prim(o)
	}
}

// prim executes one primitive op and then evaluates the oracle.
func (x *exec) prim(o *op) {
	pre := x.view
	x.e.ver.resetStep()
	res := ""
	switch o.Kind {
	case "add":
		x.track(o.Tx)
		if o.Verdict != keepVerdict {
			x.e.ver.set(o.Tx.ID, o.Verdict)
		}
		x.hist = append(x.hist, o.String()+" ...")
		ret, ok := x.doAdd(o.Tx)
		if !ok {
			return
		}
		res = fmt.Sprint(ret)
		x.noteAdd(o, pre, ret)
	case "remove":
		x.hist = append(x.hist, o.String()+" ...")
		ret, ok := x.doRemove(o.ID)
		if !ok {
			return
		}
		res = fmt.Sprint(ret)
		x.count("op_remove")
		if ret {
			x.count("remove_true")
			x.feature("rm-hit")
		} else {
			x.count("remove_false")
			x.feature("rm-miss")
		}
	case "reorg":
		x.hist = append(x.hist, o.String()+" ...")
		x.count("op_reorg")
		fired := false
		if o.SetTrigVerdict {
			x.e.ver.set(o.Trig, o.TrigVerdict)
			x.count("op_set_verdict_" + verdictName(o.TrigVerdict))
		}
		if o.During != nil {
			d := o.During
			x.e.ver.arm(o.Trig, func() {
				fired = true
				// runs in reorg's goroutine while it waits for the ABI; the pool call itself is
				// made from a goroutine of its own (mon.Watch) and awaited
				switch d.Kind {
				case "remove":
					x.doRemove(d.ID)
				case "add":
					x.track(d.Tx)
					if d.Verdict != keepVerdict {
						x.e.ver.set(d.Tx.ID, d.Verdict)
					}
					x.doAdd(d.Tx)
				}
			})
		}
		ok := x.call("reorg", func() { x.e.pool.VerifReorgStep() })
		if o.During != nil {
			x.e.ver.disarm()
		}
		if !ok || x.stopped {
			return
		}
		res = "done"
		if o.During != nil {
			if fired {
				x.count("reorg_interleaved_" + o.During.Kind)
				x.feature("ilv-" + o.During.Kind)
				res = "interleaved"
			} else {
				x.count("reorg_interleave_not_reached")
				res = "not interleaved"
			}
		}
	case "verdict":
		x.e.ver.set(o.ID, o.Verdict)
		x.count("op_set_verdict_" + verdictName(o.Verdict))
		x.hist = append(x.hist, o.String())
		return // no pool call
	case "pubfail":
		x.e.conn.setFailID(o.ID, o.Flag)
		x.hist = append(x.hist, o.String())
		return
	case "pubfail-all":
		x.e.conn.setFailAll(o.Flag)
		x.hist = append(x.hist, o.String())
		return
	default:
		panic("unknown op " + o.Kind)
	}
	x.hist[len(x.hist)-1] = strings.TrimSuffix(x.hist[len(x.hist)-1], " ...") + " -> " + res
	x.observe(o, pre)
}

// observe: snapshot, invariants, API agreement, transition checks.
func (x *exec) observe(o *op, pre *snapView) {
	var s *txpool.VerifSnapshot
	if !x.call("VerifSnapshot", func() { s = x.e.pool.VerifSnapshot() }) {
		return
	}
	f := &findings{}
	v := checkSnapshot(s, x.e.eff, x.e.ver.lastVerdict, f)
	x.snap, x.view = s, v
	var extra [][]byte
	for i, tx := range x.created {
		if i >= len(x.created)-6 { // the most recent few, pooled or not
			extra = append(extra, tx.ID)
		}
	}
	extra = append(extra, []byte("no such transaction id, 32 bytes"))
	if !checkAPI(x.c, x.e, v, extra, f) {
		if x.c.panicked != nil {
			f.add(x.c.panicked.Key, x.c.panicked.What)
			x.c.panicked = nil
		}
		x.report(f.list)
		x.stopped = true
		return
	}
	x.transition(o, pre, v, f)
	if x.live {
		x.k.Count("invariant_evaluations", 1)
		x.k.Count("pooled_transactions_seen", len(v.all))
	}
	x.report(f.list)
}

// transition checks need the state before and after one op.
func (x *exec) transition(o *op, pre, post *snapView, f *findings) {
	// replacement rule: a transaction that now occupies a (sender, nonce) slot that was held by
	// another transaction before this op must pay at least old fee + MinReplacementFeeDifference
	diff := x.e.eff.MinReplacementFeeDifference
	for key, a := range post.accounts {
		pa, ok := pre.accounts[key]
		if !ok || pa.Transactions == nil || a.Transactions == nil {
			continue
		}
		for n, ne := range a.Transactions {
			oe, ok := pa.Transactions[n]
			if !ok || oe == nil || ne == nil || string(oe.ID) == string(ne.ID) {
				continue
			}
			// judged for a single Add only: there the slot can change hands in no other way
			// (a reorg step with an interleaved call may remove and add in one step)
			if o.Kind != "add" {
				continue
			}
			x.count("replacement_accepted")
			x.feature("repl-ok")
			if oe.Fee > math.MaxUint64-diff {
				f.add("model:replacement-below-min-fee:overflow", fmt.Sprintf("%s replaced %s although old fee + MinReplacementFeeDifference(%d) exceeds every representable fee", descTx(ne.Transaction), descTx(oe.Transaction), diff))
			} else if ne.Fee < oe.Fee+diff {
				f.add("model:replacement-below-min-fee", fmt.Sprintf("%s replaced %s, MinReplacementFeeDifference=%d", descTx(ne.Transaction), descTx(oe.Transaction), diff))
			}
		}
	}
	// promotion happens in reorg only, and only for transactions the verifier accepted in that step
	okNow := map[string]bool{}
	for _, r := range x.e.ver.step() {
		if r.verdict == labi.TxVerifyResultOk || r.verdict == labi.TxVerifyResultPending {
			okNow[r.id] = true
		}
		if r.verdict == labi.TxVerifyResultPending && post.procIDs[r.id] && !pre.procIDs[r.id] {
			x.count("promoted_with_pending_verdict")
		}
	}
	newProc := 0
	for id := range post.procIDs {
		if pre.procIDs[id] {
			continue
		}
		newProc++
		if !okNow[id] {
			f.add("model:processable:promoted-unverified", fmt.Sprintf("%s became processable in %s without being accepted by the verifier in that step", descTx(post.all[id].Transaction), o.Kind))
		}
	}
	if newProc > 0 {
		x.count("promotions")
		x.feature("promote")
	}
	if o.Kind == "reorg" {
		dropped := 0
		for id := range pre.all {
			if _, ok := post.all[id]; !ok {
				dropped++
			}
		}
		if dropped > 0 && o.During == nil {
			x.count("reorg_dropped_invalid")
			x.feature("reorg-drop")
		}
	}
	// observations that the statement does not forbid (counted, never a verdict)
	for _, a := range post.accounts {
		if len(a.Processables) > 0 && len(a.Nonces) > 0 {
			min := a.Nonces[0]
			for _, n := range a.Nonces {
				if n < min {
					min = n
				}
			}
			if a.Processables[0] != min {
				x.count("obs_processables_not_lowest_nonces")
			}
		}
		if a.Transactions != nil && len(a.Transactions) == 0 {
			x.count("obs_empty_sender_list_kept")
		}
	}
}

// noteAdd classifies an Add by what was observable before it (coverage only).
func (x *exec) noteAdd(o *op, pre *snapView, ret bool) {
	x.count("op_add")
	if ret {
		x.count("add_true")
	} else {
		x.count("add_false")
	}
	tx := o.Tx
	if _, ok := pre.all[string(tx.ID)]; ok {
		x.count("add_duplicate_id")
		x.feature("dup")
		return
	}
	switch x.e.ver.scripted(tx.ID) {
	case labi.TxVerifyResultInvalid, verdictError:
		x.count("add_verifier_invalid")
		x.feature("inv-add")
	case labi.TxVerifyResultPending:
		x.count("add_verifier_pending")
	}
	if prioOf(tx) < x.e.eff.MinEntranceFeePriority {
		x.count("add_below_entrance_priority")
		x.feature("entry-rej")
	}
	if x.e.conn.fails(tx.ID) {
		x.count("add_publish_failed")
		x.feature("pubfail")
	}
	if len(pre.all) >= x.e.eff.MaxTransactions {
		x.count("add_at_capacity")
		if ret {
			x.feature("cap-ok")
		} else {
			x.feature("cap-rej")
		}
	}
	if a, ok := pre.accounts[senderKey(tx)]; ok && a.Transactions != nil {
		if old, ok := a.Transactions[tx.Nonce]; ok && old != nil {
			x.count("add_same_sender_nonce")
			if !ret {
				x.feature("repl-rej")
			}
		} else if len(a.Transactions) >= x.e.eff.MaxTransactionsPerAccount {
			x.count("add_sender_list_full")
			if ret {
				x.feature("per-ok")
			} else {
				x.feature("per-rej")
			}
		}
		lo := true
		for n := range a.Transactions {
			if n <= tx.Nonce {
				lo = false
			}
		}
		if lo {
			x.count("add_nonce_below_all")
			x.feature("lower")
		}
	}
}

func (x *exec) featureKey() string {
	var fs []string
	for f := range x.feat {
		fs = append(fs, f)
	}
	sort.Strings(fs)
	return fmt.Sprintf("m%d/p%d/%s", x.e.cfg.Max, x.e.cfg.Per, strings.Join(fs, ","))
}

// ---------------------------------------------------------------------------------------
// generation (adaptive: looks at the last snapshot; yields concrete ops)

type gen struct {
	r        *rand.Rand
	cfg      poolCfg
	nSend    int
	ilv      bool // interleave ops into reorg steps
	reorgPct int
	// high: the senders' nonces sit at the top of the uint64 range (first nonces MaxUint64-3..,
	// "next" after MaxUint64 is 0): nonce arithmetic must not wrap a run around
	high bool
}

func randCfg(r *rand.Rand) poolCfg {
	c := poolCfg{Max: 1 + r.Intn(8), Per: 1 + r.Intn(8)}
	if r.Intn(2) == 0 {
		c.Per = 1 + r.Intn(3)
	}
	c.Diff = []uint64{1, 1, 2, 10, 100}[r.Intn(5)]
	c.MinEntry = []uint64{0, 0, 0, 1, 2}[r.Intn(5)]
	return c
}

func randVerdict(r *rand.Rand) int32 {
	switch p := r.Intn(100); {
	case p < 68:
		return labi.TxVerifyResultOk
	case p < 84:
		return labi.TxVerifyResultPending
	case p < 96:
		return labi.TxVerifyResultInvalid
	}
	return verdictError
}

func (g *gen) pooled(x *exec) []*txpool.TransactionWithFeePriority {
	var out []*txpool.TransactionWithFeePriority
	for _, e := range x.view.all {
		out = append(out, e)
	}
	sort.Slice(out, func(i, j int) bool { return string(out[i].ID) < string(out[j].ID) })
	return out
}

func (g *gen) newTx(x *exec) *op {
	r := g.r
	s := senders()[r.Intn(g.nSend)]
	a := x.view.accounts[s.addr]
	var nonces []uint64
	if a != nil && a.Transactions != nil {
		nonces = sortedNonces(a.Transactions)
	}
	o := &op{Kind: "add", Verdict: randVerdict(r)}
	var nonce uint64
	pick := r.Intn(100)
	switch {
	case len(nonces) == 0:
		nonce = uint64(r.Intn(4))
		if g.high {
			nonce = math.MaxUint64 - uint64(r.Intn(4))
		}
		o.Note = "first"
	case pick < 32:
		nonce = nonces[len(nonces)-1] + 1
		o.Note = "next"
	case pick < 44:
		nonce = nonces[len(nonces)-1] + 2 + uint64(r.Intn(2))
		o.Note = "gap"
	case pick < 56 && nonces[0] > 0:
		nonce = nonces[0] - 1
		if nonce > 0 && r.Intn(3) == 0 {
			nonce--
		}
		o.Note = "lower"
	case pick < 84:
		// replacement around the threshold
		old := a.Transactions[nonces[r.Intn(len(nonces))]]
		nonce = old.Nonce
		d := g.cfg.Diff
		var fee uint64
		switch r.Intn(6) {
		case 0:
			fee = old.Fee + d - 1
			o.Note = "replace-1"
		case 1, 2:
			fee = old.Fee + d
			o.Note = "replace+0"
		case 3:
			fee = old.Fee + d + 1
			o.Note = "replace+1"
		case 4:
			fee = old.Fee
			o.Note = "replace-same-fee"
		default:
			fee = uint64(r.Intn(3000))
			o.Note = "replace-random"
		}
		if old.Fee > math.MaxUint64-d-1 {
			fee = uint64(r.Intn(3000))
			o.Note = "replace-after-huge"
		}
		p := make([]byte, 4)
		r.Read(p)
		o.Tx = mkTx(s, nonce, fee, p)
		return o
	default:
		nonce = uint64(r.Intn(8))
		if g.high && r.Intn(2) == 0 {
			nonce = math.MaxUint64 - uint64(r.Intn(6))
		}
		o.Note = "random-nonce"
	}
	// fee: aim at a priority
	var prio uint64
	switch p := r.Intn(100); {
	case p < 40:
		prio = uint64(r.Intn(12))
	case p < 75 && x.snap != nil && len(x.snap.FeeQueue) > 0:
		low := x.snap.FeeQueue[0].FeePriority
		switch r.Intn(3) {
		case 0:
			if low > 0 {
				prio = low - 1
			}
		case 1:
			prio = low
		default:
			prio = low + 1
		}
	case p < 78:
		pp := make([]byte, 4)
		r.Read(pp)
		o.Tx = mkTx(s, nonce, math.MaxUint64-uint64(r.Intn(3)), pp)
		o.Note += ",huge-fee"
		return o
	default:
		prio = uint64(r.Intn(30))
	}
	o.Tx = mkTxPrio(r, s, nonce, prio)
	return o
}

func (g *gen) next(x *exec) *op {
	r := g.r
	pooled := g.pooled(x)
	p := r.Intn(100)
	reorgEnd := 45 + g.reorgPct
	switch {
	case p < 45:
		if p < 7 && len(x.created) > 0 { // duplicate / re-add of a known transaction
			return &op{Kind: "add", Tx: x.created[r.Intn(len(x.created))], Verdict: keepVerdict, Note: "known-tx"}
		}
		return g.newTx(x)
	case p < reorgEnd:
		o := &op{Kind: "reorg"}
		if g.ilv && len(pooled) > 0 && r.Intn(100) < 70 {
			trig := pooled[r.Intn(len(pooled))]
			o.Trig = trig.ID
			// mostly something of the same sender
			var same []*txpool.TransactionWithFeePriority
			for _, e := range pooled {
				if senderKey(e.Transaction) == senderKey(trig.Transaction) {
					same = append(same, e)
				}
			}
			switch q := r.Intn(100); {
			case q < 55:
				o.During = &op{Kind: "remove", ID: same[r.Intn(len(same))].ID}
			case q < 70:
				o.During = &op{Kind: "remove", ID: pooled[r.Intn(len(pooled))].ID}
			case q < 85:
				// a replacement of the trigger or of a later nonce of its sender arrives while the
				// promotion pass is verifying the trigger (which the verifier may turn down)
				var later []*txpool.TransactionWithFeePriority
				for _, e := range same {
					if e.Nonce >= trig.Nonce {
						later = append(later, e)
					}
				}
				old := later[r.Intn(len(later))]
				fee := old.Fee + g.cfg.Diff + uint64(r.Intn(2))
				if old.Fee > math.MaxUint64-g.cfg.Diff-1 {
					fee = old.Fee
				}
				pp := make([]byte, 4)
				r.Read(pp)
				var snd *sender
				for _, c := range senders() {
					if c.addr == senderKey(old.Transaction) {
						snd = c
					}
				}
				if snd == nil {
					o.During = g.newTx(x)
					break
				}
				o.During = &op{Kind: "add", Tx: mkTx(snd, old.Nonce, fee, pp), Verdict: keepVerdict, Note: "replace-during-verification"}
				if r.Intn(2) == 0 {
					o.TrigVerdict = labi.TxVerifyResultInvalid
					o.SetTrigVerdict = true
				}
			default:
				o.During = g.newTx(x)
			}
		}
		return o
	case p < reorgEnd+15:
		switch q := r.Intn(10); {
		case q < 7 && len(pooled) > 0:
			return &op{Kind: "remove", ID: pooled[r.Intn(len(pooled))].ID}
		case q < 9 && len(x.created) > 0:
			return &op{Kind: "remove", ID: x.created[r.Intn(len(x.created))].ID}
		default:
			id := make([]byte, 32)
			r.Read(id)
			return &op{Kind: "remove", ID: id}
		}
	case p < reorgEnd+23:
		// block applied: a generator takes processables; a foreign block takes anything
		var cand []*blockchain.Transaction
		for _, e := range pooled {
			if x.view.procIDs[string(e.ID)] || r.Intn(3) == 0 {
				cand = append(cand, e.Transaction)
			}
		}
		if len(cand) == 0 {
			return g.newTx(x)
		}
		sort.Slice(cand, func(i, j int) bool {
			if si, sj := senderIdx(cand[i]), senderIdx(cand[j]); si != sj {
				return si < sj
			}
			return cand[i].Nonce < cand[j].Nonce
		})
		n := 1 + r.Intn(len(cand))
		return &op{Kind: "apply", Txs: cand[:n]}
	case p < reorgEnd+28:
		if len(x.blocks) == 0 {
			return g.newTx(x)
		}
		b := x.blocks[len(x.blocks)-1]
		x.blocks = x.blocks[:len(x.blocks)-1]
		return &op{Kind: "revert", Txs: b}
	case p < reorgEnd+36:
		if len(x.created) == 0 {
			return g.newTx(x)
		}
		var id []byte
		if len(pooled) > 0 && r.Intn(4) != 0 {
			id = pooled[r.Intn(len(pooled))].ID
		} else {
			id = x.created[r.Intn(len(x.created))].ID
		}
		return &op{Kind: "verdict", ID: id, Verdict: randVerdict(r)}
	default:
		if r.Intn(3) == 0 {
			return &op{Kind: "pubfail-all", Flag: r.Intn(3) == 0}
		}
		if len(x.created) == 0 {
			return g.newTx(x)
		}
		return &op{Kind: "pubfail", ID: x.created[r.Intn(len(x.created))].ID, Flag: r.Intn(2) == 0}
	}
}

// ---------------------------------------------------------------------------------------
// replay + shrinking (sequential sequences are concrete, so a subsequence can be re-run)

func replay(k *mon.Case, cfg poolCfg, ops []*op, cont bool) *exec {
	x := newExec(k, cfg, false)
	x.cont = cont
	for _, o := range ops {
		x.do(o)
		if x.stopped {
			break
		}
	}
	return x
}

func hasKey(x *exec, key string) bool { return x.foundSet[key] }

// shrink greedily drops ops while the same finding key is still produced. Replays stop at the
// first violated invariant, so a replay can only run into a non-returning call where the live
// run could have, too (and then the watchdog decides, as always).
func shrink(k *mon.Case, cfg poolCfg, ops []*op, key string) ([]*op, *exec) {
	best := ops
	bx := replay(k, cfg, best, false)
	if !hasKey(bx, key) {
		return nil, nil // not reproducible sequentially (e.g. depends on a schedule)
	}
	// cut the tail after the op that produced the finding
	best = best[:min(len(best), bx.nOps)]
	for changed := true; changed; {
		changed = false
		for i := len(best) - 1; i >= 0; i-- {
			cand := append(append([]*op{}, best[:i]...), best[i+1:]...)
			cx := replay(k, cfg, cand, false)
			if hasKey(cx, key) {
				best, bx, changed = cand, cx, true
			}
		}
	}
	return best, bx
}

func min(a, b int) int {
	if a < b {
		return a
	}
	return b
}

func opStrings(ops []*op) []string {
	out := make([]string, len(ops))
	for i, o := range ops {
		out[i] = o.String()
	}
	return out
}
