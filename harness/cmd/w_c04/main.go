// Worker for C04: finalized blocks are irreversible and the finalized height never decreases.
package main

import (
	"bytes"
	"context"
	"fmt"
	"math/rand"
	"sync/atomic"
	"time"

	"github.com/LiskHQ/lisk-engine/pkg/blockchain"
	"github.com/LiskHQ/lisk-engine/pkg/consensus"
	"github.com/LiskHQ/lisk-engine/pkg/p2p"

	"verifharness/internal/mon"
	"verifharness/internal/node"
)

type monitor struct {
	k     *mon.Case
	n     *node.Node
	fin   uint32
	seen  map[uint32][]byte
	steps int
}

func newMonitor(k *mon.Case, n *node.Node) *monitor {
	m := &monitor{k: k, n: n, seen: map[uint32][]byte{}}
	m.fin = n.Finalized()
	m.record()
	n.TakeEvents()
	return m
}

func (m *monitor) record() {
	for h := uint32(0); h <= m.fin; h++ {
		if _, ok := m.seen[h]; ok {
			continue
		}
		hdr, err := m.n.Chain.DataAccess().GetBlockHeaderByHeight(h)
		if err != nil {
			m.k.Violation("finalized-block:unreadable", "block at a finalized height cannot be read", map[string]any{"height": h, "finalized": m.fin, "err": err.Error()})
			continue
		}
		m.seen[h] = append([]byte{}, hdr.ID...)
	}
}

// after is called after every step. applied: the step appended a block through the engine.
func (m *monitor) after(step string, applied bool, wit map[string]any) {
	m.steps++
	k, n := m.k, m.n
	if wit == nil {
		wit = map[string]any{}
	}
	wit["step"] = step
	wit["step_no"] = m.steps
	fin, err := n.Chain.DataAccess().GetFinalizedHeight()
	if err != nil {
		k.Violation("finalized-height:unreadable:"+step, "finalized height cannot be read: "+err.Error(), wit)
		return
	}
	wit["finalized_before"], wit["finalized_after"] = m.fin, fin
	if fin < m.fin {
		k.Violation("finalized-height:decreased:"+step, "stored finalized height decreased", wit)
	}
	// every block ever seen as finalized is still served with the same ID
	for h, id := range m.seen {
		hdr, err := n.Chain.DataAccess().GetBlockHeaderByHeight(h)
		if err != nil {
			wit["height"] = h
			k.Violation("finalized-block:removed:"+step, "a finalized block is no longer served", wit)
			break
		}
		if !bytes.Equal(hdr.ID, id) {
			wit["height"] = h
			k.Violation("finalized-block:replaced:"+step, "the block served for a finalized height changed", wit)
			break
		}
	}
	evs := n.TakeEvents()
	var fevs []*consensus.EventBlockFinalizeMessage
	for _, e := range evs {
		if e.Topic == consensus.EventBlockFinalize {
			if fm, ok := e.Msg.(*consensus.EventBlockFinalizeMessage); ok {
				fevs = append(fevs, fm)
			}
		}
	}
	if applied {
		_, precommitted, _ := n.Heights()
		want := m.fin
		if precommitted > want {
			want = precommitted
		}
		wit["precommitted"] = precommitted
		if fin != want {
			k.Violation("finalized-height:not-max-of-previous-and-precommitted", "after applying a block the stored finalized height is not max(previous, chain's precommitted height)", wit)
		}
	}
	if fin > m.fin {
		k.Count("finality_raises", 1)
		if len(fevs) != 1 {
			wit["events"] = len(fevs)
			k.Violation("finalize-event:count-on-raise", "a raise of the finalized height did not emit exactly one EventBlockFinalize", wit)
		} else if fevs[0].Original != m.fin || fevs[0].Next != fin {
			wit["event"] = map[string]any{"original": fevs[0].Original, "next": fevs[0].Next}
			k.Violation("finalize-event:wrong-heights", "EventBlockFinalize does not carry (old, new) finalized heights", wit)
		}
	} else if len(fevs) != 0 {
		wit["events"] = len(fevs)
		k.Violation("finalize-event:without-raise:"+step, "EventBlockFinalize emitted although the finalized height did not rise", wit)
	}
	if fin > m.fin {
		m.fin = fin
	}
	m.record()
}

func history(k *mon.Case, tieBreak bool) {
	r := k.R
	g := node.EqualGenesis(1 + r.Intn(5))
	if r.Intn(3) == 0 {
		g = node.RandomChange(r, 7, 6)
	}
	steps := 40 + r.Intn(50)
	cfg := node.Config{Genesis: g, Universe: 7, BatchSize: 6, MaxBlockCache: 3 + r.Intn(20), KeepEventsForHeights: []int{-1, 0, 2, 300}[r.Intn(4)]}
	if tieBreak {
		// block time so large that the real current slot lasts for hours; the chain is laid
		// out so that after `pre` blocks (one per slot) the next slot is the current real slot
		cfg.BlockTime = 100000
	}
	pre := 6 + r.Intn(20)
	if tieBreak {
		cfg.GenesisTimestamp = uint32(time.Now().Unix()) - uint32(pre+1)*cfg.BlockTime - cfg.BlockTime/2
	}
	n, err := node.New(cfg)
	if err != nil {
		k.Inconclusive("node-init")
		return
	}
	defer func() { n.Close() }()
	m := newMonitor(k, n)
	kinds := map[string]int{}
	if tieBreak {
		for i := 0; i < pre; i++ {
			b, err := n.NextBlock(node.BlockOpts{})
			if err != nil {
				k.Inconclusive("build")
				return
			}
			if err := n.Apply(b); err != nil {
				k.Inconclusive("valid-block-rejected:" + err.Error())
				return
			}
			m.after("apply", true, map[string]any{"block": node.DescribeBlock(b)})
		}
		// tip is in slot pre (received now = outside its slot); two siblings for the same
		// parent: build a second candidate for the tip's height in the current real slot
		tip := n.Tip()
		nowSlot := n.Slot.GetSlotNumber(uint32(time.Now().Unix()))
		tipSlot := n.Slot.GetSlotNumber(tip.Header.Timestamp)
		if nowSlot != tipSlot+1 {
			k.Inconclusive("slot-layout")
			return
		}
		old := time.Unix(int64(tip.Header.Timestamp)+int64(cfg.BlockTime)+1, 0) // receive time outside the tip's own slot
		if err := n.DeleteTip(false); err != nil {
			k.Inconclusive("tiebreak-setup")
			return
		}
		m.after("delete-tip", false, nil)
		sib, err := n.NextBlock(node.BlockOpts{SlotsAhead: 2, Directive: &node.Directive{Salt: 77}})
		if err != nil {
			k.Inconclusive("tiebreak-sibling:" + err.Error())
			return
		}
		if err := n.Apply(node.CloneBlock(tip)); err != nil {
			k.Inconclusive("tiebreak-reapply")
			return
		}
		m.after("apply", true, nil)
		n.Exec.VerifSetLastBlockReceived(&old)
		before := n.Tip().Header.ID
		err = n.Apply(sib)
		after := n.Tip().Header.ID
		if bytes.Equal(after, sib.Header.ID) {
			k.Count("tiebreak_switched", 1)
			k.Nontrivial("tiebreak-switched")
		} else if bytes.Equal(after, before) {
			k.Count("tiebreak_kept", 1)
		}
		_ = err
		m.after("tie-break", bytes.Equal(after, sib.Header.ID), map[string]any{"sibling": node.DescribeBlock(sib)})
		kinds["tie-break"]++
		steps = 0 // the tip now sits in the real current slot: any further block would be a future block
	}
	for s := 0; s < steps; s++ {
		switch x := r.Intn(100); {
		case x < 55: // valid block
			b, _, err := n.RandomValid(r)
			if err != nil {
				k.Inconclusive("build")
				return
			}
			// one valid block in four is applied while the application is set to fail its next
			// Finalize call (the notification of a finality raise; an engine that makes that call
			// must not let its failure separate the stored raise from its event)
			armed := r.Intn(4) == 0
			if armed {
				n.ABI.FailAt = "Finalize"
			}
			before := n.Tip().Header.ID
			err = n.Apply(b)
			fired := armed && n.ABI.FailAt == ""
			n.ABI.FailAt = ""
			if err != nil && !fired {
				k.Inconclusive("valid-block-rejected")
				return
			}
			if fired {
				k.Count("application_faults_in_Finalize", 1)
				m.after("apply-with-failing-Finalize", !bytes.Equal(before, n.Tip().Header.ID), map[string]any{"block": node.DescribeBlock(b), "error": fmt.Sprint(err)})
				if !bytes.Equal(n.Tip().Header.ID, b.Header.ID) {
					k.Inconclusive("block-not-applied-after-application-fault")
					return
				}
				continue
			}
			kinds["apply"]++
			m.after("apply", true, map[string]any{"block": node.DescribeBlock(b)})
		case x < 63: // sibling of the tip delivered through process (double forging / duplicate / discard)
			tip := n.Tip()
			if tip.Header.Height == 0 || tip.Header.Height <= n.Finalized() {
				continue
			}
			if err := n.DeleteTip(false); err != nil {
				k.Violation("delete:refused-above-finalized", "deleteBlock failed for a tip above the finalized height: "+err.Error(), nil)
				return
			}
			m.after("delete-tip", false, nil)
			o := n.RandomOpts(r)
			o.NoRecord = true
			if r.Intn(2) == 0 { // same generator, same slot: double forging
				o.SlotsAhead = n.Slot.GetSlotNumber(tip.Header.Timestamp) - n.Slot.GetSlotNumber(n.Tip().Header.Timestamp)
				mhg := tip.Header.MaxHeightGenerated
				o.MaxHeightGenerated = &mhg
			}
			sib, err := n.NextBlock(o)
			if err != nil {
				sib = nil
			}
			if err := n.Apply(node.CloneBlock(tip)); err != nil {
				k.Inconclusive("reapply-after-delete:" + err.Error())
				return
			}
			m.after("apply", true, nil)
			if sib != nil {
				before := n.Tip().Header.ID
				n.Apply(sib) //nolint:errcheck
				kinds["sibling"]++
				m.after("sibling-via-process", !bytes.Equal(before, n.Tip().Header.ID), map[string]any{"sibling": node.DescribeBlock(sib)})
			}
		case x < 70: // invalid block
			b, _, err := n.RandomValid(r)
			if err != nil {
				continue
			}
			switch r.Intn(3) {
			case 0:
				b.Header.Signature[3] ^= 1
				b.Header.Init()
			case 1:
				b.Header.MaxHeightPrevoted += 1 + uint32(r.Intn(3))
				v := n.ValidatorByAddress(b.Header.GeneratorAddress)
				b.Header.Sign(n.Chain.ChainID(), v.EdPriv)
			case 2:
				b.Header.StateRoot[0] ^= 1
				v := n.ValidatorByAddress(b.Header.GeneratorAddress)
				b.Header.Sign(n.Chain.ChainID(), v.EdPriv)
			}
			before := n.Tip().Header.ID
			n.Apply(b) //nolint:errcheck
			kinds["invalid"]++
			m.after("invalid-block", !bytes.Equal(before, n.Tip().Header.ID), nil)
		case x < 82: // delete request for a block at or below the finalized height (must be refused)
			fin := n.Finalized()
			h := fin
			if fin > 0 && r.Intn(2) == 0 {
				h = uint32(r.Intn(int(fin) + 1))
			}
			blk, err := n.Chain.DataAccess().GetBlockByHeight(h)
			if err != nil {
				k.Violation("finalized-block:unreadable", "block at a finalized height cannot be read", map[string]any{"height": h, "finalized": fin})
				continue
			}
			tipBefore := n.Tip().Header.ID
			derr := n.Exec.VerifDeleteBlock(context.Background(), blk, r.Intn(2) == 0)
			kinds["delete-finalized"]++
			k.Count("delete_requests_at_or_below_finalized", 1)
			if derr == nil {
				k.Violation("delete:finalized-block-accepted", "deleteBlock accepted a block at or below the finalized height", map[string]any{"height": h, "finalized": fin})
			}
			if !bytes.Equal(tipBefore, n.Tip().Header.ID) {
				k.Violation("delete:finalized-request-changed-tip", "a refused delete request changed the tip", map[string]any{"height": h, "finalized": fin})
			}
			m.after("delete-at-or-below-finalized", false, map[string]any{"height": h})
		case x < 92: // run of deletes above the finalized height, then another branch
			run := 1 + r.Intn(4)
			for i := 0; i < run; i++ {
				tip := n.Tip()
				fin := n.Finalized()
				err := n.DeleteTip(r.Intn(2) == 0)
				if tip.Header.Height <= fin {
					if err == nil {
						k.Violation("delete:finalized-block-accepted", "deleteBlock accepted the tip although it is at or below the finalized height", map[string]any{"height": tip.Header.Height, "finalized": fin})
					}
					m.after("delete-tip-at-finalized", false, nil)
					break
				}
				if err != nil {
					k.Violation("delete:refused-above-finalized", "deleteBlock failed for a tip above the finalized height: "+err.Error(), map[string]any{"height": tip.Header.Height, "finalized": fin})
					return
				}
				kinds["delete"]++
				m.after("delete-tip", false, map[string]any{"height": tip.Header.Height})
			}
			n.Chain.DataAccess().ClearTempBlocks()
		default: // restart
			tip := append([]byte{}, n.Tip().Header.ID...)
			if err := n.Restart(); err != nil {
				k.Violation("restart:failed", "node does not come up after a clean restart: "+err.Error(), nil)
				return
			}
			m.n = n
			if n.Tip() == nil || !bytes.Equal(n.Tip().Header.ID, tip) {
				k.Violation("restart:tip-changed", "tip after restart differs from the tip before", nil)
				return
			}
			kinds["restart"]++
			m.after("restart", false, nil)
		}
	}
	if m.fin > 0 {
		k.Nontrivial(fmt.Sprintf("fin%d/sib%d/del%d/delfin%d/inv%d/restart%d/tb%v", m.fin/4, kinds["sibling"], kinds["delete"]/3, kinds["delete-finalized"]/3, kinds["invalid"]/2, kinds["restart"], tieBreak))
	}
	k.Count("steps", m.steps)
	k.Sample(map[string]any{"validators": len(g.Members), "steps": m.steps, "kinds": kinds, "final_tip": n.Tip().Header.Height, "finalized": m.fin, "tie_break": tieBreak})
}

var _ = blockchain.IDLength

// afterSync: like after, for a step that may have applied (and removed) many blocks: the
// finalize events of the step must chain from the previous finalized height to the new one
// without a gap - one event per raise, none missing, none extra.
func (m *monitor) afterSync(step string, wit map[string]any) {
	m.steps++
	k, n := m.k, m.n
	wit["step"], wit["step_no"] = step, m.steps
	fin, err := n.Chain.DataAccess().GetFinalizedHeight()
	if err != nil {
		k.Violation("finalized-height:unreadable:"+step, "finalized height cannot be read: "+err.Error(), wit)
		return
	}
	wit["finalized_before"], wit["finalized_after"] = m.fin, fin
	if fin < m.fin {
		k.Violation("finalized-height:decreased:"+step, "stored finalized height decreased", wit)
	}
	for h, id := range m.seen {
		hdr, err := n.Chain.DataAccess().GetBlockHeaderByHeight(h)
		if err != nil || !bytes.Equal(hdr.ID, id) {
			wit["height"] = h
			k.Violation("finalized-block:replaced:"+step, "the block served for a finalized height changed or is no longer served", wit)
			break
		}
	}
	var chain [][2]uint32
	for _, e := range n.TakeEvents() {
		if e.Topic == consensus.EventBlockFinalize {
			if fm, ok := e.Msg.(*consensus.EventBlockFinalizeMessage); ok {
				chain = append(chain, [2]uint32{fm.Original, fm.Next})
			}
		}
	}
	wit["finalize_events"] = fmt.Sprint(chain)
	at := m.fin
	ok := true
	for _, ev := range chain {
		if ev[0] != at || ev[1] <= ev[0] {
			ok = false
		}
		at = ev[1]
	}
	if !ok || at != fin {
		k.Violation("finalize-event:do-not-chain-to-the-stored-height:"+step, "the EventBlockFinalize messages of the step do not lead, raise by raise, from the previous finalized height to the stored one", wit)
	}
	if fin > m.fin {
		k.Count("finality_raises_during_sync", len(chain))
		m.fin = fin
	}
	_, precommitted, _ := n.Heights()
	if fin < precommitted {
		wit["precommitted"] = precommitted
		k.Violation("finalized-height:below-precommitted:"+step, "after the step the stored finalized height is below the chain's precommitted height", wit)
	}
	m.record()
}

var ipCounter atomic.Int32

func listen(shard int) []string {
	n := ipCounter.Add(1)
	return []string{fmt.Sprintf("/ip4/127.%d.%d.%d/tcp/0", 40+shard, n/250, 1+n%250)}
}

func plain(n *node.Node, r *rand.Rand) (*blockchain.Block, error) {
	o := n.RandomOpts(r)
	if o.Directive != nil {
		o.Directive.Change = nil
	}
	for try := 0; try < 10; try++ {
		b, err := n.NextBlock(o)
		if err != node.ErrWouldContradict {
			return b, err
		}
		o.SlotsAhead++
	}
	return nil, fmt.Errorf("no slot")
}

// syncHistory: the node receives, from a real peer over loopback libp2p, the tip of a better
// chain and catches up through Executer.process (fast sync or block sync); finality advances
// while the sync applies the downloaded blocks.
func syncHistory(k *mon.Case, shard int) {
	r := k.R
	nv := 3 + r.Intn(3)
	base := node.Config{Genesis: node.EqualGenesis(nv), Universe: nv, BatchSize: nv, MaxBlockCache: 50}
	cfgA := base
	cfgA.P2PAddresses = listen(shard)
	a, err := node.New(cfgA)
	if err != nil {
		k.Inconclusive("node-init:" + err.Error())
		return
	}
	defer a.Close()
	cfgB := base
	cfgB.GenesisTimestamp = a.Cfg.GenesisTimestamp
	cfgB.P2PAddresses = listen(shard)
	b, err := node.New(cfgB)
	if err != nil {
		k.Inconclusive("node-init:" + err.Error())
		return
	}
	defer b.Close()
	prefix := r.Intn(20)
	for i := 0; i < prefix; i++ {
		blk, err := plain(a, r)
		if err != nil || a.Apply(blk) != nil || b.Apply(node.CloneBlock(blk)) != nil {
			k.Inconclusive("build-prefix")
			return
		}
	}
	b.GenHist = map[string]uint32{}
	for key, v := range a.GenHist {
		b.GenHist[key] = v
	}
	m := newMonitor(k, a)
	forkA := 0
	if r.Intn(2) == 0 {
		forkA = 1 + r.Intn(2)
	}
	for i := 0; i < forkA; i++ {
		blk, err := plain(a, r)
		if err != nil || a.Apply(blk) != nil {
			k.Inconclusive("build-fork-a")
			return
		}
		m.after("apply", true, nil)
	}
	if a.Finalized() > uint32(prefix) {
		k.Inconclusive("own-fork-finalized")
		return
	}
	ahead := forkA + 1 + r.Intn(2*nv-forkA)
	if r.Intn(3) == 0 {
		ahead = 2*nv + 2 + r.Intn(3*nv) // beyond two rounds: block sync
	}
	for i := 0; i < ahead; i++ {
		blk, err := plain(b, r)
		if err != nil || b.Apply(blk) != nil {
			k.Inconclusive("build-fork-b")
			return
		}
	}
	addrs, err := b.Conn.MultiAddress()
	if err != nil || len(addrs) == 0 {
		k.Inconclusive("peer-setup")
		return
	}
	remote, err := p2p.AddrInfoFromMultiAddr(addrs[0])
	if err != nil {
		k.Inconclusive("peer-setup")
		return
	}
	ctx, cancel := context.WithTimeout(context.Background(), 20*time.Second)
	err = a.Conn.Connect(ctx, *remote)
	cancel()
	if err != nil {
		k.Inconclusive("connect:" + err.Error())
		return
	}
	finBefore := a.Finalized()
	for round := 0; round < 3 && !bytes.Equal(a.Tip().Header.ID, b.Tip().Header.ID); round++ {
		if round > 0 {
			nb, err := plain(b, r)
			if err != nil || b.Apply(nb) != nil {
				break
			}
		}
		pctx, pcancel := context.WithTimeout(context.Background(), 45*time.Second)
		perr := a.Exec.VerifProcess(pctx, node.CloneBlock(b.Tip()), remote.ID)
		pcancel()
		m.afterSync("sync", map[string]any{"prefix": prefix, "fork_a": forkA, "ahead_b": ahead, "validators": nv, "process_error": fmt.Sprint(perr), "a_tip": a.Tip().Header.Height, "b_tip": b.Tip().Header.Height})
	}
	if bytes.Equal(a.Tip().Header.ID, b.Tip().Header.ID) {
		k.Count("syncs_converged", 1)
		if a.Finalized() > finBefore {
			k.Nontrivial(fmt.Sprintf("sync|forkA%d|fast%v|raised%d", forkA, ahead <= 2*nv, (a.Finalized()-finBefore+2)/3))
		}
	} else {
		k.Count("syncs_not_converged_not_judged_here", 1)
	}
	// a few more blocks of its own afterwards
	for i := 0; i < r.Intn(4); i++ {
		blk, err := plain(a, r)
		if err != nil || a.Apply(blk) != nil {
			break
		}
		m.after("apply", true, nil)
	}
	k.Sample(map[string]any{"validators": nv, "prefix": prefix, "fork_a": forkA, "ahead_b": ahead, "finalized_before": finBefore, "finalized_after": a.Finalized()})
}

func main() {
	mon.Main(mon.Options{
		Property: "C04", Level: "exploration",
		Rule: "random single-node histories on a real Chain+Executer (valid blocks with txs/assets/events/validator changes, siblings of the tip delivered through Executer.process incl. double forging and a real tie-break in the current wall-clock slot, invalid blocks, delete requests at/below/above the finalized height, runs of deletes followed by another branch, restarts; stream sync: catching up with a real peer through fast sync / block sync while finality advances); a monitor re-reads the finalized height, every block ever seen at a finalized height, and the EventBlockFinalize log after every step; non-trivial+distinct = history in which finality advanced, keyed by (finality reached, siblings, deletes, refused finalized deletes, invalid blocks, restarts)",
		Assumptions: []string{
			"stream sync: an honest peer over loopback libp2p (real fast sync / block sync through Executer.process); peers serving invalid segments are exercised by the C19 network worker, which re-reads the finalized blocks too",
			"single delete requests below the tip use the real stored block of that height (the engine's callers only ever pass the tip)",
		},
	}, func(c *mon.Ctx) {
		c.Cases("history", c.N(1200, 20000), func(k *mon.Case) { history(k, false) })
		c.Cases("tiebreak", c.N(160, 2000), func(k *mon.Case) { history(k, true) })
		c.Cases("sync", c.N(96, 1600), func(k *mon.Case) {
			k.Watch("sync", 240*time.Second, func() { syncHistory(k, c.Shard()) })
		})
	})
}
