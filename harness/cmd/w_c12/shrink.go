package main

// Witness minimisation: greedy chunk removal (ddmin style) over the op list, the initial
// contents and the views, keeping a candidate only if it still yields a finding with the
// SAME key.  Bounded by a run budget; purely a presentation aid (the verdict is the
// original case's).

func shrinkList[T any](xs []T, ok func([]T) bool, budget *int) []T {
	for chunk := (len(xs) + 1) / 2; chunk >= 1; {
		removed := false
		for i := 0; i < len(xs); {
			if *budget <= 0 {
				return xs
			}
			end := i + chunk
			if end > len(xs) {
				end = len(xs)
			}
			cand := append(append([]T{}, xs[:i]...), xs[end:]...)
			*budget--
			if ok(cand) {
				xs, removed = cand, true
			} else {
				i += chunk
			}
		}
		if chunk == 1 {
			if !removed {
				break
			}
			continue
		}
		chunk /= 2
	}
	return xs
}

func hasKey(fs []finding, key string) *finding {
	for i := range fs {
		if fs[i].Key == key {
			return &fs[i]
		}
	}
	return nil
}

func shrinkProgram(p *program, key string) (*program, *finding, int) {
	budget := 1500
	start := budget
	cur := p.clone()
	try := func(q *program) bool {
		if hasKey(run(q, nil), key) != nil {
			cur = q
			return true
		}
		return false
	}
	pass := func() {
		shrinkList(cur.Ops, func(ops []op) bool { q := cur.clone(); q.Ops = ops; return try(q) }, &budget)
		shrinkList(cur.Init, func(in []kvp) bool { q := cur.clone(); q.Init = in; return try(q) }, &budget)
		shrinkList(cur.Views, func(vs []viewSpec) bool { q := cur.clone(); q.Views = vs; return try(q) }, &budget)
	}
	pass()
	// make key picks concrete, then simplify the knobs
	rs := newStats()
	rs.resolved, rs.resolvedView = map[int][]byte{}, map[int]int{}
	run(cur, rs)
	q := cur.clone()
	for i := range q.Ops {
		if k, ok := rs.resolved[i]; ok {
			q.Ops[i].Key, q.Ops[i].Pick = k, 0
		}
		if v, ok := rs.resolvedView[i]; ok {
			q.Ops[i].View = v
		}
	}
	if q.CommitView >= 8 {
		q.CommitView %= 8
	}
	try(q)
	for _, f := range []func(q *program){
		func(q *program) { q.Reader = false },
		func(q *program) { q.BatchDB = false },
		func(q *program) { q.CommitView = 0 },
		func(q *program) { q.RootPrefix = hx{} },
	} {
		q := cur.clone()
		f(q)
		budget--
		try(q)
	}
	for i := range cur.Ops {
		if budget <= 0 {
			break
		}
		q := cur.clone()
		if len(q.Ops[i].Val) > 0 {
			q.Ops[i].Val = hx{}
			budget--
			try(q)
		}
	}
	for i := range cur.Init {
		if budget <= 0 {
			break
		}
		if len(cur.Init[i].V) > 0 {
			q := cur.clone()
			q.Init[i].V = hx{}
			budget--
			try(q)
		}
	}
	pass()
	return cur, hasKey(run(cur, nil), key), start - budget
}

func shrinkDBProgram(p *dbProgram, key string) (*dbProgram, *finding, int) {
	budget := 800
	start := budget
	cur := &dbProgram{Init: append([]kvp(nil), p.Init...), Ops: append([]dbOp(nil), p.Ops...)}
	try := func(q *dbProgram) bool {
		if hasKey(runDB(q, nil), key) != nil {
			cur = q
			return true
		}
		return false
	}
	for pass := 0; pass < 2; pass++ {
		shrinkList(cur.Ops, func(ops []dbOp) bool { return try(&dbProgram{Init: cur.Init, Ops: ops}) }, &budget)
		shrinkList(cur.Init, func(in []kvp) bool { return try(&dbProgram{Init: in, Ops: cur.Ops}) }, &budget)
	}
	return cur, hasKey(runDB(cur, nil), key), start - budget
}
