package main

import (
	"bytes"
	"fmt"
	"math/rand"

	"github.com/LiskHQ/lisk-engine/pkg/db"
	"github.com/LiskHQ/lisk-engine/pkg/db/batchdb"

	"verifharness/internal/kvmodel"
)

// The database's own scans: db.DB and db.Reader Get/Exist/Iterate/IterateKey/IterateRange,
// db.Batch + Write, batchdb with a prefix.

type dbEntry struct {
	Del bool `json:"del,omitempty"`
	K   hx   `json:"k"`
	V   hx   `json:"v,omitempty"`
}

type dbOp struct {
	K       string    `json:"op"` // get exist iterate iteratekey range set del batch newreader
	Reader  bool      `json:"via_reader,omitempty"`
	Key     hx        `json:"key,omitempty"`
	Val     hx        `json:"val,omitempty"`
	Start   hx        `json:"start,omitempty"`
	End     hx        `json:"end,omitempty"`
	Limit   int       `json:"limit"`
	Rev     bool      `json:"rev,omitempty"`
	Entries []dbEntry `json:"entries,omitempty"`
	Prefix  hx        `json:"batchdb_prefix,omitempty"`
	BatchDB bool      `json:"through_batchdb,omitempty"`
}

type dbProgram struct {
	Init []kvp  `json:"initial_db"`
	Ops  []dbOp `json:"ops"`
}

func genDBKey(r *rand.Rand) hx {
	if r.Intn(5) == 0 {
		return bytesN(r, r.Intn(6))
	}
	return genKey(r)
}

func genDBProgram(r *rand.Rand, maxOps int) *dbProgram {
	p := &dbProgram{}
	for n := r.Intn(25); n > 0; n-- {
		p.Init = append(p.Init, kvp{K: genDBKey(r), V: genVal(r)})
	}
	n := 10 + r.Intn(maxOps-9)
	for i := 0; i < n; i++ {
		o := dbOp{Reader: r.Intn(3) == 0}
		x := r.Intn(100)
		switch {
		case x < 10:
			o.K, o.Key = "get", genDBKey(r)
		case x < 15:
			o.K, o.Key = "exist", genDBKey(r)
		case x < 33:
			o.K, o.Key, o.Limit, o.Rev = "iterate", genPrefix(r), genLimit(r), r.Intn(2) == 0
		case x < 43:
			o.K, o.Key, o.Limit, o.Rev = "iteratekey", genPrefix(r), genLimit(r), r.Intn(2) == 0
		case x < 70:
			o.K, o.Limit, o.Rev = "range", genLimit(r), r.Intn(2) == 0
			o.Start, o.End = genBounds(r)
			if r.Intn(6) == 0 { // equal-length keys, the way the engine uses ranges
				o.Start, o.End = bytesN(r, 2), bytesN(r, 2)
			}
		case x < 82:
			o.K, o.Key, o.Val = "set", genDBKey(r), genVal(r)
		case x < 90:
			o.K, o.Key = "del", genDBKey(r)
		case x < 97:
			o.K, o.BatchDB = "batch", r.Intn(2) == 0
			if o.BatchDB {
				o.Prefix = genPrefix(r)
			}
			for m := 1 + r.Intn(5); m > 0; m-- {
				o.Entries = append(o.Entries, dbEntry{Del: r.Intn(3) == 0, K: genKey(r), V: genVal(r)})
			}
		default:
			o.K = "newreader"
		}
		p.Ops = append(p.Ops, o)
	}
	return p
}

type scanner interface {
	Get(key []byte) ([]byte, bool)
	Exist(key []byte) bool
	Iterate(prefix []byte, limit int, reverse bool) []db.KeyValue
	IterateKey(prefix []byte, limit int, reverse bool) [][]byte
	IterateRange(start, end []byte, limit int, reverse bool) []db.KeyValue
}

func runDB(p *dbProgram, st *stats) (fs []finding) {
	d, err := db.NewInMemoryDB()
	if err != nil {
		panic(err)
	}
	defer d.Close() //nolint:errcheck
	dm := kvmodel.NewMap()
	for _, kv := range p.Init {
		d.Set(kv.K, kv.V)
		dm.Set(kv.K, kv.V)
	}
	rd := d.NewReader()
	defer func() { rd.Close() }()
	rm := dm.Clone()
	report := func(i int, key, what string, detail any) {
		fs = append(fs, finding{Key: key, What: what, Op: i, Detail: detail})
	}
	for i := range p.Ops {
		o := p.Ops[i]
		var h scanner = d
		m := dm
		hname := "db.DB"
		if o.Reader {
			h, m, hname = rd, rm, "db.Reader"
		}
		st.count("dbop_" + o.K)
		switch o.K {
		case "get", "exist":
			ev, eok := m.Get(o.Key)
			var gv []byte
			var gok bool
			if o.K == "get" {
				gv, gok = h.Get(o.Key)
			} else {
				gok, gv = h.Exist(o.Key), ev
			}
			if eok != gok || !bytes.Equal(ev, gv) {
				key := "db." + o.K + ":wrong-answer"
				report(i, key, hname+" point read differs from the contents", map[string]any{"handle": hname, "key": o.Key, "model": fmt.Sprintf("%x %v", ev, eok), "got": fmt.Sprintf("%x %v", gv, gok)})
			}
		case "iterate", "iteratekey", "range":
			c := &listCheck{limit: o.Limit, rev: o.Rev, classify: func(k []byte) string {
				if m.Has(k) {
					return "outside"
				}
				return "nonexistent"
			}}
			var got []kvmodel.KV
			var name string
			var pk, pm string
			switch o.K {
			case "iterate":
				name = "db.Iterate"
				c.exp, c.full = m.Prefix(o.Key, o.Limit, o.Rev), m.Prefix(o.Key, -1, o.Rev)
				pk, pm = guard(func() { got = fromDB(h.Iterate(o.Key, o.Limit, o.Rev)) })
				c.unlimited = func() (u []kvmodel.KV) {
					guard(func() { u = fromDB(h.Iterate(o.Key, -1, o.Rev)) })
					return u
				}
			case "iteratekey":
				name = "db.IterateKey"
				c.keysOnly = true
				c.exp, c.full = m.Prefix(o.Key, o.Limit, o.Rev), m.Prefix(o.Key, -1, o.Rev)
				pk, pm = guard(func() { got = fromKeys(h.IterateKey(o.Key, o.Limit, o.Rev)) })
				c.unlimited = func() (u []kvmodel.KV) {
					guard(func() { u = fromKeys(h.IterateKey(o.Key, -1, o.Rev)) })
					return u
				}
			default:
				name = "db.IterateRange:dir=" + dirName(o.Rev)
				c.isRange, c.end, c.fullEnd = true, o.End, o.End
				c.exp, c.full = m.Range(o.Start, o.End, o.Limit, o.Rev), m.Range(o.Start, o.End, -1, o.Rev)
				pk, pm = guard(func() { got = fromDB(h.IterateRange(o.Start, o.End, o.Limit, o.Rev)) })
				c.unlimited = func() (u []kvmodel.KV) {
					guard(func() { u = fromDB(h.IterateRange(o.Start, o.End, -1, o.Rev)) })
					return u
				}
				if o.Rev && allFF(o.End) {
					st.feat("rev-end-ff")
				}
				if o.Rev {
					for _, kv := range m.Prefix(o.End, -1, false) {
						if len(kv.Key) > len(o.End) && bytes.Compare(kv.Key, o.Start) >= 0 {
							st.feat("rev-key-extends-end")
						}
					}
				}
				if len(o.Start) == len(o.End) {
					st.feat("equal-length-bounds")
				}
				if bytes.Compare(o.Start, o.End) > 0 {
					st.feat("inverted-bounds")
				}
			}
			st.count("dbscan_" + dirName(o.Rev))
			st.add("dbscan_keys_expected", len(c.exp))
			if o.Limit >= 0 && len(c.full) > o.Limit {
				st.count("dbscan_limit_cuts")
				st.feat("limit-cuts")
			}
			det := map[string]any{"handle": hname, "model": showKVs(c.exp), "got": showKVs(got)}
			note := ""
			if o.K == "range" && pk == "" {
				// forward and reverse over the same bounds must be the same set
				var f, r []kvmodel.KV
				guard(func() {
					f = fromDB(h.IterateRange(o.Start, o.End, -1, false))
					r = fromDB(h.IterateRange(o.Start, o.End, -1, true))
				})
				if !sameKeySet(f, r) {
					st.count("dbrange_forward_and_reverse_disagree")
					note = " (forward and reverse scans over these bounds return different key sets)"
					det["forward_unlimited"], det["reverse_unlimited"] = showKVs(f), showKVs(r)
				}
			}
			sym := ""
			if pk == "" {
				sym = compareList(c, got)
			}
			switch {
			case pk != "":
				report(i, name+":panic:"+pk, name+" panicked: "+pm, det)
			case sym == "too-many-keys:limit0":
				st.feat("limit0")
				report(i, "db.scan:limit0-returns-one-key", "a database scan with limit 0 returns one key, while the staged store returns none for the same call (limit semantics differ between the two layers)", det)
			case sym != "":
				report(i, name+":"+sym, name+" does not return exactly the keys inside the bounds, in order"+note, det)
			}
		case "set":
			d.Set(o.Key, o.Val)
			dm.Set(o.Key, o.Val)
		case "del":
			d.Del(o.Key)
			dm.Del(o.Key)
		case "batch":
			b := d.NewBatch()
			var bd *batchdb.Database
			if o.BatchDB {
				bd = batchdb.NewWithPrefix(d, b, o.Prefix)
			}
			pending := dm.Clone()
			for _, e := range o.Entries {
				fk := []byte(e.K)
				if bd != nil {
					fk = join(o.Prefix, e.K)
					// batchdb reads come from the database, not from the batch
					ev, eok := dm.Get(fk)
					gv, gok := bd.Get(e.K)
					if eok != gok || !bytes.Equal(ev, gv) {
						report(i, "batchdb.Get:differs-from-database", "batchdb.Get through a prefix differs from the underlying database", map[string]any{"prefix": o.Prefix, "key": e.K})
					}
					if e.Del {
						bd.Del(e.K)
					} else {
						bd.Set(e.K, e.V)
					}
				} else if e.Del {
					b.Del(fk)
				} else {
					b.Set(fk, e.V)
				}
				if e.Del {
					pending.Del(fk)
				} else {
					pending.Set(fk, e.V)
				}
			}
			if df := dump(d).Diff(dm, 3); len(df) > 0 {
				report(i, "db.Batch:visible-before-write", "batch contents are visible in the database before Write", showDiffs(df, "db", "model"))
			}
			d.Write(b)
			dm = pending
			if actual := dump(d); !actual.Equal(pending) {
				name := "db.Batch"
				if bd != nil {
					name = "batchdb"
				}
				report(i, name+":database-after-write-differs-from-batched-operations", "after Write the database is not the previous contents with the batched Set/Del applied in order", map[string]any{"batchdb_prefix": o.Prefix, "differences": showDiffs(actual.Diff(pending, 4), "db", "model")})
				dm = actual // resynchronise so that one wrong write is reported once
			}
		case "newreader":
			rd.Close()
			rd = d.NewReader()
			rm = dm.Clone()
		}
		if !rm.Equal(dm) {
			st.feat("reader-behind-database")
		}
	}
	if df := dump(d).Diff(dm, 4); len(df) > 0 {
		report(-1, "db:contents-differ-from-model-after-writes", "database contents after Set/Del/Batch+Write differ from the model", showDiffs(df, "db", "model"))
	}
	return fs
}
