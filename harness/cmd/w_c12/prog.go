package main

import (
	"encoding/hex"
	"encoding/json"
	"math/rand"
)

// hx is a byte string that prints as hex in witnesses.
type hx []byte

func (h hx) MarshalJSON() ([]byte, error) { return json.Marshal(hex.EncodeToString(h)) }
func (h *hx) UnmarshalJSON(b []byte) error {
	var s string
	if err := json.Unmarshal(b, &s); err != nil {
		return err
	}
	d, err := hex.DecodeString(s)
	*h = d
	return err
}

type kvp struct {
	K hx `json:"k"`
	V hx `json:"v"`
}

// viewSpec: a view created up front.  Parent -1 is the root store (diffdb.New), otherwise
// the index of an earlier view; Prefix is what is passed to WithPrefix.
type viewSpec struct {
	Parent int `json:"parent"`
	Prefix hx  `json:"prefix"`
}

// op is one step of a staged-store program.  Views and snapshots are addressed by
// selectors (index modulo the number of live views / live snapshots of the view) so that
// a program stays executable when ops are removed by the shrinker.
type op struct {
	K     string `json:"op"` // set del get has range iterate snapshot restore delsnap newview
	View  int    `json:"view"`
	Key   hx     `json:"key,omitempty"`
	Pick  int    `json:"pick,omitempty"` // >0: use the (Pick-1 mod n)-th key visible in the view instead of Key (if any)
	Val   hx     `json:"val,omitempty"`
	Start hx     `json:"start,omitempty"`
	End   hx     `json:"end,omitempty"`
	Limit int    `json:"limit"`
	Rev   bool   `json:"rev,omitempty"`
	Snap  int    `json:"snap,omitempty"`
	// restore: views derived (WithPrefix) from the restored view afterwards, as the state
	// machine does with GetStore; newview: Prefixes[0] is derived from view View.
	Prefixes []hx `json:"prefixes,omitempty"`
	// restore: do not read the whole state back through every view afterwards
	Quiet bool `json:"quiet,omitempty"`
}

type program struct {
	RootPrefix hx         `json:"root_prefix"`
	Reader     bool       `json:"store_is_reader"` // diffdb reads from db.Reader instead of db.DB
	Init       []kvp      `json:"initial_db"`
	Views      []viewSpec `json:"views"`
	Ops        []op       `json:"ops"`
	CommitView int        `json:"commit_view"`
	BatchDB    bool       `json:"commit_through_batchdb"`
}

func (p *program) clone() *program {
	q := *p
	q.Init = append([]kvp(nil), p.Init...)
	q.Views = append([]viewSpec(nil), p.Views...)
	q.Ops = append([]op(nil), p.Ops...)
	return &q
}

// ---------------------------------------------------------------------------------------
// generators: keys of length 0-4 over {a,b,c} plus 0x00 / 0xff, so that equal keys, keys
// that are prefixes of each other and ties at the bounds are the norm.

func sym(r *rand.Rand) byte {
	switch x := r.Intn(100); {
	case x < 28:
		return 'a'
	case x < 56:
		return 'b'
	case x < 84:
		return 'c'
	case x < 92:
		return 0x00
	default:
		return 0xff
	}
}

func bytesN(r *rand.Rand, n int) hx {
	b := make(hx, n)
	for i := range b {
		b[i] = sym(r)
	}
	return b
}

func genKey(r *rand.Rand) hx {
	x := r.Intn(100)
	n := 4
	switch {
	case x < 10:
		n = 0
	case x < 35:
		n = 1
	case x < 65:
		n = 2
	case x < 85:
		n = 3
	}
	return bytesN(r, n)
}

func genPrefix(r *rand.Rand) hx {
	x := r.Intn(100)
	n := 2
	switch {
	case x < 25:
		n = 0
	case x < 70:
		n = 1
	}
	return bytesN(r, n)
}

func genVal(r *rand.Rand) hx {
	// empty values are common; short values from a tiny alphabet so "set to the same
	// value" happens
	x := r.Intn(100)
	switch {
	case x < 30:
		return hx{}
	case x < 70:
		return hx{byte('0' + r.Intn(3))}
	default:
		return hx{byte('0' + r.Intn(3)), byte('0' + r.Intn(3))}
	}
}

func genLimit(r *rand.Rand) int {
	x := r.Intn(100)
	switch {
	case x < 35:
		return -1
	case x < 43:
		return 0
	case x < 68:
		return 1
	default:
		return 2 + r.Intn(4)
	}
}

func genBounds(r *rand.Rand) (hx, hx) {
	x := r.Intn(100)
	switch {
	case x < 20:
		return hx{}, hx{0xff, 0xff, 0xff, 0xff}
	case x < 30:
		k := genKey(r)
		return k, append(hx(nil), k...)
	case x < 40:
		// fixed-length big-endian style bounds as the engine uses them
		return hx{0, 0}, hx{byte(r.Intn(2)) * 0xff, sym(r)}
	}
	return genKey(r), genKey(r)
}

func genProgram(r *rand.Rand, maxOps int) *program {
	p := &program{}
	if r.Intn(100) < 60 {
		p.RootPrefix = bytesN(r, 1+r.Intn(2))
	} else {
		p.RootPrefix = hx{}
	}
	p.Reader = r.Intn(4) == 0
	p.BatchDB = r.Intn(3) == 0
	nv := 2 + r.Intn(2) // + root = 3-4 views
	full := []hx{p.RootPrefix}
	for i := 0; i < nv; i++ {
		parent := r.Intn(len(full)) - 1 // -1 root, else an earlier view: nested and sibling views
		vs := viewSpec{Parent: parent, Prefix: genPrefix(r)}
		if i == 0 && r.Intn(3) == 0 {
			vs.Prefix = hx{} // an empty-prefix view of the root
		}
		p.Views = append(p.Views, vs)
		base := full[0]
		if parent >= 0 {
			base = full[parent+1]
		}
		full = append(full, append(append(hx(nil), base...), vs.Prefix...))
	}
	ni := r.Intn(31)
	for i := 0; i < ni; i++ {
		var k hx
		if r.Intn(100) < 75 {
			k = append(append(hx(nil), full[r.Intn(len(full))]...), genKey(r)...)
		} else {
			k = bytesN(r, r.Intn(7)) // anywhere, also outside the root prefix
		}
		p.Init = append(p.Init, kvp{K: k, V: genVal(r)})
	}
	n := 20 + r.Intn(maxOps-19)
	for i := 0; i < n; i++ {
		o := op{View: r.Intn(8)}
		x := r.Intn(100)
		pickKey := func(pPick int) {
			o.Key = genKey(r)
			if r.Intn(100) < pPick {
				o.Pick = 1 + r.Intn(16)
			} else if r.Intn(100) < 25 {
				o.Pick = -1 - r.Intn(16)
			}
		}
		switch {
		case x < 22:
			o.K = "set"
			pickKey(35)
			o.Val = genVal(r)
		case x < 37:
			o.K = "del"
			pickKey(65)
		case x < 46:
			o.K = "get"
			pickKey(40)
		case x < 50:
			o.K = "has"
			pickKey(40)
		case x < 68:
			o.K = "range"
			o.Start, o.End = genBounds(r)
			o.Limit, o.Rev = genLimit(r), r.Intn(2) == 0
		case x < 84:
			o.K = "iterate"
			o.Key = genPrefix(r)
			o.Limit, o.Rev = genLimit(r), r.Intn(2) == 0
		case x < 90:
			o.K = "snapshot"
		case x < 94:
			o.K = "restore"
			o.Snap = r.Intn(4)
			if r.Intn(100) < 70 {
				o.View = 0 // mostly on the root store, as the state machine does
			}
			for j := 1 + r.Intn(2); j > 0; j-- {
				o.Prefixes = append(o.Prefixes, genPrefix(r))
			}
			o.Quiet = r.Intn(3) == 0
		case x < 96:
			o.K = "delsnap"
			o.Snap = r.Intn(4)
		default:
			o.K = "newview"
			o.Prefixes = []hx{genPrefix(r)}
		}
		p.Ops = append(p.Ops, o)
	}
	p.CommitView = r.Intn(8)
	return p
}

// genUndoProgram: the staged store is driven through "change, snapshot, change back,
// restore" shapes and then scanned with small limits: delete database keys, snapshot,
// write them again (or the other way round), restore, limited scans from both ends.
func genUndoProgram(r *rand.Rand) *program {
	p := genProgram(r, 24)
	p.Ops = nil
	nv := len(p.Views) + 1
	view := r.Intn(nv)
	if r.Intn(2) == 0 {
		view = 0
	}
	var ops []op
	bulk := func(kind string, n int) {
		for j := 0; j < n; j++ {
			o := op{K: kind, View: view, Key: genKey(r), Pick: -1 - r.Intn(16)}
			if r.Intn(5) == 0 {
				o.Pick = 1 + r.Intn(16)
			}
			if kind == "set" {
				o.Val = genVal(r)
			}
			ops = append(ops, o)
		}
	}
	scans := func(n int) {
		for j := 0; j < n; j++ {
			o := op{View: view, Limit: 1 + r.Intn(4), Rev: r.Intn(2) == 0}
			if r.Intn(2) == 0 {
				o.K = "range"
				o.Start, o.End = hx{}, hx{0xff, 0xff, 0xff, 0xff}
				if r.Intn(3) == 0 {
					o.Start, o.End = genBounds(r)
				}
			} else {
				o.K = "iterate"
				o.Key = hx{}
				if r.Intn(3) == 0 {
					o.Key = genPrefix(r)
				}
			}
			if r.Intn(4) == 0 {
				o.View = r.Intn(nv)
			}
			ops = append(ops, o)
		}
	}
	rounds := 1 + r.Intn(3)
	for q := 0; q < rounds; q++ {
		first, second := "del", "set"
		if r.Intn(3) == 0 {
			first, second = "set", "del"
		}
		bulk(first, 1+r.Intn(5))
		ops = append(ops, op{K: "snapshot", View: view})
		if r.Intn(3) == 0 {
			scans(1)
		}
		bulk(second, 1+r.Intn(6))
		if r.Intn(3) == 0 {
			bulk(first, 1+r.Intn(3))
		}
		ro := op{K: "restore", View: view, Snap: 0, Quiet: r.Intn(4) != 0}
		if r.Intn(2) == 0 {
			ro.Prefixes = []hx{genPrefix(r)}
		}
		ops = append(ops, ro)
		scans(2 + r.Intn(4))
	}
	p.Ops = ops
	p.CommitView = r.Intn(8)
	return p
}
