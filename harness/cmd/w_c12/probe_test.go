package main

import (
	"fmt"
	"testing"
	"time"

	"github.com/LiskHQ/lisk-engine/pkg/db"
	"github.com/LiskHQ/lisk-engine/pkg/db/diffdb"
)

func TestProbe(t *testing.T) {
	d, _ := db.NewInMemoryDB()
	d.Set([]byte{}, []byte("empty"))
	d.Set([]byte("a"), []byte("A"))
	d.Set([]byte("ab"), []byte("AB"))
	d.Set([]byte("\xff"), []byte("FF"))
	v, ok := d.Get([]byte{})
	fmt.Printf("empty key: %q %v\n", v, ok)
	p := func(name string, kvs []db.KeyValue) {
		fmt.Printf("%s:", name)
		for _, kv := range kvs {
			fmt.Printf(" %q=%q", kv.Key(), kv.Value())
		}
		fmt.Println()
	}
	p("range ''..a fwd", d.IterateRange([]byte{}, []byte("a"), -1, false))
	p("range ''..a rev", d.IterateRange([]byte{}, []byte("a"), -1, true))
	p("range ''..ff fwd", d.IterateRange([]byte{}, []byte("\xff"), -1, false))
	p("range ''..ff rev", d.IterateRange([]byte{}, []byte("\xff"), -1, true))
	p("range ''..'' rev", d.IterateRange([]byte{}, []byte{}, -1, true))
	p("range lim0 fwd", d.IterateRange([]byte{}, []byte("\xff"), 0, false))
	p("iter '' ", d.Iterate([]byte{}, -1, false))
	p("iter nil lim0", d.Iterate(nil, 0, false))
	p("iter ff", d.Iterate([]byte("\xff"), -1, true))
	s := diffdb.New(d, []byte("a"))
	p("diffdb iter '' via prefixed", s.Iterate([]byte{}, -1, false))
	p("diffdb iter b via prefixed", s.Iterate([]byte("b"), -1, false))
	st := time.Now()
	for i := 0; i < 200; i++ {
		x, _ := db.NewInMemoryDB()
		x.Set([]byte("k"), nil)
		x.IterateRange(nil, []byte("z"), -1, false)
		if err := x.Close(); err != nil && i == 0 {
			fmt.Println("close err:", err)
		}
	}
	fmt.Println("200 open/close:", time.Since(st))
}
