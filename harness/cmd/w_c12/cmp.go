package main

import (
	"bytes"
	"encoding/hex"
	"fmt"
	"runtime/debug"
	"strings"

	"github.com/LiskHQ/lisk-engine/pkg/db"

	"verifharness/internal/kvmodel"
	"verifharness/internal/mon"
)

// finding is one refuting observation; Key is built from WHAT failed only.
type finding struct {
	Key    string `json:"key"`
	What   string `json:"what"`
	Op     int    `json:"op_index"` // -1: commit phase
	Detail any    `json:"detail,omitempty"`
}

// stats collects monitor-event counters and the features a case reached.
type stats struct {
	counts       map[string]int
	feats        map[string]bool
	checks       int
	resolved     map[int][]byte // op index -> key a Pick resolved to (for witness minimisation)
	resolvedView map[int]int
}

func newStats() *stats { return &stats{counts: map[string]int{}, feats: map[string]bool{}} }
func (s *stats) count(name string) {
	if s != nil {
		s.counts[name]++
	}
}
func (s *stats) add(name string, n int) {
	if s != nil {
		s.counts[name] += n
	}
}
func (s *stats) feat(name string) {
	if s != nil {
		s.feats[name] = true
	}
}

// guard runs f and turns a panic into a stable key.
func guard(f func()) (pkey, pmsg string) {
	defer func() {
		if r := recover(); r != nil {
			pkey = mon.PanicKey(r, string(debug.Stack()))
			pmsg = fmt.Sprint(r)
		}
	}()
	f()
	return
}

func fromDB(kvs []db.KeyValue) []kvmodel.KV {
	out := make([]kvmodel.KV, len(kvs))
	for i, kv := range kvs {
		out[i] = kvmodel.KV{Key: kv.Key(), Value: kv.Value()}
	}
	return out
}

func fromKeys(ks [][]byte) []kvmodel.KV {
	out := make([]kvmodel.KV, len(ks))
	for i, k := range ks {
		out[i] = kvmodel.KV{Key: k}
	}
	return out
}

func showKVs(kvs []kvmodel.KV) []string {
	out := make([]string, len(kvs))
	for i, kv := range kvs {
		out[i] = hex.EncodeToString(kv.Key) + "=" + hex.EncodeToString(kv.Value)
	}
	return out
}

func allFF(b []byte) bool {
	for _, c := range b {
		if c != 0xff {
			return false
		}
	}
	return true // also the empty string: neither has a "next prefix"
}

func dirName(rev bool) string {
	if rev {
		return "rev"
	}
	return "fwd"
}

// listCheck describes one scan and what the model says about it.
type listCheck struct {
	isRange    bool
	end        []byte // range only, view-relative
	fullEnd    []byte // range only, with the view's full prefix
	limit      int
	rev        bool
	keysOnly   bool
	exp        []kvmodel.KV                // model answer
	full       []kvmodel.KV                // model answer without limit (same direction)
	classify   func(viewKey []byte) string // for a key not in full: outside | staged-deleted | nonexistent
	delsInScan bool                        // a database key inside the bounds / under the prefix is staged-deleted
	stagedDels bool                        // some database key is staged-deleted
	unlimited  func() []kvmodel.KV         // re-runs the scan on the implementation with limit -1 (diagnosis only)
}

// compareList returns "" if got is exactly the model answer, else a symptom built from
// what differs (stable, no data in it).
func compareList(c *listCheck, got []kvmodel.KV) string {
	inFull := map[string]bool{}
	for _, kv := range c.full {
		inFull[string(kv.Key)] = true
	}
	for _, kv := range got {
		if inFull[string(kv.Key)] {
			continue
		}
		switch c.classify(kv.Key) {
		case "staged-deleted":
			return "returns-staged-deleted-key"
		case "outside":
			if c.isRange && len(kv.Key) > len(c.end) && bytes.HasPrefix(kv.Key, c.end) {
				return "returns-key-beyond-end:key-extends-end"
			}
		}
		return "returns-key-not-in-scan" // exists elsewhere (outside the bounds/prefix, another view) or nowhere
	}
	for i := 1; i < len(got); i++ {
		cmp := bytes.Compare(got[i-1].Key, got[i].Key)
		if (!c.rev && cmp >= 0) || (c.rev && cmp <= 0) {
			return "wrong-order"
		}
	}
	// minimal differing condition of a short / shifted answer: does the same scan without
	// limit give the right keys (then the limit handling is what fails)?
	tag := func() string {
		if c.limit >= 0 && c.unlimited != nil {
			if u := c.unlimited(); sameKVs(u, c.full) || (c.keysOnly && sameKeySeq(u, c.full)) {
				if c.stagedDels {
					return ":only-with-limit:staged-deletes-present"
				}
				return ":only-with-limit"
			}
		}
		if c.isRange && c.rev && allFF(c.fullEnd) {
			return ":reverse-and-end-is-all-0xff-or-empty"
		}
		return ""
	}
	switch {
	case len(got) < len(c.exp):
		return "missing-or-skipped-keys" + tag()
	case len(got) > len(c.exp):
		if c.limit == 0 {
			return "too-many-keys:limit0"
		}
		return "too-many-keys"
	}
	for i := range got {
		if !bytes.Equal(got[i].Key, c.exp[i].Key) {
			return "missing-or-skipped-keys" + tag()
		}
	}
	if !c.keysOnly {
		for i := range got {
			if !bytes.Equal(got[i].Value, c.exp[i].Value) {
				return "wrong-value"
			}
		}
	}
	return ""
}

func sameKVs(a, b []kvmodel.KV) bool {
	if len(a) != len(b) {
		return false
	}
	for i := range a {
		if !bytes.Equal(a[i].Key, b[i].Key) || !bytes.Equal(a[i].Value, b[i].Value) {
			return false
		}
	}
	return true
}

func sameKeySeq(a, b []kvmodel.KV) bool {
	if len(a) != len(b) {
		return false
	}
	for i := range a {
		if !bytes.Equal(a[i].Key, b[i].Key) {
			return false
		}
	}
	return true
}

func sameKeySet(a, b []kvmodel.KV) bool {
	if len(a) != len(b) {
		return false
	}
	m := map[string]bool{}
	for _, kv := range a {
		m[string(kv.Key)] = true
	}
	for _, kv := range b {
		if !m[string(kv.Key)] {
			return false
		}
	}
	return true
}

func showDiffs(ds []kvmodel.Difference, a, b string) []string {
	var out []string
	for _, d := range ds {
		k := strings.NewReplacer("-a", "-"+a, "-b", "-"+b).Replace(d.Kind)
		out = append(out, fmt.Sprintf("%s key=%x %s=%x %s=%x", k, d.Key, a, d.A, b, d.B))
	}
	return out
}
