package main

// Hand-written minimal programs for the defect candidates of DESIGN.md section 6 items 12
// and 13 (and the two database-scan observations made while building this worker).  They
// run through the same interpreter and oracle as the random programs; each carries the
// finding key it is expected to produce IF the suspected defect is real, and the run
// counts "reproduced" / "not reproduced" so that the hypothesis is confirmed or refuted
// in the evidence.  Nothing here is special-cased in the oracle.

type witnessCase struct {
	Name   string
	Expect string // finding key if the suspected defect is present
	Prog   *program
	DBProg *dbProgram
}

func b(s string) hx { return hx(s) }

func witnesses() []witnessCase {
	return []witnessCase{
		{
			// item 12a: Iterate through a view whose full prefix is non-empty filters the
			// overlay with the un-prefixed prefix: a staged write is invisible
			Name:   "iterate-prefixed-view-misses-staged-write",
			Expect: "diffdb.Iterate:view=prefixed:missing-or-skipped-keys",
			Prog: &program{RootPrefix: b("a"), Ops: []op{
				{K: "set", Key: b("b"), Val: b("1")},
				{K: "iterate", Key: b("b"), Limit: -1},
			}},
		},
		{
			// item 12a': same cause, first read of a stored key comes back with an empty value
			Name:   "iterate-prefixed-view-first-read-empty-value",
			Expect: "diffdb.Iterate:view=prefixed:wrong-value",
			Prog: &program{RootPrefix: b("a"), Init: []kvp{{K: b("ab"), V: b("1")}}, Ops: []op{
				{K: "iterate", Key: b("b"), Limit: -1},
			}},
		},
		{
			// item 12a'': same cause, a key staged through another view that is shorter
			// than this view's prefix makes withPrefix slice out of range
			Name:   "iterate-prefixed-view-panics-on-short-foreign-key",
			Expect: "diffdb.Iterate:view=prefixed:panic:db/diffdb.(*cacheDB).withPrefix:runtime error: slice bounds out of range [N:N]",
			Prog: &program{RootPrefix: hx{}, Views: []viewSpec{{Parent: -1, Prefix: b("ab")}}, Ops: []op{
				{K: "set", View: 0, Key: b("a"), Val: b("1")},
				{K: "iterate", View: 1, Key: b("a"), Limit: -1},
			}},
		},
		{
			// item 12b: limit is given to the store scan before staged-deleted keys are dropped
			Name:   "range-limit-applied-before-staged-deletes-are-filtered",
			Expect: "diffdb.Range:dir=fwd:missing-or-skipped-keys:only-with-limit:staged-deletes-present",
			Prog: &program{RootPrefix: hx{}, Init: []kvp{{K: b("a")}, {K: b("b")}}, Ops: []op{
				{K: "del", Key: b("a")},
				{K: "range", Start: hx{}, End: hx{0xff}, Limit: 1},
			}},
		},
		{
			Name:   "iterate-limit-applied-before-staged-deletes-are-filtered",
			Expect: "diffdb.Iterate:view=unprefixed:missing-or-skipped-keys:only-with-limit:staged-deletes-present",
			Prog: &program{RootPrefix: hx{}, Init: []kvp{{K: b("a")}, {K: b("b")}}, Ops: []op{
				{K: "del", Key: b("a")},
				{K: "iterate", Key: hx{}, Limit: 1},
			}},
		},
		{
			// the engine's own call shape: getBFTParams = Range(0,h,1,reverse) after
			// deleteBFTParams-style deletes (fixed-length keys)
			Name:   "engine-shaped-reverse-limit1-after-delete",
			Expect: "diffdb.Range:dir=rev:missing-or-skipped-keys:only-with-limit:staged-deletes-present",
			Prog: &program{RootPrefix: b("s"), Init: []kvp{{K: hx{'s', 0, 0, 0, 1}, V: b("1")}, {K: hx{'s', 0, 0, 0, 2}, V: b("2")}}, Ops: []op{
				{K: "del", Key: hx{0, 0, 0, 2}},
				{K: "range", Start: hx{0, 0, 0, 0}, End: hx{0, 0, 0, 9}, Limit: 1, Rev: true},
			}},
		},
		{
			// restore brings staged deletions back: a limited scan has to look past them again
			Name:   "limited-scan-after-restore-of-staged-deletions",
			Expect: "",
			Prog: &program{RootPrefix: b("s"), Init: []kvp{{K: b("sa"), V: b("1")}, {K: b("sb"), V: b("2")}, {K: b("sc"), V: b("3")}, {K: b("sd"), V: b("4")}}, Ops: []op{
				{K: "del", Key: b("a")},
				{K: "del", Key: b("b")},
				{K: "snapshot"},
				{K: "set", Key: b("a"), Val: b("x")},
				{K: "set", Key: b("b"), Val: b("y")},
				{K: "restore", Quiet: true},
				{K: "range", Start: hx{}, End: hx{0xff}, Limit: 1},
				{K: "iterate", Key: hx{}, Limit: 2},
			}},
		},
		{
			// item 13: RestoreSnapshot replaces the overlay pointer of one view only
			Name:   "restore-not-seen-by-view-created-before",
			Expect: "RestoreSnapshot:view-created-before-restore:state-differs-from-snapshot",
			Prog: &program{RootPrefix: hx{}, Views: []viewSpec{{Parent: -1, Prefix: b("a")}}, Ops: []op{
				{K: "snapshot", View: 0},
				{K: "set", View: 1, Key: b("x"), Val: b("1")},
				{K: "restore", View: 0},
			}},
		},
		{
			// the shape the state machine uses (restore on the store, views derived afterwards)
			// must be fine: expected NOT to produce a finding
			Name:   "restore-seen-by-same-store-and-views-derived-afterwards",
			Expect: "",
			Prog: &program{RootPrefix: b("s"), Ops: []op{
				{K: "set", Key: b("ak"), Val: b("0")},
				{K: "snapshot", View: 0},
				{K: "set", Key: b("ak"), Val: b("1")},
				{K: "set", Key: b("ax"), Val: b("1")},
				{K: "restore", View: 0, Prefixes: []hx{b("a")}},
				{K: "get", View: 1, Key: b("k")},
			}},
		},
		{
			Name:   "db-reverse-range-returns-keys-extending-end",
			Expect: "db.IterateRange:dir=rev:returns-key-beyond-end:key-extends-end",
			DBProg: &dbProgram{Init: []kvp{{K: b("a")}, {K: b("ab")}}, Ops: []dbOp{
				{K: "range", Start: b("a"), End: b("a"), Limit: -1, Rev: true},
			}},
		},
		{
			// also for equal-length keys: end = 0xffffffff
			Name:   "db-reverse-range-empty-when-end-is-all-0xff",
			Expect: "db.IterateRange:dir=rev:missing-or-skipped-keys:reverse-and-end-is-all-0xff-or-empty",
			DBProg: &dbProgram{Init: []kvp{{K: hx{0, 0, 0, 1}}}, Ops: []dbOp{
				{K: "range", Start: hx{0, 0, 0, 0}, End: hx{0xff, 0xff, 0xff, 0xff}, Limit: -1, Rev: true},
			}},
		},
		{
			Name:   "db-scan-limit0-returns-one-key",
			Expect: "db.scan:limit0-returns-one-key",
			DBProg: &dbProgram{Init: []kvp{{K: b("a")}}, Ops: []dbOp{
				{K: "iterate", Key: hx{}, Limit: 0},
			}},
		},
	}
}
