package main

import (
	"bytes"
	"fmt"
	"sort"

	"github.com/LiskHQ/lisk-engine/pkg/db"
	"github.com/LiskHQ/lisk-engine/pkg/db/batchdb"
	"github.com/LiskHQ/lisk-engine/pkg/db/diffdb"

	"verifharness/internal/kvmodel"
)

var maxKey = bytes.Repeat([]byte{0xff}, 16) // above every key used here

type snapRef struct{ impl, model int }

type liveView struct {
	impl  *diffdb.Database
	model *kvmodel.View
	snaps []snapRef // live snapshots taken through this view
}

func (v *liveView) kind() string {
	if len(v.model.FullPrefix()) == 0 {
		return "unprefixed"
	}
	return "prefixed"
}

// dump reads the whole database through pebble directly (not through the functions under
// test).
func dump(d *db.DB) *kvmodel.Map {
	m := kvmodel.NewMap()
	it := d.VerifPebble().NewIter(nil)
	for it.First(); it.Valid(); it.Next() {
		m.Set(it.Key(), it.Value())
	}
	it.Close()
	return m
}

func join(a, b []byte) []byte {
	out := make([]byte, 0, len(a)+len(b))
	return append(append(out, a...), b...)
}

// run executes a staged-store program against diffdb over an in-memory database and
// against the model, and returns every refuting observation.
func run(p *program, st *stats) (fs []finding) {
	d, err := db.NewInMemoryDB()
	if err != nil {
		panic(err)
	}
	defer d.Close() //nolint:errcheck // reports the iterators that db.IterateRange never closes
	base := kvmodel.NewMap()
	for _, kv := range p.Init {
		d.Set(kv.K, kv.V)
		base.Set(kv.K, kv.V)
	}
	var store diffdb.DatabaseReader = d
	if p.Reader {
		rd := d.NewReader()
		defer rd.Close()
		store = rd
	}
	ms := kvmodel.NewStaged(base)
	views := []*liveView{{impl: diffdb.New(store, p.RootPrefix), model: ms.View(p.RootPrefix)}}
	for _, vs := range p.Views {
		parent := views[0]
		if vs.Parent >= 0 && vs.Parent+1 < len(views) {
			parent = views[vs.Parent+1]
		}
		views = append(views, &liveView{impl: parent.impl.WithPrefix(vs.Prefix), model: parent.model.WithPrefix(vs.Prefix)})
	}
	report := func(i int, key, what string, detail any) {
		fs = append(fs, finding{Key: key, What: what, Op: i, Detail: detail})
	}
	// classification of a view-relative key that a scan returned although the model's
	// unlimited answer does not contain it
	classifier := func(v *liveView) func([]byte) string {
		return func(k []byte) string {
			fk := join(v.model.FullPrefix(), k)
			if ms.Has(fk) {
				return "outside"
			}
			if _, ok := base.Get(fk); ok {
				return "staged-deleted"
			}
			return "nonexistent"
		}
	}
	// is a database key inside [lo,hi] / under prefix pre staged-deleted?
	delsIn := func(in func(k []byte) bool) bool {
		for _, kv := range base.All() {
			if in(kv.Key) && !ms.Has(kv.Key) {
				return true
			}
		}
		return false
	}

	for i := range p.Ops {
		o := p.Ops[i]
		v := views[o.View%len(views)]
		if o.K == "restore" || o.K == "delsnap" {
			// snapshots belong to the view they were taken through: use the next view that has one
			for j := 0; j < len(views); j++ {
				if w := views[(o.View+j)%len(views)]; len(w.snaps) > 0 {
					v = w
					break
				}
			}
		}
		key := []byte(o.Key)
		if o.Pick > 0 {
			if lst := v.model.Prefix(nil, -1, false); len(lst) > 0 {
				key = lst[(o.Pick-1)%len(lst)].Key
			}
		} else if o.Pick < 0 {
			// a key of the underlying database inside this view, whatever its staged state
			// (so keys staged for deletion are written again and deleted twice)
			fp := v.model.FullPrefix()
			var lst [][]byte
			for _, kv := range base.All() {
				if bytes.HasPrefix(kv.Key, fp) {
					lst = append(lst, kv.Key[len(fp):])
				}
			}
			if len(lst) > 0 {
				key = lst[(-o.Pick-1)%len(lst)]
				if !v.model.Has(key) {
					st.count("op_on_staged_deleted_db_key")
				}
			}
		}
		st.count("op_" + o.K)
		if st != nil && st.resolved != nil {
			for j, w := range views {
				if w == v {
					st.resolvedView[i] = j
				}
			}
			if o.Pick != 0 {
				st.resolved[i] = key
			}
		}
		switch o.K {
		case "set":
			if pk, pm := guard(func() { v.impl.Set(key, o.Val) }); pk != "" {
				report(i, "diffdb.Set:panic:"+pk, "Set panicked: "+pm, nil)
			}
			if v.model.Has(key) {
				st.count("set_existing_key")
			} else {
				st.count("set_new_key")
			}
			v.model.Set(key, o.Val)
		case "del":
			if pk, pm := guard(func() { v.impl.Del(key) }); pk != "" {
				report(i, "diffdb.Del:panic:"+pk, "Del panicked: "+pm, nil)
			}
			if v.model.Has(key) {
				st.count("del_existing_key")
			} else {
				st.count("del_absent_key")
			}
			v.model.Del(key)
		case "get", "has":
			ev, eok := v.model.Get(key)
			var gv []byte
			var gok bool
			name := "diffdb.Get"
			pk, pm := guard(func() {
				if o.K == "get" {
					gv, gok = v.impl.Get(key)
				} else {
					name = "diffdb.Has"
					gok = v.impl.Has(key)
					gv = ev
				}
			})
			det := map[string]any{"view_prefix": hx(v.model.FullPrefix()), "key": hx(key), "model": fmt.Sprintf("%x %v", ev, eok), "got": fmt.Sprintf("%x %v", gv, gok)}
			switch {
			case pk != "":
				report(i, name+":panic:"+pk, name+" panicked: "+pm, det)
			case eok && !gok:
				report(i, name+":existing-key-reported-absent", name+" does not find a key that exists in the database with the staged writes applied", det)
			case !eok && gok:
				report(i, name+":absent-key-reported-present", name+" finds a key that does not exist in the database with the staged writes applied", det)
			case !bytes.Equal(ev, gv):
				report(i, name+":wrong-value", name+" returns a value different from the database with the staged writes applied", det)
			}
			if eok {
				st.count("read_hit")
			} else {
				st.count("read_miss")
			}
		case "range", "iterate":
			pre := v.model.FullPrefix()
			c := &listCheck{limit: o.Limit, rev: o.Rev, classify: classifier(v)}
			c.stagedDels = delsIn(func([]byte) bool { return true })
			var got []kvmodel.KV
			var name, what string
			var pk, pm string
			if o.K == "range" {
				name = "diffdb.Range:dir=" + dirName(o.Rev)
				c.isRange, c.end, c.fullEnd = true, o.End, join(pre, o.End)
				c.exp = v.model.Range(o.Start, o.End, o.Limit, o.Rev)
				c.full = v.model.Range(o.Start, o.End, -1, o.Rev)
				lo, hi := join(pre, o.Start), c.fullEnd
				c.delsInScan = delsIn(func(k []byte) bool { return bytes.Compare(k, lo) >= 0 && bytes.Compare(k, hi) <= 0 })
				pk, pm = guard(func() { got = fromDB(v.impl.Range(o.Start, o.End, o.Limit, o.Rev)) })
				c.unlimited = func() (u []kvmodel.KV) {
					guard(func() { u = fromDB(v.impl.Range(o.Start, o.End, -1, o.Rev)) })
					return u
				}
				what = "Range through a view differs from the same range on the database with the staged writes applied"
				if o.Rev {
					if allFF(c.fullEnd) {
						st.feat("rev-end-ff")
					}
					for _, kv := range v.model.Prefix(o.End, -1, false) {
						if len(kv.Key) > len(o.End) && bytes.Compare(kv.Key, o.Start) >= 0 {
							st.feat("rev-key-extends-end")
						}
					}
				}
				if bytes.Compare(o.Start, o.End) > 0 {
					st.feat("inverted-bounds")
				}
			} else {
				name = "diffdb.Iterate:view=" + v.kind()
				c.exp = v.model.Prefix(o.Key, o.Limit, o.Rev)
				c.full = v.model.Prefix(o.Key, -1, o.Rev)
				fp := join(pre, o.Key)
				c.delsInScan = delsIn(func(k []byte) bool { return bytes.HasPrefix(k, fp) })
				pk, pm = guard(func() { got = fromDB(v.impl.Iterate(o.Key, o.Limit, o.Rev)) })
				c.unlimited = func() (u []kvmodel.KV) {
					guard(func() { u = fromDB(v.impl.Iterate(o.Key, -1, o.Rev)) })
					return u
				}
				what = "Iterate through a view differs from the same prefix scan on the database with the staged writes applied"
				if len(pre) > 0 && len(c.full) > 0 {
					st.feat("iterate-prefixed-view-nonempty")
					for _, kv := range c.full {
						bv, ok := base.Get(join(pre, kv.Key))
						if !ok || !bytes.Equal(bv, kv.Value) {
							st.feat("iterate-prefixed-view-sees-staged-write")
						}
					}
				}
			}
			st.count("scan_" + o.K + "_" + dirName(o.Rev))
			switch {
			case o.Limit < 0:
				st.count("scan_unlimited")
			case o.Limit == 0:
				st.count("scan_limit0")
				st.feat("limit0")
			case len(c.full) > o.Limit:
				st.count("scan_limit_cuts")
				st.feat("limit-cuts")
			default:
				st.count("scan_limit_not_reached")
			}
			if c.delsInScan {
				st.count("scan_over_staged_deletes")
				if o.Limit > 0 {
					st.feat("limit-over-staged-deletes")
				}
			}
			st.add("scan_keys_expected", len(c.exp))
			det := map[string]any{"view_prefix": hx(pre), "model": showKVs(c.exp), "got": showKVs(got)}
			if pk != "" {
				report(i, name+":panic:"+pk, o.K+" panicked: "+pm, det)
			} else if sym := compareList(c, got); sym != "" {
				report(i, name+":"+sym, what, det)
			}
		case "snapshot":
			var id int
			if pk, pm := guard(func() { id = v.impl.Snapshot() }); pk != "" {
				report(i, "diffdb.Snapshot:panic:"+pk, "Snapshot panicked: "+pm, nil)
				continue
			}
			v.snaps = append(v.snaps, snapRef{impl: id, model: ms.Snapshot()})
		case "delsnap":
			if len(v.snaps) == 0 {
				st.count("delsnap_none_live")
				continue
			}
			j := o.Snap % len(v.snaps)
			v.impl.DeleteSnapshot(v.snaps[j].impl)
			ms.DeleteSnapshot(v.snaps[j].model)
			v.snaps = append(v.snaps[:j:j], v.snaps[j+1:]...)
		case "newview":
			pf := []byte{}
			if len(o.Prefixes) > 0 {
				pf = o.Prefixes[0]
			}
			if len(views) < 8 {
				views = append(views, &liveView{impl: v.impl.WithPrefix(pf), model: v.model.WithPrefix(pf)})
			}
		case "restore":
			if len(v.snaps) == 0 {
				st.count("restore_none_live")
				continue
			}
			j := o.Snap % len(v.snaps)
			sr := v.snaps[j]
			if len(v.snaps) > 1 {
				st.feat("restore-among-several-snapshots")
			}
			before := ms.State()
			var rerr error
			if pk, pm := guard(func() { rerr = v.impl.RestoreSnapshot(sr.impl) }); pk != "" {
				report(i, "diffdb.RestoreSnapshot:panic:"+pk, "RestoreSnapshot panicked: "+pm, nil)
			}
			if rerr != nil {
				report(i, "RestoreSnapshot:live-snapshot-rejected", "RestoreSnapshot of a snapshot that was taken and neither deleted nor restored returns an error", map[string]any{"error": rerr.Error()})
			}
			ms.Restore(sr.model)
			ms.DeleteSnapshot(sr.model) // diffdb consumes the snapshot; it is never used again here
			v.snaps = append(v.snaps[:j:j], v.snaps[j+1:]...)
			after := ms.State()
			changed := !before.Equal(after)
			if changed {
				st.count("restore_changed_state")
				st.feat("restore-changed-state")
			} else {
				st.count("restore_same_state")
			}
			if o.Quiet {
				// no probe: reading every key through every view loads the whole database into
				// the overlay, which hides whatever the following scans would have had to fetch
				// themselves.  The later ops of the program are the observation.
				st.count("restore_without_probe")
				views = []*liveView{v}
				for _, pf := range o.Prefixes {
					views = append(views, &liveView{impl: v.impl.WithPrefix(pf), model: v.model.WithPrefix(pf)})
				}
				continue
			}
			// every key that is or was there: probe them all through each view
			touched := map[string]bool{}
			for _, m := range []*kvmodel.Map{before, after, base} {
				for _, kv := range m.All() {
					touched[string(kv.Key)] = true
				}
			}
			probe := func(w *liveView) []string {
				var diffs []string
				pre := w.model.FullPrefix()
				var got []kvmodel.KV
				if pk, pm := guard(func() { got = fromDB(w.impl.Range(nil, maxKey, -1, false)) }); pk != "" {
					return []string{"panic " + pm}
				}
				exp := w.model.Range(nil, maxKey, -1, false)
				if !sameKVs(exp, got) {
					diffs = append(diffs, fmt.Sprintf("full forward Range: model %v got %v", showKVs(exp), showKVs(got)))
				}
				var ks []string
				for k := range touched {
					if bytes.HasPrefix([]byte(k), pre) {
						ks = append(ks, k[len(pre):])
					}
				}
				sort.Strings(ks)
				for _, k := range ks {
					ev, eok := w.model.Get([]byte(k))
					gv, gok := w.impl.Get([]byte(k))
					if eok != gok || !bytes.Equal(ev, gv) {
						diffs = append(diffs, fmt.Sprintf("Get %x: model %x %v got %x %v", k, ev, eok, gv, gok))
					}
				}
				if len(diffs) > 4 {
					diffs = diffs[:4]
				}
				return diffs
			}
			// (a) the view that was restored
			if df := probe(v); len(df) > 0 {
				report(i, "RestoreSnapshot:same-view:state-differs-from-snapshot", "after RestoreSnapshot the view it was called on does not show exactly the staged state at the time of the snapshot", map[string]any{"view_prefix": hx(v.model.FullPrefix()), "differences": df})
			}
			// (c) views that existed before the restore (siblings, parents, children of v)
			stale := 0
			for _, w := range views {
				if w == v {
					continue
				}
				stale++
				st.count("restore_other_view_probed")
				if df := probe(w); len(df) > 0 {
					st.count("restore_other_view_differs")
					report(i, "RestoreSnapshot:view-created-before-restore:state-differs-from-snapshot", "after RestoreSnapshot on one view, another view of the same store created before the restore still shows the un-restored staged state", map[string]any{"restored_view_prefix": hx(v.model.FullPrefix()), "other_view_prefix": hx(w.model.FullPrefix()), "differences": df})
				}
			}
			if stale > 0 && changed {
				st.feat("restore-with-other-views-alive")
			}
			// The other views share nothing with v any more in diffdb (separate overlay);
			// the model has ONE staged state.  They were judged above, once; they are not
			// used again so that the rest of the run keeps checking the restored store.
			views = []*liveView{v}
			// (b) views derived from the restored view afterwards (what GetStore does)
			for _, pf := range o.Prefixes {
				w := &liveView{impl: v.impl.WithPrefix(pf), model: v.model.WithPrefix(pf)}
				if df := probe(w); len(df) > 0 {
					report(i, "RestoreSnapshot:view-created-after-restore:state-differs-from-snapshot", "a view derived from the restored store after RestoreSnapshot does not show the staged state at the time of the snapshot", map[string]any{"view_prefix": hx(w.model.FullPrefix()), "differences": df})
				}
				views = append(views, w)
			}
		}
	}

	// ---- commit, and reversal of the diff
	cv := views[p.CommitView%len(views)]
	d0 := dump(d)
	if df := d0.Diff(base, 4); len(df) > 0 {
		report(-1, "staging:database-modified-before-commit", "the database changed while writes were only staged", showDiffs(df, "db", "model"))
	}
	want := ms.State()
	batch := d.NewBatch()
	var w diffdb.DatabaseWriter = batch
	if p.BatchDB {
		w = batchdb.New(d, batch)
	}
	var diff *diffdb.Diff
	if pk, pm := guard(func() { diff = cv.impl.Commit(w) }); pk != "" {
		report(-1, "diffdb.Commit:panic:"+pk, "Commit panicked: "+pm, nil)
		return fs
	}
	d.Write(batch)
	d1 := dump(d)
	if df := d1.Diff(want, 4); len(df) > 0 {
		report(-1, "Commit:database-differs-from-staged-state", "after Commit + Write the database is not the previous database with the staged writes and deletes applied", showDiffs(df, "db", "model"))
	}
	mdiff := ms.Commit()
	st.add("commit_diff_added", len(diff.Added))
	st.add("commit_diff_updated", len(diff.Updated))
	st.add("commit_diff_deleted", len(diff.Deleted))
	if len(mdiff.Added) > 0 && len(mdiff.Updated) > 0 && len(mdiff.Deleted) > 0 {
		st.feat("commit-adds-updates-deletes")
	}
	if len(mdiff.Added)+len(mdiff.Updated)+len(mdiff.Deleted) == 0 {
		st.count("commit_empty")
	}
	// as the engine stores it: Encode, Decode, RevertDiff into a batch, Write
	dec := &diffdb.Diff{}
	if err := dec.Decode(diff.Encode()); err != nil {
		report(-1, "Diff.Decode:error-on-own-encoding", "Diff.Decode rejects Diff.Encode output", err.Error())
	} else {
		b2 := d.NewBatch()
		views[0].impl.RevertDiff(b2, dec)
		d.Write(b2)
		if df := dump(d).Diff(d0, 4); len(df) > 0 {
			report(-1, "RevertDiff(encoded-diff):database-differs-from-pre-commit-contents", "reverting the committed diff (after Encode/Decode, as the engine stores it) does not restore the previous database contents byte for byte", showDiffs(df, "db", "before"))
		}
	}
	// put the committed state back and revert with the in-memory diff
	cur := dump(d)
	b3 := d.NewBatch()
	for _, df := range cur.Diff(d1, 0) {
		if df.Kind == "only-in-a" {
			b3.Del(df.Key)
		} else {
			b3.Set(df.Key, df.B)
		}
	}
	d.Write(b3)
	b4 := d.NewBatch()
	views[0].impl.RevertDiff(b4, diff)
	d.Write(b4)
	if df := dump(d).Diff(d0, 4); len(df) > 0 {
		report(-1, "RevertDiff:database-differs-from-pre-commit-contents", "reverting the diff returned by Commit does not restore the previous database contents byte for byte", showDiffs(df, "db", "before"))
	}
	st.count("commit_checked")
	return fs
}
