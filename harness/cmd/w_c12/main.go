// Worker for property C12: reads through the staged state store (pkg/db/diffdb) equal the
// database with the staged writes applied; snapshot/restore; Commit + diff reversal; the
// database's own range and prefix scans (pkg/db, pkg/db/batchdb).
//
// Model-based differential testing against verifharness/internal/kvmodel.
package main

import (
	"sort"
	"strings"
	"sync"

	"verifharness/internal/mon"
)

var (
	shrunkMu sync.Mutex
	shrunk   = map[string]bool{} // finding keys already minimised in this process
)

func firstTime(key string) bool {
	shrunkMu.Lock()
	defer shrunkMu.Unlock()
	if shrunk[key] {
		return false
	}
	shrunk[key] = true
	return true
}

func flush(k *mon.Case, st *stats, prefix string) {
	for name, n := range st.counts {
		k.Count(name, n)
	}
	if len(st.feats) > 0 {
		var fs []string
		for f := range st.feats {
			fs = append(fs, f)
		}
		sort.Strings(fs)
		k.Nontrivial(prefix + strings.Join(fs, ","))
		for _, f := range fs {
			k.Count("reached_"+f, 1)
		}
	}
}

// distinct keys of fs in first-occurrence order
func distinct(fs []finding) []finding {
	seen := map[string]bool{}
	var out []finding
	for _, f := range fs {
		if !seen[f.Key] {
			seen[f.Key] = true
			out = append(out, f)
		}
	}
	return out
}

func emitStaged(k *mon.Case, p *program, fs []finding) {
	k.Count("findings_total", len(fs))
	for _, f := range distinct(fs) {
		if firstTime(f.Key) {
			q, sf, runs := shrinkProgram(p, f.Key)
			if sf == nil {
				sf = &f
				q = p
			}
			k.Violation(f.Key, f.What, map[string]any{"minimised_program": q, "finding": sf, "original_ops": len(p.Ops), "minimisation_runs": runs})
		} else {
			k.Violation(f.Key, f.What, map[string]any{"finding": f, "ops": len(p.Ops), "note": "replay this case for the full program; a minimised program is attached to the first occurrence"})
		}
	}
}

func emitDB(k *mon.Case, p *dbProgram, fs []finding) {
	k.Count("findings_total", len(fs))
	for _, f := range distinct(fs) {
		if firstTime(f.Key) {
			q, sf, runs := shrinkDBProgram(p, f.Key)
			if sf == nil {
				sf = &f
				q = p
			}
			k.Violation(f.Key, f.What, map[string]any{"minimised_program": q, "finding": sf, "original_ops": len(p.Ops), "minimisation_runs": runs})
		} else {
			k.Violation(f.Key, f.What, map[string]any{"finding": f, "ops": len(p.Ops)})
		}
	}
}

func main() {
	mon.Main(mon.Options{
		Property: "C12",
		Level:    "exploration",
		Rule: "stream staged: random program = initial DB contents + root diffdb store (empty or 1-2 byte prefix, over db.DB or db.Reader) + 2-3 WithPrefix views (nested, sibling, empty prefix) + 20-200 (thorough: up to 400) ops set/del/get/has/range/iterate(fwd,rev,limit -1/0/1/k)/snapshot/restore/delete-snapshot/newview over keys of length 0-4 from {a,b,c,00,ff}, then Commit into a batch (+batchdb) + Write, RevertDiff through Encode/Decode and directly; every read is compared with kvmodel. " +
			"stream undo: directed programs 'delete (or write) database keys, snapshot, write them again (delete them), restore, scans with limit 1-4 from both ends', 1-3 rounds. " +
			"stream db: random contents + 10-120 ops Get/Exist/Iterate/IterateKey/IterateRange on db.DB and db.Reader, Set/Del, Batch/batchdb+Write. " +
			"stream witness: fixed minimal programs for the DESIGN section 6 candidates 12 and 13. " +
			"A case is non-trivial if it reached at least one hard region (limit over staged deletes, reverse range with a key extending end / end all 0xff, iterate through a prefixed view that sees a staged write, restore that changes state with other views alive, commit with adds+updates+deletes, ...); distinct = distinct sets of regions x size buckets.",
		Assumptions: []string{
			"Range(start,end) means bytewise-lexicographic start <= key <= end whatever the key lengths (this is what the forward scan, cacheDB.dataBetween and the engine's fixed-length use implement); a reverse scan that returns a different key set than the forward scan is reported",
			"limit < 0 = no limit; limit >= 0 = at most that many, the first in scan order; limit 0 is judged only as a cross-layer inconsistency (db returns 1 key, diffdb 0)",
			"ONE staged state is shared by all views of a store; after RestoreSnapshot views created before it are judged once (separate key) and then dropped, the run continues on the restored view and views derived from it (as the state machine does)",
			"a snapshot is restored at most once (diffdb consumes it); restoring unknown/deleted ids is not judged",
			"aliasing of returned slices is not judged; a store is not reused after Commit",
			"pebble (in-memory FS) is the trusted base for Get/Set/Batch; the full-DB dump reads pebble directly",
		},
	}, func(c *mon.Ctx) {
		ws := witnesses()
		c.Cases("witness", len(ws), func(k *mon.Case) {
			w := ws[k.Index]
			st := newStats()
			var fs []finding
			if w.Prog != nil {
				fs = run(w.Prog, st)
			} else {
				fs = runDB(w.DBProg, st)
			}
			got := "no-finding"
			if w.Expect != "" && hasKey(fs, w.Expect) != nil {
				got = "reproduced"
			} else if w.Expect == "" && len(fs) == 0 {
				got = "holds-as-expected"
			} else if len(fs) > 0 {
				got = "other-finding"
			}
			k.Count("witness:"+w.Name+":"+got, 1)
			k.Nontrivial(w.Name + ":" + got)
			k.Sample(map[string]any{"witness": w.Name, "expected_key_if_defect_real": w.Expect, "outcome": got, "findings": fs})
			for _, f := range distinct(fs) {
				firstTime(f.Key) // already minimal
				prog := any(w.Prog)
				if w.Prog == nil {
					prog = w.DBProg
				}
				k.Violation(f.Key, f.What, map[string]any{"minimised_program": prog, "finding": f, "hand_written_witness": w.Name})
			}
		})
		maxOps := c.N(200, 200)
		c.Cases("staged", c.N(40000, 800000), func(k *mon.Case) {
			mo := maxOps
			if !c.Quick() && k.Index%4 == 0 {
				mo = 400
			}
			p := genProgram(k.R, mo)
			st := newStats()
			fs := run(p, st)
			k.Count("cases_staged", 1)
			k.Eval(st.counts["op_get"] + st.counts["op_has"] + st.counts["op_range"] + st.counts["op_iterate"] + st.counts["restore_other_view_probed"] + 3)
			flush(k, st, sizeBucket(len(p.Ops), len(p.Views)))
			k.Sample(map[string]any{"ops": len(p.Ops), "views": len(p.Views) + 1, "initial_keys": len(p.Init), "root_prefix": p.RootPrefix, "first_ops": p.Ops[:6], "findings": len(fs)})
			emitStaged(k, p, fs)
		})
		c.Cases("undo", c.N(12000, 240000), func(k *mon.Case) {
			p := genUndoProgram(k.R)
			st := newStats()
			fs := run(p, st)
			k.Count("cases_undo", 1)
			k.Eval(st.counts["op_range"] + st.counts["op_iterate"] + st.counts["restore_other_view_probed"] + 3)
			flush(k, st, "undo:"+sizeBucket(len(p.Ops), len(p.Views)))
			k.Sample(map[string]any{"ops": len(p.Ops), "views": len(p.Views) + 1, "initial_keys": len(p.Init), "root_prefix": p.RootPrefix, "first_ops": p.Ops[:6], "findings": len(fs)})
			emitStaged(k, p, fs)
		})
		c.Cases("db", c.N(30000, 400000), func(k *mon.Case) {
			p := genDBProgram(k.R, 120)
			st := newStats()
			fs := runDB(p, st)
			k.Count("cases_db", 1)
			k.Eval(len(p.Ops))
			flush(k, st, sizeBucket(len(p.Ops), 0))
			k.Sample(map[string]any{"ops": len(p.Ops), "initial_keys": len(p.Init), "first_ops": p.Ops[:4], "findings": len(fs)})
			emitDB(k, p, fs)
		})
	})
}

func sizeBucket(ops, views int) string {
	return "o" + string(rune('0'+ops/50)) + "v" + string(rune('0'+views)) + ":"
}
