// Worker for property C11: regular Merkle tree (LIP-0031) - incremental, batch and proof
// computations agree.
//
// Oracle: internal/ref31 (recursive LIP-0031 definition, validated against the repo's
// non-empty fixtures in the "selfcheck" stream and in its own go test).  Every check below
// is one sentence of the property statement; anything the statement does not demand
// (duplicate query hashes, structural tampering of proofs, append after Update) is counted
// in the evidence, never flagged.
package main

import (
	"bytes"
	"crypto/sha256"
	"encoding/binary"
	"encoding/hex"
	"encoding/json"
	"fmt"
	"os"
	"path/filepath"
	"runtime/debug"
	"sort"
	"strconv"
	"strings"

	"github.com/LiskHQ/lisk-engine/pkg/db"
	"github.com/LiskHQ/lisk-engine/pkg/trie/rmt"

	"verifharness/internal/mon"
	"verifharness/internal/ref31"
)

// ---------------------------------------------------------------------------------------
// storage back ends

type mapDB struct{ m map[string][]byte }

func newMapDB() *mapDB { return &mapDB{m: map[string][]byte{}} }
func (d *mapDB) Get(k []byte) ([]byte, bool) {
	v, ok := d.m[string(k)]
	if !ok {
		return nil, false
	}
	return append([]byte(nil), v...), true
}
func (d *mapDB) Set(k, v []byte) { d.m[string(k)] = append([]byte(nil), v...) }
func (d *mapDB) Del(k []byte)    { delete(d.m, string(k)) }

func newStore(pebble bool) rmt.Database {
	if pebble {
		s, err := db.NewInMemoryDB()
		if err != nil {
			panic(err)
		}
		return s
	}
	return newMapDB()
}

func closeStore(s rmt.Database) {
	if p, ok := s.(*db.DB); ok {
		p.Close()
	}
}

// ---------------------------------------------------------------------------------------
// helpers

func cp(b []byte) []byte { return append(make([]byte, 0, len(b)), b...) }
func cpAll(bs [][]byte) [][]byte {
	out := make([][]byte, len(bs))
	for i, b := range bs {
		out[i] = cp(b)
	}
	return out
}

func eqAll(a, b [][]byte) bool {
	if len(a) != len(b) {
		return false
	}
	for i := range a {
		if !bytes.Equal(a[i], b[i]) {
			return false
		}
	}
	return true
}

func hexAll(bs [][]byte) []string {
	out := make([]string, len(bs))
	for i, b := range bs {
		out[i] = hex.EncodeToString(b)
	}
	return out
}

// leaf i of a list is a function of (salt, i): distinct for distinct i (the index is part
// of the data), length 1..64 or exactly 32 ("transaction id" style).
func leafData(salt uint64, i int, fixed32 bool) []byte {
	var b [16]byte
	binary.BigEndian.PutUint64(b[:8], salt)
	binary.BigEndian.PutUint64(b[8:], uint64(i))
	h := sha256.Sum256(b[:])
	if fixed32 {
		return h[:]
	}
	l := 5 + int(h[31])%60
	out := make([]byte, 0, l)
	out = append(out, b[12:]...) // index => distinct
	for len(out) < l {
		out = append(out, h[len(out)%32])
	}
	return out
}

func makeList(salt uint64, n int, fixed32 bool) [][]byte {
	out := make([][]byte, n)
	for i := range out {
		out[i] = leafData(salt, i, fixed32)
	}
	return out
}

type listDesc struct {
	N       int    `json:"n"`
	Salt    uint64 `json:"salt"`
	Fixed32 bool   `json:"fixed32"`
	Rule    string `json:"rule"`
}

func desc(salt uint64, n int, fixed32 bool) listDesc {
	return listDesc{N: n, Salt: salt, Fixed32: fixed32, Rule: "leaf i = leafData(salt,i,fixed32) in cmd/w_c11/main.go"}
}

// guard runs f and reports a panic as (msg, stack).
func guard(f func()) (panicked bool, msg, stack string) {
	defer func() {
		if r := recover(); r != nil {
			panicked, msg, stack = true, fmt.Sprint(r), string(debug.Stack())
		}
	}()
	f()
	return
}

func sizeClass(n int) string {
	switch {
	case n == 0:
		return "size=0"
	case n == 1:
		return "size=1"
	default:
		return "size>1"
	}
}

func trimStack(st string) string {
	lines := strings.Split(st, "\n")
	var keep []string
	for _, l := range lines {
		if strings.Contains(l, "lisk-engine") || strings.Contains(l, "panic") {
			keep = append(keep, strings.TrimSpace(l))
		}
		if len(keep) > 12 {
			break
		}
	}
	return strings.Join(keep, " | ")
}

// ---------------------------------------------------------------------------------------
// the checks

type env struct {
	k    *mon.Case
	d    listDesc
	data [][]byte
}

func (e *env) viol(key, what string, extra map[string]any) {
	w := map[string]any{"list": e.d}
	if e.d.N <= 6 {
		w["leaves_hex"] = hexAll(e.data)
	}
	for k, v := range extra {
		w[k] = v
	}
	e.k.Violation(key, what, w)
}

// checkPredict: "the root and append path predicted from the append path equal those after
// the real append" for the append of value at size n on a tree whose append path is ap.
func (e *env) checkPredict(n int, ap [][]byte, value []byte, wantRoot []byte, wantAP [][]byte) {
	k := e.k
	k.Count("predict_calls", 1)
	var p *rmt.RootWithAppendPath
	in := cpAll(ap)
	if pn, msg, st := guard(func() { p = rmt.CalculateRootFromAppendPath(cp(value), in, uint64(n)) }); pn {
		cls := "size>0"
		if n == 0 {
			cls = "size=0"
		}
		k.Count("predict_panic", 1)
		e.viol("predict:panic:"+cls, "CalculateRootFromAppendPath panics instead of predicting the append", map[string]any{"size": n, "panic": msg, "stack": trimStack(st)})
		return
	}
	if !eqAll(in, ap) {
		k.Count("predict_mutated_input", 1)
	}
	ok := true
	if !bytes.Equal(p.Root, wantRoot) {
		ok = false
		e.viol("predict:root-differs", "root predicted by CalculateRootFromAppendPath differs from the root after the real append", map[string]any{"size": n, "got": hex.EncodeToString(p.Root), "want": hex.EncodeToString(wantRoot)})
	}
	if p.Size != uint64(n+1) {
		ok = false
		e.viol("predict:size-differs", "size predicted by CalculateRootFromAppendPath differs", map[string]any{"size": n, "got": p.Size})
	}
	if !eqAll(p.AppendPath, wantAP) {
		ok = false
		e.viol("predict:append-path-differs", "append path predicted by CalculateRootFromAppendPath differs from the append path after the real append", map[string]any{"size": n, "got": hexAll(p.AppendPath), "want": hexAll(wantAP)})
	}
	if ok {
		k.Count("predict_ok", 1)
	} else {
		k.Count("predict_wrong", 1)
	}
}

// build appends data one by one, checking root/size/append path against the reference at
// the steps selected by at(i) (i = size after the append) and the prediction before each
// selected append.
func (e *env) build(store rmt.Database, at func(i int) bool, predict bool) *rmt.RegularMerkleTree {
	k := e.k
	t := rmt.NewRegularMerkleTree(store)
	if !bytes.Equal(t.Root(), ref31.EmptyHash) || t.Size() != 0 || len(t.AppendPath()) != 0 {
		e.viol("empty:state-differs", "a new tree is not the empty tree (empty hash, size 0, empty append path)", nil)
	}
	// append paths as a caller holds them: the slices AppendPath() returned (not copied) next to
	// a deep copy taken at the same moment; a later Append must not rewrite what was handed out,
	// or the path no longer predicts / witnesses the size it was read at
	type held struct {
		size       int
		live, copy [][]byte
	}
	var retained []held
	for i, d := range e.data {
		sel := at(i + 1)
		var apBefore [][]byte
		if sel && predict {
			apBefore = cpAll(t.AppendPath())
		}
		if sel {
			live := t.AppendPath()
			retained = append(retained, held{i, live, cpAll(live)})
			if len(retained) > 6 {
				retained = retained[1:]
			}
		}
		var err error
		if pn, msg, st := guard(func() { err = t.Append(cp(d)) }); pn {
			e.viol("append:panic", "Append panics", map[string]any{"size": i, "panic": msg, "stack": trimStack(st)})
			return nil
		}
		if err != nil {
			e.viol("append:error", "Append returns an error", map[string]any{"size": i, "err": err.Error()})
			return nil
		}
		k.Count("appends", 1)
		for _, h := range retained {
			k.Count("held_append_paths_rechecked", 1)
			if !eqAll(h.live, h.copy) {
				e.viol("append:rewrites-append-path-handed-out-earlier", "an append path returned by AppendPath() was rewritten in place by a later Append: it no longer reconstructs the root of the size it was read at", map[string]any{"read_at_size": h.size, "size_after": i + 1, "now": hexAll(h.live), "was": hexAll(h.copy)})
				retained = nil
				break
			}
		}
		if !sel {
			continue
		}
		k.Count("append_steps_checked", 1)
		wantRoot := ref31.Root(e.data[:i+1])
		wantAP := ref31.AppendPath(e.data[:i+1])
		if !bytes.Equal(t.Root(), wantRoot) {
			e.viol("append:root-differs", "root after appending one by one differs from the LIP-0031 root", map[string]any{"size_after": i + 1, "got": hex.EncodeToString(t.Root()), "want": hex.EncodeToString(wantRoot)})
		}
		if t.Size() != uint64(i+1) {
			e.viol("append:size-differs", "size after append is wrong", map[string]any{"size_after": i + 1, "got": t.Size()})
		}
		if !eqAll(t.AppendPath(), wantAP) {
			e.viol("append:append-path-differs", "append path after appending one by one differs from the reference append path", map[string]any{"size_after": i + 1, "got": hexAll(t.AppendPath()), "want": hexAll(wantAP)})
		}
		if predict {
			e.checkPredict(i, apBefore, d, wantRoot, wantAP)
		}
	}
	return t
}

func (e *env) checkBatch() {
	k := e.k
	var got []byte
	if pn, msg, st := guard(func() { got = rmt.CalculateRoot(cpAll(e.data)) }); pn {
		e.viol("batch:panic", "CalculateRoot panics", map[string]any{"panic": msg, "stack": trimStack(st)})
		return
	}
	k.Count("batch_roots", 1)
	if want := ref31.Root(e.data); !bytes.Equal(got, want) {
		e.viol("batch:root-differs", "CalculateRoot differs from the LIP-0031 root", map[string]any{"got": hex.EncodeToString(got), "want": hex.EncodeToString(want)})
	}
}

// checkReload: reloading preserves root, size, append path (compared with the live object)
// and the next append behaves like on the live list (compared with the reference list cur).
func (e *env) checkReload(store rmt.Database, live *rmt.RegularMerkleTree, cur [][]byte, appendPathTrusted bool, tag string) {
	k := e.k
	n := len(cur)
	if n == 0 {
		// nothing was ever stored; NewRegularMerkleTreeWithPastData has nothing to load
		_, err := rmt.NewRegularMerkleTreeWithPastData(store)
		if err != nil {
			k.Count("reload_of_never_written_tree_errors", 1)
		} else {
			k.Count("reload_of_never_written_tree_ok", 1)
		}
		return
	}
	k.Count("reloads", 1)
	var r *rmt.RegularMerkleTree
	var err error
	if pn, msg, st := guard(func() { r, err = rmt.NewRegularMerkleTreeWithPastData(store) }); pn {
		e.viol("reload:panic", "NewRegularMerkleTreeWithPastData panics", map[string]any{"panic": msg, "stack": trimStack(st), "history": tag})
		return
	}
	if err != nil {
		k.Count("reload_error", 1)
		e.viol("reload:error:"+sizeClass(n), "a tree that was written cannot be reloaded from its storage", map[string]any{"size": n, "err": err.Error(), "history": tag})
		return
	}
	if !bytes.Equal(r.Root(), live.Root()) {
		e.viol("reload:root-differs:"+sizeClass(n), "reloaded tree has a different root", map[string]any{"size": n, "history": tag, "got": hex.EncodeToString(r.Root()), "want": hex.EncodeToString(live.Root())})
	}
	if r.Size() != live.Size() {
		e.viol("reload:size-differs:"+sizeClass(n), "reloaded tree has a different size", map[string]any{"size": n, "history": tag, "got": r.Size()})
	}
	if !eqAll(r.AppendPath(), live.AppendPath()) {
		e.viol("reload:append-path-differs:"+sizeClass(n), "reloaded tree has a different append path", map[string]any{"size": n, "history": tag, "got": hexAll(r.AppendPath()), "want": hexAll(live.AppendPath())})
	}
	if !appendPathTrusted {
		return
	}
	// the next append on the reloaded tree
	extra := leafData(e.d.Salt^0xabcdef, n+7, e.d.Fixed32)
	if pn, msg, st := guard(func() { err = r.Append(cp(extra)) }); pn {
		e.viol("reload:next-append-panic", "Append on the reloaded tree panics", map[string]any{"size": n, "panic": msg, "stack": trimStack(st)})
		return
	}
	if err != nil {
		e.viol("reload:next-append-error", "Append on the reloaded tree fails", map[string]any{"size": n, "err": err.Error()})
		return
	}
	next := append(append([][]byte{}, cur...), extra)
	if !bytes.Equal(r.Root(), ref31.Root(next)) || r.Size() != uint64(n+1) || !eqAll(r.AppendPath(), ref31.AppendPath(next)) {
		e.viol("reload:next-append-differs", "the append after a reload does not give the tree of the extended list", map[string]any{"size": n})
	} else {
		k.Count("reload_next_append_ok", 1)
	}
}

type query struct {
	pos    []int // positions (>=0) or -1 for an absent leaf, in query order
	hashes [][]byte
	shape  string
}

func (e *env) mkQuery(cur [][]byte, pos []int, shape string) query {
	q := query{pos: pos, shape: shape}
	for j, p := range pos {
		if p < 0 {
			h := sha256.Sum256([]byte(fmt.Sprintf("absent-%d-%d", e.d.Salt, j)))
			q.hashes = append(q.hashes, h[:])
		} else {
			q.hashes = append(q.hashes, ref31.LeafHash(cur[p]))
		}
	}
	return q
}

// checkProof: generated inclusion proofs verify; they fail for other leaf data or root.
func (e *env) checkProof(t *rmt.RegularMerkleTree, cur [][]byte, q query, negatives bool) {
	k := e.k
	n := len(cur)
	root := ref31.Root(cur)
	present := 0
	for _, p := range q.pos {
		if p >= 0 {
			present++
		}
	}
	k.Count("proofs_generated", 1)
	k.Count("proof_shape:"+q.shape, 1)
	var proof *rmt.Proof
	var err error
	if pn, msg, st := guard(func() { proof, err = t.GenerateProof(cpAll(q.hashes)) }); pn {
		e.viol("proof:generate-panic", "GenerateProof panics", map[string]any{"positions": q.pos, "panic": msg, "stack": trimStack(st)})
		return
	}
	if err != nil {
		e.viol("proof:generate-error", "GenerateProof fails for leaves of the tree", map[string]any{"positions": q.pos, "err": err.Error()})
		return
	}
	if n == 0 {
		// nothing to include; VerifyProof of an empty tree is false by construction
		k.Count("proof_on_empty_tree", 1)
		return
	}
	if proof.Size != uint64(n) {
		e.viol("proof:size-differs", "generated proof carries a wrong size", map[string]any{"positions": q.pos, "got": proof.Size})
	}
	for j, p := range q.pos {
		if j >= len(proof.Idxs) {
			break
		}
		if p >= 0 && proof.Idxs[j] != ref31.IndexOfPos(n, p) {
			e.viol("proof:index-differs", "generated proof places a leaf at the wrong index", map[string]any{"positions": q.pos, "j": j, "got": proof.Idxs[j], "want": ref31.IndexOfPos(n, p)})
		}
		if p < 0 && proof.Idxs[j] != 0 {
			e.viol("proof:absent-leaf-indexed", "generated proof gives a tree index to a hash that is not a leaf", map[string]any{"positions": q.pos, "j": j, "got": proof.Idxs[j]})
		}
	}
	if present == 0 {
		// not "a subset of leaves": count what happens, no verdict
		var ok bool
		guard(func() { ok = rmt.VerifyProof(cpAll(q.hashes), proof, root) })
		k.Count(fmt.Sprintf("all_absent_query_verify_%v", ok), 1)
		return
	}
	verify := func(hs [][]byte, p *rmt.Proof, r []byte) (ok bool, panicked bool) {
		pc := &rmt.Proof{Size: p.Size, Idxs: append([]uint64{}, p.Idxs...), SiblingHashes: cpAll(p.SiblingHashes)}
		pn, _, _ := guard(func() { ok = rmt.VerifyProof(cpAll(hs), pc, cp(r)) })
		return ok, pn
	}
	ok, pn := verify(q.hashes, proof, root)
	if pn {
		e.viol("proof:honest-verify-panic", "VerifyProof panics on a generated proof", map[string]any{"positions": q.pos})
		return
	}
	if !ok {
		k.Count("honest_proof_rejected", 1)
		e.viol("proof:honest-rejected:"+q.shape, "a generated inclusion proof does not verify against the root", map[string]any{"positions": q.pos, "idxs": proof.Idxs, "siblings": len(proof.SiblingHashes)})
		return
	}
	k.Count("honest_proof_verified", 1)
	// single leaf: the proof's sibling hashes must be exactly the reference authentication path
	if len(q.pos) == 1 {
		path := ref31.LeafPath(n, q.pos[0])
		if len(path) == len(proof.SiblingHashes) {
			k.Count("single_leaf_path_length_matches_ref", 1)
		} else {
			k.Count("single_leaf_path_length_differs_from_ref", 1)
		}
	}
	if !negatives {
		return
	}
	// --- other leaf data
	for _, j := range pickIdx(k, len(q.pos), 3) {
		if q.pos[j] < 0 {
			continue
		}
		alts := [][]byte{ref31.LeafHash(append(cp(cur[q.pos[j]]), 0x01)), ref31.LeafHash(nil)}
		if n > 1 {
			other := (q.pos[j] + 1 + k.R.Intn(n-1)) % n
			alts = append(alts, ref31.LeafHash(cur[other]))
		}
		if b := cp(q.hashes[j]); len(b) > 0 {
			b[k.R.Intn(len(b))] ^= 1 << uint(k.R.Intn(8))
			alts = append(alts, b)
		}
		for ai, alt := range alts {
			hs := cpAll(q.hashes)
			hs[j] = alt
			k.Count("neg_other_leaf", 1)
			ok, pn := verify(hs, proof, root)
			if pn {
				k.Count("neg_other_leaf_panic", 1)
			} else if ok {
				e.viol("proof:accepts-other-leaf", "VerifyProof accepts a proof for leaf data that is not at that position", map[string]any{"positions": q.pos, "j": j, "alt": ai})
			} else {
				k.Count("neg_other_leaf_rejected", 1)
			}
		}
	}
	// --- a forged leaf claimed together with its genuine parent node: the index list of a proof may
	// name inner nodes too; a claim (leaf index, other data) next to (parent index, real parent hash)
	// must not verify - the leaf claim contradicts the parent it hangs under
	if len(q.pos) == 1 && q.pos[0] >= 0 && q.pos[0]^1 < n && len(proof.SiblingHashes) > 0 && len(proof.Idxs) == 1 &&
		bytes.Equal(proof.SiblingHashes[0], ref31.LeafHash(cur[q.pos[0]^1])) {
		pos := q.pos[0]
		parent := ref31.BranchHash(ref31.LeafHash(cur[pos&^1]), ref31.LeafHash(cur[pos|1]))
		forgedLeaf := ref31.LeafHash(append(cp(cur[pos]), 0x02))
		for vi, sib := range [][][]byte{proof.SiblingHashes[1:], proof.SiblingHashes} {
			for oi, order := range [][2]int{{0, 1}, {1, 0}} {
				idxs := []uint64{proof.Idxs[0], proof.Idxs[0] >> 1}
				hs := [][]byte{forgedLeaf, parent}
				pc := &rmt.Proof{Size: proof.Size, Idxs: []uint64{idxs[order[0]], idxs[order[1]]}, SiblingHashes: cpAll(sib)}
				k.Count("neg_forged_leaf_under_genuine_parent", 1)
				ok, pn := verify([][]byte{hs[order[0]], hs[order[1]]}, pc, root)
				if pn {
					k.Count("neg_forged_leaf_under_genuine_parent_panic(not a C11 verdict)", 1)
				} else if ok {
					e.viol("proof:accepts-other-leaf:claimed-next-to-its-genuine-parent", "VerifyProof accepts a proof for leaf data that is not at that position (the proof also names the leaf's real parent node)", map[string]any{"position": pos, "sibling_hash_kept": vi == 1, "order": oi})
				} else {
					k.Count("neg_forged_leaf_under_genuine_parent_rejected", 1)
				}
			}
		}
	}
	// --- other root
	roots := [][]byte{ref31.EmptyHash, ref31.Root(cur[:n-1]), root[:31], append(cp(root), 0)}
	fl := cp(root)
	fl[k.R.Intn(32)] ^= 1 << uint(k.R.Intn(8))
	roots = append(roots, fl)
	for ri, r := range roots {
		if bytes.Equal(r, root) {
			continue
		}
		k.Count("neg_other_root", 1)
		ok, pn := verify(q.hashes, proof, r)
		if pn {
			k.Count("neg_other_root_panic", 1)
		} else if ok {
			e.viol("proof:accepts-other-root", "VerifyProof accepts a proof against a different root", map[string]any{"positions": q.pos, "root_variant": ri})
		} else {
			k.Count("neg_other_root_rejected", 1)
		}
	}
	// --- wrong index (a claim "this hash is the leaf at position p'"), leaves are distinct
	if n > 1 {
		for _, j := range pickIdx(k, len(q.pos), 2) {
			if q.pos[j] < 0 {
				continue
			}
			inQ := map[int]bool{}
			for _, p := range q.pos {
				inQ[p] = true
			}
			other := (q.pos[j] + 1 + k.R.Intn(n-1)) % n
			if inQ[other] {
				continue
			}
			pc := &rmt.Proof{Size: proof.Size, Idxs: append([]uint64{}, proof.Idxs...), SiblingHashes: proof.SiblingHashes}
			pc.Idxs[j] = ref31.IndexOfPos(n, other)
			k.Count("neg_wrong_index", 1)
			ok, pn := verify(q.hashes, pc, root)
			if pn {
				k.Count("neg_wrong_index_panic(not a C11 verdict)", 1)
			} else if ok {
				e.viol("proof:accepts-wrong-index", "VerifyProof accepts a proof that places a leaf hash at a position where the list has other data", map[string]any{"positions": q.pos, "j": j, "claimed_pos": other})
			} else {
				k.Count("neg_wrong_index_rejected", 1)
			}
		}
	}
	// --- structural tampering the statement does not speak about: counted only
	if len(proof.SiblingHashes) > 0 {
		pc := &rmt.Proof{Size: proof.Size, Idxs: proof.Idxs, SiblingHashes: cpAll(proof.SiblingHashes)}
		pc.SiblingHashes[k.R.Intn(len(pc.SiblingHashes))][0] ^= 0x80
		ok, pn := verify(q.hashes, pc, root)
		k.Count(fmt.Sprintf("tamper_sibling_flipped:accepted=%v,panic=%v", ok, pn), 1)
		pd := &rmt.Proof{Size: proof.Size, Idxs: proof.Idxs, SiblingHashes: cpAll(proof.SiblingHashes[:len(proof.SiblingHashes)-1])}
		ok, pn = verify(q.hashes, pd, root)
		k.Count(fmt.Sprintf("tamper_sibling_dropped:accepted=%v,panic=%v", ok, pn), 1)
	}
}

func pickIdx(k *mon.Case, n, max int) []int {
	if n <= max {
		out := make([]int, n)
		for i := range out {
			out[i] = i
		}
		return out
	}
	p := k.R.Perm(n)[:max]
	sort.Ints(p)
	return p
}

// checkWitness: append path of the first i leaves + right witness at i reconstruct the root.
func (e *env) checkWitness(t *rmt.RegularMerkleTree, cur [][]byte, i int) {
	k := e.k
	n := len(cur)
	root := ref31.Root(cur)
	k.Count("witness_positions", 1)
	var w [][]byte
	var err error
	if pn, msg, st := guard(func() { w, err = t.GenerateRightWitness(uint64(i)) }); pn {
		e.viol("witness:generate-panic", "GenerateRightWitness panics", map[string]any{"position": i, "panic": msg, "stack": trimStack(st)})
		return
	}
	if err != nil {
		e.viol("witness:generate-error", "GenerateRightWitness fails for a position inside the tree", map[string]any{"position": i, "err": err.Error()})
		return
	}
	ap := ref31.AppendPath(cur[:i])
	cls := "middle"
	switch {
	case n == 0:
		cls = "empty-tree"
	case i == 0:
		cls = "position=0"
	case i == n:
		cls = "position=size"
	}
	var got []byte
	if pn, msg, st := guard(func() { got = rmt.CalculateRootFromRightWitness(uint64(i), cpAll(ap), cpAll(w)) }); pn {
		k.Count("witness_panic", 1)
		e.viol("witness:panic:"+cls, "CalculateRootFromRightWitness panics on the generated right witness", map[string]any{"position": i, "witness_len": len(w), "append_path_len": len(ap), "panic": msg, "stack": trimStack(st)})
		return
	}
	if !bytes.Equal(got, root) {
		k.Count("witness_wrong", 1)
		e.viol("witness:root-differs:"+cls, "append path and right witness do not reconstruct the root", map[string]any{"position": i, "witness_len": len(w), "append_path_len": len(ap), "got": hex.EncodeToString(got), "want": hex.EncodeToString(root)})
		return
	}
	k.Count("witness_ok", 1)
	var v1, v2 bool
	bad := cp(root)
	bad[5] ^= 4
	guard(func() {
		v1 = rmt.VerifyRightWitness(uint64(i), cpAll(ap), cpAll(w), root)
		v2 = rmt.VerifyRightWitness(uint64(i), cpAll(ap), cpAll(w), bad)
	})
	if !v1 || v2 {
		e.viol("witness:verify-inconsistent", "VerifyRightWitness disagrees with CalculateRootFromRightWitness", map[string]any{"position": i, "right_root": v1, "wrong_root": v2})
	}
}

// checkUpdate: updating leaves through a proof yields the root of the modified list.
// Returns the modified list.
func (e *env) checkUpdate(t *rmt.RegularMerkleTree, cur [][]byte, pos []int, round int) [][]byte {
	k := e.k
	n := len(cur)
	k.Count("updates", 1)
	q := e.mkQuery(cur, pos, "update")
	var proof *rmt.Proof
	var err error
	if pn, _, _ := guard(func() { proof, err = t.GenerateProof(cpAll(q.hashes)) }); pn || err != nil {
		e.viol("update:proof-generate-failed", "GenerateProof fails for the leaves to be updated", map[string]any{"positions": pos})
		return cur
	}
	newData := make([][]byte, len(pos))
	mod := append([][]byte{}, cur...)
	// one update in three permutes the values of the updated leaves among themselves (each leaf
	// receives what another updated leaf held before; the list stays free of repetitions)
	permute := len(pos) >= 2 && (round+len(pos)+n)%3 == 0
	if permute {
		k.Count("updates_permuting", 1)
	}
	for j, p := range pos {
		if permute {
			newData[j] = cp(cur[pos[(j+1)%len(pos)]])
		} else {
			// distinct from every other leaf of the list: position and round are part of the data
			newData[j] = append([]byte(fmt.Sprintf("upd-%d-%d-", round, p)), leafData(e.d.Salt^0x55aa, p, e.d.Fixed32)...)
		}
		mod[p] = newData[j]
	}
	want := ref31.Root(mod)
	var got []byte
	if pn, msg, st := guard(func() { got, err = rmt.CalculateRootFromUpdateData(cpAll(newData), proof) }); pn {
		e.viol("update:root-from-proof-panic", "CalculateRootFromUpdateData panics on a generated proof", map[string]any{"positions": pos, "panic": msg, "stack": trimStack(st)})
	} else if err != nil {
		e.viol("update:root-from-proof-error", "CalculateRootFromUpdateData fails on a generated proof", map[string]any{"positions": pos, "err": err.Error()})
	} else if !bytes.Equal(got, want) {
		e.viol("update:root-from-proof-differs", "CalculateRootFromUpdateData does not give the root of the modified list", map[string]any{"positions": pos, "got": hex.EncodeToString(got), "want": hex.EncodeToString(want)})
	} else {
		k.Count("update_root_from_proof_ok", 1)
	}
	if pn, msg, st := guard(func() { err = t.Update(append([]uint64{}, proof.Idxs...), cpAll(newData)) }); pn {
		e.viol("update:panic", "Update panics", map[string]any{"positions": pos, "panic": msg, "stack": trimStack(st)})
		return cur
	}
	if err != nil {
		e.viol("update:error", "Update fails for leaf indexes taken from a generated proof", map[string]any{"positions": pos, "err": err.Error()})
		return cur
	}
	if !bytes.Equal(t.Root(), want) {
		e.viol("update:root-differs", "Update does not yield the root of the modified list", map[string]any{"positions": pos, "got": hex.EncodeToString(t.Root()), "want": hex.EncodeToString(want)})
		return mod
	}
	if t.Size() != uint64(n) {
		e.viol("update:size-differs", "Update changes the size", map[string]any{"positions": pos, "got": t.Size()})
	}
	k.Count("update_root_ok", 1)
	return mod
}

// ---------------------------------------------------------------------------------------
// one list: everything the statement says, for this length

type depth struct {
	allSingles  bool
	multi       int  // random multi subsets
	allWitness  bool // every witness position
	updates     int
	everyStep   bool // compare with the reference after every append
	pebbleFirst bool
}

func (e *env) fullCheck(dp depth) {
	k := e.k
	n := len(e.data)
	data := e.data
	at := func(i int) bool { return true }
	if !dp.everyStep {
		sel := map[int]bool{1: true, 2: true, 3: true, n: true, n - 1: true}
		for j := 0; j < 24; j++ {
			sel[1+k.R.Intn(n)] = true
		}
		for p := 1; p <= n; p <<= 1 {
			sel[p] = true
			sel[p-1] = true
			sel[p+1] = true
		}
		at = func(i int) bool { return sel[i] }
	}
	e.checkBatch()

	// ---- tree A: appends, proofs, witnesses, reload + next append
	storeA := newStore(dp.pebbleFirst)
	defer closeStore(storeA)
	tA := e.build(storeA, at, true)
	if tA == nil {
		return
	}
	k.Nontrivial(fmt.Sprintf("list/n=%d/f32=%v/salt=%d", n, e.d.Fixed32, e.d.Salt))

	var queries []query
	if n > 0 {
		if dp.allSingles {
			for p := 0; p < n; p++ {
				queries = append(queries, e.mkQuery(data, []int{p}, "single"))
			}
		} else {
			for _, p := range []int{0, n - 1, k.R.Intn(n), k.R.Intn(n), k.R.Intn(n), k.R.Intn(n)} {
				queries = append(queries, e.mkQuery(data, []int{p}, "single"))
			}
		}
		queries = append(queries, e.mkQuery(data, []int{n - 1}, "last"))
		if n >= 2 {
			for j := 0; j < 3; j++ {
				p := k.R.Intn(n - 1)
				queries = append(queries, e.mkQuery(data, []int{p, p + 1}, "adjacent"))
			}
			queries = append(queries, e.mkQuery(data, []int{n - 2, n - 1}, "adjacent-last"))
			queries = append(queries, e.mkQuery(data, []int{0, n - 1}, "first+last"))
		}
		if n <= 600 {
			all := make([]int, n)
			for i := range all {
				all[i] = i
			}
			queries = append(queries, e.mkQuery(data, all, "all"))
			queries = append(queries, e.mkQuery(data, k.R.Perm(n), "all-shuffled"))
		}
		for j := 0; j < dp.multi; j++ {
			sz := 1 + k.R.Intn(minInt(n, 12))
			pos := k.R.Perm(n)[:sz]
			shape := "multi-shuffled"
			if k.R.Intn(2) == 0 {
				sort.Ints(pos)
				shape = "multi-sorted"
			}
			if k.R.Intn(3) == 0 { // mix in absent leaves
				pos = append(pos, -1)
				if k.R.Intn(2) == 0 {
					pos[0], pos[len(pos)-1] = pos[len(pos)-1], pos[0]
				}
				shape += "+absent"
			}
			queries = append(queries, e.mkQuery(data, pos, shape))
		}
		queries = append(queries, e.mkQuery(data, []int{-1}, "only-absent"))
	} else {
		queries = append(queries, e.mkQuery(data, []int{-1}, "only-absent"))
	}
	for qi, q := range queries {
		e.checkProof(tA, data, q, qi%3 == 0 || len(queries) < 40)
	}
	// duplicate query hashes: a multiset, not "a subset of leaves" -> counted only
	if n >= 2 {
		p := k.R.Intn(n)
		q := e.mkQuery(data, []int{p, p}, "dup")
		var ok bool
		pn, _, _ := guard(func() {
			pr, err := tA.GenerateProof(cpAll(q.hashes))
			if err == nil {
				ok = rmt.VerifyProof(cpAll(q.hashes), pr, ref31.Root(data))
			}
		})
		k.Count(fmt.Sprintf("dup_query(no verdict):verified=%v,panic=%v", ok, pn), 1)
	}

	// witnesses
	if dp.allWitness {
		for i := 0; i <= n; i++ {
			e.checkWitness(tA, data, i)
		}
	} else {
		ps := map[int]bool{0: true, n: true, 1: true, n - 1: true, n / 2: true}
		for j := 0; j < 12; j++ {
			ps[k.R.Intn(n+1)] = true
		}
		for p := 1; p <= n; p <<= 1 {
			ps[p] = true
			ps[p-1] = true
			if p+1 <= n {
				ps[p+1] = true
			}
		}
		var order []int
		for p := range ps {
			if p >= 0 && p <= n {
				order = append(order, p)
			}
		}
		sort.Ints(order)
		for _, p := range order {
			e.checkWitness(tA, data, p)
		}
	}
	// reload after pure appends
	e.checkReload(storeA, tA, data, true, "appends")

	// ---- tree B (other back end): update through a proof
	if n == 0 || dp.updates == 0 {
		return
	}
	storeB := newStore(!dp.pebbleFirst)
	defer closeStore(storeB)
	none := func(int) bool { return false }
	tB := e.build(storeB, none, false)
	if tB == nil {
		return
	}
	cur := data
	for u := 0; u < dp.updates; u++ {
		sz := 1 + k.R.Intn(minInt(n, 8))
		if u == 0 && n <= 64 && k.R.Intn(4) == 0 {
			sz = n // all leaves
		}
		pos := k.R.Perm(n)[:sz]
		if k.R.Intn(2) == 0 {
			sort.Ints(pos)
		}
		cur = e.checkUpdate(tB, cur, pos, u)
		// the updated leaves are leaves of the tree now: their proofs verify
		if bytes.Equal(tB.Root(), ref31.Root(cur)) {
			e.checkProof(tB, cur, e.mkQuery(cur, pos, "after-update"), u == 0)
			other := k.R.Intn(n)
			e.checkProof(tB, cur, e.mkQuery(cur, []int{other}, "after-update-single"), false)
		}
	}
	if !bytes.Equal(tB.Root(), ref31.Root(cur)) {
		return
	}
	e.checkReload(storeB, tB, cur, false, "appends+updates")
	// the append path of the updated tree is the append path of the modified list, and the tree
	// goes on like a tree built from the modified list: the next append gives that list's root
	if ap := tB.AppendPath(); !eqAll(ap, ref31.AppendPath(cur)) {
		e.viol("update:append-path-stale", "after Update the tree's append path is not the append path of the modified list", map[string]any{"got": hexAll(ap), "want": hexAll(ref31.AppendPath(cur))})
	} else {
		k.Count("append_path_after_update_ok", 1)
	}
	extra := leafData(e.d.Salt^0x777, n+11, e.d.Fixed32)
	var err error
	pn, msg, _ := guard(func() { err = tB.Append(cp(extra)) })
	switch {
	case pn:
		e.viol("update:append-afterwards-panics", "Append after Update panics", map[string]any{"panic": msg})
	case err != nil:
		e.viol("update:append-afterwards-fails", "Append after Update fails", map[string]any{"err": err.Error()})
	case bytes.Equal(tB.Root(), ref31.Root(append(append([][]byte{}, cur...), extra))):
		k.Count("append_after_update:root_ok", 1)
	default:
		e.viol("update:append-afterwards-root-differs", "appending to an updated tree does not give the root of the modified list plus the new leaf", map[string]any{"size": n})
	}
}

func minInt(a, b int) int {
	if a < b {
		return a
	}
	return b
}

// ---------------------------------------------------------------------------------------
// fixtures: the reference against the repo's non-empty fixtures (no lisk-engine code), and
// then lisk-engine against them as well

func repoDir() string {
	if r := os.Getenv("VERIF_REPO"); r != "" {
		return r
	}
	return "/repo"
}

func unhexAll(ss []string) [][]byte {
	out := make([][]byte, len(ss))
	for i, s := range ss {
		out[i], _ = hex.DecodeString(s)
	}
	return out
}

func selfcheck(k *mon.Case) {
	var tr struct {
		TestCases []struct {
			Input struct {
				IDs []string `json:"transactionIds"`
			} `json:"input"`
			Output struct {
				Root string `json:"transactionMerkleRoot"`
			} `json:"output"`
		} `json:"testCases"`
	}
	b, err := os.ReadFile(filepath.Join(repoDir(), "pkg/trie/rmt/fixtures/transaction_root_fixtures.json"))
	if err != nil || json.Unmarshal(b, &tr) != nil || len(tr.TestCases) == 0 {
		k.Inconclusive("fixture transaction_root_fixtures.json unreadable")
		return
	}
	for _, tc := range tr.TestCases {
		want, _ := hex.DecodeString(tc.Output.Root)
		if bytes.Equal(ref31.Root(unhexAll(tc.Input.IDs)), want) {
			k.Count("ref_matches_fixture_root", 1)
		} else {
			k.Count("ref_differs_from_fixture_root", 1)
			k.Inconclusive("reference ref31 disagrees with a LIP-0031 fixture: oracle not trustworthy")
		}
	}
	var up struct {
		TestCases []struct {
			Input struct {
				Values       []string `json:"values"`
				UpdateValues []string `json:"updateValues"`
				Proof        struct {
					Idxs []string `json:"indexes"`
				} `json:"proof"`
			} `json:"input"`
			Output struct {
				Initial string `json:"initialMerkleRoot"`
				Final   string `json:"finalMerkleRoot"`
			} `json:"output"`
		} `json:"testCases"`
	}
	b, err = os.ReadFile(filepath.Join(repoDir(), "pkg/trie/rmt/fixtures/update_leaves_fixtures.json"))
	if err != nil || json.Unmarshal(b, &up) != nil || len(up.TestCases) == 0 {
		k.Inconclusive("fixture update_leaves_fixtures.json unreadable")
		return
	}
	for _, tc := range up.TestCases {
		vals := unhexAll(tc.Input.Values)
		mod := append([][]byte{}, vals...)
		okIdx := true
		for j, is := range tc.Input.Proof.Idxs {
			idx, err := strconv.ParseUint(is, 16, 64)
			pos, ok := ref31.PosOfIndex(len(vals), idx)
			if err != nil || !ok {
				okIdx = false
				break
			}
			nv, _ := hex.DecodeString(tc.Input.UpdateValues[j])
			mod[pos] = nv
		}
		wi, _ := hex.DecodeString(tc.Output.Initial)
		wf, _ := hex.DecodeString(tc.Output.Final)
		if okIdx && bytes.Equal(ref31.Root(vals), wi) && bytes.Equal(ref31.Root(mod), wf) {
			k.Count("ref_matches_fixture_update", 1)
		} else {
			k.Count("ref_differs_from_fixture_update", 1)
			k.Inconclusive("reference ref31 disagrees with a LIP-0031 update fixture: oracle not trustworthy")
		}
	}
	k.Nontrivial("fixtures")
}

// ---------------------------------------------------------------------------------------

func main() {
	mon.Main(mon.Options{
		Property: "C11",
		Level:    "exploration",
		Rule: "streams: len = every list length 0..N (quick 160, thorough 400), each with every single-leaf subset, adjacent pairs, all leaves, random multi-subsets (sorted/shuffled, with absent leaves), every right-witness position, update sets, reload; " +
			"around = lengths 2^k-1,2^k,2^k+1 up to 4096(+) ; rand = random lengths up to 5000; subsets = every non-empty subset for lengths <= 8 (thorough <= 12); dups = lists with repeated leaf data; predict = CalculateRootFromAppendPath at sizes up to 70000 from reference append paths. " +
			"A case is non-trivial when the tree was built (key: length, leaf format, salt) / per subset mask.",
		Assumptions: []string{
			"SHA-256 collision resistance (distinct lists / positions give distinct roots)",
			"reference internal/ref31 = LIP-0031 recursive definition, validated against transaction_root_fixtures.json and update_leaves_fixtures.json (stream selfcheck) before use",
			"leaves of one list are pairwise distinct except in the dups stream (the tree maps a leaf hash to one location)",
			"not judged (counted only): duplicate query hashes, queries consisting only of absent leaves, structural tampering of proofs (sibling hashes, panics on wrong indexes - C09), Append after Update",
		},
	}, func(c *mon.Ctx) {
		c.One("selfcheck", selfcheck)

		maxLen := c.N(160, 400)
		c.Cases("len", maxLen+1, func(k *mon.Case) {
			n := k.Index
			salt := uint64(k.R.Int63())
			f32 := k.R.Intn(2) == 0
			e := &env{k: k, d: desc(salt, n, f32), data: makeList(salt, n, f32)}
			k.Sample(e.d)
			e.fullCheck(depth{allSingles: true, multi: c.N(24, 60), allWitness: true, updates: c.N(4, 8), everyStep: true, pebbleFirst: n%2 == 0})
		})

		// lengths around powers of two
		var around []int
		for p := 64; p <= c.N(2048, 8192); p <<= 1 {
			around = append(around, p-1, p, p+1)
		}
		around = append(around, 255+2, 300, 1000)
		c.Cases("around", len(around), func(k *mon.Case) {
			n := around[k.Index]
			salt := uint64(k.R.Int63())
			f32 := k.R.Intn(2) == 0
			e := &env{k: k, d: desc(salt, n, f32), data: makeList(salt, n, f32)}
			k.Sample(e.d)
			e.fullCheck(depth{allSingles: n <= 260, multi: 10, allWitness: n <= 260, updates: 2, everyStep: false, pebbleFirst: k.Index%2 == 0})
		})

		c.Cases("rand", c.N(1600, 8000), func(k *mon.Case) {
			var n int
			switch k.R.Intn(4) {
			case 0:
				n = 1 + k.R.Intn(5000)
			case 1:
				n = 1 + k.R.Intn(600)
			case 2:
				n = (1 << uint(3+k.R.Intn(10))) + k.R.Intn(5) - 2
			default:
				n = 141 + k.R.Intn(400)
			}
			salt := uint64(k.R.Int63())
			f32 := k.R.Intn(2) == 0
			e := &env{k: k, d: desc(salt, n, f32), data: makeList(salt, n, f32)}
			k.Sample(e.d)
			e.fullCheck(depth{allSingles: false, multi: 10, allWitness: false, updates: 2, everyStep: false, pebbleFirst: k.R.Intn(2) == 0})
		})

		// every non-empty subset of the leaves
		maxSub := c.N(8, 12)
		c.Cases("subsets", maxSub, func(k *mon.Case) {
			n := k.Index + 1
			salt := uint64(k.R.Int63())
			e := &env{k: k, d: desc(salt, n, true), data: makeList(salt, n, true)}
			store := newStore(true)
			defer closeStore(store)
			t := e.build(store, func(int) bool { return true }, false)
			if t == nil {
				return
			}
			for mask := 1; mask < 1<<uint(n); mask++ {
				var pos []int
				for p := 0; p < n; p++ {
					if mask&(1<<uint(p)) != 0 {
						pos = append(pos, p)
					}
				}
				k.Eval(1)
				k.Nontrivial(fmt.Sprintf("n=%d/mask=%d", n, mask))
				e.checkProof(t, e.data, e.mkQuery(e.data, pos, "subset"), n <= 7 || mask%7 == 0)
			}
			// every update set as well (on fresh trees, small n only)
			if n <= 5 {
				for mask := 1; mask < 1<<uint(n); mask++ {
					var pos []int
					for p := 0; p < n; p++ {
						if mask&(1<<uint(p)) != 0 {
							pos = append(pos, p)
						}
					}
					s2 := newStore(false)
					t2 := e.build(s2, func(int) bool { return false }, false)
					if t2 != nil {
						k.Eval(1)
						cur2 := e.checkUpdate(t2, e.data, pos, mask)
						if bytes.Equal(t2.Root(), ref31.Root(cur2)) {
							e.checkProof(t2, cur2, e.mkQuery(cur2, pos, "after-update"), false)
						}
					}
				}
			}
		})

		// lists with repeated leaf data: roots (incremental = batch = reference) and completeness
		c.Cases("dups", c.N(480, 4000), func(k *mon.Case) {
			n := 2 + k.R.Intn(60)
			salt := uint64(k.R.Int63())
			base := makeList(salt, 1+k.R.Intn(n), true)
			data := make([][]byte, n)
			for i := range data {
				data[i] = base[k.R.Intn(len(base))]
			}
			e := &env{k: k, d: listDesc{N: n, Salt: salt, Fixed32: true, Rule: "dups: leaf i drawn from a smaller base list"}, data: data}
			e.checkBatch()
			store := newStore(k.R.Intn(2) == 0)
			defer closeStore(store)
			t := e.build(store, func(int) bool { return true }, true)
			if t == nil {
				return
			}
			k.Nontrivial(fmt.Sprintf("dups/n=%d/base=%d/salt=%d", n, len(base), salt))
			// completeness for a set of distinct hashes: the proof (whatever occurrence it picks) verifies
			seen := map[string]bool{}
			var hs [][]byte
			for _, p := range k.R.Perm(n)[:1+k.R.Intn(minInt(n, 6))] {
				h := ref31.LeafHash(data[p])
				if !seen[string(h)] {
					seen[string(h)] = true
					hs = append(hs, h)
				}
			}
			var ok bool
			var err error
			pn, msg, _ := guard(func() {
				var pr *rmt.Proof
				pr, err = t.GenerateProof(cpAll(hs))
				if err == nil {
					ok = rmt.VerifyProof(cpAll(hs), pr, ref31.Root(data))
				}
			})
			k.Count("dups_proofs", 1)
			if pn || err != nil || !ok {
				e.viol("proof:honest-rejected:repeated-leaf-data", "a generated inclusion proof does not verify in a list with repeated leaf data", map[string]any{"hashes": hexAll(hs), "panic": msg, "err": fmt.Sprint(err)})
			} else {
				k.Count("dups_proofs_verified", 1)
			}
			e.checkReload(store, t, data, true, "appends")
		})

		// prediction at large sizes straight from reference append paths (no tree needed)
		var psizes []int
		for p := 2; p <= c.N(1<<14, 1<<16); p <<= 1 {
			psizes = append(psizes, p-1, p, p+1)
		}
		psizes = append(psizes, 0, 1, 255, 256, 257, 258, 300, 511, 513, 1000, 4097, 5000)
		nPredict := len(psizes) + c.N(200, 3000)
		c.Cases("predict", nPredict, func(k *mon.Case) {
			var n int
			if k.Index < len(psizes) {
				n = psizes[k.Index]
			} else {
				n = k.R.Intn(c.N(20000, 70000))
			}
			salt := uint64(k.R.Int63())
			data := makeList(salt, n+1, true)
			e := &env{k: k, d: desc(salt, n+1, true), data: data}
			k.Nontrivial(fmt.Sprintf("predict/size=%d", n))
			e.checkPredict(n, ref31.AppendPath(data[:n]), data[n], ref31.Root(data), ref31.AppendPath(data))
		})
	})
}
