package main

import (
	"encoding/hex"
	"fmt"

	"github.com/LiskHQ/lisk-engine/pkg/db"
	"github.com/LiskHQ/lisk-engine/pkg/trie/smt"
	"verifharness/internal/ref39"
)

func h(s string) []byte { b, _ := hex.DecodeString(s); return b }

func main() {
	ks := []string{"2a", "3c", "7d", "9a", "c1", "c3"}
	m := map[string][]byte{}
	var keys, vals [][]byte
	for i, k := range ks {
		key := make([]byte, 32)
		key[0] = h(k)[0]
		v := make([]byte, 32)
		v[0] = byte(i + 1)
		m[string(key)] = v
		keys = append(keys, key)
		vals = append(vals, v)
	}
	d, _ := db.NewInMemoryDB()
	t := smt.NewTrie(nil, 32)
	root, _ := t.Update(d, keys, vals)
	fmt.Printf("refok %v\n", string(root) == string(ref39.Root(m)))
	es := ref39.Sorted(m)
	sub := func(lo, hi int) []byte { return ref39.RootSorted(es[lo:hi]) }
	fmt.Printf("leaf3c %x\nleaf7d %x\nS11 %x\nS1(right) %x\nS0(left) %x\nleaf9a %x\n", sub(1, 2), sub(2, 3), sub(4, 6), sub(3, 6), sub(0, 3), sub(3, 4))
	q2 := make([]byte, 32)
	q2[0] = 0x8a
	for _, qk := range [][][]byte{{keys[0], q2}, {q2, keys[0]}, {keys[0]}, {q2}, {keys[0], keys[3]}} {
		p, err := t.Prove(d, qk)
		if err != nil {
			panic(err)
		}
		ok, err := smt.Verify(qk, p, root, 32)
		fmt.Println("verify", ok, err)
		for _, s := range p.SiblingHashes {
			fmt.Printf("   sib %x\n", []byte(s))
		}
		for _, q := range p.Queries {
			fmt.Printf("   key %x.. val %x.. bitmap %x\n", []byte(q.Key)[:2], []byte(q.Value)[:2], []byte(q.Bitmap))
		}
	}
}
