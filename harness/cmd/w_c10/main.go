// Worker for property C10: sparse Merkle trie (LIP-0039) - the root commits to exactly the
// map; proofs are complete and sound.
//
// Oracle: a model map + internal/ref39 (recursive LIP-0039 root, validated against the repo's
// non-empty fixtures in stream "selfcheck" and in its own go test).  For proofs the oracle
// is the *claim* a (possibly tampered) proof makes for every query key:
//
//	proof.Queries[i].Key == queryKeys[i] and Value != ""  -> "present with Value"
//	proof.Queries[i].Key == queryKeys[i] and Value == ""  -> "absent"
//	proof.Queries[i].Key != queryKeys[i]                   -> "absent" (shown by another leaf / empty node)
//
// A violation is: an honest proof that does not verify or claims something else than the
// map; smt.Verify == true for a proof with a claim that disagrees with the map; smt.Verify
// == true against a root other than the real one.  Rejecting a tampered proof is never a
// violation; a panic on a tampered proof is counted (that is property C09), not flagged.
package main

import (
	"bytes"
	"encoding/hex"
	"encoding/json"
	"fmt"
	"math/rand"
	"os"
	"path/filepath"
	"runtime/debug"
	"sort"
	"strings"

	"github.com/LiskHQ/lisk-engine/pkg/codec"
	"github.com/LiskHQ/lisk-engine/pkg/db"
	"github.com/LiskHQ/lisk-engine/pkg/db/batchdb"
	"github.com/LiskHQ/lisk-engine/pkg/trie/smt"

	"verifharness/internal/mon"
	"verifharness/internal/ref39"
)

// ---------------------------------------------------------------------------------------
// helpers

func cp(b []byte) []byte { return append(make([]byte, 0, len(b)), b...) }
func cpAll(bs [][]byte) [][]byte {
	out := make([][]byte, len(bs))
	for i, b := range bs {
		out[i] = cp(b)
	}
	return out
}
func hx(b []byte) string { return hex.EncodeToString(b) }
func hexAll(bs [][]byte) []string {
	out := make([]string, len(bs))
	for i, b := range bs {
		out[i] = hx(b)
	}
	return out
}

func guard(f func()) (panicked bool, msg, stack string) {
	defer func() {
		if r := recover(); r != nil {
			panicked, msg, stack = true, fmt.Sprint(r), string(debug.Stack())
		}
	}()
	f()
	return
}

func trimStack(st string) string {
	var keep []string
	for _, l := range strings.Split(st, "\n") {
		if strings.Contains(l, "lisk-engine/pkg") && !strings.Contains(l, "\t") {
			keep = append(keep, strings.TrimSpace(l))
		}
		if len(keep) > 8 {
			break
		}
	}
	return strings.Join(keep, " | ")
}

func randBytes(r *rand.Rand, n int) []byte {
	b := make([]byte, n)
	r.Read(b)
	return b
}

func setBit(k []byte, i int, v bool) {
	if v {
		k[i/8] |= 0x80 >> uint(i%8)
	} else {
		k[i/8] &^= 0x80 >> uint(i%8)
	}
}
func getBit(k []byte, i int) bool { return k[i/8]&(0x80>>uint(i%8)) != 0 }

// ---------------------------------------------------------------------------------------
// key pools

var shapes = []string{"random", "prefix", "nearfull", "dense", "seq", "mixed", "prefix", "mixed"}

// genPool returns n distinct keys of length L of the given shape.
func genPool(r *rand.Rand, L int, shape string, n int) [][]byte {
	if L == 1 && n > 200 {
		n = 200
	}
	if L == 2 && n > 20000 {
		n = 20000
	}
	seen := map[string]bool{}
	var out [][]byte
	nb := 1 + r.Intn(3)
	bases := make([][]byte, nb)
	for i := range bases {
		bases[i] = randBytes(r, L)
	}
	if nb > 1 && r.Intn(2) == 0 && L > 1 {
		// two bases that themselves share a long prefix
		bases[1] = cp(bases[0])
		bases[1][L-1] ^= byte(1 + r.Intn(255))
		if L > 2 && r.Intn(2) == 0 {
			bases[1][1+r.Intn(L-1)] ^= byte(1 << uint(r.Intn(8)))
		}
	}
	prefBits := []int{7, 8, 9, 15, 16, 17, 23, 24, 25, 8*L - 1, 8*L - 2, 8*L - 3, 8*L - 7, 8*L - 8, 8*L - 9, 8*L - 10}
	var okBits []int
	for _, b := range prefBits {
		if b > 0 && b < 8*L {
			okBits = append(okBits, b)
		}
	}
	pb := make([]int, nb)
	for i := range pb {
		pb[i] = okBits[r.Intn(len(okBits))]
	}
	one := func(sh string, idx int) []byte {
		switch sh {
		case "prefix":
			bi := r.Intn(nb)
			k := cp(bases[bi])
			for b := pb[bi]; b < 8*L; b++ {
				setBit(k, b, r.Intn(2) == 0)
			}
			return k
		case "nearfull":
			bi := r.Intn(nb)
			k := cp(bases[bi])
			lo := 8*L - 1 - r.Intn(minInt(10, 8*L))
			for b := lo; b < 8*L; b++ {
				setBit(k, b, r.Intn(2) == 0)
			}
			return k
		case "dense":
			k := cp(bases[0])
			if L >= 2 {
				k[1] = byte(r.Intn(256))
				if L > 2 && r.Intn(2) == 0 {
					copy(k[2:], randBytes(r, L-2))
				}
			} else {
				k[0] = byte(r.Intn(256))
			}
			return k
		case "seq":
			k := cp(bases[0])
			c := idx + int(bases[0][L-1])
			k[L-1] = byte(c)
			if L >= 2 {
				k[L-2] = byte(c >> 8)
			}
			return k
		}
		return randBytes(r, L)
	}
	sub := []string{"random", "prefix", "nearfull", "dense", "seq"}
	for tries := 0; len(out) < n && tries < 20*n+100; tries++ {
		sh := shape
		if shape == "mixed" {
			sh = sub[r.Intn(len(sub))]
		}
		k := one(sh, len(out))
		if !seen[string(k)] {
			seen[string(k)] = true
			out = append(out, k)
		}
	}
	return out
}

func minInt(a, b int) int {
	if a < b {
		return a
	}
	return b
}

// ---------------------------------------------------------------------------------------
// back ends

type backend interface {
	update(t updater, keys, values [][]byte) ([]byte, error)
	reader() smt.DBReader
	name() string
	close()
}

type updater interface {
	Update(db smt.DBReadWriter, keys [][]byte, values [][]byte) ([]byte, error)
	Prove(db smt.DBReader, queryKeys [][]byte) (*smt.Proof, error)
}

type directDB struct{ d *db.DB }

func (b *directDB) update(t updater, keys, values [][]byte) ([]byte, error) {
	return t.Update(b.d, keys, values)
}
func (b *directDB) reader() smt.DBReader { return b.d }
func (b *directDB) name() string         { return "inmemory" }
func (b *directDB) close()               { b.d.Close() }

// batchDB is what framework.ABIHandler.Commit does: reads from the database, writes go to a
// batch that is applied after Update returned.
type batchDB struct {
	d      *db.DB
	prefix []byte
}

func (b *batchDB) update(t updater, keys, values [][]byte) ([]byte, error) {
	batch := b.d.NewBatch()
	root, err := t.Update(batchdb.NewWithPrefix(b.d, batch, b.prefix), keys, values)
	if err != nil {
		return nil, err
	}
	b.d.Write(batch)
	return root, nil
}
func (b *batchDB) reader() smt.DBReader {
	return batchdb.NewWithPrefix(b.d, b.d.NewBatch(), b.prefix)
}
func (b *batchDB) name() string { return "batchdb" }
func (b *batchDB) close()       { b.d.Close() }

func newBackend(batch bool) backend {
	d, err := db.NewInMemoryDB()
	if err != nil {
		panic(err)
	}
	if batch {
		return &batchDB{d: d, prefix: []byte{0x02}}
	}
	return &directDB{d: d}
}

// ---------------------------------------------------------------------------------------
// claims

type claim struct {
	present bool
	value   []byte
}

func claimOf(qk []byte, q *smt.QueryProof) claim {
	if bytes.Equal(qk, q.Key) && len(q.Value) > 0 {
		return claim{present: true, value: q.Value}
	}
	return claim{}
}

// disagrees returns "" if the claim is true in the map, otherwise what is wrong.
func disagrees(c claim, qk []byte, m map[string][]byte) string {
	v, ok := m[string(qk)]
	switch {
	case c.present && !ok:
		return "claims-present-but-absent"
	case c.present && !bytes.Equal(v, c.value):
		return "claims-present-with-wrong-value"
	case !c.present && ok:
		return "claims-absent-but-present"
	}
	return ""
}

func cloneProof(p *smt.Proof) *smt.Proof {
	out := &smt.Proof{SiblingHashes: make([]codec.Hex, len(p.SiblingHashes)), Queries: make([]*smt.QueryProof, len(p.Queries))}
	for i, s := range p.SiblingHashes {
		out.SiblingHashes[i] = cp(s)
	}
	for i, q := range p.Queries {
		out.Queries[i] = &smt.QueryProof{Key: cp(q.Key), Value: cp(q.Value), Bitmap: cp(q.Bitmap)}
	}
	return out
}

func proofEqual(a, b *smt.Proof) bool {
	if len(a.SiblingHashes) != len(b.SiblingHashes) || len(a.Queries) != len(b.Queries) {
		return false
	}
	for i := range a.SiblingHashes {
		if !bytes.Equal(a.SiblingHashes[i], b.SiblingHashes[i]) {
			return false
		}
	}
	for i := range a.Queries {
		if !bytes.Equal(a.Queries[i].Key, b.Queries[i].Key) || !bytes.Equal(a.Queries[i].Value, b.Queries[i].Value) || !bytes.Equal(a.Queries[i].Bitmap, b.Queries[i].Bitmap) {
			return false
		}
	}
	return true
}

type proofJSON struct {
	SiblingHashes []string    `json:"siblingHashes"`
	Queries       [][3]string `json:"queries_key_value_bitmap"`
}

func showProof(p *smt.Proof) proofJSON {
	var o proofJSON
	for _, s := range p.SiblingHashes {
		o.SiblingHashes = append(o.SiblingHashes, hx(s))
	}
	for _, q := range p.Queries {
		o.Queries = append(o.Queries, [3]string{hx(q.Key), hx(q.Value), hx(q.Bitmap)})
	}
	return o
}

func showMap(m map[string][]byte) any {
	if len(m) > 16 {
		return fmt.Sprintf("%d entries (replay the case)", len(m))
	}
	var o [][2]string
	for _, e := range ref39.Sorted(m) {
		o = append(o, [2]string{hx(e.Key), hx(e.Value)})
	}
	return o
}

// ---------------------------------------------------------------------------------------
// tamperings: each returns (query keys, proof) derived from the honest ones, or nil if not applicable

type tamper struct {
	name string
	f    func(r *rand.Rand, qk [][]byte, p *smt.Proof, x *tctx) ([][]byte, *smt.Proof)
}

type tctx struct {
	L     int
	model map[string][]byte
	pool  [][]byte
}

func anyPresent(r *rand.Rand, x *tctx, not []byte) []byte {
	if len(x.model) == 0 {
		return nil
	}
	es := ref39.Sorted(x.model)
	for tries := 0; tries < 8; tries++ {
		e := es[r.Intn(len(es))]
		if !bytes.Equal(e.Key, not) {
			return e.Key
		}
	}
	return nil
}

func pickQ(r *rand.Rand, p *smt.Proof, pred func(i int, q *smt.QueryProof) bool) int {
	var c []int
	for i, q := range p.Queries {
		if pred == nil || pred(i, q) {
			c = append(c, i)
		}
	}
	if len(c) == 0 {
		return -1
	}
	return c[r.Intn(len(c))]
}

func bitmapBits(bm []byte) int {
	// number of significant bits (leading zero bits stripped)
	n := 0
	seen := false
	for _, b := range bm {
		for j := 0; j < 8; j++ {
			if seen {
				n++
			} else if b&(0x80>>uint(j)) != 0 {
				seen = true
				n++
			}
		}
	}
	return n
}

// significant bits of a proof bitmap (leading zero bits stripped), most significant first
func bitmapBools(bm []byte) []bool {
	var out []bool
	seen := false
	for _, b := range bm {
		for j := 0; j < 8; j++ {
			bit := b&(0x80>>uint(j)) != 0
			if seen {
				out = append(out, bit)
			} else if bit {
				seen = true
				out = append(out, true)
			}
		}
	}
	return out
}

func boolsToBitmap(bits []bool) []byte {
	n := (len(bits) + 7) / 8
	out := make([]byte, n)
	pad := n*8 - len(bits)
	for i, b := range bits {
		if b {
			pos := pad + i
			out[pos/8] |= 0x80 >> uint(pos%8)
		}
	}
	return out
}

// forgeBelow: to an honest proof add the claim "fk is present" one level below the honest query v
// (same path down to that query's node) and one junk sibling hash at position at.
// variant 0: fk leaves the victim's path right below its node (random tail), 1: fk differs from the
// victim's key in the last bit only.
func forgeBelow(r *rand.Rand, qk [][]byte, p *smt.Proof, x *tctx, v, at, variant int) ([][]byte, *smt.Proof) {
	hq := p.Queries[v]
	hb := bitmapBools(hq.Bitmap)
	if len(hb)+1 >= 8*x.L || at > len(p.SiblingHashes) {
		return nil, nil
	}
	fk := cp(hq.Key)
	if variant == 0 {
		setBit(fk, len(hb), !getBit(fk, len(hb)))
		for b := len(hb) + 1; b < 8*x.L; b++ {
			setBit(fk, b, r.Intn(2) == 0)
		}
	} else {
		setBit(fk, 8*x.L-1, !getBit(fk, 8*x.L-1))
	}
	if _, present := x.model[string(fk)]; present {
		return nil, nil
	}
	for _, k := range qk {
		if string(k) == string(fk) {
			return nil, nil
		}
	}
	sib := append([]codec.Hex{}, p.SiblingHashes[:at]...)
	sib = append(sib, randBytes(r, 32))
	sib = append(sib, p.SiblingHashes[at:]...)
	p.SiblingHashes = sib
	p.Queries = append(p.Queries, &smt.QueryProof{Key: fk, Value: randBytes(r, 32), Bitmap: boolsToBitmap(append([]bool{true}, hb...))})
	return append(qk, fk), p
}

func forgedBelow(name string, pos func(r *rand.Rand, n int) int) tamper {
	return tamper{"forged-deeper-query-in-multi-query-proof:junk-sibling-" + name, func(r *rand.Rand, qk [][]byte, p *smt.Proof, x *tctx) ([][]byte, *smt.Proof) {
		if len(p.Queries) < 2 {
			return nil, nil
		}
		return forgeBelow(r, qk, p, x, r.Intn(len(p.Queries)), pos(r, len(p.SiblingHashes)), r.Intn(2))
	}}
}

var tampers = []tamper{
	// ---- a second, forged query one level below an honest one, fed with junk sibling hashes:
	// its computed ancestor coincides with the honest query's node (two fields + siblings change)
	{"forged-deeper-query-with-junk-siblings", func(r *rand.Rand, qk [][]byte, p *smt.Proof, x *tctx) ([][]byte, *smt.Proof) {
		if len(p.Queries) != 1 || len(qk) != 1 {
			return nil, nil
		}
		hq := p.Queries[0]
		hb := bitmapBools(hq.Bitmap)
		if len(hb)+1 >= 8*x.L {
			return nil, nil
		}
		fk := cp(hq.Key)
		// same first len(hb) bits, different afterwards
		setBit(fk, len(hb), !getBit(fk, len(hb)))
		for b := len(hb) + 1; b < 8*x.L; b++ {
			setBit(fk, b, r.Intn(2) == 0)
		}
		if _, present := x.model[string(fk)]; present {
			return nil, nil
		}
		junk := func() []byte { return randBytes(r, 32) }
		sib := []codec.Hex{junk()}
		n := 0
		for _, b := range hb {
			if b {
				if n >= len(p.SiblingHashes) {
					return nil, nil
				}
				sib = append(sib, p.SiblingHashes[n], junk())
				n++
			}
		}
		forged := &smt.QueryProof{Key: fk, Value: randBytes(r, 32), Bitmap: boolsToBitmap(append([]bool{true}, hb...))}
		p.SiblingHashes = sib
		p.Queries = append(p.Queries, forged)
		return append(qk, fk), p
	}},
	// ---- the same forgery inside a proof with several honest queries: one junk sibling hash at a
	// chosen position (other honest queries may still wait on greater heights when the forged one
	// is merged into its victim's path)
	forgedBelow("first", func(r *rand.Rand, n int) int { return 0 }),
	forgedBelow("second", func(r *rand.Rand, n int) int { return min(1, n) }),
	forgedBelow("third", func(r *rand.Rand, n int) int { return min(2, n) }),
	forgedBelow("random", func(r *rand.Rand, n int) int { return r.Intn(n + 1) }),
	forgedBelow("last", func(r *rand.Rand, n int) int { return n }),
	// ---- value
	{"value-flip-bit", func(r *rand.Rand, qk [][]byte, p *smt.Proof, x *tctx) ([][]byte, *smt.Proof) {
		i := pickQ(r, p, func(_ int, q *smt.QueryProof) bool { return len(q.Value) > 0 })
		if i < 0 {
			return nil, nil
		}
		p.Queries[i].Value[r.Intn(len(p.Queries[i].Value))] ^= 1 << uint(r.Intn(8))
		return qk, p
	}},
	{"value-random", func(r *rand.Rand, qk [][]byte, p *smt.Proof, x *tctx) ([][]byte, *smt.Proof) {
		i := pickQ(r, p, nil)
		p.Queries[i].Value = randBytes(r, 32)
		return qk, p
	}},
	{"value-empty", func(r *rand.Rand, qk [][]byte, p *smt.Proof, x *tctx) ([][]byte, *smt.Proof) {
		i := pickQ(r, p, func(_ int, q *smt.QueryProof) bool { return len(q.Value) > 0 })
		if i < 0 {
			return nil, nil
		}
		p.Queries[i].Value = []byte{}
		return qk, p
	}},
	{"value-of-other-key", func(r *rand.Rand, qk [][]byte, p *smt.Proof, x *tctx) ([][]byte, *smt.Proof) {
		i := pickQ(r, p, nil)
		o := anyPresent(r, x, p.Queries[i].Key)
		if o == nil {
			return nil, nil
		}
		p.Queries[i].Value = cp(x.model[string(o)])
		return qk, p
	}},
	{"value-truncate", func(r *rand.Rand, qk [][]byte, p *smt.Proof, x *tctx) ([][]byte, *smt.Proof) {
		i := pickQ(r, p, func(_ int, q *smt.QueryProof) bool { return len(q.Value) > 1 })
		if i < 0 {
			return nil, nil
		}
		p.Queries[i].Value = p.Queries[i].Value[:len(p.Queries[i].Value)-1]
		return qk, p
	}},
	// ---- key
	{"key-flip-low-bit", func(r *rand.Rand, qk [][]byte, p *smt.Proof, x *tctx) ([][]byte, *smt.Proof) {
		i := pickQ(r, p, nil)
		h := bitmapBits(p.Queries[i].Bitmap)
		if h >= 8*x.L {
			return nil, nil
		}
		b := h + r.Intn(8*x.L-h)
		setBit(p.Queries[i].Key, b, !getBit(p.Queries[i].Key, b))
		return qk, p
	}},
	{"key-flip-path-bit", func(r *rand.Rand, qk [][]byte, p *smt.Proof, x *tctx) ([][]byte, *smt.Proof) {
		i := pickQ(r, p, func(_ int, q *smt.QueryProof) bool { return bitmapBits(q.Bitmap) > 0 })
		if i < 0 {
			return nil, nil
		}
		b := r.Intn(bitmapBits(p.Queries[i].Bitmap))
		setBit(p.Queries[i].Key, b, !getBit(p.Queries[i].Key, b))
		return qk, p
	}},
	{"key-to-query-key", func(r *rand.Rand, qk [][]byte, p *smt.Proof, x *tctx) ([][]byte, *smt.Proof) {
		i := pickQ(r, p, func(i int, q *smt.QueryProof) bool { return !bytes.Equal(q.Key, qk[i]) })
		if i < 0 {
			return nil, nil
		}
		p.Queries[i].Key = cp(qk[i])
		return qk, p
	}},
	{"key-to-other-present-key", func(r *rand.Rand, qk [][]byte, p *smt.Proof, x *tctx) ([][]byte, *smt.Proof) {
		i := pickQ(r, p, nil)
		o := anyPresent(r, x, p.Queries[i].Key)
		if o == nil {
			return nil, nil
		}
		p.Queries[i].Key = cp(o)
		return qk, p
	}},
	{"key-to-other-query-key", func(r *rand.Rand, qk [][]byte, p *smt.Proof, x *tctx) ([][]byte, *smt.Proof) {
		if len(qk) < 2 {
			return nil, nil
		}
		i := r.Intn(len(qk))
		j := (i + 1 + r.Intn(len(qk)-1)) % len(qk)
		p.Queries[i].Key = cp(qk[j])
		return qk, p
	}},
	{"key-truncate", func(r *rand.Rand, qk [][]byte, p *smt.Proof, x *tctx) ([][]byte, *smt.Proof) {
		i := pickQ(r, p, nil)
		if len(p.Queries[i].Key) < 1 {
			return nil, nil
		}
		p.Queries[i].Key = p.Queries[i].Key[:len(p.Queries[i].Key)-1]
		return qk, p
	}},
	{"key-extend", func(r *rand.Rand, qk [][]byte, p *smt.Proof, x *tctx) ([][]byte, *smt.Proof) {
		i := pickQ(r, p, nil)
		p.Queries[i].Key = append(p.Queries[i].Key, byte(r.Intn(256)))
		return qk, p
	}},
	// ---- bitmap
	{"bitmap-flip-bit", func(r *rand.Rand, qk [][]byte, p *smt.Proof, x *tctx) ([][]byte, *smt.Proof) {
		i := pickQ(r, p, func(_ int, q *smt.QueryProof) bool { return len(q.Bitmap) > 0 })
		if i < 0 {
			return nil, nil
		}
		p.Queries[i].Bitmap[r.Intn(len(p.Queries[i].Bitmap))] ^= 1 << uint(r.Intn(8))
		return qk, p
	}},
	{"bitmap-prepend-zero-byte", func(r *rand.Rand, qk [][]byte, p *smt.Proof, x *tctx) ([][]byte, *smt.Proof) {
		i := pickQ(r, p, nil)
		p.Queries[i].Bitmap = append([]byte{0}, p.Queries[i].Bitmap...)
		return qk, p
	}},
	{"bitmap-append-zero-byte", func(r *rand.Rand, qk [][]byte, p *smt.Proof, x *tctx) ([][]byte, *smt.Proof) {
		i := pickQ(r, p, nil)
		p.Queries[i].Bitmap = append(p.Queries[i].Bitmap, 0)
		return qk, p
	}},
	{"bitmap-prepend-one-bit", func(r *rand.Rand, qk [][]byte, p *smt.Proof, x *tctx) ([][]byte, *smt.Proof) {
		i := pickQ(r, p, nil)
		p.Queries[i].Bitmap = append([]byte{1}, p.Queries[i].Bitmap...)
		return qk, p
	}},
	{"bitmap-drop-first-byte", func(r *rand.Rand, qk [][]byte, p *smt.Proof, x *tctx) ([][]byte, *smt.Proof) {
		i := pickQ(r, p, func(_ int, q *smt.QueryProof) bool { return len(q.Bitmap) > 0 })
		if i < 0 {
			return nil, nil
		}
		p.Queries[i].Bitmap = p.Queries[i].Bitmap[1:]
		return qk, p
	}},
	{"bitmap-of-other-query", func(r *rand.Rand, qk [][]byte, p *smt.Proof, x *tctx) ([][]byte, *smt.Proof) {
		if len(qk) < 2 {
			return nil, nil
		}
		i := r.Intn(len(qk))
		j := (i + 1 + r.Intn(len(qk)-1)) % len(qk)
		p.Queries[i].Bitmap = cp(p.Queries[j].Bitmap)
		return qk, p
	}},
	// ---- sibling hashes
	{"sibling-flip-bit", func(r *rand.Rand, qk [][]byte, p *smt.Proof, x *tctx) ([][]byte, *smt.Proof) {
		if len(p.SiblingHashes) == 0 {
			return nil, nil
		}
		s := p.SiblingHashes[r.Intn(len(p.SiblingHashes))]
		s[r.Intn(len(s))] ^= 1 << uint(r.Intn(8))
		return qk, p
	}},
	{"sibling-drop", func(r *rand.Rand, qk [][]byte, p *smt.Proof, x *tctx) ([][]byte, *smt.Proof) {
		if len(p.SiblingHashes) == 0 {
			return nil, nil
		}
		i := r.Intn(len(p.SiblingHashes))
		p.SiblingHashes = append(p.SiblingHashes[:i], p.SiblingHashes[i+1:]...)
		return qk, p
	}},
	{"sibling-add", func(r *rand.Rand, qk [][]byte, p *smt.Proof, x *tctx) ([][]byte, *smt.Proof) {
		i := r.Intn(len(p.SiblingHashes) + 1)
		var h []byte
		switch r.Intn(3) {
		case 0:
			h = randBytes(r, 32)
		case 1:
			h = cp(ref39.EmptyHash)
		default:
			if len(p.SiblingHashes) > 0 {
				h = cp(p.SiblingHashes[r.Intn(len(p.SiblingHashes))])
			} else {
				h = randBytes(r, 32)
			}
		}
		p.SiblingHashes = append(p.SiblingHashes[:i], append([]codec.Hex{h}, p.SiblingHashes[i:]...)...)
		return qk, p
	}},
	{"sibling-swap", func(r *rand.Rand, qk [][]byte, p *smt.Proof, x *tctx) ([][]byte, *smt.Proof) {
		if len(p.SiblingHashes) < 2 {
			return nil, nil
		}
		i := r.Intn(len(p.SiblingHashes))
		j := (i + 1 + r.Intn(len(p.SiblingHashes)-1)) % len(p.SiblingHashes)
		p.SiblingHashes[i], p.SiblingHashes[j] = p.SiblingHashes[j], p.SiblingHashes[i]
		return qk, p
	}},
	{"sibling-to-empty-hash", func(r *rand.Rand, qk [][]byte, p *smt.Proof, x *tctx) ([][]byte, *smt.Proof) {
		if len(p.SiblingHashes) == 0 {
			return nil, nil
		}
		p.SiblingHashes[r.Intn(len(p.SiblingHashes))] = cp(ref39.EmptyHash)
		return qk, p
	}},
	// ---- queries
	{"query-drop", func(r *rand.Rand, qk [][]byte, p *smt.Proof, x *tctx) ([][]byte, *smt.Proof) {
		i := r.Intn(len(p.Queries))
		p.Queries = append(p.Queries[:i], p.Queries[i+1:]...)
		return qk, p
	}},
	{"query-and-key-drop", func(r *rand.Rand, qk [][]byte, p *smt.Proof, x *tctx) ([][]byte, *smt.Proof) {
		if len(qk) < 2 {
			return nil, nil
		}
		i := r.Intn(len(p.Queries))
		p.Queries = append(p.Queries[:i], p.Queries[i+1:]...)
		qk = append(qk[:i], qk[i+1:]...)
		return qk, p
	}},
	{"query-and-key-duplicate", func(r *rand.Rand, qk [][]byte, p *smt.Proof, x *tctx) ([][]byte, *smt.Proof) {
		i := r.Intn(len(p.Queries))
		q := p.Queries[i]
		p.Queries = append(p.Queries, &smt.QueryProof{Key: cp(q.Key), Value: cp(q.Value), Bitmap: cp(q.Bitmap)})
		qk = append(qk, cp(qk[i]))
		return qk, p
	}},
	{"query-swap", func(r *rand.Rand, qk [][]byte, p *smt.Proof, x *tctx) ([][]byte, *smt.Proof) {
		if len(qk) < 2 {
			return nil, nil
		}
		i := r.Intn(len(qk))
		j := (i + 1 + r.Intn(len(qk)-1)) % len(qk)
		p.Queries[i], p.Queries[j] = p.Queries[j], p.Queries[i]
		return qk, p
	}},
	{"query-replace-by-copy-of-other", func(r *rand.Rand, qk [][]byte, p *smt.Proof, x *tctx) ([][]byte, *smt.Proof) {
		if len(qk) < 2 {
			return nil, nil
		}
		i := r.Intn(len(qk))
		j := (i + 1 + r.Intn(len(qk)-1)) % len(qk)
		q := p.Queries[j]
		p.Queries[i] = &smt.QueryProof{Key: cp(q.Key), Value: cp(q.Value), Bitmap: cp(q.Bitmap)}
		return qk, p
	}},
	{"query-key-replaced(other absent key asked)", func(r *rand.Rand, qk [][]byte, p *smt.Proof, x *tctx) ([][]byte, *smt.Proof) {
		// the verifier asks for a different key than the prover answered
		i := r.Intn(len(qk))
		var o []byte
		if r.Intn(2) == 0 && len(x.pool) > 0 {
			o = cp(x.pool[r.Intn(len(x.pool))])
		} else {
			o = cp(qk[i])
			b := r.Intn(8 * x.L)
			setBit(o, b, !getBit(o, b))
		}
		qk[i] = o
		return qk, p
	}},
	// ---- two fields at once (beyond "single field", inside "no proof verifies for a false claim")
	{"2-field:key-value-boundary-shift", func(r *rand.Rand, qk [][]byte, p *smt.Proof, x *tctx) ([][]byte, *smt.Proof) {
		i := pickQ(r, p, func(_ int, q *smt.QueryProof) bool { return len(q.Value) > 1 })
		if i < 0 {
			return nil, nil
		}
		q := p.Queries[i]
		if r.Intn(2) == 0 {
			q.Key, q.Value = append(q.Key, q.Value[0]), q.Value[1:]
		} else {
			q.Key, q.Value = q.Key[:len(q.Key)-1], append([]byte{q.Key[len(q.Key)-1]}, q.Value...)
		}
		return qk, p
	}},
	{"2-field:key-to-query-key+value-random", func(r *rand.Rand, qk [][]byte, p *smt.Proof, x *tctx) ([][]byte, *smt.Proof) {
		i := pickQ(r, p, func(i int, q *smt.QueryProof) bool { return !bytes.Equal(q.Key, qk[i]) })
		if i < 0 {
			return nil, nil
		}
		p.Queries[i].Key = cp(qk[i])
		p.Queries[i].Value = randBytes(r, 32)
		return qk, p
	}},
}

// ---------------------------------------------------------------------------------------
// naming of a finding: the verdict comes from claim-vs-map (or honest-proof-rejected) alone;
// the diagnosis below only chooses a stable key that separates the situations in the proof
// data that make the difference, so that one defect gives one key whatever tampering hit it.

// pathOf returns the first (significant bitmap bits) bits of the key of a query, as a 0/1 string.
func pathOf(q *smt.QueryProof) (string, bool) {
	h := bitmapBits(q.Bitmap)
	if h > 8*len(q.Key) {
		return "", false
	}
	b := make([]byte, h)
	for i := 0; i < h; i++ {
		if getBit(q.Key, i) {
			b[i] = '1'
		} else {
			b[i] = '0'
		}
	}
	return string(b), true
}

func sameNode(a, b *smt.QueryProof) bool {
	if len(a.Value) == 0 && len(b.Value) == 0 {
		return true
	}
	return bytes.Equal(a.Key, b.Key) && bytes.Equal(a.Value, b.Value)
}

// diagnose describes query i of the proof relative to the other queries.
func diagnose(p *smt.Proof, i int, L int) string {
	q := p.Queries[i]
	if len(q.Key) != L {
		return "proof-key-has-other-length"
	}
	pi, ok := pathOf(q)
	if !ok {
		return "other"
	}
	lz := ""
	for j, o := range p.Queries {
		if j == i {
			continue
		}
		pj, ok := pathOf(o)
		if !ok {
			continue
		}
		if pi == pj && !sameNode(q, o) {
			return "another-query-with-same-path-describes-another-node"
		}
		if pi != pj && strings.TrimLeft(pi, "0") == strings.TrimLeft(pj, "0") {
			lz = "another-query-path-equal-modulo-leading-zeros"
		}
	}
	if lz != "" {
		return lz
	}
	return "other"
}

func diagnoseHonest(p *smt.Proof, L int) string {
	for i := range p.Queries {
		if d := diagnose(p, i, L); d == "another-query-path-equal-modulo-leading-zeros" {
			return "two-query-paths-equal-modulo-leading-zeros"
		}
	}
	return "other"
}

// ---------------------------------------------------------------------------------------
// one trie state: honest proofs and tamperings

type state struct {
	k     *mon.Case
	L     int
	model map[string][]byte
	pool  [][]byte
	root  []byte   // real root (== reference root, checked before)
	olds  [][]byte // earlier roots of this history
	desc  any
}

func (s *state) viol(key, what string, extra map[string]any) {
	w := map[string]any{"case": s.desc, "keyLength": s.L, "map": showMap(s.model), "root": hx(s.root)}
	for k, v := range extra {
		w[k] = v
	}
	s.k.Violation(key, what, w)
}

// queryKind says how the tree decides key: "present", "absent-empty" or "absent-other-leaf"
func (s *state) queryKind(es []ref39.Entry, key []byte) string {
	_, kind := ref39.Depth(es, key)
	switch kind {
	case "leaf":
		return "present"
	case "other":
		return "absent-other-leaf"
	}
	return "absent-empty"
}

func (s *state) genQueries(r *rand.Rand) ([][]byte, string) {
	es := ref39.Sorted(s.model)
	n := 1 + r.Intn(12)
	if r.Intn(6) == 0 {
		n = 1
	}
	var qs [][]byte
	mode := r.Intn(10)
	if mode == 0 && len(es) > 0 && len(es) <= 400 {
		for _, e := range es {
			qs = append(qs, cp(e.Key))
		}
		r.Shuffle(len(qs), func(i, j int) { qs[i], qs[j] = qs[j], qs[i] })
	} else {
		for len(qs) < n {
			switch c := r.Intn(8); {
			case c < 3 && len(es) > 0: // present
				qs = append(qs, cp(es[r.Intn(len(es))].Key))
			case c < 5 && len(s.pool) > 0: // pool key (present or absent)
				qs = append(qs, cp(s.pool[r.Intn(len(s.pool))]))
			case c < 7 && len(es) > 0: // neighbour of a present key: flip one bit
				k := cp(es[r.Intn(len(es))].Key)
				var b int
				if r.Intn(2) == 0 {
					b = 8*s.L - 1 - r.Intn(minInt(8*s.L, 12))
				} else {
					b = r.Intn(8 * s.L)
				}
				setBit(k, b, !getBit(k, b))
				qs = append(qs, k)
			default:
				qs = append(qs, randBytes(r, s.L))
			}
		}
		if r.Intn(5) == 0 { // duplicate query keys
			qs = append(qs, cp(qs[r.Intn(len(qs))]))
		}
	}
	kinds := map[string]bool{}
	for _, q := range qs {
		kinds[s.queryKind(es, q)] = true
	}
	var ks []string
	for k := range kinds {
		ks = append(ks, k)
	}
	sort.Strings(ks)
	shape := strings.Join(ks, "+")
	if len(qs) == 1 {
		shape = "single:" + shape
	}
	return qs, shape
}

func (s *state) checkProofs(t updater, rd smt.DBReader, nQueries, nTamper int) {
	k := s.k
	r := k.R
	for qi := 0; qi < nQueries; qi++ {
		qk, shape := s.genQueries(r)
		k.Eval(1)
		k.Count("proofs", 1)
		k.Count("query_shape:"+shape, 1)
		var proof *smt.Proof
		var err error
		if pn, msg, st := guard(func() { proof, err = t.Prove(rd, cpAll(qk)) }); pn {
			s.viol("prove:panic", "Prove panics", map[string]any{"queryKeys": hexAll(qk), "panic": msg, "stack": trimStack(st)})
			continue
		}
		if err != nil {
			s.viol("prove:error", "Prove fails for well-formed query keys", map[string]any{"queryKeys": hexAll(qk), "err": err.Error()})
			continue
		}
		if len(proof.Queries) != len(qk) {
			s.viol("prove:query-count-differs", "Prove returns a different number of queries than asked", map[string]any{"queryKeys": hexAll(qk), "proof": showProof(proof)})
			continue
		}
		honest := cloneProof(proof)
		// completeness
		var ok bool
		if pn, msg, st := guard(func() { ok, err = smt.Verify(cpAll(qk), cloneProof(honest), cp(s.root), s.L) }); pn {
			s.viol("verify:honest-panic", "Verify panics on a generated proof", map[string]any{"queryKeys": hexAll(qk), "proof": showProof(honest), "panic": msg, "stack": trimStack(st)})
			continue
		}
		if !ok || err != nil {
			k.Count("honest_rejected", 1)
			s.viol("verify:honest-rejected:"+diagnoseHonest(honest, s.L), "a generated proof does not verify against the root it was generated for", map[string]any{"query_shape": shape, "queryKeys": hexAll(qk), "proof": showProof(honest), "err": fmt.Sprint(err)})
			continue
		}
		k.Count("honest_verified", 1)
		bad := false
		for i := range qk {
			if why := disagrees(claimOf(qk[i], honest.Queries[i]), qk[i], s.model); why != "" {
				bad = true
				s.viol("prove:"+why, "a generated proof shows something else than the map for a query key", map[string]any{"queryKeys": hexAll(qk), "i": i, "proof": showProof(honest)})
			}
		}
		if bad {
			continue
		}
		// --- other roots, honest proof
		var roots [][]byte
		fl := cp(s.root)
		fl[r.Intn(len(fl))] ^= 1 << uint(r.Intn(8))
		roots = append(roots, fl, cp(ref39.EmptyHash), s.root[:31], append(cp(s.root), 0))
		if len(s.olds) > 0 {
			roots = append(roots, s.olds[r.Intn(len(s.olds))])
		}
		for ri, rt := range roots {
			if bytes.Equal(rt, s.root) {
				continue
			}
			k.Count("other_root_tried", 1)
			var acc bool
			pn, _, _ := guard(func() { acc, _ = smt.Verify(cpAll(qk), cloneProof(honest), cp(rt), s.L) })
			switch {
			case pn:
				k.Count("other_root_panic", 1)
			case acc:
				s.viol("sound:other-root", "Verify accepts a proof against a root other than the one it was generated for", map[string]any{"queryKeys": hexAll(qk), "proof": showProof(honest), "variant": ri, "other_root": hx(rt)})
			default:
				k.Count("other_root_rejected", 1)
			}
		}
		// --- tamperings
		x := &tctx{L: s.L, model: s.model, pool: s.pool}
		judge := func(tm tamper, tq [][]byte, tp *smt.Proof) {
			if tp == nil {
				k.Count("tamper_not_applicable", 1)
				return
			}
			if proofEqual(tp, honest) && len(tq) == len(qk) && eqAll(tq, qk) {
				k.Count("tamper_noop", 1)
				return
			}
			k.Count("tampered", 1)
			shown := showProof(tp) // before Verify may touch it
			shownProof := cloneProof(tp)
			var acc bool
			var verr error
			pn, msg, st := guard(func() { acc, verr = smt.Verify(cpAll(tq), tp, cp(s.root), s.L) })
			// what does the tampered proof claim?
			falseClaim := ""
			falseAt := -1
			if len(tq) == len(shown.Queries) {
				for i := range tq {
					kb, _ := hex.DecodeString(shown.Queries[i][0])
					vb, _ := hex.DecodeString(shown.Queries[i][1])
					if why := disagrees(claimOf(tq[i], &smt.QueryProof{Key: kb, Value: vb}), tq[i], s.model); why != "" && falseClaim == "" {
						falseClaim, falseAt = why, i
					}
				}
			}
			switch {
			case pn:
				k.Count("tamper_panic(C09, no C10 verdict):"+tm.name+"@"+mon.InnermostRepoFrame(st), 1)
				k.Sample(map[string]any{"panic_on_tampered_proof": tm.name, "panic": msg, "stack": trimStack(st), "keyLength": s.L, "queryKeys": hexAll(tq), "proof": shown})
			case !acc:
				if falseClaim == "" {
					k.Count("tamper_rejected_claim_still_true(no verdict)", 1)
				} else {
					k.Count("tamper_rejected_false_claim", 1)
				}
				if verr != nil {
					k.Count("tamper_rejected_with_error", 1)
				}
			case falseClaim != "":
				k.Count("tamper_accepted_false_claim", 1)
				s.viol("sound:"+falseClaim+":"+diagnose(shownProof, falseAt, s.L), "Verify accepts a proof whose claim for a query key disagrees with the map", map[string]any{
					"tamper": tm.name, "queryKeys": hexAll(tq), "i": falseAt, "honest_queryKeys": hexAll(qk), "honest_proof": showProof(honest), "tampered_proof": shown})
			default:
				k.Count("tamper_accepted_claim_true:"+tm.name, 1)
			}
		}
		for ti := 0; ti < nTamper; ti++ {
			tm := tampers[r.Intn(len(tampers))]
			tq, tp := tm.f(r, cpAll(qk), cloneProof(honest), x)
			judge(tm, tq, tp)
		}
		// forgery sweep: the forged-below claim under every honest query, the junk sibling at every
		// position (small proofs only; every fourth proof)
		if len(honest.Queries) >= 2 && len(honest.Queries) <= 4 && len(honest.SiblingHashes) <= 16 && r.Intn(4) == 0 {
			k.Count("forgery_sweeps", 1)
			sw := tamper{name: "forged-deeper-query-in-multi-query-proof:sweep"}
			for v := range honest.Queries {
				for at := 0; at <= len(honest.SiblingHashes); at++ {
					tq, tp := forgeBelow(r, cpAll(qk), cloneProof(honest), x, v, at, (v+at)%2)
					judge(sw, tq, tp)
				}
			}
		}
	}
}

func eqAll(a, b [][]byte) bool {
	if len(a) != len(b) {
		return false
	}
	for i := range a {
		if !bytes.Equal(a[i], b[i]) {
			return false
		}
	}
	return true
}

// ---------------------------------------------------------------------------------------
// histories

type caseDesc struct {
	KeyLength int    `json:"keyLength"`
	Shape     string `json:"shape"`
	Pool      int    `json:"pool"`
	Steps     int    `json:"steps"`
	Mode      string `json:"mode"`
	FinalSize int    `json:"finalSize"`
}

type batch struct{ keys, values [][]byte }

// genBatch draws distinct keys from the pool and decides insert / overwrite / delete.
func genBatch(r *rand.Rand, pool [][]byte, model map[string][]byte, size int, delBias int) batch {
	if size > len(pool) {
		size = len(pool)
	}
	var b batch
	for _, pi := range r.Perm(len(pool))[:size] {
		key := pool[pi]
		_, present := model[string(key)]
		var val []byte
		switch c := r.Intn(10); {
		case present && c < delBias:
			val = []byte{}
		case present && c == 9:
			val = cp(model[string(key)]) // overwrite with the same value
		case !present && c == 0:
			val = []byte{} // delete of an absent key
		default:
			val = randBytes(r, 32)
		}
		b.keys = append(b.keys, cp(key))
		b.values = append(b.values, val)
	}
	switch r.Intn(3) {
	case 0:
		sortBatch(&b, false)
	case 1:
		sortBatch(&b, true)
	}
	return b
}

func sortBatch(b *batch, reverse bool) {
	idx := make([]int, len(b.keys))
	for i := range idx {
		idx[i] = i
	}
	sort.Slice(idx, func(i, j int) bool {
		c := bytes.Compare(b.keys[idx[i]], b.keys[idx[j]])
		if reverse {
			return c > 0
		}
		return c < 0
	})
	nk, nv := make([][]byte, len(idx)), make([][]byte, len(idx))
	for i, j := range idx {
		nk[i], nv[i] = b.keys[j], b.values[j]
	}
	b.keys, b.values = nk, nv
}

func apply(model map[string][]byte, b batch) {
	for i, k := range b.keys {
		if len(b.values[i]) == 0 {
			delete(model, string(k))
		} else {
			model[string(k)] = b.values[i]
		}
	}
}

func shuffled(r *rand.Rand, b batch) batch {
	p := r.Perm(len(b.keys))
	o := batch{keys: make([][]byte, len(p)), values: make([][]byte, len(p))}
	for i, j := range p {
		o.keys[i], o.values[i] = cp(b.keys[j]), cp(b.values[j])
	}
	return o
}

func doUpdate(k *mon.Case, be backend, t updater, b batch) (root []byte, fail string, detail string) {
	var err error
	if pn, msg, st := guard(func() { root, err = be.update(t, cpAll(b.keys), cpAll(b.values)) }); pn {
		return nil, "update:panic", msg + " @ " + trimStack(st)
	}
	if err != nil {
		return nil, "update:error", err.Error()
	}
	k.Count("updates:"+be.name(), 1)
	return root, "", ""
}

func history(c *mon.Ctx, k *mon.Case, L int, shape string, poolN, maxSteps, maxBatch int, nQueries, nTamper int) {
	r := k.R
	pool := genPool(r, L, shape, poolN)
	steps := 1 + r.Intn(maxSteps)
	mode := []string{"random", "random", "random", "drain", "grow-then-delete"}[r.Intn(5)]
	d := &caseDesc{KeyLength: L, Shape: shape, Pool: len(pool), Steps: steps, Mode: mode}
	model := map[string][]byte{}

	beA := newBackend(false) // one trie object over the in-memory DB
	beB := newBackend(true)  // batchdb + a trie re-opened from the stored nodes before every batch
	defer beA.close()
	defer beB.close()
	tA := smt.NewTrie(nil, L)
	rootB := []byte(nil)
	var olds [][]byte
	var batches []batch
	st := &state{k: k, L: L, model: model, pool: pool, desc: d}

	failed := false
	step := func(b batch, label string) {
		if failed || len(b.keys) == 0 {
			return
		}
		batches = append(batches, b)
		apply(model, b)
		want := ref39.Root(model)
		k.Eval(1)
		w := func(got []byte, detail string) map[string]any {
			m := map[string]any{"step": len(batches), "label": label, "batch_keys": hexAll(b.keys), "batch_values": hexAll(b.values), "want": hx(want), "detail": detail}
			if got != nil {
				m["got"] = hx(got)
			}
			if len(batches) <= 4 && len(b.keys) <= 16 {
				var hist []map[string]any
				for _, pb := range batches {
					hist = append(hist, map[string]any{"keys": hexAll(pb.keys), "values": hexAll(pb.values)})
				}
				m["history"] = hist
			}
			return m
		}
		// A: continuous object
		got, fail, detail := doUpdate(k, beA, tA, b)
		if fail != "" {
			failed = true
			st.viol(fail+":inmemory", "Update fails on well-formed input", w(nil, detail))
			return
		}
		if !bytes.Equal(got, want) {
			failed = true
			k.Count("root_mismatch", 1)
			st.viol("root:differs-from-lip39:inmemory", "root after Update differs from the LIP-0039 root of the map", w(got, ""))
			return
		}
		k.Count("root_matches_lip39", 1)
		// B: reopened from the stored nodes at the last root, batch applied in another order
		tB := smt.NewTrie(rootB, L)
		gotB, fail, detail := doUpdate(k, beB, tB, shuffled(r, b))
		if fail != "" {
			failed = true
			st.viol(fail+":reopened-batchdb", "Update on a trie reopened from its stored nodes fails", w(nil, detail))
			return
		}
		if !bytes.Equal(gotB, want) {
			failed = true
			k.Count("root_mismatch", 1)
			st.viol("root:differs-from-lip39:reopened-batchdb", "a trie reopened from its stored nodes at the latest root (batchdb back end, other batch order) does not continue identically", w(gotB, ""))
			return
		}
		k.Count("root_matches_lip39_reopened", 1)
		rootB = gotB
		if len(olds) == 0 || !bytes.Equal(olds[len(olds)-1], want) {
			olds = append(olds, want)
		}
	}

	if !bytes.Equal(ref39.EmptyHash, ref39.Root(model)) {
		k.Inconclusive("reference broken")
		return
	}
	// the empty trie: an empty batch and a delete-only batch keep the empty hash
	if r.Intn(4) == 0 && len(pool) > 0 {
		step(batch{keys: [][]byte{cp(pool[0])}, values: [][]byte{{}}}, "delete-on-empty")
	}
	for s := 0; s < steps; s++ {
		size := 1 + r.Intn(maxBatch)
		if r.Intn(4) == 0 {
			size = 1 + r.Intn(4)
		}
		delBias := 3
		if mode == "grow-then-delete" {
			if s < steps/2 {
				delBias = 0
			} else {
				delBias = 7
			}
		}
		step(genBatch(r, pool, model, size, delBias), "random")
		// proofs at an intermediate state now and then
		if !failed && s < steps-1 && r.Intn(4) == 0 {
			st.root = ref39.Root(model)
			st.olds = olds[:len(olds)-1]
			st.checkProofs(tA, beA.reader(), 1+nQueries/4, nTamper)
		}
	}
	if mode == "drain" && !failed {
		// delete down to one key, then to empty, then re-insert
		es := ref39.Sorted(model)
		if len(es) > 1 {
			r.Shuffle(len(es), func(i, j int) { es[i], es[j] = es[j], es[i] })
			var b batch
			for _, e := range es[1:] {
				b.keys = append(b.keys, cp(e.Key))
				b.values = append(b.values, []byte{})
			}
			// in two batches
			h := len(b.keys) / 2
			step(batch{keys: b.keys[:h], values: b.values[:h]}, "drain-1")
			step(batch{keys: b.keys[h:], values: b.values[h:]}, "drain-to-one")
			if !failed && len(model) == 1 {
				k.Count("drained_to_one_key", 1)
				st.root = ref39.Root(model)
				st.olds = olds[:len(olds)-1]
				st.checkProofs(tA, beA.reader(), 2, nTamper)
			}
		}
		if len(es) > 0 {
			step(batch{keys: [][]byte{cp(es[0].Key)}, values: [][]byte{{}}}, "drain-to-empty")
			if !failed && len(model) == 0 {
				k.Count("drained_to_empty", 1)
				st.root = ref39.Root(model)
				st.olds = olds[:len(olds)-1]
				st.checkProofs(tA, beA.reader(), 2, nTamper)
			}
			step(genBatch(r, pool, model, 1+r.Intn(maxBatch), 0), "re-insert")
		}
	}
	if failed {
		return
	}
	d.FinalSize = len(model)
	k.Sample(d)
	final := ref39.Root(model)
	dels := 0
	for _, b := range batches {
		for _, v := range b.values {
			if len(v) == 0 {
				dels++
			}
		}
	}
	if len(model) > 0 {
		k.Nontrivial(fmt.Sprintf("L=%d/%s/%s/root=%x", L, shape, mode, final[:8]))
	}
	k.Count(fmt.Sprintf("final_map_size<=%d", bucket(len(model))), 1)
	k.Count("deletes_in_histories", dels)

	// other histories leading to the same map
	es := ref39.Sorted(model)
	alt := func(name string, bs []batch) {
		be := newBackend(r.Intn(2) == 0)
		defer be.close()
		t := smt.NewTrie(nil, L)
		root := cp(ref39.EmptyHash)
		for _, b := range bs {
			var fail, detail string
			root, fail, detail = doUpdate(k, be, t, b)
			if fail != "" {
				st.viol(fail+":"+name, "Update fails in an alternative history", map[string]any{"detail": detail})
				return
			}
		}
		k.Eval(1)
		if !bytes.Equal(root, final) {
			k.Count("root_mismatch", 1)
			st.viol("root:history-dependent:"+name, "another history leading to the same map gives a different root", map[string]any{"got": hx(root), "want": hx(final)})
		} else {
			k.Count("alt_history_same_root:"+name, 1)
		}
	}
	var all batch
	for _, e := range es {
		all.keys = append(all.keys, cp(e.Key))
		all.values = append(all.values, cp(e.Value))
	}
	if len(es) > 0 {
		alt("one-sorted-batch", []batch{all})
		alt("one-shuffled-batch", []batch{shuffled(r, all)})
		if len(es) <= 80 {
			sh := shuffled(r, all)
			var one []batch
			for i := range sh.keys {
				one = append(one, batch{keys: sh.keys[i : i+1], values: sh.values[i : i+1]})
			}
			alt("one-by-one", one)
		}
		// with keys that are inserted and deleted again, and deletes of absent keys
		var extra, extraDel batch
		for _, pk := range pool {
			if _, in := model[string(pk)]; !in && len(extra.keys) < 1+len(es)/2 {
				extra.keys = append(extra.keys, cp(pk))
				extra.values = append(extra.values, randBytes(r, 32))
				extraDel.keys = append(extraDel.keys, cp(pk))
				extraDel.values = append(extraDel.values, []byte{})
			}
		}
		if len(extra.keys) > 0 {
			first := shuffled(r, batch{keys: append(cpAll(all.keys), extra.keys...), values: append(cpAll(all.values), extra.values...)})
			alt("insert-extra-then-delete", []batch{first, shuffled(r, extraDel)})
			h := len(all.keys) / 2
			alt("extra-first", []batch{extra, {keys: all.keys[:h], values: all.values[:h]}, shuffled(r, extraDel), {keys: all.keys[h:], values: all.values[h:]}})
		}
	}

	// proofs on the final state, on both back ends
	st.root = final
	if len(olds) > 0 {
		st.olds = olds[:len(olds)-1]
	}
	st.checkProofs(tA, beA.reader(), nQueries, nTamper)
	st.checkProofs(smt.NewTrie(rootB, L), beB.reader(), 1+nQueries/3, nTamper)
}

func bucket(n int) int {
	for _, b := range []int{0, 1, 2, 8, 64, 256, 1024, 4096, 16384} {
		if n <= b {
			return b
		}
	}
	return 1 << 30
}

// ---------------------------------------------------------------------------------------
// variable-length values from an empty trie in one batch (what CalculateEventRoot does)

func varlen(k *mon.Case) {
	r := k.R
	L := []int{12, 12, 38, 8, 32}[r.Intn(5)]
	shape := shapes[r.Intn(len(shapes))]
	n := 1 + r.Intn(300)
	if r.Intn(4) == 0 {
		n = 1 + r.Intn(6)
	}
	pool := genPool(r, L, shape, n)
	model := map[string][]byte{}
	var b batch
	for _, key := range pool {
		var v []byte
		switch r.Intn(6) {
		case 0:
			v = randBytes(r, 1+r.Intn(4))
		case 1:
			v = randBytes(r, 32)
		case 2:
			v = randBytes(r, 33+r.Intn(300))
		default:
			v = randBytes(r, 1+r.Intn(120))
		}
		b.keys = append(b.keys, key)
		b.values = append(b.values, v)
		model[string(key)] = v
	}
	st := &state{k: k, L: L, model: model, desc: map[string]any{"stream": "varlen", "keyLength": L, "shape": shape, "n": len(pool)}}
	be := newBackend(r.Intn(2) == 0)
	defer be.close()
	got, fail, detail := doUpdate(k, be, smt.NewTrie(ref39.EmptyHash, L), b)
	want := ref39.Root(model)
	st.root = want
	if fail != "" {
		st.viol(fail+":varlen", "Update with variable-length values on an empty trie fails", map[string]any{"detail": detail})
		return
	}
	if !bytes.Equal(got, want) {
		st.viol("root:differs-from-lip39:varlen", "root of a single batch with variable-length values on an empty trie differs from the LIP-0039 root", map[string]any{"got": hx(got), "want": hx(want), "batch_keys": hexAll(b.keys), "batch_values": hexAll(b.values)})
		return
	}
	k.Count("varlen_root_matches_lip39", 1)
	k.Nontrivial(fmt.Sprintf("varlen/L=%d/%s/root=%x", L, shape, want[:8]))
}

// ---------------------------------------------------------------------------------------
// reference against the fixtures (no lisk-engine code)

func repoDir() string {
	if r := os.Getenv("VERIF_REPO"); r != "" {
		return r
	}
	return "/repo"
}

func selfcheck(k *mon.Case) {
	type fx struct {
		TestCases []struct {
			Input struct {
				Keys       []string `json:"keys"`
				Values     []string `json:"values"`
				DeleteKeys []string `json:"deleteKeys"`
			} `json:"input"`
			Output struct {
				MerkleRoot string `json:"merkleRoot"`
			} `json:"output"`
		} `json:"testCases"`
	}
	for _, f := range []string{"smt_fixtures.json", "update_tree.json", "remove_extra_tree.json", "smt_proof_fixtures.json"} {
		b, err := os.ReadFile(filepath.Join(repoDir(), "pkg/trie/smt/fixtures", f))
		var x fx
		if err != nil || json.Unmarshal(b, &x) != nil || len(x.TestCases) == 0 {
			k.Inconclusive("fixture " + f + " unreadable")
			continue
		}
		for _, tc := range x.TestCases {
			m := map[string][]byte{}
			for j, ks := range tc.Input.Keys {
				kb, _ := hex.DecodeString(ks)
				vb, _ := hex.DecodeString(tc.Input.Values[j])
				m[string(kb)] = vb
			}
			for _, ks := range tc.Input.DeleteKeys {
				kb, _ := hex.DecodeString(ks)
				delete(m, string(kb))
			}
			want, _ := hex.DecodeString(tc.Output.MerkleRoot)
			if bytes.Equal(ref39.Root(m), want) {
				k.Count("ref_matches_fixture_root", 1)
			} else {
				k.Count("ref_differs_from_fixture_root", 1)
				k.Inconclusive("reference ref39 disagrees with a LIP-0039 fixture: oracle not trustworthy")
			}
		}
	}
	k.Nontrivial("fixtures")
}

// ---------------------------------------------------------------------------------------

func main() {
	mon.Main(mon.Options{
		Property: "C10",
		Level:    "exploration",
		Rule: "hist: a key pool of a shape (random / shared 7..25-bit or near-full prefixes / dense in one subtree / sequential / mixed; key lengths 1,2,8,12,32,38) and a random history of update/delete batches (no duplicate key inside a batch; overwrite, delete, delete of absent keys, drain to one key and to empty, re-insert), run on an in-memory DB with one trie object and on batchdb with the trie re-opened at the last root before every batch (other batch order); after every batch root == LIP-0039 root of the model map; alternative histories (one sorted/shuffled batch, one by one, with extra keys inserted and deleted) reach the same root; proofs for query sets (present / absent under an empty node / absent under another leaf / mixed / duplicates / all keys) verify and claim what the map says; ~30 tamperings of one (or, marked, two) fields and other roots: Verify==true with a false claim is the violation. " +
			"big: the same with maps of thousands of keys; varlen: one batch of variable-length values on an empty trie (event root). Non-trivial = non-empty final map; key: key length, shape, mode, final root.",
		Assumptions: []string{
			"SHA-256 collision resistance",
			"reference internal/ref39 = LIP-0039 recursive definition, validated against smt_fixtures/update_tree/remove_extra_tree/smt_proof_fixtures (stream selfcheck)",
			"values are 32 bytes except in stream varlen (stored subtrees encode 32-byte values; the engine stores hashes in the state tree and uses variable length only for one batch on an empty trie)",
			"no duplicate keys inside one batch (the statement does not say which wins)",
			"a panic of Verify on a tampered proof is counted here and belongs to C09; rejection of a tampered proof is never a violation",
			"SetSubtreeHeight(4) is not exercised: the engine never calls it and getBinIndex panics inside an updateNode goroutine (process-fatal, index out of range) for it",
		},
		RacePkgs: []string{"trie/smt", "db"},
	}, func(c *mon.Ctx) {
		c.One("selfcheck", selfcheck)
		lengths := []int{32, 38, 1, 2, 8, 12, 32, 38}
		c.Cases("hist", c.N(1600, 8000), func(k *mon.Case) {
			L := lengths[k.Index%len(lengths)]
			shape := shapes[(k.Index/len(lengths))%len(shapes)]
			poolN := 2 + k.R.Intn(120)
			if k.R.Intn(5) == 0 {
				poolN = 2 + k.R.Intn(8)
			}
			if k.R.Intn(8) == 0 {
				poolN = 200 + k.R.Intn(600)
			}
			history(c, k, L, shape, poolN, c.N(6, 10), minInt(poolN, 60), c.N(4, 6), c.N(24, 40))
		})
		c.Cases("big", c.N(32, 48), func(k *mon.Case) {
			L := []int{32, 38, 2, 8}[k.Index%4]
			shape := shapes[k.R.Intn(len(shapes))]
			poolN := c.N(1500, 4000) + k.R.Intn(c.N(2500, 6500))
			history(c, k, L, shape, poolN, 3, poolN, 4, 24)
		})
		c.Cases("varlen", c.N(640, 4000), varlen)
	})
}
