// Stream "sibling-switch": the generator works on tip A (height h, whose execution installed a
// generator list for h+1), then the node replaces A by a sibling A' of the same height whose
// execution installs ANOTHER list for h+1 (tie-break, sync).  Whatever the generator derived from
// A's state must not survive the switch: every block it produces afterwards must still be accepted
// by the same node (right slot owner included), and it must not contradict itself.
package main

import (
	"bytes"
	"fmt"
	"time"

	"github.com/LiskHQ/lisk-engine/pkg/consensus"

	"verifharness/internal/mon"
	"verifharness/internal/node"
)

// harnessBlock: a block by the owner of the current real slot (never a validator whose keys the
// generator under test holds), optionally changing the validator set from the next height.
func (g *rig) harnessBlock(change *node.ParamChange) bool {
	now := uint32(time.Now().Unix())
	cur := g.n.Slot.GetSlotNumber(now)
	tipSlot := g.n.Slot.GetSlotNumber(g.n.Tip().Header.Timestamp)
	if cur <= tipSlot {
		return false
	}
	if owner, _, err := g.n.SlotGenerator(cur - tipSlot); err != nil || g.enabled[string(owner.Address)] {
		return false
	}
	b, err := g.n.NextBlock(node.BlockOpts{SlotsAhead: cur - tipSlot, Directive: &node.Directive{Salt: g.r.Intn(1 << 20), Change: change}})
	if err != nil || g.n.Apply(b) != nil {
		return false
	}
	for _, e := range g.n.TakeEvents() {
		if e.Topic == consensus.EventBlockNew {
			g.gen.VerifOnNewBlock(e.Msg)
		}
	}
	return true
}

func (g *rig) generatorsAtNextHeight() string {
	gens, err := g.n.Exec.GetGeneratorKeys(g.n.Exec.VerifStateStore(), g.n.Tip().Header.Height+1)
	if err != nil {
		return "?"
	}
	var b bytes.Buffer
	for _, x := range gens {
		fmt.Fprintf(&b, "%x,", []byte(x.Address())[:4])
	}
	return b.String()
}

func siblingSwitch(c *mon.Ctx) {
	c.Cases("sibling-switch", c.N(16, 240), func(k *mon.Case) {
		r := k.R
		const blockTime = 3
		g, err := newRig(k, r, blockTime)
		for try := 0; err == nil && len(g.n.Universe) < 3 && try < 20; try++ {
			g.close()
			g, err = newRig(k, r, blockTime)
		}
		if err != nil {
			k.Inconclusive("rig-init")
			return
		}
		defer g.close()
		if len(g.n.Universe) < 3 {
			k.Count("sibling_switch_skipped_small_universe", 1)
			return
		}
		// exactly one or two enabled validators, so that most slots belong to somebody else
		g.enabled = map[string]bool{}
		for _, i := range r.Perm(len(g.n.Universe))[:1+r.Intn(2)] {
			g.enabled[string(g.n.Universe[i].Address)] = true
		}
		g.newGenerator() //nolint:errcheck
		g.w.onHand = g.onForged
		change := func() *node.ParamChange { return node.RandomChange(r, len(g.n.Universe), g.n.Cfg.BatchSize) }
		lastSlot := -1
		phase := 0
		after := 0
		listA, listB := "", ""
		heightA := uint32(0)
		deadline := time.Now().Add(150 * time.Second) // watchdog only
		for phase < 4 && time.Now().Before(deadline) {
			slot, ok := inForgingWindow(g.n)
			if !ok || slot == lastSlot {
				time.Sleep(40 * time.Millisecond)
				continue
			}
			lastSlot = slot
			switch phase {
			case 0: // tip A: installs generator list X for the next height
				if g.harnessBlock(change()) {
					listA = g.generatorsAtNextHeight()
					heightA = g.n.Tip().Header.Height
					phase = 1
				}
			case 1: // the generator looks at the chain on top of A (forges if the slot is its own)
				if b := g.forgeOnce(); b != nil {
					if g.n.Slot.GetSlotNumber(b.Header.Timestamp) != slot {
						k.Inconclusive("clock-slip")
						return
					}
					g.applyForged(b)
				}
				phase = 2
			case 2: // A (and what was built on it) is removed, a sibling A' takes its place
				toDelete := 0
				if th := g.n.Tip().Header.Height; th >= heightA {
					toDelete = int(th-heightA) + 1
					if r.Intn(3) == 0 {
						toDelete++
					}
				}
				for i := 0; i < toDelete && g.n.Tip().Header.Height > g.n.Finalized() && g.n.Tip().Header.Height > 0; i++ {
					if g.n.DeleteTip(false) != nil {
						break
					}
					for _, e := range g.n.TakeEvents() {
						if e.Topic == consensus.EventBlockDelete {
							g.gen.VerifOnDeleteBlock(e.Msg)
						}
					}
				}
				if g.n.Tip().Header.Height >= heightA {
					k.Inconclusive("tip-a-not-removable")
					return
				}
				var ch *node.ParamChange
				if r.Intn(3) != 0 {
					ch = change()
				}
				if g.harnessBlock(ch) {
					listB = g.generatorsAtNextHeight()
					if listA != listB {
						k.Count("sibling_switches_with_another_generator_list", 1)
					} else {
						k.Count("sibling_switches_with_the_same_generator_list", 1)
					}
					phase = 3
				}
			case 3: // from now on every generated block must be good
				if b := g.forgeOnce(); b != nil {
					if g.n.Slot.GetSlotNumber(b.Header.Timestamp) != slot {
						k.Inconclusive("clock-slip")
						return
					}
					g.applyForged(b)
					k.Count("blocks_generated_after_a_sibling_switch", 1)
				} else {
					g.harnessBlock(nil)
				}
				after++
				if after >= 2*len(g.n.Universe)+2 {
					phase = 4
				}
			}
		}
		if phase < 4 {
			k.Inconclusive("sibling-switch-watchdog")
			return
		}
		k.Nontrivial(fmt.Sprintf("sibling|validators%d|enabled%d|otherlist%v|forged%d", len(g.n.Universe), len(g.enabled), listA != listB, g.forged))
		k.Count("forged_blocks", g.forged)
	})
}
