// Worker for C15: generated blocks are valid and a generator never contradicts itself.
package main

import (
	"bytes"
	"context"
	"fmt"
	"math/rand"
	"os"
	"sort"
	"time"

	"github.com/cockroachdb/pebble/vfs"

	"github.com/LiskHQ/lisk-engine/pkg/blockchain"
	"github.com/LiskHQ/lisk-engine/pkg/consensus"
	"github.com/LiskHQ/lisk-engine/pkg/db"
	"github.com/LiskHQ/lisk-engine/pkg/engine/config"
	"github.com/LiskHQ/lisk-engine/pkg/generator"
	"github.com/LiskHQ/lisk-engine/pkg/p2p"
	"github.com/LiskHQ/lisk-engine/pkg/txpool"

	"verifharness/internal/mon"
	"verifharness/internal/node"
)

const maxTxSize = 15 * 1024

// ---- LIP-0014 contradiction oracle (from the statement, independent of contradiction.go)
type hdr struct{ height, mhg, mhp uint32 }

// legit: b is a legitimate successor of a (same generator).
func legit(a, b hdr) bool {
	return b.mhg >= a.height && b.mhp >= a.mhp && !(b.mhp == a.mhp && a.height >= b.height)
}
func contradicting(a, b hdr) bool { return !legit(a, b) && !legit(b, a) }

// ---- fake connection for the pool
type fakeConn struct{}

func (fakeConn) Broadcast(ctx context.Context, event string, data []byte) error { return nil }
func (fakeConn) RegisterRPCHandler(endpoint string, handler p2p.RPCHandler, opts ...p2p.RPCHandlerOption) error {
	return nil
}
func (fakeConn) RegisterEventHandler(name string, handler p2p.EventHandler, validator p2p.Validator) error {
	return nil
}
func (fakeConn) ApplyPenalty(pid p2p.PeerID, score int) {}
func (fakeConn) RequestFrom(ctx context.Context, peerID p2p.PeerID, procedure string, data []byte) p2p.Response {
	return p2p.Response{}
}
func (fakeConn) Publish(ctx context.Context, topicName string, data []byte) error { return nil }

// ---- Consensus wrapper: records the hand-off synchronously
type wrap struct {
	*consensus.Executer
	handed []*blockchain.Block
	onHand func(b *blockchain.Block)
}

func (w *wrap) AddInternal(b *blockchain.Block) {
	w.handed = append(w.handed, b)
	if w.onHand != nil {
		w.onHand(b)
	}
}

type rig struct {
	k       *mon.Case
	r       *rand.Rand
	n       *node.Node
	w       *wrap
	pool    *txpool.TransactionPool
	gen     *generator.Generator
	genFS   vfs.FS
	genDB   *db.DB
	enabled map[string]bool
	// every header ever signed per generator (incl. deleted / dropped ones)
	signed  map[string][]hdr
	largest map[string]uint32
	nonce   map[int]uint64
	forged  int
}

func (g *rig) newGenerator() error {
	if g.genDB != nil {
		g.genDB.Close() //nolint:errcheck
	}
	d, err := db.NewDBWithFS("", g.genFS, nil)
	if err != nil {
		return err
	}
	g.genDB = d
	gen := generator.NewGenerator(&generator.GeneratorParams{Consensus: g.w, ABI: g.n.ABI, Pool: g.pool, Chain: g.n.Chain})
	cfg := &config.Config{
		System:    &config.SystemConfig{DataPath: "/nonexistent"},
		Genesis:   &config.GenesisConfig{BlockTime: g.n.Cfg.BlockTime, MaxTransactionsSize: maxTxSize, BFTBatchSize: uint32(g.n.Cfg.BatchSize), ChainID: g.n.Cfg.ChainID},
		Generator: &config.GeneratorConfig{Keys: &config.KeysConfig{}},
	}
	if err := gen.Init(&generator.GeneratorInitParams{CTX: context.Background(), Cfg: cfg, Logger: g.n.Log, BlockchainDB: g.n.DB, GeneratorDB: d}); err != nil {
		return err
	}
	for _, v := range g.n.Universe {
		if g.enabled[string(v.Address)] {
			gen.EnableGeneration(v.Address, &generator.PlainKeys{GeneratorKey: v.EdPub, GeneratorPrivateKey: v.EdPriv, BLSKey: v.BLS.PublicKey, BLSPrivateKey: v.BLS.PrivateKey})
		}
	}
	g.gen = gen
	return nil
}

func newRig(k *mon.Case, r *rand.Rand, blockTime uint32) (*rig, error) {
	nv := 2 + r.Intn(4)
	n, err := node.New(node.Config{Genesis: node.EqualGenesis(nv), Universe: nv, BatchSize: nv, BlockTime: blockTime, GenesisAge: 2000 * blockTime, MaxBlockCache: 50})
	if err != nil {
		return nil, err
	}
	g := &rig{k: k, r: r, n: n, genFS: vfs.NewMem(), enabled: map[string]bool{}, signed: map[string][]hdr{}, largest: map[string]uint32{}, nonce: map[int]uint64{}}
	g.w = &wrap{Executer: n.Exec}
	g.pool = txpool.VerifNewPool(context.Background(), &txpool.TransactionPoolConfig{MaxTransactions: 64, MaxTransactionsPerAccount: 8}, n.Log, fakeConn{}, n.ABI)
	ne := 1 + r.Intn(nv)
	for _, i := range r.Perm(nv)[:ne] {
		g.enabled[string(n.Universe[i].Address)] = true
	}
	if err := g.newGenerator(); err != nil {
		return nil, err
	}
	return g, nil
}

func (g *rig) close() {
	if g.genDB != nil {
		g.genDB.Close() //nolint:errcheck
	}
	g.n.Close()
}

// fill the pool with random transactions and run one promotion step
func (g *rig) feedPool() {
	r := g.r
	for i := 0; i < r.Intn(6); i++ {
		si := r.Intn(len(g.n.Universe))
		ver := byte(node.TxVerifyOK)
		if r.Intn(8) == 0 {
			ver = node.TxVerifyInvalid
		}
		ex := byte(node.TxExecOK)
		switch r.Intn(10) {
		case 0:
			ex = node.TxExecFail
		case 1:
			ex = node.TxExecInvalid
		}
		tx := g.n.NewTx(g.n.Universe[si], g.nonce[si], uint64(1000+r.Intn(5000000)), ver, ex, r.Intn(3000))
		if g.pool.Add(tx) {
			g.nonce[si]++
		}
	}
	g.pool.VerifReorgStep()
}

// checkBlockShape: per-sender nonce order and payload size of a forged block
func (g *rig) checkBlockShape(b *blockchain.Block) {
	size := 0
	last := map[string]uint64{}
	for _, tx := range b.Transactions {
		size += tx.Size()
		s := string(tx.SenderPublicKey)
		if p, ok := last[s]; ok && tx.Nonce <= p {
			g.k.Violation("forged:nonce-order", "forged block has transactions of one sender out of nonce order", map[string]any{"height": b.Header.Height})
		}
		last[s] = tx.Nonce
	}
	if size > maxTxSize {
		g.k.Violation("forged:payload-above-limit", "forged block payload exceeds the size limit", map[string]any{"size": size, "limit": maxTxSize})
	}
}

// onForged: the monitors at hand-off time
func (g *rig) onForged(b *blockchain.Block) {
	k := g.k
	addr := string(b.Header.GeneratorAddress)
	h := hdr{b.Header.Height, b.Header.MaxHeightGenerated, b.Header.MaxHeightPrevoted}
	wit := map[string]any{"height": h.height, "maxHeightGenerated": h.mhg, "maxHeightPrevoted": h.mhp, "previously_signed": fmt.Sprint(g.signed[addr]), "largest_generated_before": g.largest[addr]}
	// (d) persisted before hand-off
	// (the largest height ever generated, which is this height or a higher earlier one)
	wantPersisted := b.Header.Height
	if g.largest[addr] > wantPersisted {
		wantPersisted = g.largest[addr]
	}
	wit["persisted_expected"] = wantPersisted
	info, ok, err := g.gen.VerifGeneratorInfo(b.Header.GeneratorAddress)
	if err != nil || !ok || info.Height != wantPersisted {
		got := uint32(0)
		if info != nil {
			got = info.Height
		}
		wit["persisted_height"] = got
		k.Violation("handoff:generated-height-not-persisted", "at hand-off the generator DB does not hold the largest height generated (incl. the block being handed on)", wit)
	}
	// (e) maxHeightGenerated reports the largest height ever generated
	if len(g.signed[addr]) > 0 && h.mhg < g.largest[addr] {
		k.Violation("maxHeightGenerated:below-largest-generated-height", "forged header reports a maxHeightGenerated below the largest height this generator signed before", wit)
	}
	// (c) no self-contradiction attributable to the generator's bookkeeping
	honest := h
	if g.largest[addr] > honest.mhg {
		honest.mhg = g.largest[addr]
	}
	for _, a := range g.signed[addr] {
		k.Eval(1)
		if contradicting(a, h) {
			if !contradicting(a, honest) {
				wit["earlier"] = fmt.Sprint(a)
				k.Violation("self-contradiction:due-to-maxHeightGenerated", "generator signed two contradicting headers; with the honest maxHeightGenerated they would not contradict", wit)
			} else {
				k.Count("contradiction_forced_by_scenario(double-forge or illegitimate switch)", 1)
			}
		}
	}
	g.signed[addr] = append(g.signed[addr], h)
	if h.height > g.largest[addr] {
		g.largest[addr] = h.height
	}
	g.forged++
	g.checkBlockShape(b)
}

// forgeOnce runs the real forge() and returns the handed block (nil if none).
func (g *rig) forgeOnce() *blockchain.Block {
	g.w.handed = nil
	// what the application puts into the block: assets whose directive makes the block hooks
	// emit events and - sometimes - change the validator set / thresholds from the next height
	if g.r.Intn(3) != 0 {
		d := &node.Directive{Salt: g.r.Intn(1 << 20), Events: g.r.Intn(3), AfterEvents: g.r.Intn(2)}
		if g.r.Intn(5) == 0 {
			d.Change = node.RandomChange(g.r, len(g.n.Universe), g.n.Cfg.BatchSize)
			g.k.Count("forge_attempts_with_validator_change", 1)
		}
		g.n.ABI.NextAssets = []*blockchain.BlockAsset{{Module: node.VerifModule, Data: d.Encode()}}
		// assets of further modules, in the order the application happens to return them
		// (registration order, not alphabetical): the generator has to put them in block order
		if g.r.Intn(2) == 0 {
			for _, m := range []string{"zeta", "aux", "alpha", "random"}[:1+g.r.Intn(4)] {
				g.n.ABI.NextAssets = append(g.n.ABI.NextAssets, &blockchain.BlockAsset{Module: m, Data: []byte{byte(g.r.Intn(256))}})
			}
			g.r.Shuffle(len(g.n.ABI.NextAssets), func(i, j int) {
				g.n.ABI.NextAssets[i], g.n.ABI.NextAssets[j] = g.n.ABI.NextAssets[j], g.n.ABI.NextAssets[i]
			})
			g.k.Count("forge_attempts_with_assets_of_several_modules", 1)
		}
	} else {
		g.n.ABI.NextAssets = nil
	}
	g.gen.VerifForge()
	if len(g.w.handed) == 0 {
		return nil
	}
	return g.w.handed[0]
}

func (g *rig) applyForged(b *blockchain.Block) {
	// the statement: accepted by the same node's validation at that moment
	if err := g.n.Exec.VerifProcess(context.Background(), b, ""); err != nil {
		g.k.Violation("forged:rejected-by-own-node", "the block the generator produced is rejected by the same node: "+err.Error(), map[string]any{"block": node.DescribeBlock(b)})
		return
	}
	if !bytes.Equal(g.n.Tip().Header.ID, b.Header.ID) {
		g.k.Violation("forged:not-appended-by-own-node", "the block the generator produced was not appended by the same node (fork choice discarded it)", map[string]any{"block": node.DescribeBlock(b)})
		return
	}
	g.k.Count("forged_blocks_accepted", 1)
	for _, e := range g.n.TakeEvents() {
		switch e.Topic {
		case consensus.EventBlockNew:
			g.gen.VerifOnNewBlock(e.Msg)
		case consensus.EventBlockFinalize:
			g.gen.VerifOnFinalizeBlock(e.Msg)
		}
	}
}

// otherBlock: a harness-made block by the slot owner for the current real slot
func (g *rig) otherBlock() bool {
	now := uint32(time.Now().Unix())
	cur := g.n.Slot.GetSlotNumber(now)
	tipSlot := g.n.Slot.GetSlotNumber(g.n.Tip().Header.Timestamp)
	if cur <= tipSlot {
		return false
	}
	// never sign on behalf of a validator whose keys the generator under test holds
	if owner, _, err := g.n.SlotGenerator(cur - tipSlot); err != nil || g.enabled[string(owner.Address)] {
		return false
	}
	b, err := g.n.NextBlock(node.BlockOpts{SlotsAhead: cur - tipSlot})
	if err != nil {
		return false
	}
	if err := g.n.Apply(b); err != nil {
		return false
	}
	g.k.Count("other_validator_blocks", 1)
	for _, e := range g.n.TakeEvents() {
		if e.Topic == consensus.EventBlockNew {
			g.gen.VerifOnNewBlock(e.Msg)
		}
	}
	return true
}

func inForgingWindow(n *node.Node) (int, bool) {
	now := time.Now()
	slot := n.Slot.GetSlotNumber(uint32(now.Unix()))
	begin := int64(n.Slot.GetSlotTime(slot))
	// forge() needs now > begin + blockTime/5 when slots were missed; stay away from slot edges
	off := now.UnixMilli() - begin*1000
	lo := int64(n.Cfg.BlockTime/5)*1000 + 1050
	hi := int64(n.Cfg.BlockTime)*1000 - 600
	return slot, off >= lo && off <= hi
}

func live(c *mon.Ctx) {
	const blockTime = 3
	nodes := 6
	slots := c.N(12, 240)
	c.Cases("live", c.Shards(), func(k *mon.Case) {
		r := k.R
		var rigs []*rig
		for i := 0; i < nodes; i++ {
			g, err := newRig(k, rand.New(rand.NewSource(r.Int63())), blockTime)
			if err != nil {
				k.Inconclusive("rig-init:" + err.Error())
				return
			}
			g.w.onHand = g.onForged
			rigs = append(rigs, g)
		}
		defer func() {
			for _, g := range rigs {
				g.close()
			}
		}()
		lastSlot := -1
		done := 0
		deadline := time.Now().Add(time.Duration(slots*blockTime+30) * time.Second) // watchdog only
		for done < slots && time.Now().Before(deadline) {
			slot, ok := inForgingWindow(rigs[0].n)
			if !ok || slot == lastSlot {
				time.Sleep(40 * time.Millisecond)
				continue
			}
			lastSlot = slot
			done++
			for _, g := range rigs {
				g.step(slot)
			}
		}
		total := 0
		for _, g := range rigs {
			total += g.forged
			k.Nontrivial(fmt.Sprintf("rig|forged%d|validators%d|enabled%d", g.forged/3, len(g.n.Universe), len(g.enabled)))
		}
		k.Count("forged_blocks", total)
		k.Sample(map[string]any{"nodes": nodes, "slots": done, "forged": total, "tip_first_node": rigs[0].n.Tip().Header.Height})
	})
}

func (g *rig) step(slot int) {
	k, r := g.k, g.r
	g.feedPool()
	switch x := r.Intn(100); {
	case x < 62:
		startSlot := slot
		b := g.forgeOnce()
		if b == nil {
			if !g.otherBlock() {
				k.Count("idle_slots", 1)
			}
			return
		}
		if g.n.Slot.GetSlotNumber(b.Header.Timestamp) != startSlot {
			k.Inconclusive("clock-slip")
			return
		}
		g.applyForged(b)
	case x < 72: // hand-off lost (crash right after hand-off), generator restarted on the same DB
		b := g.forgeOnce()
		if b != nil {
			k.Count("handoffs_dropped", 1)
		}
		if r.Intn(2) == 0 {
			if err := g.newGenerator(); err != nil {
				k.Inconclusive("generator-restart")
			}
			k.Count("generator_restarts", 1)
		}
	case x < 84: // delete 1..3 tip blocks (as a sync would), generator notified
		for i := 0; i < 1+r.Intn(3); i++ {
			tip := g.n.Tip()
			if tip.Header.Height == 0 || tip.Header.Height <= g.n.Finalized() {
				break
			}
			if err := g.n.DeleteTip(false); err != nil {
				break
			}
			k.Count("blocks_deleted", 1)
			for _, e := range g.n.TakeEvents() {
				if e.Topic == consensus.EventBlockDelete {
					g.gen.VerifOnDeleteBlock(e.Msg)
				}
			}
		}
	case x < 92:
		if err := g.newGenerator(); err != nil {
			k.Inconclusive("generator-restart")
		}
		k.Count("generator_restarts", 1)
	default:
		g.otherBlock()
	}
}

// ---- clock-free selection check

type ptx struct {
	tx   *blockchain.Transaction
	prio uint64
	ok   bool // verify ok and execute not invalid/error
}

func selection(c *mon.Ctx) {
	c.Cases("select", c.N(20000, 150000), func(k *mon.Case) {
		r := k.R
		g, err := newRig(k, r, 10)
		if err != nil {
			k.Inconclusive("rig-init")
			return
		}
		defer g.close()
		n := g.n
		senders := 1 + r.Intn(5)
		bySender := map[string][]*ptx{}
		var all []*blockchain.Transaction
		for s := 0; s < senders; s++ {
			cnt := 1 + r.Intn(5)
			base := uint64(r.Intn(100))
			v := n.Universe[s%len(n.Universe)]
			if s >= len(n.Universe) {
				break
			}
			for i := 0; i < cnt; i++ {
				ver := byte(node.TxVerifyOK)
				switch r.Intn(12) {
				case 0:
					ver = node.TxVerifyInvalid
				case 1:
					ver = node.TxVerifyPending
				case 2:
					ver = node.TxVerifyError
				}
				ex := byte(node.TxExecOK)
				switch r.Intn(12) {
				case 0:
					ex = node.TxExecFail
				case 1:
					ex = node.TxExecInvalid
				case 2:
					ex = node.TxExecError
				}
				pad := []int{0, 10, 200, 1500, 5000}[r.Intn(5)]
				fee := uint64(1 + r.Intn(8))
				fee *= uint64([]int{1, 1000, 100000, 10000000}[r.Intn(4)])
				if r.Intn(12) == 0 {
					// fees at the top of the uint64 range (2^56 .. 2^64-1): any arithmetic on them
					// beyond fee/size must not wrap
					fee = uint64(1)<<uint(56+r.Intn(8)) + uint64(r.Int63n(1<<40))
					if r.Intn(3) == 0 {
						fee = ^uint64(0) - uint64(r.Intn(1000))
					}
				}
				tx := n.NewTx(v, base+uint64(i), fee, ver, ex, pad)
				p := &ptx{tx: tx, prio: tx.Fee / uint64(tx.Size()), ok: ver == node.TxVerifyOK && (ex == node.TxExecOK || ex == node.TxExecFail)}
				bySender[string(tx.SenderAddress())] = append(bySender[string(tx.SenderAddress())], p)
				all = append(all, tx)
			}
		}
		r.Shuffle(len(all), func(i, j int) { all[i], all[j] = all[j], all[i] })
		maxSize := []int{0, 150, 400, 2000, 6000, maxTxSize}[r.Intn(6)]
		tip := n.Tip().Header
		ph := &blockchain.BlockHeader{Version: 2, Height: tip.Height + 1, Timestamp: tip.Timestamp + n.Cfg.BlockTime, PreviousBlockID: tip.ID, GeneratorAddress: n.Universe[0].Address, AggregateCommit: &blockchain.AggregateCommit{}}
		out, err := g.gen.VerifSelectTransactionsByFee(ph, all, maxSize)
		if err != nil {
			k.Violation("select:error", "selectTransactionsByFee failed: "+err.Error(), nil)
			return
		}
		k.Count("selected_transactions", len(out))
		// replay
		heads := map[string]int{}
		dropped := map[string]bool{}
		fail := func(key, what string, extra map[string]any) {
			w := map[string]any{"senders": senders, "maxSize": maxSize, "selected": len(out)}
			poolDesc := []string{}
			for _, l := range bySender {
				for _, p := range l {
					poolDesc = append(poolDesc, fmt.Sprintf("%x:n%d:prio%d:size%d:ok%v", []byte(p.tx.SenderAddress())[:2], p.tx.Nonce, p.prio, p.tx.Size(), p.ok))
				}
			}
			sort.Strings(poolDesc)
			w["pool"] = poolDesc
			outDesc := []string{}
			for _, t := range out {
				outDesc = append(outDesc, fmt.Sprintf("%x:n%d", []byte(t.SenderAddress())[:2], t.Nonce))
			}
			w["output"] = outDesc
			for a, b := range extra {
				w[a] = b
			}
			k.Violation(key, what, w)
		}
		// The code pops the highest-priority head; if it does not fit, selection ends (size is
		// tested before verification); if it fails verification/execution its sender is
		// dropped; otherwise it is selected. Heads of equal priority may pop in any order, so
		// the replay searches over the possible pop orders.
		var possible func(idx int, heads map[string]int, drop map[string]bool, total int) bool
		possible = func(idx int, heads map[string]int, drop map[string]bool, total int) bool {
			var best uint64
			var set []*ptx
			for s, l := range bySender {
				if drop[s] || heads[s] >= len(l) {
					continue
				}
				p := l[heads[s]]
				if len(set) == 0 || p.prio > best {
					best, set = p.prio, []*ptx{p}
				} else if p.prio == best {
					set = append(set, p)
				}
			}
			if len(set) == 0 {
				return idx == len(out)
			}
			for _, h := range set {
				sdr := string(h.tx.SenderAddress())
				switch {
				case h.tx.Size()+total > maxSize:
					if idx == len(out) {
						return true
					}
				case !h.ok:
					d2 := map[string]bool{sdr: true}
					for a, b := range drop {
						d2[a] = b
					}
					if possible(idx, heads, d2, total) {
						return true
					}
				default:
					if idx < len(out) && bytes.Equal(h.tx.ID, out[idx].ID) {
						h2 := map[string]int{}
						for a, b := range heads {
							h2[a] = b
						}
						h2[sdr]++
						if possible(idx+1, h2, drop, total+h.tx.Size()) {
							return true
						}
					}
				}
			}
			return false
		}
		if !possible(0, map[string]int{}, map[string]bool{}, 0) {
			// classify by the conjunct of the statement that the output violates
			pos := map[string]int{}
			failed := map[string]bool{}
			sum := 0
			key, what := "select:not-in-descending-fee-priority", "the selected list cannot be produced by taking the senders' next transactions in descending fee priority"
			for _, t := range out {
				sdr := string(t.SenderAddress())
				l := bySender[sdr]
				sum += t.Size()
				switch {
				case failed[sdr]:
					key, what = "select:sender-continued-after-failure", "a sender's later transaction was selected after one of its transactions failed verification/execution"
				case pos[sdr] >= len(l) || !bytes.Equal(l[pos[sdr]].tx.ID, t.ID):
					key, what = "select:nonce-order", "a transaction was selected before the sender's lower-nonce transaction"
				case !l[pos[sdr]].ok:
					key, what = "select:failed-transaction-selected", "a transaction failing verification/execution was selected"
					failed[sdr] = true
				case sum > maxSize:
					key, what = "select:payload-above-limit", "selected transactions exceed the size limit"
				}
				pos[sdr]++
			}
			fail(key, what, nil)
			return
		}
		for _, t := range out {
			heads[string(t.SenderAddress())]++
		}
		for s, l := range bySender {
			if heads[s] < len(l) && !l[heads[s]].ok {
				dropped[s] = true
			}
		}
		nd := 0
		for range dropped {
			nd++
		}
		k.Nontrivial(fmt.Sprintf("sel|s%d|out%d|dropped%d|max%d", senders, len(out), nd, maxSize))
		if k.Index%50 == 0 {
			ids := []string{}
			for _, t := range out {
				ids = append(ids, fmt.Sprintf("%x:n%d:p%d", []byte(t.SenderAddress())[:2], t.Nonce, t.Fee/uint64(t.Size())))
			}
			sort.Strings(ids)
			k.Sample(map[string]any{"senders": senders, "pool": len(all), "maxSize": maxSize, "selected": ids})
		}
	})
}

// ---- directed: forge high, lose blocks, forge lower, forge again (restart in between)
func directed(c *mon.Ctx) {
	c.Cases("directed", c.N(16, 200), func(k *mon.Case) {
		r := k.R
		const blockTime = 3
		g, err := newRig(k, r, blockTime)
		if err != nil {
			k.Inconclusive("rig-init")
			return
		}
		defer g.close()
		// enable every validator: every slot is ours
		for _, v := range g.n.Universe {
			g.enabled[string(v.Address)] = true
		}
		g.newGenerator() //nolint:errcheck
		g.w.onHand = g.onForged
		lastSlot := -1
		phase := 0
		up := 3 + r.Intn(2)
		down := 2 + r.Intn(2)
		steps := 0
		deadline := time.Now().Add(90 * time.Second) // watchdog only
		for phase < 3 && time.Now().Before(deadline) {
			slot, ok := inForgingWindow(g.n)
			if !ok || slot == lastSlot {
				time.Sleep(40 * time.Millisecond)
				continue
			}
			lastSlot = slot
			b := g.forgeOnce()
			if b == nil {
				continue
			}
			if g.n.Slot.GetSlotNumber(b.Header.Timestamp) != slot {
				// forge() read the clock twice and the slot changed in between (loaded machine)
				k.Inconclusive("clock-slip")
				continue
			}
			g.applyForged(b)
			steps++
			switch phase {
			case 0:
				if steps >= up {
					// the tip blocks disappear (the node moved to another chain)
					for i := 0; i < down; i++ {
						if g.n.Tip().Header.Height <= g.n.Finalized() || g.n.DeleteTip(false) != nil {
							break
						}
					}
					g.n.TakeEvents()
					if r.Intn(2) == 0 {
						g.newGenerator() //nolint:errcheck
					}
					phase, steps = 1, 0
				}
			case 1:
				if steps >= 1 {
					if r.Intn(2) == 0 {
						g.newGenerator() //nolint:errcheck
					}
					phase, steps = 2, 0
				}
			case 2:
				if steps >= down+1 {
					phase = 3
				}
			}
		}
		if phase < 3 {
			k.Inconclusive("directed-watchdog")
		}
		k.Nontrivial(fmt.Sprintf("directed|up%d|down%d|forged%d", up, down, g.forged))
		k.Count("forged_blocks", g.forged)
		k.Sample(map[string]any{"up": up, "down": down, "forged": g.forged, "signed": fmt.Sprint(g.signed)})
	})
}

func main() {
	mon.Main(mon.Options{
		Property: "C15", Level: "exploration",
		Rule: "(the scripted application inserts assets into generated blocks: block-level events and, sometimes, a validator-set / threshold change.) live: per shard 6 nodes (real Executer + real Generator + real pool, 2-5 validators, random subset enabled), one action per real 3 s slot: forge() (block recorded at AddInternal, checked there against the generator DB and every header the generator ever signed, then processed by the same node), hand-off dropped + generator restart, tip deletions, restarts, blocks of other validators; directed: forge up, lose blocks, forge lower, forge again; sibling-switch: the generator works on a tip whose execution installed a generator list, the tip is replaced by a sibling installing another list, every block generated afterwards must be accepted by the same node; select: clock-free replay of selectTransactionsByFee over random pools/verdicts/size limits. non-trivial+distinct = (rig shape, forged count) / (senders, selected, dropped senders, limit)",
		Assumptions: []string{
			"forge() reads time.Now(): verdicts use only recorded headers and DB reads; a forged block whose timestamp left the slot read at the start of the step is inconclusive (clock slip)",
			"a contradiction that persists with the honest maxHeightGenerated (double forging in one slot after a lost hand-off, harness-made chain switch without higher maxHeightPrevoted) is attributed to the scenario, not to the generator",
			"application = scripted ABI; pool = real txpool without its ticker (one reorg step per action)",
		},
		ChildTimeoutQuick: 10 * time.Minute, ChildTimeoutThorough: 60 * time.Minute,
	}, func(c *mon.Ctx) {
		only := os.Getenv("VERIF_C15_ONLY") // development aid: restrict to one stream group
		if only == "" || only == "select" {
			selection(c)
		}
		if only == "" || only == "directed" {
			directed(c)
		}
		if only == "" || only == "sibling" {
			siblingSwitch(c)
		}
		if only == "" || only == "live" {
			live(c)
		}
	})
}
