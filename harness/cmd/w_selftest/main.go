package main

import (
	"fmt"
	"sync"
	"time"

	"verifharness/internal/mon"
)

// self-test of the driver: not a property check.
func main() {
	mon.Main(mon.Options{Property: "SELFTEST", Level: "exploration", Rule: "driver self test", Shards: 4}, func(c *mon.Ctx) {
		c.Cases("ok", 100, func(k *mon.Case) {
			k.Nontrivial(fmt.Sprint(k.R.Intn(10)))
			k.Sample(k.Index)
		})
		c.Cases("panic", 8, func(k *mon.Case) {
			if k.Index == 5 {
				var a []int
				_ = a[k.Index]
			}
		})
		c.Cases("fatal", 8, func(k *mon.Case) {
			if k.Index == 6 {
				m := map[int]int{}
				var wg sync.WaitGroup
				for i := 0; i < 4; i++ {
					wg.Add(1)
					go func() {
						defer wg.Done()
						for j := 0; j < 100000; j++ {
							m[j] = j
						}
					}()
				}
				wg.Wait()
			}
		})
		c.Cases("dead", 4, func(k *mon.Case) {
			if k.Index == 3 {
				var mu sync.Mutex
				mu.Lock()
				k.Watch("lock", 2*time.Second, func() { mu.Lock() })
			}
		})
		c.Cases("after", 8, func(k *mon.Case) { k.Nontrivial("after" + fmt.Sprint(k.Index)) })
	})
}
