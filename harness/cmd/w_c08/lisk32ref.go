package main

import (
	"encoding/hex"
	"fmt"
	"strings"
)

// Reference implementation of the Lisk32 address format, written from LIP-0018:
// "lsk" + base32(address bits, 5 bits per character, custom alphabet) + 6 checksum
// characters of the BCH code with the bech32 generator.

const refCharset = "zxvcpmbn3465o978uyrtkqew2adsjhfg"

var refGen = [5]uint32{0x3b6a57b2, 0x26508e6d, 0x1ea119fa, 0x3d4233dd, 0x2a1462b3}

func refPolymod(v []byte) uint32 {
	chk := uint32(1)
	for _, x := range v {
		top := chk >> 25
		chk = (chk&0x1ffffff)<<5 ^ uint32(x)
		for i := 0; i < 5; i++ {
			if top>>uint(i)&1 == 1 {
				chk ^= refGen[i]
			}
		}
	}
	return chk
}

// refEncode returns the Lisk32 text of a 20-byte address.
func refEncode(a []byte) string {
	var five []byte
	acc, bits := uint32(0), 0
	for _, b := range a {
		acc = acc<<8 | uint32(b)
		bits += 8
		for bits >= 5 {
			bits -= 5
			five = append(five, byte(acc>>uint(bits)&31))
		}
	}
	mod := refPolymod(append(append([]byte{}, five...), 0, 0, 0, 0, 0, 0)) ^ 1
	for p := 0; p < 6; p++ {
		five = append(five, byte(mod>>uint(5*(5-p))&31))
	}
	var sb strings.Builder
	sb.WriteString("lsk")
	for _, x := range five {
		sb.WriteByte(refCharset[x])
	}
	return sb.String()
}

// refValid: 41 characters, prefix "lsk", alphabet, checksum.
func refValid(s string) (ok bool, why string) {
	if len(s) != 41 {
		return false, "length"
	}
	if s[:3] != "lsk" {
		return false, "prefix"
	}
	var five []byte
	for i := 3; i < 41; i++ {
		j := strings.IndexByte(refCharset, s[i])
		if j < 0 {
			return false, "alphabet"
		}
		five = append(five, byte(j))
	}
	if refPolymod(five) != 1 {
		return false, "checksum"
	}
	return true, ""
}

// refSelfTest validates the reference against the address vectors of the repository's own
// tests (pkg/codec/bytes_test.go, pkg/blockchain/fixtures_test/genesis_block.json).
func refSelfTest() error {
	for _, v := range [][2]string{
		{"fc9738370f44dce0bf5877df66ac17afe8346d9f", "lskgr5tu9283t77x8d27g8e95zwqgkc3sogx4zazd"},
		{"0000000000000000000000000000000000000000", "lskzzzzzzzzzzzzzzzzzzzzzzzzzzzzzzzz5fw596"},
	} {
		b, _ := hex.DecodeString(v[0])
		if got := refEncode(b); got != v[1] {
			return fmt.Errorf("lisk32 reference: %s encodes to %s, vector says %s", v[0], got, v[1])
		}
		if ok, why := refValid(v[1]); !ok {
			return fmt.Errorf("lisk32 reference rejects vector %s (%s)", v[1], why)
		}
	}
	return nil
}
