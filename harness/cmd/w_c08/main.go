// Worker for property C08: codec round trip, canonical strict decoding of transactions,
// stable block/transaction IDs, Lisk32 conversion.
package main

import (
	"bytes"
	"crypto/sha256"
	"encoding/binary"
	"encoding/hex"
	"encoding/json"
	"fmt"
	"math"
	"math/rand"
	"reflect"
	"regexp"
	"strings"

	"golang.org/x/text/unicode/norm"

	"github.com/LiskHQ/lisk-engine/pkg/blockchain"
	"github.com/LiskHQ/lisk-engine/pkg/codec"
	"github.com/LiskHQ/lisk-engine/pkg/db"

	"verifharness/internal/codectypes"
	"verifharness/internal/mon"
)

type typeEntry struct {
	name  string // pkg path + "." + type name
	proto interface{}
}

func allTypes() []typeEntry {
	var out []typeEntry
	for _, p := range codectypes.All() {
		for _, t := range p.Types {
			out = append(out, typeEntry{name: strings.TrimPrefix(p.Path, "pkg/") + "." + reflect.TypeOf(t).Elem().Name(), proto: t})
		}
	}
	return out
}

var digitsRE = regexp.MustCompile(`[0-9]+`)

func errClass(err error) string {
	s := digitsRE.ReplaceAllString(err.Error(), "N")
	if len(s) > 50 {
		s = s[:50]
	}
	return s
}

func hx(b []byte) string {
	if len(b) > 300 {
		return hex.EncodeToString(b[:300]) + fmt.Sprintf("...(%d bytes)", len(b))
	}
	return hex.EncodeToString(b)
}

func main() {
	mon.Main(mon.Options{
		Property: "C08", Level: "exploration",
		Rule: "roundtrip: reflection-generated, boundary-biased values of every generated-codec struct type (registries VerifCodecTypes), key = (type, shape of the value: varint sizes, length buckets, NFC/non-NFC strings, nil/empty/present); " +
			"primitives: Writer->Reader round trip of every scalar/packed kind at varint boundaries, key = (kind, encoded size); " +
			"tx-mutants: structure-aware mutation of canonical transaction encodings, key = (mutation kind, accepted/rejected, error class); " +
			"tx-exhaustive: every byte string of length <= 2 (<= 3 thorough, first sweep) as whole input and substituted for / inserted at every field of a valid transaction, key = (slot, mode, accepted/rejected, error class); " +
			"ids: random blocks through Encode/NewBlock/NewTransaction/Chain.AddBlock/DataAccess (cache and database path), key = (number of transactions, assets, path); " +
			"lisk32: 20-byte addresses (boundary and random), all single-character substitutions, transpositions, 2-4 substitutions, prefix/length/case changes, key = (mutation, accepted/rejected)",
		Assumptions: []string{
			"value domain of a schema: valid UTF-8 strings, no nil element inside a repeated field; a nil nested-object pointer is judged for the lenient round trip (absent == empty) but strict decoding of such an encoding is only counted (LIP-0027 has no optional nested objects)",
			"equality is over the codec fields (tag fieldNumber) only; cached fields such as ID and size are not part of the schema",
			"codec files whose package cannot be imported from another module are not covered: cmd/debug/app/keys_codec.go (package main), pkg/codec/internal/codec_test/tx_codec.go (internal)",
			"the Lisk32 reference (LIP-0018) is validated against the two address vectors in the repository's tests before use",
		},
	}, func(c *mon.Ctx) {
		if err := refSelfTest(); err != nil {
			c.Cases("oracle-selftest", 1, func(k *mon.Case) { k.Inconclusive("oracle-selftest-failed: " + err.Error()) })
			return
		}
		types := allTypes()
		roundTrip(c, types)
		primitives(c)
		txMutants(c)
		txExhaustive(c)
		ids(c)
		lisk32(c)
	})
}

// ---------------------------------------------------------------------------------------

func roundTrip(c *mon.Ctx, types []typeEntry) {
	per := c.N(400, 4000)
	c.Cases("roundtrip", len(types)*per, func(k *mon.Case) {
		te := types[k.Index%len(types)]
		seed := k.R.Int63()
		v, g, err := newValue(te.proto, rand.New(rand.NewSource(seed)), false)
		if err != nil {
			k.Inconclusive("generator:" + te.name + ":" + err.Error())
			return
		}
		v2, _, _ := newValue(te.proto, rand.New(rand.NewSource(seed)), false)
		k.Nontrivial(te.name + "/" + shape(v))
		k.Count("roundtrip_values", 1)
		e1 := v.Encode()
		k.Stage(e1)
		wit := func(extra map[string]any) map[string]any {
			w := map[string]any{"type": te.name, "value": fmt.Sprintf("%+v", v), "encoded": hx(e1)}
			for a, b := range extra {
				w[a] = b
			}
			return w
		}
		if k.Index < len(types) {
			k.Sample(map[string]any{"type": te.name, "encoded_len": len(e1), "shape": shape(v)})
		}
		if e1b := v.Encode(); !bytes.Equal(e1, e1b) {
			k.Violation("encode:nondeterministic:same-object:"+te.name, "two calls of Encode on the same object give different bytes", wit(map[string]any{"second": hx(e1b)}))
		}
		if e2 := v2.Encode(); !bytes.Equal(e1, e2) {
			k.Violation("encode:nondeterministic:equal-values:"+te.name, "Encode of two equal values gives different bytes", wit(map[string]any{"second": hx(e2)}))
		}
		// A string whose NFC (as computed by the normaliser the codec uses) is not canonically
		// equivalent to it, or is not accepted as normalised, breaks the round trip of whatever
		// type contains it: one root cause, reported under one key instead of one per type.
		sus := suspectString(v)
		if sus != "" {
			k.Count("values_with_string_the_normaliser_mishandles", 1)
		}
		stringBug := func(err error, diff string) bool {
			if sus == "" {
				return false
			}
			w := wit(map[string]any{"string": fmt.Sprintf("%+q", sus), "nfc_by_normaliser": fmt.Sprintf("%+q", norm.NFC.String(sus)), "err": fmt.Sprint(err), "field": diff})
			if err != nil && strings.Contains(err.Error(), "not normalized") {
				k.Violation("string:nfc-output-rejected-by-reader", "WriteString emits a string that readString rejects as not normalised: Decode rejects the output of Encode", w)
				return true
			}
			if strings.HasSuffix(diff, "(string)") {
				k.Violation("string:nfc-changes-text", "WriteString changes a string into one that is not canonically equivalent: Decode(Encode(v)) differs from v", w)
				return true
			}
			return false
		}
		// lenient decoding
		d := newZero(te.proto)
		if err := d.Decode(e1); err != nil {
			if !stringBug(err, "") {
				k.Violation("decode:rejects-own-encoding:"+te.name+":"+errClass(err), "Decode rejects the output of Encode", wit(map[string]any{"err": err.Error()}))
			}
		} else {
			k.Count("decode_accepted_own", 1)
			if diff := equalValues(v, d); diff != "" && !stringBug(nil, diff) {
				k.Violation("roundtrip:field-differs:"+diff, "Decode(Encode(v)) differs from v (strings compared in NFC, absent == empty)", wit(map[string]any{"decoded": fmt.Sprintf("%+v", d), "field": diff}))
			}
			if e3 := d.Encode(); g.nilNested {
				// an absent nested object decodes to an empty one, which Encode then writes out
				if !bytes.Equal(e1, e3) {
					k.Count("reencode_differs_for_value_with_nil_nested_object(not judged)", 1)
				}
			} else if !bytes.Equal(e1, e3) {
				k.Violation("reencode:differs:"+te.name, "Encode(Decode(Encode(v))) differs from Encode(v)", wit(map[string]any{"reencoded": hx(e3)}))
			}
		}
		// strict decoding of own encoding
		s := newZero(te.proto)
		serr := s.DecodeStrict(e1)
		if g.nilNested {
			if serr != nil {
				k.Count("strict_rejects_encoding_of_value_with_nil_nested_object(not judged)", 1)
			} else {
				k.Count("strict_accepts_encoding_of_value_with_nil_nested_object", 1)
			}
			return
		}
		if serr != nil {
			if !stringBug(serr, "") {
				k.Violation("strict:rejects-own-encoding:"+te.name+":"+errClass(serr), "DecodeStrict rejects the output of Encode", wit(map[string]any{"err": serr.Error()}))
			}
			return
		}
		k.Count("strict_accepted_own", 1)
		if diff := equalValues(v, s); diff != "" && !stringBug(nil, diff) {
			k.Violation("strict-roundtrip:field-differs:"+diff, "DecodeStrict(Encode(v)) differs from v", wit(map[string]any{"decoded": fmt.Sprintf("%+v", s), "field": diff}))
		}
		if e4 := s.Encode(); !bytes.Equal(e1, e4) {
			k.Violation("strict-reencode:differs:"+te.name, "Encode(DecodeStrict(Encode(v))) differs from Encode(v)", wit(map[string]any{"reencoded": hx(e4)}))
		}
	})
}

// ---------------------------------------------------------------------------------------
// Writer -> Reader round trip of every primitive kind the generator can emit.

func primitives(c *mon.Ctx) {
	c.Cases("primitives", c.N(4000, 40000), func(k *mon.Case) {
		r := k.R
		for it := 0; it < 50; it++ {
			k.Eval(1)
			u, i, u32, i32, b := genU64(r), genI64(r), genU32(r), genI32(r), r.Intn(2) == 0
			bs, s := genBytes(r), genString(r)
			if k.Index == 0 && it < len(u64Boundaries) {
				u = u64Boundaries[it]
			}
			if k.Index == 1 {
				i = []int64{math.MinInt64, math.MaxInt64, math.MinInt64 + 1, -1, 0, 1, math.MinInt32, math.MaxInt32}[it%8]
			}
			n := genLen(r)
			us, is, u32s, bools, strs, bss := make([]uint64, n), make([]int64, n), make([]uint32, n), make([]bool, n), make([]string, n), make([][]byte, n)
			for j := 0; j < n; j++ {
				us[j], is[j], u32s[j], bools[j], strs[j] = genU64(r), genI64(r), genU32(r), r.Intn(2) == 0, genString(r)
				bss[j] = genBytes(r)
				if len(bss[j]) > 300 {
					bss[j] = bss[j][:300]
				}
			}
			w := codec.NewWriter()
			w.WriteUInt(1, u)
			w.WriteInt(2, i)
			w.WriteUInt32(3, u32)
			w.WriteInt32(4, i32)
			w.WriteBool(5, b)
			w.WriteBytes(6, bs)
			w.WriteString(7, s)
			w.WriteUInts(8, us)
			w.WriteInts(9, is)
			w.WriteUInt32s(10, u32s)
			w.WriteBools(11, bools)
			w.WriteStrings(12, strs)
			w.WriteBytesArray(13, bss)
			enc := w.Result()
			k.Stage(enc)
			rd := codec.NewReader(enc)
			bad := func(kind string, want, got any, err error) {
				k.Violation("primitive:roundtrip:"+kind, "a value written by codec.Writer is not read back by codec.Reader", map[string]any{"kind": kind, "want": fmt.Sprint(want), "got": fmt.Sprint(got), "err": fmt.Sprint(err), "encoded": hx(enc)})
			}
			k.Nontrivial(fmt.Sprintf("u%d/i%d/n%s", len(putUvarint(u)), len(putUvarint(uint64(i<<1)^uint64(i>>63))), bucket(n)))
			if g, err := rd.ReadUInt(1, true); err != nil || g != u {
				bad("uint64", u, g, err)
			}
			if g, err := rd.ReadInt(2, true); err != nil || g != i {
				bad("sint64", i, g, err)
			}
			if g, err := rd.ReadUInt32(3, true); err != nil || g != u32 {
				bad("uint32", u32, g, err)
			}
			if g, err := rd.ReadInt32(4, true); err != nil || g != i32 {
				bad("sint32", i32, g, err)
			}
			if g, err := rd.ReadBool(5, true); err != nil || g != b {
				bad("bool", b, g, err)
			}
			if g, err := rd.ReadBytes(6, true); err != nil || !bytes.Equal(g, bs) {
				bad("bytes", hx(bs), hx(g), err)
			}
			misaligned := false // a failed read leaves the reader inside a field: later fields are not judged
			strBad := func(kind, orig, got string, err error) {
				if err != nil {
					misaligned = true
				}
				switch {
				case nfcSuspect(orig) && err != nil:
					k.Violation("string:nfc-output-rejected-by-reader", "WriteString emits a string that readString rejects as not normalised", map[string]any{"string": fmt.Sprintf("%+q", orig), "nfc_by_normaliser": fmt.Sprintf("%+q", norm.NFC.String(orig)), "err": err.Error()})
				case nfcSuspect(orig):
					k.Violation("string:nfc-changes-text", "WriteString changes a string into one that is not canonically equivalent", map[string]any{"string": fmt.Sprintf("%+q", orig), "read_back": fmt.Sprintf("%+q", got)})
				default:
					bad(kind, fmt.Sprintf("%+q", orig), fmt.Sprintf("%+q", got), err)
				}
			}
			if g, err := rd.ReadString(7, true); err != nil || !canonEq(g, s) {
				strBad("string", s, g, err)
			} else if !norm.NFC.IsNormalString(g) {
				bad("string-not-nfc-after-read", fmt.Sprintf("%+q", s), fmt.Sprintf("%+q", g), nil)
			}
			if misaligned {
				k.Count("primitive_messages_cut_short_after_failed_string_read", 1)
				continue
			}
			if g, err := rd.ReadUInts(8); err != nil || !eqSlice(g, us) {
				bad("packed-uint64", us, g, err)
			}
			if g, err := rd.ReadInts(9); err != nil || !eqSlice(g, is) {
				bad("packed-sint64", is, g, err)
			}
			if g, err := rd.ReadUInt32s(10); err != nil || !eqSlice(g, u32s) {
				bad("packed-uint32", u32s, g, err)
			}
			if g, err := rd.ReadBools(11); err != nil || !eqSlice(g, bools) {
				bad("packed-bool", bools, g, err)
			}
			if g, err := rd.ReadStrings(12); err != nil || len(g) != len(strs) {
				susp := ""
				for _, x := range strs {
					if nfcSuspect(x) {
						susp = x
					}
				}
				if susp != "" && err != nil {
					strBad("strings", susp, "", err)
				} else {
					bad("strings", strs, g, err)
				}
			} else {
				for j := range g {
					if !canonEq(g[j], strs[j]) {
						strBad("strings", strs[j], g[j], nil)
						break
					}
				}
			}
			if misaligned {
				k.Count("primitive_messages_cut_short_after_failed_string_read", 1)
				continue
			}
			if g, err := rd.ReadBytesArray(13); err != nil || len(g) != len(bss) {
				bad("bytes-array", len(bss), len(g), err)
			} else {
				for j := range g {
					if !bytes.Equal(g[j], bss[j]) {
						bad("bytes-array", hx(bss[j]), hx(g[j]), nil)
						break
					}
				}
			}
			if rd.HasUnreadBytes() {
				bad("unread-bytes-after-all-fields", 0, "unread", nil)
			}
			k.Count("primitive_messages", 1)
		}
	})
}

func eqSlice[T comparable](a, b []T) bool {
	if len(a) != len(b) {
		return false
	}
	for i := range a {
		if a[i] != b[i] {
			return false
		}
	}
	return true
}

// ---------------------------------------------------------------------------------------
// canonical strict decoding of transactions

// judgeTx applies the canonical-form monitor to one byte string.
//
// nt=true: one call per interesting input; the input is staged, counted and keyed here.
// nt=false: inner loop of an exhaustive sweep; the caller counts.
func judgeTx(k *mon.Case, in []byte, kind string, nt bool) bool {
	if nt {
		k.Eval(1)
		k.Stage(in)
	}
	tx := &blockchain.Transaction{}
	err := tx.DecodeStrict(in)
	if err != nil {
		if nt {
			k.Count("tx_strict_rejected:"+kind, 1)
			k.Nontrivial(kind + "/rejected/" + errClass(err))
		}
		// NewTransaction must agree
		if t2, err2 := blockchain.NewTransaction(in); err2 == nil {
			k.Violation("tx-new:accepts-what-strict-rejects:"+kind, "NewTransaction accepts bytes that Transaction.DecodeStrict rejects", map[string]any{"input": hx(in), "id": hx(t2.ID)})
		}
		return false
	}
	if nt {
		k.Count("tx_strict_accepted:"+kind, 1)
		k.Nontrivial(kind + "/accepted")
	}
	re := tx.Encode()
	if !bytes.Equal(re, in) {
		k.Violation("tx-strict:non-canonical-accepted:"+kind, "Transaction.DecodeStrict accepts a byte string that is not the canonical encoding of the decoded transaction", map[string]any{"input": hx(in), "canonical": hx(re), "decoded": fmt.Sprintf("%+v", tx), "mutation": kind})
	}
	t2, err2 := blockchain.NewTransaction(in)
	if err2 != nil {
		k.Violation("tx-new:rejects-what-strict-accepts:"+kind, "NewTransaction rejects bytes that Transaction.DecodeStrict accepts", map[string]any{"input": hx(in), "err": err2.Error()})
		return true
	}
	h := sha256.Sum256(in)
	if !bytes.Equal(t2.ID, h[:]) {
		k.Violation("tx-id:not-hash-of-accepted-bytes:"+kind, "the ID given by NewTransaction is not the SHA-256 of the accepted bytes", map[string]any{"input": hx(in), "id": hx(t2.ID), "sha256": hx(h[:])})
	}
	if t2.Size() != len(in) {
		k.Violation("tx-size:not-length-of-accepted-bytes:"+kind, "Transaction.Size() differs from the length of the accepted bytes", map[string]any{"input": hx(in), "size": t2.Size()})
	}
	return true
}

func genTx(r *rand.Rand, small bool) *blockchain.Transaction {
	v, _, _ := newValue(&blockchain.Transaction{}, r, true)
	tx := v.(*blockchain.Transaction)
	// strings the normaliser mishandles are judged in the roundtrip and primitives streams
	if nfcSuspect(tx.Module) {
		tx.Module = "token"
	}
	if nfcSuspect(tx.Command) {
		tx.Command = "transfer"
	}
	if small {
		if len(tx.Params) > 40 {
			tx.Params = tx.Params[:40]
		}
		if len(tx.SenderPublicKey) > 40 {
			tx.SenderPublicKey = tx.SenderPublicKey[:40]
		}
		if len(tx.Signatures) > 3 {
			tx.Signatures = tx.Signatures[:3]
		}
		for i := range tx.Signatures {
			if len(tx.Signatures[i]) > 70 {
				tx.Signatures[i] = tx.Signatures[i][:70]
			}
		}
		if len(tx.Module) > 40 {
			tx.Module = "token"
		}
		if len(tx.Command) > 40 {
			tx.Command = "transfer"
		}
	}
	return tx
}

func txMutants(c *mon.Ctx) {
	c.Cases("tx-mutants", c.N(6000, 60000), func(k *mon.Case) {
		tx := genTx(k.R, k.R.Intn(4) != 0)
		enc := tx.Encode()
		if !judgeTx(k, enc, "canonical", true) {
			k.Violation("tx-strict:rejects-own-encoding", "Transaction.DecodeStrict rejects Transaction.Encode output", map[string]any{"encoded": hx(enc)})
			return
		}
		ms := mutants(enc, k.R)
		for _, m := range ms {
			if bytes.Equal(m.data, enc) {
				k.Count("tx_mutant_identical_to_original", 1)
				continue
			}
			judgeTx(k, m.data, m.kind, true)
		}
		k.Sample(map[string]any{"encoded": hx(enc), "mutants": len(ms)})
	})
}

// shortStrings calls fn with every byte string of length 0..maxLen.
func shortStrings(maxLen int, fn func([]byte)) {
	fn([]byte{})
	buf := make([]byte, maxLen)
	for l := 1; l <= maxLen; l++ {
		total := 1 << uint(8*l)
		for v := 0; v < total; v++ {
			x := v
			for i := 0; i < l; i++ {
				buf[i] = byte(x)
				x >>= 8
			}
			fn(buf[:l])
		}
	}
}

func txExhaustive(c *mon.Ctx) {
	const slots = 9 // 7 fields + whole input + append at end
	const modes = 3 // replace field, replace value/payload, insert before field
	c.Cases("tx-exhaustive", c.N(270, 1350), func(k *mon.Case) {
		slot := k.Index % slots
		mode := k.Index / slots % modes
		maxLen := 2
		if !c.Quick() && k.Index < slots*modes {
			maxLen = 3
		}
		var tx *blockchain.Transaction
		for {
			tx = genTx(k.R, true)
			if len(tx.Signatures) > 0 { // so that all seven fields exist
				break
			}
		}
		enc := tx.Encode()
		fs := parseFields(enc)
		if len(fs) < 7 {
			k.Inconclusive("tokeniser")
			return
		}
		if !judgeTx(k, enc, "canonical", true) {
			k.Violation("tx-strict:rejects-own-encoding", "Transaction.DecodeStrict rejects Transaction.Encode output", map[string]any{"encoded": hx(enc)})
			return
		}
		var pre, post []byte
		name := ""
		switch {
		case slot == 7:
			name = "whole-input"
		case slot == 8:
			pre, name = enc, "append"
		default:
			f := fs[slot]
			switch mode {
			case 0:
				pre, post, name = enc[:f.start], enc[f.end:], fmt.Sprintf("replace-field-%d", f.num)
			case 1:
				pre, post, name = enc[:f.lenEnd], enc[f.valEnd:], fmt.Sprintf("replace-value-%d", f.num)
			default:
				pre, post, name = enc[:f.start], enc[f.start:], fmt.Sprintf("insert-before-field-%d", f.num)
			}
		}
		k.Sample(map[string]any{"base": hx(enc), "slot": name, "max_len": maxLen})
		acc, rej := 0, 0
		buf := make([]byte, 0, len(enc)+8)
		shortStrings(maxLen, func(s []byte) {
			buf = append(append(append(buf[:0], pre...), s...), post...)
			if bytes.Equal(buf, enc) {
				return
			}
			if judgeTx(k, buf, "exhaustive:"+name, false) {
				acc++
			} else {
				rej++
			}
		})
		k.Eval(acc + rej)
		k.Count("tx_strict_accepted:exhaustive:"+name, acc)
		k.Count("tx_strict_rejected:exhaustive:"+name, rej)
		k.Nontrivial(fmt.Sprintf("%s/acc=%v/rej=%v", name, acc > 0, rej > 0))
	})
}

// ---------------------------------------------------------------------------------------
// IDs through NewBlock / NewTransaction / store + load

func genHeader(r *rand.Rand, height uint32) *blockchain.BlockHeader {
	v, _, _ := newValue(&blockchain.BlockHeader{}, r, true)
	h := v.(*blockchain.BlockHeader)
	h.Height = height
	return h
}

func ids(c *mon.Ctx) {
	c.Cases("ids", c.N(800, 8000), func(k *mon.Case) {
		r := k.R
		database, err := db.NewInMemoryDB()
		if err != nil {
			k.Inconclusive("db")
			return
		}
		defer database.Close()
		chain := blockchain.NewChain(&blockchain.ChainConfig{ChainID: []byte{0, 0, 0, 8}, MaxTransactionsLength: 15 * 1024, MaxBlockCache: 2, KeepEventsForHeights: -1})
		nBlocks := 2 + r.Intn(4)
		base := genU32(r)
		if base > math.MaxUint32-10 {
			base = math.MaxUint32 - 10
		}
		var blocks []*blockchain.Block
		for i := 0; i < nBlocks; i++ {
			hdr := genHeader(r, base+uint32(i))
			nTx := []int{0, 0, 1, 2, 5}[r.Intn(5)]
			txs := []*blockchain.Transaction{}
			seen := map[string]bool{}
			for j := 0; j < nTx; j++ {
				tx := genTx(r, r.Intn(3) != 0)
				tx.Init()
				// objects that already carry an ID when Init runs (what the JSON endpoints and every
				// caller that copies and edits a transaction produce): the ID must follow the content
				switch r.Intn(3) {
				case 0:
					if js, err := json.Marshal(tx); err == nil {
						var m map[string]any
						if json.Unmarshal(js, &m) == nil {
							foreign := sha256.Sum256([]byte(fmt.Sprint("foreign", i, j, r.Int63())))
							m["id"] = hex.EncodeToString(foreign[:])
							js2, _ := json.Marshal(m)
							t2 := &blockchain.Transaction{}
							if json.Unmarshal(js2, t2) == nil {
								t2.Init()
								if bytes.Equal(t2.Encode(), tx.Encode()) {
									k.Count("tx_init_after_json_with_foreign_id", 1)
									tx = t2
								} else {
									k.Count("tx_json_not_lossless_skipped", 1)
								}
							}
						}
					}
				case 1:
					cp := tx.Copy()
					cp.Nonce ^= 1 << uint(r.Intn(40))
					if r.Intn(2) == 0 {
						cp.Params = append(append([]byte{}, cp.Params...), byte(r.Intn(256)))
					}
					cp.Init()
					k.Count("tx_init_after_copy_and_edit", 1)
					tx = cp
				}
				if h := sha256.Sum256(tx.Encode()); !bytes.Equal(h[:], tx.ID) {
					k.Violation("tx-id:not-hash-of-bytes:init-on-object-carrying-an-id", "Transaction.Init left an ID that is not the SHA-256 of the encoding", map[string]any{"tx": hx(tx.Encode()), "id": hx(tx.ID)})
				}
				if seen[string(tx.ID)] {
					continue
				}
				seen[string(tx.ID)] = true
				txs = append(txs, tx)
			}
			assets := []*blockchain.BlockAsset{}
			for j, n := 0, r.Intn(3); j < n; j++ {
				m := fmt.Sprintf("m%d", j) + genString(r)
				if nfcSuspect(m) {
					m = fmt.Sprintf("m%d", j)
				}
				assets = append(assets, &blockchain.BlockAsset{Module: m, Data: genBytes(r)})
			}
			if r.Intn(3) == 0 {
				// a header object that already carries the ID of other content
				hdr.Init()
				hdr.Timestamp ^= 1 << uint(r.Intn(31))
				k.Count("header_init_after_edit", 1)
			}
			blk := &blockchain.Block{Header: hdr, Transactions: txs, Assets: assets}
			blk.Init()
			blocks = append(blocks, blk)
		}
		chain.Init(blocks[0], database)
		k.Sample(map[string]any{"blocks": nBlocks, "first_height": base, "txs_in_first": len(blocks[0].Transactions)})

		hashOf := func(b []byte) []byte { h := sha256.Sum256(b); return h[:] }
		cmpBlock := func(path string, orig, got *blockchain.Block) {
			k.Eval(1)
			k.Count("id_checks:"+path, 1)
			k.Nontrivial(fmt.Sprintf("%s/tx=%d/assets=%d", path, len(orig.Transactions), len(orig.Assets)))
			w := func() map[string]any {
				return map[string]any{"path": path, "header": hx(orig.Header.Encode()), "id": hx(orig.Header.ID)}
			}
			if !bytes.Equal(got.Header.ID, orig.Header.ID) {
				w2 := w()
				w2["got_id"] = hx(got.Header.ID)
				w2["got_header"] = hx(got.Header.Encode())
				k.Violation("block-id:changed:"+path, "the block ID changed", w2)
			}
			if !bytes.Equal(got.Header.Encode(), orig.Header.Encode()) {
				k.Violation("block-header-bytes:changed:"+path, "the header encoding changed", w())
			}
			if !bytes.Equal(hashOf(got.Header.Encode()), got.Header.ID) {
				k.Violation("block-id:not-hash-of-header:"+path, "the block ID is not the SHA-256 of the header encoding", w())
			}
			if len(got.Transactions) != len(orig.Transactions) {
				k.Violation("block-transactions:count-changed:"+path, "number of transactions changed", w())
				return
			}
			for i, tx := range orig.Transactions {
				g := got.Transactions[i]
				if !bytes.Equal(g.ID, tx.ID) {
					k.Violation("tx-id:changed:"+path, "a transaction ID changed", map[string]any{"path": path, "tx": hx(tx.Encode()), "id": hx(tx.ID), "got_id": hx(g.ID), "got_tx": hx(g.Encode())})
				}
				if !bytes.Equal(g.Encode(), tx.Encode()) {
					k.Violation("tx-bytes:changed:"+path, "a transaction encoding changed", map[string]any{"path": path, "tx": hx(tx.Encode()), "got_tx": hx(g.Encode())})
				}
				if !bytes.Equal(hashOf(g.Encode()), g.ID) {
					k.Violation("tx-id:not-hash-of-bytes:"+path, "transaction ID is not the SHA-256 of its encoding", map[string]any{"path": path, "tx": hx(g.Encode()), "id": hx(g.ID)})
				}
			}
			if len(got.Assets) != len(orig.Assets) {
				k.Violation("block-assets:count-changed:"+path, "number of assets changed", w())
				return
			}
			for i, a := range orig.Assets {
				if !bytes.Equal(a.Encode(), got.Assets[i].Encode()) {
					k.Violation("block-asset-bytes:changed:"+path, "an asset encoding changed", w())
				}
			}
		}

		for bi, blk := range blocks {
			// ID of an object initialised in place == hash of its encoding
			if !bytes.Equal(blk.Header.ID, hashOf(blk.Header.Encode())) {
				k.Violation("block-id:not-hash-of-header:init", "Block.Init gives an ID that is not the SHA-256 of the header encoding", hx(blk.Header.Encode()))
			}
			// re-encoding through the wire format
			wire := blk.Encode()
			k.Stage(wire)
			nb, err := blockchain.NewBlock(wire)
			if err != nil {
				k.Violation("new-block:rejects-own-encoding:"+errClass(err), "NewBlock rejects Block.Encode output", map[string]any{"err": err.Error(), "wire": hx(wire)})
				continue
			}
			cmpBlock("NewBlock", blk, nb)
			if !bytes.Equal(nb.Encode(), wire) {
				k.Violation("block-bytes:changed:NewBlock", "Block.Encode after NewBlock differs from the input", map[string]any{"wire": hx(wire)})
			}
			nh, err := blockchain.NewBlockHeader(blk.Header.Encode())
			if err != nil {
				k.Violation("new-block-header:rejects-own-encoding", "NewBlockHeader rejects BlockHeader.Encode output", err.Error())
			} else if !bytes.Equal(nh.ID, blk.Header.ID) {
				k.Violation("block-id:changed:NewBlockHeader", "the block ID changed", map[string]any{"header": hx(blk.Header.Encode())})
			}
			// encodings of the same header that are not canonical (a field left out, an over-long
			// varint): where the lenient header decoder accepts one, the ID it assigns must survive
			// re-encoding (and is the hash of the re-encoded header, which is what is stored and signed)
			for _, v := range headerVariants(blk.Header.Encode()) {
				k.Stage(v.b)
				vh, err := blockchain.NewBlockHeader(v.b)
				k.Eval(1)
				if err != nil {
					k.Count("noncanonical_header_rejected:"+v.name, 1)
					continue
				}
				k.Count("noncanonical_header_accepted:"+v.name, 1)
				k.Nontrivial("noncanonical-header/" + v.name)
				re := vh.Encode()
				vh2, err := blockchain.NewBlockHeader(re)
				if err != nil {
					k.Violation("new-block-header:rejects-own-encoding", "NewBlockHeader rejects BlockHeader.Encode output", err.Error())
					continue
				}
				if !bytes.Equal(vh.ID, vh2.ID) || !bytes.Equal(vh.ID, hashOf(re)) {
					k.Violation("block-id:changed-by-re-encoding:accepted-non-canonical-header:"+v.kind, "a header accepted from a non-canonical encoding gets an ID that changes when the header is re-encoded (store/load, forwarding)", map[string]any{"variant": v.name, "wire_header": hx(v.b), "id": hx(vh.ID), "reencoded": hx(re), "id_after_reencoding": hx(vh2.ID)})
				}
				// the same header inside a block on the wire
				if len(wire) > 0 && wire[0] == 0x0a {
					if l, n := binary.Uvarint(wire[1:]); n > 0 && int(l) == len(blk.Header.Encode()) {
						bw := append([]byte{0x0a}, binary.AppendUvarint(nil, uint64(len(v.b)))...)
						bw = append(append(bw, v.b...), wire[1+n+int(l):]...)
						k.Stage(bw)
						if vb, err := blockchain.NewBlock(bw); err == nil {
							k.Count("noncanonical_header_in_block_accepted", 1)
							vb2, err := blockchain.NewBlock(vb.Encode())
							if err != nil || !bytes.Equal(vb.Header.ID, vb2.Header.ID) || !bytes.Equal(vb.Header.ID, hashOf(vb.Header.Encode())) {
								k.Violation("block-id:changed-by-re-encoding:accepted-non-canonical-header:"+v.kind, "a block accepted with a non-canonical header encoding gets an ID that changes when the block is re-encoded (store/load, forwarding)", map[string]any{"variant": v.name, "wire_block": hx(bw), "id": hx(vb.Header.ID)})
							}
						}
					}
				}
			}
			for _, tx := range blk.Transactions {
				nt, err := blockchain.NewTransaction(tx.Encode())
				if err != nil {
					k.Violation("new-transaction:rejects-own-encoding", "NewTransaction rejects Transaction.Encode output", map[string]any{"err": err.Error(), "tx": hx(tx.Encode())})
					continue
				}
				if !bytes.Equal(nt.ID, tx.ID) {
					k.Violation("tx-id:changed:NewTransaction", "a transaction ID changed", map[string]any{"tx": hx(tx.Encode())})
				}
				cp := tx.Copy()
				if !bytes.Equal(cp.ID, tx.ID) || !bytes.Equal(cp.Encode(), tx.Encode()) {
					k.Violation("tx-id:changed:Copy", "Transaction.Copy changed the ID or the bytes", map[string]any{"tx": hx(tx.Encode())})
				}
			}
			// store
			events := []*blockchain.Event{}
			if err := chain.AddBlock(database.NewBatch(), blk, events, base, false); err != nil {
				k.Violation("add-block:error", "Chain.AddBlock failed", err.Error())
				return
			}
			_ = bi
		}
		// load: cache path (the last MaxBlockCache blocks), database path (a fresh DataAccess)
		fresh := blockchain.NewDataAccess(database, 2, -1)
		for _, blk := range blocks {
			for _, da := range []struct {
				name string
				d    *blockchain.DataAccess
			}{{"chain", chain.DataAccess()}, {"fresh", fresh}} {
				got, err := da.d.GetBlock(blk.Header.ID)
				if err != nil {
					k.Violation("load:GetBlock:error:"+da.name, "a stored block cannot be loaded by ID", map[string]any{"err": err.Error(), "id": hx(blk.Header.ID)})
					continue
				}
				cmpBlock("GetBlock/"+da.name, blk, got)
				got, err = da.d.GetBlockByHeight(blk.Header.Height)
				if err != nil {
					k.Violation("load:GetBlockByHeight:error:"+da.name, "a stored block cannot be loaded by height", map[string]any{"err": err.Error()})
					continue
				}
				cmpBlock("GetBlockByHeight/"+da.name, blk, got)
				hd, err := da.d.GetBlockHeader(blk.Header.ID)
				if err != nil {
					k.Violation("load:GetBlockHeader:error:"+da.name, "a stored header cannot be loaded", map[string]any{"err": err.Error()})
				} else if !bytes.Equal(hd.ID, blk.Header.ID) || !bytes.Equal(hd.Encode(), blk.Header.Encode()) {
					k.Violation("block-id:changed:GetBlockHeader/"+da.name, "the block ID or header bytes changed", map[string]any{"header": hx(blk.Header.Encode()), "got": hx(hd.Encode()), "got_id": hx(hd.ID)})
				}
				for _, tx := range blk.Transactions {
					gt, err := da.d.GetTransaction(tx.ID)
					if err != nil {
						k.Violation("load:GetTransaction:error:"+da.name, "a stored transaction cannot be loaded", map[string]any{"err": err.Error(), "tx": hx(tx.Encode())})
						continue
					}
					k.Count("id_checks:GetTransaction", 1)
					if !bytes.Equal(gt.ID, tx.ID) || !bytes.Equal(gt.Encode(), tx.Encode()) {
						k.Violation("tx-id:changed:GetTransaction/"+da.name, "the transaction ID or bytes changed", map[string]any{"tx": hx(tx.Encode()), "got": hx(gt.Encode())})
					}
				}
			}
		}
	})
}

// ---------------------------------------------------------------------------------------
// Lisk32

func lisk32(c *mon.Ctx) {
	c.Cases("lisk32", c.N(1600, 16000), func(k *mon.Case) {
		r := k.R
		a := make([]byte, 20)
		switch k.Index % 8 {
		case 0: // zero
		case 1:
			for i := range a {
				a[i] = 0xff
			}
		case 2:
			a[r.Intn(20)] = 1 << uint(r.Intn(8))
		default:
			r.Read(a)
		}
		k.Eval(1)
		s, err := codec.BytesToLisk32(a)
		if err != nil {
			k.Violation("lisk32:encode-error", "BytesToLisk32 fails on a 20-byte address", map[string]any{"address": hx(a), "err": err.Error()})
			return
		}
		if want := refEncode(a); s != want {
			k.Violation("lisk32:encode-differs-from-lip18", "BytesToLisk32 differs from the LIP-0018 reference", map[string]any{"address": hx(a), "got": s, "want": want})
		}
		back, err := codec.Lisk32ToBytes(s)
		if err != nil || !bytes.Equal(back, a) {
			k.Violation("lisk32:bytes-text-bytes", "Lisk32ToBytes(BytesToLisk32(a)) != a", map[string]any{"address": hx(a), "text": s, "back": hx(back), "err": fmt.Sprint(err)})
		}
		if codec.Lisk32(a).String() != s {
			k.Violation("lisk32:string-method", "Lisk32.String differs from BytesToLisk32", map[string]any{"address": hx(a)})
		}
		k.Count("lisk32_addresses", 1)
		k.Nontrivial(fmt.Sprintf("addr-kind-%d", k.Index%8))
		if k.Index < 2 {
			k.Sample(map[string]any{"address": hx(a), "text": s})
		}

		// judge one candidate text
		judge := func(kind, t string) {
			k.Eval(1)
			ok, why := refValid(t)
			b, err := codec.Lisk32ToBytes(t)
			verr := codec.ValidateLisk32(t)
			acc := err == nil
			k.Count(fmt.Sprintf("lisk32_%s_accepted=%v", kind, acc), 1)
			k.Nontrivial(fmt.Sprintf("%s/acc=%v/ref=%v:%s", kind, acc, ok, why))
			if (verr == nil) != acc {
				k.Violation("lisk32:validate-and-convert-disagree:"+kind, "ValidateLisk32 and Lisk32ToBytes disagree", map[string]any{"text": t})
			}
			if acc {
				if why == "checksum" {
					k.Violation("lisk32:bad-checksum-accepted:"+kind, "a Lisk32 text with a bad checksum is accepted", map[string]any{"text": t, "derived_from": s, "bytes": hx(b)})
					return
				}
				// accepted text must convert back to itself
				t2, err := codec.BytesToLisk32(b)
				if err != nil || t2 != t {
					k.Violation("lisk32:text-bytes-text:"+kind, "an accepted Lisk32 text does not convert back to itself (text -> bytes -> text)", map[string]any{"text": t, "bytes": hx(b), "back": t2, "err": fmt.Sprint(err), "reference_verdict": why})
				}
			} else if ok {
				k.Violation("lisk32:valid-text-rejected:"+kind, "a valid Lisk32 text is rejected", map[string]any{"text": t, "err": err.Error()})
			}
		}
		judge("valid", s)
		body := []byte(s)
		// every single-character substitution in the 38 data+checksum characters
		for p := 3; p < 41; p++ {
			for ci := 0; ci < len(refCharset); ci++ {
				if refCharset[ci] == body[p] {
					continue
				}
				m := append([]byte{}, body...)
				m[p] = refCharset[ci]
				judge("substitute-1", string(m))
			}
		}
		// adjacent transpositions
		for p := 3; p < 40; p++ {
			if body[p] == body[p+1] {
				continue
			}
			m := append([]byte{}, body...)
			m[p], m[p+1] = m[p+1], m[p]
			judge("transpose", string(m))
		}
		// 2..4 substitutions
		for i := 0; i < 60; i++ {
			m := append([]byte{}, body...)
			n := 2 + r.Intn(3)
			for j := 0; j < n; j++ {
				m[3+r.Intn(38)] = refCharset[r.Intn(32)]
			}
			if string(m) == s {
				continue
			}
			judge("substitute-2to4", string(m))
		}
		// outside the alphabet, case, prefix, length
		for _, ch := range []byte{'1', '0', 'b' - 32, 'i', 'l', ' ', 0x00, 0xff} {
			m := append([]byte{}, body...)
			m[3+r.Intn(38)] = ch
			judge("non-alphabet", string(m))
		}
		judge("uppercase", strings.ToUpper(s))
		for _, pre := range []string{"LSK", "lsx", "abc", "   ", "lsK", "zzz", "\x00\x00\x00", "\u00e9l"} {
			judge("prefix", pre+s[3:])
		}
		judge("length", s[:40])
		judge("length", s+"z")
		judge("length", s[3:])
		judge("length", s[:20]+"\u00e9"+s[22:]) // 41 bytes, 40 characters
		// the empty address has the empty text (explicit special case of the implementation)
		if e, err := codec.Lisk32ToBytes(""); err != nil || len(e) != 0 {
			k.Violation("lisk32:empty-text", "the empty text does not convert to the empty address", fmt.Sprint(err))
		}
		if e, err := codec.BytesToLisk32([]byte{}); err != nil || e != "" {
			k.Violation("lisk32:empty-bytes", "the empty address does not convert to the empty text", fmt.Sprint(err))
		}
		if _, err := codec.BytesToLisk32(a[:19]); err == nil {
			k.Count("lisk32_19_bytes_accepted(not judged)", 1)
		} else {
			k.Count("lisk32_19_bytes_rejected", 1)
		}
	})
}

type hdrVariant struct {
	name, kind string
	b          []byte
}

// headerVariants re-serialises the top-level fields of an encoded header in non-canonical
// ways: each field left out in turn, each key / varint value / length written as an
// over-long varint.
func headerVariants(enc []byte) []hdrVariant {
	type field struct {
		num   uint64
		wt    byte
		start int // offset of the key
		vOff  int // offset of the value varint / length varint
		vLen  int // bytes of that varint
		end   int
	}
	var fs []field
	i := 0
	for i < len(enc) {
		key, n := binary.Uvarint(enc[i:])
		if n <= 0 {
			return nil
		}
		f := field{num: key >> 3, wt: byte(key & 7), start: i, vOff: i + n}
		v, m := binary.Uvarint(enc[f.vOff:])
		if m <= 0 {
			return nil
		}
		f.vLen = m
		switch f.wt {
		case 0:
			f.end = f.vOff + m
		case 2:
			f.end = f.vOff + m + int(v)
		default:
			return nil
		}
		if f.end > len(enc) {
			return nil
		}
		fs = append(fs, f)
		i = f.end
	}
	overlong := func(b []byte) []byte { // same value, one byte longer
		o := append([]byte{}, b...)
		o[len(o)-1] |= 0x80
		return append(o, 0x00)
	}
	var out []hdrVariant
	for _, f := range fs {
		drop := append(append([]byte{}, enc[:f.start]...), enc[f.end:]...)
		out = append(out, hdrVariant{fmt.Sprintf("drop-field-%d", f.num), "field-left-out", drop})
		ol := append(append(append([]byte{}, enc[:f.vOff]...), overlong(enc[f.vOff:f.vOff+f.vLen])...), enc[f.vOff+f.vLen:]...)
		out = append(out, hdrVariant{fmt.Sprintf("overlong-value-or-length-of-field-%d", f.num), "over-long-varint", ol})
		okey := append(append(append([]byte{}, enc[:f.start]...), overlong(enc[f.start:f.vOff])...), enc[f.vOff:]...)
		out = append(out, hdrVariant{fmt.Sprintf("overlong-key-of-field-%d", f.num), "over-long-varint", okey})
	}
	return out
}
