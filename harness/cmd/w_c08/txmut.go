package main

import (
	"encoding/binary"
	"math/rand"

	"golang.org/x/text/unicode/norm"
)

// A canonical transaction encoding (LIP-0027/LIP-0068) is a sequence of fields
// key [len] payload.  field describes one of them inside an encoding produced by Encode.
type field struct {
	start, end       int // whole field
	keyEnd           int // end of key varint
	valStart, valEnd int // varint value (wire type 0) or payload (wire type 2)
	lenEnd           int // end of the length varint (wire type 2), == keyEnd for wire type 0
	num, wire        int
}

func uvarint(b []byte, off int) (uint64, int) {
	v, n := binary.Uvarint(b[off:])
	return v, n
}

func putUvarint(v uint64) []byte {
	b := make([]byte, binary.MaxVarintLen64)
	return b[:binary.PutUvarint(b, v)]
}

// parseFields tokenises an encoding produced by Encode (trusted to be well formed).
func parseFields(b []byte) []field {
	var out []field
	i := 0
	for i < len(b) {
		k, n := uvarint(b, i)
		if n <= 0 {
			return out
		}
		f := field{start: i, keyEnd: i + n, num: int(k >> 3), wire: int(k & 7)}
		i += n
		if f.wire == 0 {
			_, m := uvarint(b, i)
			if m <= 0 {
				return out
			}
			f.lenEnd, f.valStart, f.valEnd = f.keyEnd, i, i+m
			i += m
		} else {
			l, m := uvarint(b, i)
			if m <= 0 || i+m+int(l) > len(b) {
				return out
			}
			f.lenEnd, f.valStart, f.valEnd = i+m, i+m, i+m+int(l)
			i += m + int(l)
		}
		f.end = i
		out = append(out, f)
	}
	return out
}

// overlong re-encodes the varint v with pad extra (useless) continuation bytes.
func overlong(v uint64, pad int) []byte {
	b := putUvarint(v)
	b[len(b)-1] |= 0x80
	for i := 0; i < pad-1; i++ {
		b = append(b, 0x80)
	}
	return append(b, 0x00)
}

func cat(parts ...[]byte) []byte {
	var out []byte
	for _, p := range parts {
		out = append(out, p...)
	}
	return out
}

type mutant struct {
	kind string
	data []byte
}

// mutants derives non-canonical (or at least different) byte strings from the canonical
// encoding enc of a transaction.  Each kind names the canonical-form rule it attacks.
func mutants(enc []byte, r *rand.Rand) []mutant {
	fs := parseFields(enc)
	var out []mutant
	add := func(kind string, d []byte) { out = append(out, mutant{kind, d}) }

	for _, f := range fs {
		key, _ := uvarint(enc, f.start)
		// over-long varints at every varint position
		for _, pad := range []int{1, 2, 8} {
			add("overlong-key", cat(enc[:f.start], overlong(key, pad), enc[f.keyEnd:]))
			if f.wire == 0 {
				v, _ := uvarint(enc, f.valStart)
				add("overlong-value", cat(enc[:f.valStart], overlong(v, pad), enc[f.valEnd:]))
			} else {
				l, _ := uvarint(enc, f.keyEnd)
				add("overlong-length", cat(enc[:f.keyEnd], overlong(l, pad), enc[f.lenEnd:]))
			}
		}
		if f.wire == 0 {
			// 10-byte varints: 10th byte > 1 overflows; 11 bytes never terminate in range
			for _, last := range []byte{0x01, 0x02, 0x7f} {
				v := []byte{0xff, 0xff, 0xff, 0xff, 0xff, 0xff, 0xff, 0xff, 0xff, last}
				add("varint-10-bytes", cat(enc[:f.valStart], v, enc[f.valEnd:]))
			}
			add("varint-11-bytes", cat(enc[:f.valStart], []byte{0x80, 0x80, 0x80, 0x80, 0x80, 0x80, 0x80, 0x80, 0x80, 0x80, 0x01}, enc[f.valEnd:]))
			add("varint-unterminated", cat(enc[:f.valStart], []byte{0x80}))
			// a bool-like / wrong wire type for a varint field
			add("wire-type", cat(enc[:f.start], putUvarint(uint64(f.num<<3|2)), enc[f.keyEnd:]))
		} else {
			l, _ := uvarint(enc, f.keyEnd)
			add("length-past-end", cat(enc[:f.keyEnd], putUvarint(uint64(len(enc))+l+1), enc[f.lenEnd:]))
			add("length-plus-one", cat(enc[:f.keyEnd], putUvarint(l+1), enc[f.lenEnd:]))
			if l > 0 {
				add("length-minus-one", cat(enc[:f.keyEnd], putUvarint(l-1), enc[f.lenEnd:]))
			}
			add("length-huge", cat(enc[:f.keyEnd], []byte{0xff, 0xff, 0xff, 0xff, 0xff, 0xff, 0xff, 0xff, 0xff, 0x01}, enc[f.lenEnd:]))
			add("wire-type", cat(enc[:f.start], putUvarint(uint64(f.num<<3|0)), enc[f.keyEnd:]))
		}
		for _, w := range []int{1, 3, 4, 5, 6, 7} {
			add("wire-type", cat(enc[:f.start], putUvarint(uint64(f.num<<3|w)), enc[f.keyEnd:]))
		}
		// field numbers
		for _, num := range []uint64{0, uint64(f.num) + 1, uint64(f.num) + 16, 1 << 28, 1 << 60} {
			add("field-number", cat(enc[:f.start], putUvarint(num<<3|uint64(f.wire)), enc[f.keyEnd:]))
		}
		// keys that agree with the expected one only modulo 2^32 / 2^31 / 2^16 (shortest-form varints)
		for _, hi := range []uint64{1 << 32, 3 << 32, 1 << 40, 1 << 63, 1 << 31, 1 << 35, 1 << 16, (1 << 32) * uint64(1+r.Intn(1<<20))} {
			add("key-high-bits", cat(enc[:f.start], putUvarint(key+hi), enc[f.keyEnd:]))
		}
		add("drop-field", cat(enc[:f.start], enc[f.end:]))
		add("duplicate-field", cat(enc[:f.end], enc[f.start:f.end], enc[f.end:]))
		add("duplicate-field-at-end", cat(enc, enc[f.start:f.end]))
		if (f.num == 1 || f.num == 2) && f.wire == 2 {
			s := enc[f.valStart:f.valEnd]
			nfd := norm.NFD.Bytes(s)
			if string(nfd) != string(s) {
				add("string-nfd", cat(enc[:f.keyEnd], putUvarint(uint64(len(nfd))), nfd, enc[f.valEnd:]))
			}
			for _, extra := range [][]byte{[]byte("e\u0301"), []byte("\u212b"), []byte("q\u0307\u0323")} {
				ns := append(append([]byte{}, s...), extra...)
				add("string-not-nfc", cat(enc[:f.keyEnd], putUvarint(uint64(len(ns))), ns, enc[f.valEnd:]))
			}
			for _, bad := range [][]byte{{0xff}, {0xc0, 0x80}, {0xed, 0xa0, 0x80}, {0xe2, 0x82}} {
				ns := append(append([]byte{}, s...), bad...)
				add("string-invalid-utf8", cat(enc[:f.keyEnd], putUvarint(uint64(len(ns))), ns, enc[f.valEnd:]))
			}
		}
	}
	for i := 0; i+1 < len(fs); i++ {
		a, b := fs[i], fs[i+1]
		add("swap-fields", cat(enc[:a.start], enc[b.start:b.end], enc[a.start:a.end], enc[b.end:]))
	}
	// trailing data
	add("trailing-byte", cat(enc, []byte{0x00}))
	add("trailing-byte", cat(enc, []byte{byte(r.Intn(256))}))
	add("trailing-field", cat(enc, []byte{0x40, 0x00}))       // field 8 varint
	add("trailing-field", cat(enc, []byte{0x42, 0x01, 0x00})) // field 8 bytes
	add("trailing-key-only", cat(enc, []byte{0x3a}))          // key of field 7 without length
	// truncation at every prefix
	for i := 0; i < len(enc); i++ {
		if len(enc) > 600 && i > 200 && i < len(enc)-200 && i%37 != 0 {
			continue
		}
		add("truncate", enc[:i])
	}
	// random byte substitutions (structure-unaware)
	for i := 0; i < 24 && len(enc) > 0; i++ {
		d := append([]byte{}, enc...)
		p := r.Intn(len(d))
		if i%2 == 0 && len(fs) > 0 { // aim at structural bytes
			f := fs[r.Intn(len(fs))]
			p = f.start + r.Intn(f.valStart-f.start+1)
			if p >= len(d) {
				p = len(d) - 1
			}
		}
		d[p] ^= byte(1 << uint(r.Intn(8)))
		add("bit-flip", d)
	}
	return out
}
