package main

import (
	"bytes"
	"fmt"
	"math"
	"math/rand"
	"reflect"
	"strings"
	"unsafe"

	"golang.org/x/text/unicode/norm"
)

// codecT is what every generated codec type offers.
type codecT interface {
	Encode() []byte
	Decode([]byte) error
	DecodeStrict([]byte) error
}

// ---------------------------------------------------------------------------------------
// boundary-biased primitive values

var u64Boundaries = func() []uint64 {
	out := []uint64{0, 1, 2, math.MaxUint32 - 1, math.MaxUint32, math.MaxUint32 + 1, math.MaxInt64, math.MaxInt64 + 1, math.MaxUint64 - 1, math.MaxUint64}
	for k := 1; k <= 9; k++ {
		out = append(out, uint64(1)<<(7*k)-1, uint64(1)<<(7*k), uint64(1)<<(7*k)+1)
	}
	return out
}()

func genU64(r *rand.Rand) uint64 {
	switch r.Intn(4) {
	case 0, 1:
		return u64Boundaries[r.Intn(len(u64Boundaries))]
	case 2:
		return uint64(r.Intn(300))
	}
	return r.Uint64() >> uint(r.Intn(64))
}

func genU32(r *rand.Rand) uint32 {
	switch r.Intn(4) {
	case 0:
		return []uint32{0, 1, 127, 128, 16383, 16384, 1<<21 - 1, 1 << 21, 1<<28 - 1, 1 << 28, math.MaxInt32, math.MaxInt32 + 1, math.MaxUint32 - 1, math.MaxUint32}[r.Intn(14)]
	case 1:
		return uint32(r.Intn(300))
	}
	return r.Uint32() >> uint(r.Intn(32))
}

func genI64(r *rand.Rand) int64 {
	switch r.Intn(3) {
	case 0:
		return []int64{0, 1, -1, 63, 64, -64, -65, 8191, 8192, -8192, -8193, math.MaxInt32, math.MinInt32, math.MaxInt32 + 1, math.MinInt32 - 1, math.MaxInt64, math.MinInt64, math.MaxInt64 - 1, math.MinInt64 + 1}[r.Intn(19)]
	case 1:
		return int64(r.Intn(300)) - 150
	}
	return int64(r.Uint64()) >> uint(r.Intn(64))
}

func genI32(r *rand.Rand) int32 {
	switch r.Intn(3) {
	case 0:
		return []int32{0, 1, -1, 63, 64, -64, -65, math.MaxInt32, math.MinInt32, math.MaxInt32 - 1, math.MinInt32 + 1}[r.Intn(11)]
	case 1:
		return int32(r.Intn(300)) - 150
	}
	return int32(r.Uint32()) >> uint(r.Intn(32))
}

var byteLens = []int{0, 0, 1, 2, 20, 32, 48, 64, 96, 127, 128, 129, 255, 256, 300}

func genBytes(r *rand.Rand) []byte {
	var n int
	switch r.Intn(40) {
	case 0:
		n = 16383 + r.Intn(3) // around the 2-byte/3-byte length varint boundary
	case 1:
		n = 1000 + r.Intn(2000)
	default:
		n = byteLens[r.Intn(len(byteLens))]
	}
	if n == 0 {
		if r.Intn(2) == 0 {
			return nil // absent
		}
		return []byte{} // empty
	}
	b := make([]byte, n)
	switch r.Intn(4) {
	case 0: // all zero
	case 1:
		for i := range b {
			b[i] = 0xff
		}
	default:
		r.Read(b)
	}
	return b
}

var stringPool = []string{
	"", "", "a", "token", "transfer", "Z9", "\x00", "a\x00b",
	"\u00e9",                 // e-acute precomposed (NFC)
	"e\u0301",                // e + combining acute (NFD)
	"\u1100\u1161",           // Hangul jamo L+V, composes to U+AC00
	"\uac00",                 // Hangul syllable
	"\u212b",                 // ANGSTROM SIGN: singleton, NFC is U+00C5
	"\u00c5",                 // A with ring
	"A\u030a",                // A + combining ring above
	"q\u0307\u0323",          // two combining marks in non-canonical order
	"q\u0323\u0307",          // canonical order
	"\ufb01",                 // ligature fi: unchanged by NFC
	"\u0958",                 // composition exclusion: NFC is the decomposed form
	"\u0915\u093c",           // its decomposition
	"\U0001f600",             // non-BMP
	"\u00df\u4e2d\u6587",     // sharp s + CJK
	"\u0301",                 // lone combining mark
	"\u1e9b\u0323",           // long s with dot above + dot below
	"\U00010041\u0300",       // LINEAR B SYLLABLE B038 + combining grave: no composition exists for it
	"\U001000dc\u0328\u0300", // private-use character + ogonek + grave: already NFC
	"z\U0001d15e",            // MUSICAL SYMBOL HALF NOTE: composition exclusion, NFC is decomposed (non-BMP decomposition)
	strings.Repeat("x", 127), strings.Repeat("y", 128), strings.Repeat("e\u0301", 100),
}

func genString(r *rand.Rand) string {
	switch r.Intn(5) {
	case 0:
		n := r.Intn(12)
		var sb strings.Builder
		for i := 0; i < n; i++ {
			switch r.Intn(4) {
			case 0:
				sb.WriteRune(rune('a' + r.Intn(26)))
			case 1:
				sb.WriteRune(rune(0x300 + r.Intn(0x70))) // combining diacritical marks
			case 2:
				sb.WriteRune(rune(0xc0 + r.Intn(0x180))) // latin-1 supplement / extended
			default:
				c := rune(r.Intn(0x10ffff))
				if c >= 0xd800 && c <= 0xdfff {
					c = 'x'
				}
				sb.WriteRune(c)
			}
		}
		return sb.String()
	case 1:
		return stringPool[r.Intn(len(stringPool))] + stringPool[r.Intn(len(stringPool))]
	}
	return stringPool[r.Intn(len(stringPool))]
}

func genLen(r *rand.Rand) int {
	switch r.Intn(30) {
	case 0:
		return 128 + r.Intn(3)
	case 1:
		return 20 + r.Intn(20)
	}
	return []int{0, 0, 1, 1, 2, 3, 5}[r.Intn(7)]
}

// ---------------------------------------------------------------------------------------
// reflection-driven value generator

type valGen struct {
	r         *rand.Rand
	nilNested bool // a nested struct pointer was left nil (outside the schema's value domain for strict decoding)
	noNil     bool // never leave nested pointers nil
}

// acc makes a (possibly unexported) addressable field settable.
func acc(f reflect.Value) reflect.Value {
	if f.CanSet() {
		return f
	}
	return reflect.NewAt(f.Type(), unsafe.Pointer(f.UnsafeAddr())).Elem()
}

func tagged(t reflect.Type, i int) bool {
	_, ok := t.Field(i).Tag.Lookup("fieldNumber")
	return ok
}

var byteSliceT = reflect.TypeOf([]byte(nil))

func isBytes(t reflect.Type) bool {
	return t.Kind() == reflect.Slice && t.Elem().Kind() == reflect.Uint8
}

// fill sets every codec field of the struct v (addressable) to a generated value.
func (g *valGen) fill(v reflect.Value, depth int) error {
	t := v.Type()
	for i := 0; i < t.NumField(); i++ {
		if !tagged(t, i) {
			continue
		}
		f := acc(v.Field(i))
		if err := g.set(f, depth, t.Name()+"."+t.Field(i).Name); err != nil {
			return err
		}
	}
	return nil
}

func (g *valGen) set(f reflect.Value, depth int, path string) error {
	r := g.r
	ft := f.Type()
	switch ft.Kind() {
	case reflect.Bool:
		f.SetBool(r.Intn(2) == 0)
	case reflect.Uint32:
		f.SetUint(uint64(genU32(r)))
	case reflect.Uint64:
		f.SetUint(genU64(r))
	case reflect.Int32:
		f.SetInt(int64(genI32(r)))
	case reflect.Int64:
		f.SetInt(genI64(r))
	case reflect.String:
		f.SetString(genString(r))
	case reflect.Ptr:
		if ft.Elem().Kind() != reflect.Struct {
			return fmt.Errorf("unsupported pointer field %s %s", path, ft)
		}
		if depth > 4 || (!g.noNil && r.Intn(12) == 0) {
			g.nilNested = true
			f.Set(reflect.Zero(ft))
			return nil
		}
		n := reflect.New(ft.Elem())
		if r.Intn(10) != 0 { // sometimes the all-zero struct
			if err := g.fill(n.Elem(), depth+1); err != nil {
				return err
			}
		} else if err := g.zeroNested(n.Elem(), depth+1); err != nil {
			return err
		}
		f.Set(n)
	case reflect.Slice:
		et := ft.Elem()
		switch {
		case et.Kind() == reflect.Uint8:
			b := genBytes(r)
			if b == nil {
				f.Set(reflect.Zero(ft))
			} else {
				f.Set(reflect.ValueOf(b).Convert(ft))
			}
		default:
			n := genLen(r)
			if depth > 2 && n > 2 {
				n = 2
			}
			if n == 0 && r.Intn(2) == 0 {
				f.Set(reflect.Zero(ft)) // nil list
				return nil
			}
			s := reflect.MakeSlice(ft, n, n)
			for j := 0; j < n; j++ {
				e := s.Index(j)
				switch {
				case isBytes(et):
					b := genBytes(r)
					if len(b) > 400 {
						b = b[:400]
					}
					if b == nil {
						b = []byte{}
					}
					e.Set(reflect.ValueOf(b).Convert(et))
				case et.Kind() == reflect.Ptr && et.Elem().Kind() == reflect.Struct:
					ne := reflect.New(et.Elem())
					if err := g.fill(ne.Elem(), depth+1); err != nil {
						return err
					}
					e.Set(ne)
				case et.Kind() == reflect.Uint64, et.Kind() == reflect.Uint32, et.Kind() == reflect.Int64, et.Kind() == reflect.Int32, et.Kind() == reflect.Bool, et.Kind() == reflect.String:
					if err := g.set(e, depth, path+"[]"); err != nil {
						return err
					}
				default:
					return fmt.Errorf("unsupported element type %s %s", path, ft)
				}
			}
			f.Set(s)
		}
	default:
		return fmt.Errorf("unsupported field %s %s", path, ft)
	}
	return nil
}

// zeroNested leaves all fields zero but allocates nested struct pointers, so that the value
// stays inside the schema's domain (every nested object present).
func (g *valGen) zeroNested(v reflect.Value, depth int) error {
	t := v.Type()
	for i := 0; i < t.NumField(); i++ {
		if !tagged(t, i) {
			continue
		}
		f := acc(v.Field(i))
		if f.Kind() == reflect.Ptr && f.Type().Elem().Kind() == reflect.Struct {
			if depth > 4 {
				g.nilNested = true
				continue
			}
			n := reflect.New(f.Type().Elem())
			if err := g.zeroNested(n.Elem(), depth+1); err != nil {
				return err
			}
			f.Set(n)
		}
	}
	return nil
}

// newValue creates a generated value of the same type as proto (a pointer to struct).
func newValue(proto interface{}, r *rand.Rand, noNil bool) (codecT, *valGen, error) {
	t := reflect.TypeOf(proto).Elem()
	v := reflect.New(t)
	g := &valGen{r: r, noNil: noNil}
	if err := g.fill(v.Elem(), 0); err != nil {
		return nil, g, err
	}
	c, ok := v.Interface().(codecT)
	if !ok {
		return nil, g, fmt.Errorf("%s does not implement Encode/Decode/DecodeStrict", t)
	}
	return c, g, nil
}

func newZero(proto interface{}) codecT {
	return reflect.New(reflect.TypeOf(proto).Elem()).Interface().(codecT)
}

// ---------------------------------------------------------------------------------------
// equality as promised by the statement: codec fields only, strings in NFC, absent == empty

func equalValues(a, b interface{}) string {
	return eqStruct(reflect.ValueOf(a).Elem(), reflect.ValueOf(b).Elem(), reflect.TypeOf(a).Elem().Name())
}

func eqStruct(a, b reflect.Value, path string) string {
	t := a.Type()
	for i := 0; i < t.NumField(); i++ {
		if !tagged(t, i) {
			continue
		}
		if d := eqVal(acc(a.Field(i)), acc(b.Field(i)), path+"."+t.Field(i).Name); d != "" {
			return d
		}
	}
	return ""
}

func eqVal(a, b reflect.Value, path string) string {
	switch a.Kind() {
	case reflect.Bool:
		if a.Bool() != b.Bool() {
			return path
		}
	case reflect.Uint32, reflect.Uint64:
		if a.Uint() != b.Uint() {
			return path
		}
	case reflect.Int32, reflect.Int64:
		if a.Int() != b.Int() {
			return path
		}
	case reflect.String:
		if !canonEq(a.String(), b.String()) {
			return path + "(string)"
		}
	case reflect.Ptr:
		// absent nested object == empty nested object
		av, bv := a, b
		if av.IsNil() {
			av = reflect.New(a.Type().Elem())
		}
		if bv.IsNil() {
			bv = reflect.New(b.Type().Elem())
		}
		return eqStruct(av.Elem(), bv.Elem(), path)
	case reflect.Slice:
		if a.Type().Elem().Kind() == reflect.Uint8 {
			if !bytes.Equal(a.Convert(byteSliceT).Bytes(), b.Convert(byteSliceT).Bytes()) {
				return path
			}
			return ""
		}
		if a.Len() != b.Len() {
			return path + "(len)"
		}
		for i := 0; i < a.Len(); i++ {
			ea, eb := a.Index(i), b.Index(i)
			if ea.Kind() == reflect.Ptr && (ea.IsNil() || eb.IsNil()) {
				if ea.IsNil() != eb.IsNil() {
					return fmt.Sprintf("%s[%d](nil)", path, i)
				}
				continue
			}
			if d := eqVal(ea, eb, fmt.Sprintf("%s[]", path)); d != "" {
				return d
			}
		}
	default:
		return path + "(unsupported kind)"
	}
	return ""
}

// canonEq decides canonical equivalence of two strings - which is what "equal when compared in
// NFC form" means - through their NFD forms, so that the verdict does not depend on the
// composition step of the normaliser that the code under test uses.
func canonEq(a, b string) bool { return a == b || norm.NFD.String(a) == norm.NFD.String(b) }

// nfcSuspect reports that the normaliser's NFC of s is not canonically equivalent to s, or is
// not itself accepted as normalised: the value cannot survive WriteString/readString.
func nfcSuspect(s string) bool {
	n := norm.NFC.String(s)
	return !canonEq(n, s) || !norm.NFC.IsNormalString(n)
}

// suspectString returns a string inside the value for which nfcSuspect holds ("" if none).
func suspectString(x interface{}) string {
	var found string
	var walk func(v reflect.Value, depth int)
	walk = func(v reflect.Value, depth int) {
		if found != "" || depth > 8 {
			return
		}
		switch v.Kind() {
		case reflect.String:
			if nfcSuspect(v.String()) {
				found = v.String()
			}
		case reflect.Ptr:
			if !v.IsNil() {
				walk(v.Elem(), depth+1)
			}
		case reflect.Struct:
			t := v.Type()
			for i := 0; i < t.NumField(); i++ {
				if tagged(t, i) {
					walk(acc(v.Field(i)), depth+1)
				}
			}
		case reflect.Slice:
			if v.Type().Elem().Kind() == reflect.Uint8 {
				return
			}
			for i := 0; i < v.Len(); i++ {
				walk(v.Index(i), depth+1)
			}
		}
	}
	walk(reflect.ValueOf(x), 0)
	return found
}

// shape is a coarse canonical description of a value (non-triviality key).
func shape(x interface{}) string {
	var sb strings.Builder
	shapeStruct(reflect.ValueOf(x).Elem(), &sb, 0)
	return sb.String()
}

func bucket(n int) string {
	switch {
	case n == 0:
		return "0"
	case n == 1:
		return "1"
	case n < 128:
		return "s"
	case n < 16384:
		return "m"
	}
	return "l"
}

func shapeStruct(v reflect.Value, sb *strings.Builder, depth int) {
	t := v.Type()
	for i := 0; i < t.NumField(); i++ {
		if !tagged(t, i) {
			continue
		}
		f := acc(v.Field(i))
		switch f.Kind() {
		case reflect.Bool:
			if f.Bool() {
				sb.WriteByte('T')
			} else {
				sb.WriteByte('F')
			}
		case reflect.Uint32, reflect.Uint64:
			u := f.Uint()
			n := 1
			for u >= 128 {
				u >>= 7
				n++
			}
			fmt.Fprintf(sb, "u%d", n)
		case reflect.Int32, reflect.Int64:
			if f.Int() < 0 {
				sb.WriteString("i-")
			} else {
				sb.WriteString("i+")
			}
		case reflect.String:
			s := f.String()
			if norm.NFC.IsNormalString(s) {
				sb.WriteString("S" + bucket(len(s)))
			} else {
				sb.WriteString("N" + bucket(len(s)))
			}
		case reflect.Ptr:
			if f.IsNil() {
				sb.WriteString("nil")
			} else if depth < 1 {
				sb.WriteByte('{')
				shapeStruct(f.Elem(), sb, depth+1)
				sb.WriteByte('}')
			} else {
				sb.WriteString("{}")
			}
		case reflect.Slice:
			if f.IsNil() {
				sb.WriteString("[nil]")
			} else {
				sb.WriteString("[" + bucket(f.Len()) + "]")
			}
		}
		sb.WriteByte(',')
	}
}
