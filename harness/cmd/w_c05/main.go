// Worker for C05: deleting the tip block restores the exact previous node state.
package main

import (
	"bytes"
	"context"
	"encoding/binary"
	"fmt"
	"sort"

	"github.com/LiskHQ/lisk-engine/pkg/blockchain"
	"github.com/LiskHQ/lisk-engine/pkg/db/diffdb"

	"verifharness/internal/mon"
	"verifharness/internal/node"
)

type snap struct {
	dump   []node.KV
	tipID  []byte
	app    string
	final  uint32
	height uint32
}

// canon rewrites the values of state-diff entries (prefix 51) into a canonical order: a
// diff is a set of added / updated / deleted entries which cacheDB.commit emits in map
// iteration order, so two correct nodes store different byte strings for the same diff.
func canon(d []node.KV) []node.KV {
	for i, kv := range d {
		if kv.K[0] != 51 {
			continue
		}
		df := &diffdb.Diff{}
		if err := df.Decode(kv.V); err != nil {
			continue
		}
		sort.Slice(df.Added, func(a, b int) bool { return bytes.Compare(df.Added[a], df.Added[b]) < 0 })
		sort.Slice(df.Updated, func(a, b int) bool { return bytes.Compare(df.Updated[a].Key, df.Updated[b].Key) < 0 })
		sort.Slice(df.Deleted, func(a, b int) bool { return bytes.Compare(df.Deleted[a].Key, df.Deleted[b].Key) < 0 })
		d[i].V = df.Encode()
	}
	return d
}

func take(n *node.Node) snap {
	s := snap{dump: canon(node.Dump(n.DB)), app: n.ABI.StateString(), final: n.Finalized()}
	if tip := n.Tip(); tip != nil {
		s.tipID = append([]byte{}, tip.Header.ID...)
		s.height = tip.Header.Height
	}
	return s
}

// allow-list of the property: the monotone finalized-height marker (prefix 27) may only
// grow; state diffs (51) and events (9) of heights below the *new* finalized height may be
// gone (pruned); temp blocks (7) are judged separately.
func allow(finalAfter uint32) func(key, before, after []byte, hb, ha bool) bool {
	return func(key, before, after []byte, hb, ha bool) bool {
		switch key[0] {
		case 27:
			return hb && ha && binary.BigEndian.Uint32(after) >= binary.BigEndian.Uint32(before)
		case 51, 9:
			// data of finalized heights (which can never be reverted) may be pruned
			if hb && !ha && len(key) == 5 {
				return binary.BigEndian.Uint32(key[1:]) <= finalAfter
			}
		case 7:
			return true
		}
		return false
	}
}

func tempKeys(d []node.KV) map[uint32][]byte {
	out := map[uint32][]byte{}
	for _, kv := range d {
		if kv.K[0] == 7 && len(kv.K) == 5 {
			out[binary.BigEndian.Uint32(kv.K[1:])] = kv.V
		}
	}
	return out
}

func checkCacheAgainstDB(n *node.Node, k *mon.Case, where string) {
	tip := n.Tip().Header
	for back := uint32(0); back < 6 && back <= tip.Height; back++ {
		h := tip.Height - back
		hdr, err := n.Chain.DataAccess().GetBlockHeaderByHeight(h)
		if err != nil {
			k.Violation("index:height-lookup-fails:"+where, fmt.Sprintf("height %d below the tip %d cannot be read", h, tip.Height), map[string]any{"height": h, "tip": tip.Height, "err": err.Error()})
			return
		}
		idKey := append([]byte{4}, make([]byte, 4)...)
		binary.BigEndian.PutUint32(idKey[1:], h)
		id, ok := n.DB.Get(idKey)
		if !ok || !bytes.Equal(id, hdr.ID) {
			k.Violation("index:cache-db-disagree:"+where, "cached header and height index disagree", map[string]any{"height": h})
			return
		}
	}
}

func main() {
	mon.Main(mon.Options{
		Property: "C05", Level: "exploration",
		Rule: "random histories on a real Chain+Executer with a twin node in lock-step; at random points: apply k blocks (txs, assets, events, validator-set changes creating/overwriting/deleting BFT parameter and generator-key entries, finality advances) then delete them one by one through Executer.deleteBlock (saveTemp both ways) comparing a byte-for-byte dump of the whole DB, the cached tip and the application state with the snapshot taken before each block; removal attempts that fail once in the application (scripted Revert error) must change nothing and the retry must restore; then re-apply from temp blocks or apply a sibling (the removed blocks must stay among the temp blocks) and compare with the twin that never saw the deleted blocks; non-trivial+distinct = (depth, block shape, saveTemp, finality-advanced) of an apply/delete pair that was actually compared",
		Assumptions: []string{
			"allow-list from the statement: finalized marker may only grow; state diffs / events below the new finalized height may be pruned; temp blocks judged separately",
			"application state is that of the scripted ABI (hash chain), reverted through labi.Revert",
		},
	}, func(c *mon.Ctx) {
		c.Cases("seq", c.N(2400, 40000), func(k *mon.Case) {
			r := k.R
			g := node.EqualGenesis(1 + r.Intn(5))
			if r.Intn(2) == 0 {
				g = node.RandomChange(r, 7, 6)
			}
			cfg := node.Config{Genesis: g, Universe: 7, BatchSize: 6, MaxBlockCache: 2 + r.Intn(12), KeepEventsForHeights: []int{-1, 0, 2, 300}[r.Intn(4)]}
			a, err := node.New(cfg)
			if err != nil {
				k.Inconclusive("node-init")
				return
			}
			defer a.Close()
			cfg.GenesisTimestamp = a.Cfg.GenesisTimestamp
			t, err := node.New(cfg)
			if err != nil {
				k.Inconclusive("node-init")
				return
			}
			defer t.Close()
			applyBoth := func(b *blockchain.Block) bool {
				if err := a.Apply(b); err != nil {
					k.Inconclusive("valid-block-rejected")
					return false
				}
				if err := t.Apply(node.CloneBlock(b)); err != nil {
					k.Violation("twin:same-block-rejected", "two nodes in the same state disagree on a block", map[string]any{"block": node.DescribeBlock(b), "err": err.Error()})
					return false
				}
				return true
			}
			pre := r.Intn(25)
			for i := 0; i < pre; i++ {
				b, _, err := a.RandomValid(r)
				if err != nil || !applyBoth(b) {
					return
				}
			}
			rounds := 1 + r.Intn(3)
			for round := 0; round < rounds; round++ {
				depth := 1 + r.Intn(4)
				saveTemp := r.Intn(2) == 0
				var snaps []snap
				var blocks []*blockchain.Block
				for i := 0; i < depth; i++ {
					snaps = append(snaps, take(a))
					b, _, err := a.RandomValid(r)
					if err != nil {
						k.Inconclusive("build")
						return
					}
					if err := a.Apply(b); err != nil {
						k.Inconclusive("valid-block-rejected")
						return
					}
					blocks = append(blocks, b)
				}
				afterApply := take(a)
				// delete back
				deleted := 0
				for i := depth - 1; i >= 0; i-- {
					finalNow := a.Finalized()
					b := blocks[i]
					if b.Header.Height > finalNow && r.Intn(6) == 0 {
						// a removal attempt that fails in the application (transient error) must leave
						// everything as it was, so that the retry below restores the previous state
						pre := take(a)
						a.ABI.FailAt = "Revert"
						ferr := a.DeleteTip(saveTemp)
						fired := a.ABI.FailAt == ""
						a.ABI.FailAt = ""
						if fired && ferr != nil {
							k.Count("delete_attempts_failed_in_application", 1)
							post := take(a)
							if d := node.Diff(pre.dump, post.dump, nil); len(d) > 0 || !bytes.Equal(pre.tipID, post.tipID) || pre.app != post.app {
								k.Violation("delete:failed-attempt-changed-state:prefix-"+func() string {
									if len(d) > 0 {
										return d[0].Key[:2]
									}
									return "none"
								}(), "a removal that failed in the application (Revert error) changed the node state; the block can no longer be removed cleanly", map[string]any{"db_diff": d, "height": b.Header.Height, "error": ferr.Error()})
							}
						} else if ferr == nil {
							k.Inconclusive("scripted-revert-failure-did-not-stop-the-removal")
							return
						}
					}
					err := a.DeleteTip(saveTemp)
					if b.Header.Height <= finalNow {
						if err == nil {
							k.Violation("delete:finalized-block-deleted", "deleteBlock removed a block at or below the finalized height", map[string]any{"height": b.Header.Height, "finalized": finalNow})
						}
						k.Count("delete_refused_finalized", 1)
						break
					}
					if err != nil {
						k.Violation("delete:refused-above-finalized", "deleteBlock failed for a tip above the finalized height: "+err.Error(), map[string]any{"height": b.Header.Height, "finalized": finalNow, "block": node.DescribeBlock(b)})
						return
					}
					deleted++
					k.Eval(1)
					now := take(a)
					want := snaps[i]
					if a.Tip() == nil {
						k.Violation("restore:cached-tip:nil-after-deleting-as-many-blocks-as-the-cache-holds", "Chain.LastBlock() is nil after consecutive deletes emptied the block cache (the previous block exists in the DB)", map[string]any{"maxBlockCache": a.Cfg.MaxBlockCache, "deleted_in_a_row": depth - i, "height_expected": want.height})
						return
					}
					shape := fmt.Sprintf("d%d/tx%v/as%v/ch%v/temp%v/fin%v", depth-i, len(b.Transactions) > 0, len(b.Assets) > 0, node.DirectiveFromAssets(b.Assets).Change != nil, saveTemp, now.final > want.final)
					k.Nontrivial(shape)
					k.Count("apply_delete_pairs", 1)
					wit := map[string]any{"block": node.DescribeBlock(b), "depth": depth - i, "saveTemp": saveTemp, "finalized_before": want.final, "finalized_after": now.final}
					if d := node.Diff(want.dump, now.dump, allow(now.final)); len(d) > 0 {
						wit["db_diff"] = d
						pfx := d[0].Key[:2]
						k.Violation("restore:db-differs:prefix-"+pfx, "DB after apply+delete differs from DB before apply (outside the allow-list)", wit)
					}
					if !bytes.Equal(now.tipID, want.tipID) {
						k.Violation("restore:cached-tip", "cached tip after delete is not the previous block", wit)
					}
					if now.app != want.app {
						k.Violation("restore:application-state", "application state after delete differs from the state before apply", wit)
					}
					// temp block
					tk := tempKeys(now.dump)
					got, has := tk[b.Header.Height]
					if saveTemp {
						if !has || !bytes.Equal(got, b.Encode()) {
							k.Violation("temp:missing-or-different", "removed block was not kept as temp block although requested", wit)
						}
					} else if has {
						if _, before := tempKeys(want.dump)[b.Header.Height]; !before {
							k.Violation("temp:unrequested", "temp block written although not requested", wit)
						}
					}
					checkCacheAgainstDB(a, k, "after-delete")
					if _, err := a.Chain.DataAccess().GetBlockHeader(b.Header.ID); err == nil {
						k.Violation("index:removed-block-still-served-by-id", "a removed block is still returned by GetBlockHeader(id)", wit)
					}
					if hd, err := a.Chain.DataAccess().GetBlockHeaderByHeight(b.Header.Height); err == nil && bytes.Equal(hd.ID, b.Header.ID) {
						k.Violation("index:removed-block-still-served-by-height", "a removed block is still returned by GetBlockHeaderByHeight", wit)
					}
					if blk, err := a.Chain.DataAccess().GetBlock(b.Header.ID); err == nil && blk != nil {
						k.Violation("index:removed-block-still-served-by-id", "a removed block is still returned by GetBlock(id)", wit)
					}
				}
				if deleted == 0 {
					// nothing was deleted (finality caught up): bring the twin level and continue
					for _, b := range blocks {
						if err := t.Apply(node.CloneBlock(b)); err != nil {
							k.Violation("twin:same-block-rejected", "two nodes in the same state disagree on a block", map[string]any{"err": err.Error()})
							return
						}
					}
					continue
				}
				kept := depth - deleted
				for i := 0; i < kept; i++ {
					if err := t.Apply(node.CloneBlock(blocks[i])); err != nil {
						k.Violation("twin:same-block-rejected", "two nodes in the same state disagree on a block", map[string]any{"err": err.Error()})
						return
					}
				}
				// now a == t logically. Either re-apply from temp blocks, or apply a sibling.
				if saveTemp && r.Intn(2) == 0 {
					tb, err := a.Chain.DataAccess().GetTempBlocks()
					if err != nil {
						k.Violation("temp:unreadable", "GetTempBlocks failed: "+err.Error(), nil)
						return
					}
					blockchain.SortBlockByHeightAsc(tb)
					okAll := true
					mine := map[string]bool{}
					for _, b := range blocks {
						mine[string(b.Header.ID)] = true
					}
					for _, b := range tb {
						// only the blocks removed in this round (older rounds may have left stale temp blocks)
						if b.Header.Height <= a.Tip().Header.Height || !mine[string(b.Header.ID)] {
							continue
						}
						if err := a.Exec.VerifProcessValidated(context.Background(), b, false, true); err != nil {
							k.Violation("temp:reapply-rejected", "re-applying a block from the temp store failed: "+err.Error(), map[string]any{"height": b.Header.Height})
							okAll = false
							break
						}
						if err := t.Apply(node.CloneBlock(b)); err != nil {
							okAll = false
							break
						}
					}
					if okAll {
						k.Count("reapplied_from_temp", 1)
						now := take(a)
						if d := node.Diff(afterApply.dump, now.dump, allow(now.final)); len(d) > 0 && a.Tip().Header.Height == afterApply.height {
							k.Violation("reapply:db-differs:prefix-"+d[0].Key[:2], "DB after delete + re-apply from temp blocks differs from the DB after the first apply", map[string]any{"db_diff": d})
						}
					}
				} else {
					sib, _, err := a.RandomValid(r)
					if err != nil {
						k.Inconclusive("sibling-build")
						return
					}
					if !applyBoth(sib) {
						return
					}
					k.Count("sibling_reorgs", 1)
					if saveTemp {
						// the removed blocks stay retrievable while a sibling takes their place (a sync
						// that fails later restores them from there)
						tb, err := a.Chain.DataAccess().GetTempBlocks()
						have := map[string]bool{}
						for _, b := range tb {
							have[string(b.Header.ID)] = true
						}
						for _, b := range blocks[kept:] {
							if err != nil || !have[string(b.Header.ID)] {
								k.Violation("temp:lost-when-sibling-applied", "a block removed with saveTemp is no longer among the temp blocks after a sibling was applied at its height", map[string]any{"height": b.Header.Height, "sibling_height": sib.Header.Height})
								break
							}
						}
					}
				}
				// twin comparison (temp keys ignored, finalized marker >=, pruned below finalized)
				da, dt := take(a), take(t)
				k.Eval(1)
				fin := da.final
				if dt.final > fin {
					fin = dt.final
				}
				sym := func(key, before, after []byte, hb, ha bool) bool {
					switch key[0] {
					case 7:
						return true
					case 27:
						return hb && ha
					case 51, 9:
						if hb != ha && len(key) == 5 {
							return binary.BigEndian.Uint32(key[1:]) <= fin
						}
					}
					return false
				}
				if d := node.Diff(dt.dump, da.dump, sym); len(d) > 0 {
					k.Violation("twin:db-differs:prefix-"+d[0].Key[:2], "node that applied+deleted blocks and then moved on differs from the twin that never saw them", map[string]any{"db_diff": d, "depth": depth, "deleted": deleted})
				}
				if !bytes.Equal(da.tipID, dt.tipID) || da.app != dt.app {
					k.Violation("twin:tip-or-application-differs", "reorged node and twin disagree on tip or application state", nil)
				}
				// sometimes leave stale temp blocks behind (a sync that failed half-way does): a
				// later removal with saveTemp must still store the block it removes
				if r.Intn(2) == 0 {
					a.Chain.DataAccess().ClearTempBlocks()
				}
			}
			k.Sample(map[string]any{"validators": len(g.Members), "prefix_blocks": pre, "rounds": rounds, "tip": a.Tip().Header.Height, "finalized": a.Finalized()})
		})
	})
}
