// Worker for property C01: finality safety - no two conflicting blocks are ever both
// finalized.
//
// A simulated validator network (verifharness/internal/lip14sim) grows a fork tree of block
// headers.  The BFT state of every tree node is computed by the real liskbft code
// (Module.BeforeTransactionsExecute, API.SetBFTParameters, API.IsHeaderContradictingChain,
// API.GetBFTHeights) on a copy of the parent's committed state in a real diffdb over an
// in-memory pebble DB.  Honest validators follow the LIP-0014 fork choice over the blocks
// delivered to them under adversarial / random delivery (partitions, migration, late healing)
// and report maxHeightGenerated = largest height they generated; Byzantine validators (weight
// strictly below one third) double-forge on several tips, lie about maxHeightGenerated and jump
// chains.  Every block carries the maxHeightPrevoted its parent state dictates and is admitted
// to the tree only if the real IsHeaderContradictingChain accepts it, as verifyBlock would.
//
// Hypothesis (checked on every scenario, not assumed): Byzantine weight < W/3 in every
// parameter set, and every pair of headers signed by a non-Byzantine validator is
// non-contradicting per the private LIP-0014 oracle (both of its forms).  Scenarios failing it
// are discarded and counted.
//
// Oracle: for all tree nodes a, b and all h <= min(precommitted(a), precommitted(b)):
// ancestor(a,h) == ancestor(b,h)  (equivalently: the finalized tips of all views lie on one
// chain).
//
// Judged families: (1) precommit threshold >= floor(2W/3)+1 with Byzantine weight < W/3;
// (2) precommit threshold lowered towards floor(W/3)+1 with zero Byzantine weight.  Validator
// changes are judged only when installed on the common trunk below every fork.  Two further
// families (lowered threshold WITH Byzantine weight; validator change above a fork point) are
// run and counted but not judged: the protocol does not promise safety there.
// Two further judged families (lip14sim.FamPrivate, lip14sim.FamRaised; the soundness argument
// is next to their definition): a Byzantine-only private branch that lowers the precommit
// threshold for itself, and a low initial threshold raised on the trunk before the first fork,
// followed by >= 3 rounds of certified blocks so that the superseded parameters are pruned.
// Blocks carry aggregate commits (heights in (certified, precommitted] of the parent state).
package main

import (
	"fmt"

	"verifharness/internal/lip14sim"
	"verifharness/internal/mon"
)

func bucket(n int) int {
	switch {
	case n == 0:
		return 0
	case n <= 2:
		return n
	case n <= 5:
		return 3
	case n <= 12:
		return 4
	}
	return 5
}

func runScenario(k *mon.Case, o lip14sim.Options) {
	res := lip14sim.Run(k.R, o)
	for name, n := range res.Counters {
		k.Count(name, n)
	}
	k.Count("scenarios:"+res.Template, 1)
	k.Count("family:"+res.Family, 1)
	k.Count("tree_nodes", len(res.Nodes))
	if res.Err != nil {
		k.Inconclusive("simulation error: " + res.Err.Error())
		return
	}
	if res.Hypothesis != "" {
		k.Count("hypothesis_failed_discarded", 1)
		k.Sample(map[string]any{"discarded": res.Hypothesis, "scenario": res.Describe()})
		return
	}
	k.Count("forks_total", res.Forks)
	if res.Forks > 0 {
		k.Count("scenarios_with_forks", 1)
	}
	if res.BothBranchesProgress {
		k.Count("scenarios_two_branches_finalized_beyond_fork_point_state", 1)
	}
	if res.ConflictingPrevoted {
		k.Count("scenarios_conflicting_blocks_both_prevoted", 1)
	}
	if res.BranchBeyondWindow {
		k.Count("scenarios_two_branches_longer_than_window", 1)
	}
	nByz := 0
	for _, v := range res.Initial.Vals {
		if v.Byz {
			nByz++
		}
	}
	if nByz > 0 {
		k.Count("scenarios_with_byzantine_validators", 1)
	}
	maxPC := res.Genesis
	for _, n := range res.Nodes {
		if n.PC > maxPC {
			maxPC = n.PC
		}
	}
	if maxPC > res.Genesis {
		k.Count("scenarios_with_finality_progress", 1)
	}
	if c := res.Conflict; c != nil {
		w := map[string]any{
			"scenario":     res.Describe(),
			"conflict":     c,
			"explanation":  fmt.Sprintf("view of node %d finalized height %d, view of node %d finalized height %d; at height %d they contain different blocks (%d vs %d)", c.A, c.FinalizedA, c.B, c.FinalizedB, c.Height, c.BlockA, c.BlockB),
			"branchA":      res.Branch(c.A),
			"branchB":      res.Branch(c.B),
			"schedulerLog": res.Log,
		}
		if res.Judged {
			k.Violation("safety:conflicting-blocks-finalized:"+res.Family, "two chain views report different blocks as finalized at the same height although the hypothesis of C01 holds", w)
		} else {
			k.Count("unjudged_conflict:"+res.Family, 1)
		}
	}
	k.Nontrivial(fmt.Sprintf("%s/%s/n%d/byz%d/forks%d/both%v/cpv%v/long%v/fin%v", res.Template, res.Family, len(res.Initial.Vals), nByz, bucket(res.Forks), res.BothBranchesProgress, res.ConflictingPrevoted, res.BranchBeyondWindow, maxPC > res.Genesis))
	k.Sample(map[string]any{"scenario": res.Describe(), "bothBranchesProgress": res.BothBranchesProgress, "counters": res.Counters})
}

func main() {
	mon.Main(mon.Options{
		Property: "C01",
		Level:    "exploration",
		Rule: "each case is one simulated network scenario (template x family x validators/weights/Byzantine set x adversarial schedule, all drawn from the case rng) growing a fork tree whose per-node BFT state is computed by the real liskbft code; " +
			"a case is non-trivial when its hypothesis holds; distinct by (template, family, #validators, #Byzantine, fork-count bucket, two branches made finality progress, conflicting blocks both prevoted, branches longer than the window, any finality progress)",
		Assumptions: []string{
			"honest validators: LIP-0014 fork choice on (header.maxHeightPrevoted, height), strict improvement only; maxHeightGenerated = largest height generated so far",
			"blocks enter the tree only if header.maxHeightPrevoted equals the parent state's value and the real API.IsHeaderContradictingChain accepts them (what verifyBlock enforces); slots/timestamps are not modelled (any validator may extend any tip at any time)",
			"judged: precommit threshold >= floor(2W/3)+1 with Byzantine weight < W/3, or lowered precommit threshold with zero Byzantine weight; validator changes only on the common trunk",
			"judged: lowered threshold on a Byzantine-only private branch never shown to honest validators; low initial threshold raised to floor(2W/3)+1 by a trunk block when no fork exists at or below that block",
			"not judged (counted): lowered precommit threshold with Byzantine validators; validator change above a fork point",
		},
	}, func(c *mon.Ctx) {
		thorough := !c.Quick()
		c.Cases("mixed", c.N(5000, 40000), func(k *mon.Case) { runScenario(k, lip14sim.Options{Thorough: thorough}) })
		for _, t := range []string{"split", "lone-finisher", "vote-and-leave", "long-split", "random"} {
			t := t
			c.Cases("template/"+t, c.N(1200, 8000), func(k *mon.Case) { runScenario(k, lip14sim.Options{Thorough: thorough, Template: t}) })
		}
		// BFT parameters that differ between branches at one height (one liskbft.Module serves all views)
		c.Cases("private-branch", c.N(1500, 10000), func(k *mon.Case) {
			runScenario(k, lip14sim.Options{Thorough: thorough, Family: lip14sim.FamPrivate})
		})
		// superseded (unsafe) parameters must stay superseded once pruned: long certified trunk, then forks
		c.Cases("raised-threshold", c.N(1500, 10000), func(k *mon.Case) {
			runScenario(k, lip14sim.Options{Thorough: thorough, Family: lip14sim.FamRaised})
		})
		c.Cases("low-threshold", c.N(1200, 8000), func(k *mon.Case) {
			runScenario(k, lip14sim.Options{Thorough: thorough, Family: "low-precommit-threshold-no-byz"})
		})
		c.Cases("low-threshold/vote-and-leave", c.N(2400, 12000), func(k *mon.Case) {
			runScenario(k, lip14sim.Options{Thorough: thorough, Family: "low-precommit-threshold-no-byz", Template: "vote-and-leave"})
		})
	})
}
