// Worker for property C07: header contradiction and fork-choice classification follow
// LIP-0014.  Reference model: verifharness/internal/lip14 (written from the statement).
package main

import (
	"context"
	"fmt"
	"math/rand"
	"time"

	"github.com/LiskHQ/lisk-engine/pkg/blockchain"
	"github.com/LiskHQ/lisk-engine/pkg/consensus/contradiction"
	"github.com/LiskHQ/lisk-engine/pkg/consensus/forkchoice"
	"github.com/LiskHQ/lisk-engine/pkg/consensus/liskbft"
	"github.com/LiskHQ/lisk-engine/pkg/consensus/validator"
	"github.com/LiskHQ/lisk-engine/pkg/crypto"
	"github.com/LiskHQ/lisk-engine/pkg/db"
	"github.com/LiskHQ/lisk-engine/pkg/db/diffdb"

	"verifharness/internal/lip14"
	"verifharness/internal/mon"
)

// ph is a partial header handed to AreDistinctHeadersContradicting.
type ph struct {
	h, g, p uint32
	gen     []byte
}

func (x *ph) Height() uint32             { return x.h }
func (x *ph) GeneratorAddress() []byte   { return x.gen }
func (x *ph) MaxHeightGenerated() uint32 { return x.g }
func (x *ph) MaxHeightPrevoted() uint32  { return x.p }

func (x *ph) spec() lip14.H {
	return lip14.H{Height: x.h, MaxHeightGenerated: x.g, MaxHeightPrevoted: x.p, Generator: string(x.gen)}
}
func (x *ph) js() map[string]any {
	return map[string]any{"height": x.h, "maxHeightGenerated": x.g, "maxHeightPrevoted": x.p, "generator": fmt.Sprintf("%x", x.gen[:4])}
}

var genA, genB = addr(100), addr(101)

// full builds a real, sealed block header with the given BFT fields; salt makes the ID distinct.
func full(x *ph, salt uint32) *blockchain.BlockHeader {
	h := &blockchain.BlockHeader{
		Version: 2, Timestamp: salt, Height: x.h, PreviousBlockID: zeros(32), GeneratorAddress: x.gen,
		TransactionRoot: zeros(32), AssetRoot: zeros(32), EventRoot: zeros(32), StateRoot: zeros(32),
		MaxHeightPrevoted: x.p, MaxHeightGenerated: x.g, ValidatorsHash: zeros(32),
		AggregateCommit: &blockchain.AggregateCommit{}, Signature: zeros(64),
	}
	h.Init()
	return h
}

// oracleSelfTest checks the reference model against facts stated in LIP-0014 itself,
// independent of the code under test.
func oracleSelfTest() error {
	g := "g"
	H := func(h, mg, mp uint32) lip14.H {
		return lip14.H{Height: h, MaxHeightGenerated: mg, MaxHeightPrevoted: mp, Generator: g}
	}
	type tc struct {
		a, b lip14.H
		want bool
		name string
	}
	tcs := []tc{
		{H(10, 5, 3), H(10, 5, 3), true, "double forging: same height, same prevoted"},
		{H(10, 5, 3), H(11, 10, 3), false, "next block on same chain, reports previous"},
		{H(10, 5, 3), H(11, 9, 3), true, "does not report height 10 it generated"},
		{H(10, 5, 3), H(20, 10, 2), true, "later block on chain with lower maxHeightPrevoted"},
		{H(10, 5, 3), H(8, 10, 4), false, "switch to shorter chain with higher maxHeightPrevoted is allowed"},
		{H(10, 5, 3), H(8, 10, 3), true, "switch to shorter chain without higher maxHeightPrevoted"},
		{H(10, 5, 3), H(12, 10, 5), false, "longer chain, higher prevoted"},
		{H(10, 12, 3), H(13, 10, 4), true, "largest height generated so far decreased (12 then 10) and the other order does not report height 13"},
		{H(10, 12, 4), H(13, 12, 4), false, "a generated at 12 on another fork, moved to a better chain at height 10, later generates at 13"},
	}
	for _, t := range tcs {
		if lip14.Contradicting(t.a, t.b) != t.want || lip14.Contradicting(t.b, t.a) != t.want {
			return fmt.Errorf("reference model fails LIP-0014 fact %q", t.name)
		}
	}
	o := lip14.H{Height: 10, MaxHeightGenerated: 5, MaxHeightPrevoted: 3, Generator: "other"}
	if lip14.Contradicting(H(10, 5, 3), o) {
		return fmt.Errorf("reference model: different generators must never contradict")
	}
	// fork choice facts
	tip := lip14.B{ID: "T", Prev: "P", Generator: "g1", Height: 10, MaxHeightPrevoted: 5, Slot: 50}
	fc := []struct {
		inc      lip14.B
		tin, iin bool
		want     lip14.Class
	}{
		{lip14.B{ID: "T", Prev: "P", Generator: "g1", Height: 10, MaxHeightPrevoted: 5, Slot: 50}, true, true, lip14.Identical},
		{lip14.B{ID: "X", Prev: "T", Generator: "g2", Height: 11, MaxHeightPrevoted: 5, Slot: 51}, true, true, lip14.Extends},
		{lip14.B{ID: "X", Prev: "P", Generator: "g1", Height: 10, MaxHeightPrevoted: 5, Slot: 51}, false, true, lip14.DoubleForging},
		{lip14.B{ID: "X", Prev: "P", Generator: "g2", Height: 10, MaxHeightPrevoted: 5, Slot: 51}, false, true, lip14.TieBreak},
		{lip14.B{ID: "X", Prev: "P", Generator: "g2", Height: 10, MaxHeightPrevoted: 5, Slot: 51}, true, true, lip14.Discard},
		{lip14.B{ID: "X", Prev: "P", Generator: "g2", Height: 10, MaxHeightPrevoted: 5, Slot: 49}, false, true, lip14.Discard},
		{lip14.B{ID: "X", Prev: "Q", Generator: "g2", Height: 9, MaxHeightPrevoted: 6, Slot: 51}, true, true, lip14.BetterChain},
		{lip14.B{ID: "X", Prev: "Q", Generator: "g2", Height: 12, MaxHeightPrevoted: 5, Slot: 51}, true, true, lip14.BetterChain},
		{lip14.B{ID: "X", Prev: "Q", Generator: "g2", Height: 12, MaxHeightPrevoted: 4, Slot: 51}, true, true, lip14.Discard},
		{lip14.B{ID: "X", Prev: "Q", Generator: "g2", Height: 10, MaxHeightPrevoted: 5, Slot: 51}, false, true, lip14.Discard},
	}
	for i, t := range fc {
		if got := lip14.Classify(tip, t.inc, t.tin, t.iin); got != t.want {
			return fmt.Errorf("reference model fork-choice fact %d: got %s want %s", i, got, t.want)
		}
	}
	return nil
}

var api = func() *liskbft.API {
	m := liskbft.NewModule()
	m.Init(10)
	return m.API()
}()

// checkPair runs every contradiction monitor on one ordered pair.
func checkPair(k *mon.Case, a, b *ph, withAPI bool) {
	k.Eval(1)
	sa, sb := a.spec(), b.spec()
	want := lip14.Contradicting(sa, sb)
	why := lip14.Why(sa, sb)
	i1 := contradiction.AreDistinctHeadersContradicting(a, b)
	i2 := contradiction.AreDistinctHeadersContradicting(b, a)
	k.Nontrivial(fmt.Sprintf("%s/%v", why, want))
	if want {
		k.Count("pairs_contradicting", 1)
	} else {
		k.Count("pairs_not_contradicting", 1)
	}
	wit := func() map[string]any {
		return map[string]any{"a": a.js(), "b": b.js(), "impl(a,b)": i1, "impl(b,a)": i2, "spec": want, "region": why}
	}
	if i1 != i2 {
		k.Violation("contradiction:asymmetric:"+why, "AreDistinctHeadersContradicting(a,b) != AreDistinctHeadersContradicting(b,a)", wit())
	}
	if i1 != want {
		k.Violation(fmt.Sprintf("contradiction:impl=%v,spec=%v:%s", i1, want, why), "AreDistinctHeadersContradicting disagrees with the LIP-0014 relation (neither header is a legitimate successor of the other)", wit())
	}
	if !withAPI {
		return
	}
	fa, fb := full(a, 1), full(b, 2)
	r, err := api.AreHeadersContradicting(fa.Readonly(), fb.Readonly())
	if err != nil {
		k.Violation("api-contradicting:error", "API.AreHeadersContradicting returned an error", map[string]any{"err": err.Error()})
	} else if r != want {
		w := wit()
		w["api"] = r
		k.Violation(fmt.Sprintf("api-contradicting:impl=%v,spec=%v:%s", r, want, why), "API.AreHeadersContradicting on two sealed headers with distinct IDs disagrees with the LIP-0014 relation", w)
	}
	k.Count("api_pairs", 1)
	// the same header (equal ID) never contradicts itself
	fa2 := full(a, 1)
	r, _ = api.AreHeadersContradicting(fa.Readonly(), fa2.Readonly())
	if r {
		k.Violation("api-contradicting:equal-id-flagged", "API.AreHeadersContradicting is true for two copies of the same header (equal ID)", wit())
	}
	k.Count("api_equal_id", 1)
}

var u32Boundaries = []uint32{0, 1, 2, 3, 1<<31 - 1, 1 << 31, 1<<31 + 1, 1<<32 - 2, 1<<32 - 1}

func randU32(r *rand.Rand) uint32 {
	switch r.Intn(4) {
	case 0:
		return u32Boundaries[r.Intn(len(u32Boundaries))]
	case 1:
		return uint32(r.Intn(8))
	default:
		return r.Uint32()
	}
}

// near returns v-1, v or v+1 (wrapping is fine: any uint32 is a legal field value).
func near(r *rand.Rand, v uint32) uint32 { return v + uint32(r.Intn(3)) - 1 }

func main() {
	mon.Main(mon.Options{
		Property: "C07", Level: "exploration",
		Rule: "pairs: every ordered pair of (height,maxHeightGenerated,maxHeightPrevoted) in [0,R]^3 x same/different generator (R=6 quick, 11 thorough; exhaustive) plus random uint32 pairs with boundary values and field ties, key = region of the LIP-0014 relation; " +
			"chain: BFT vote state built through liskbft.Module for simulated chains with honest and faulty generators, every generator probed at every step, key = (position of the generator's last header relative to the 3*batchSize window, region, flagged); " +
			"forkchoice/process: tip x incoming x receive-time enumeration, key = (LIP-0014 class, predicate vector); priority: (maxHeightPrevoted,height) pairs incl. ties, key = order relation; " +
			"recorded: the tip becomes the tip through Executer.process itself (from a peer / as the node's own block) after its slot, then a sibling from the current slot must win the tie-break (the node must hold the receive time of the current tip, not a stale one), key = (path, stale value)",
		Assumptions: []string{
			"fork choice reads time.Now(): block time is 10^4 s, the genesis timestamp is chosen so that the current real time is mid-slot; a case closer than 60 s to a slot edge is skipped and counted as inconclusive",
			"Executer.process is observed through its log lines (one per branch) and lastBlockReceived; incoming blocks carry an empty signature so that no branch mutates the chain",
			"for a version-0 (genesis) tip HeaderHasPriority/Synced use a special rule that the statement does not cover: counted, not judged",
			"IsHeaderContradictingChain compares with the generator's most recent header inside the window (LIP-0058); a contradiction with an older in-window header only is counted, not judged, unless every chain header has maxHeightGenerated < height and the probe is above the tip (then it is implied)",
		},
		Exhaustive: true,
	}, func(c *mon.Ctx) {
		if err := oracleSelfTest(); err != nil {
			c.Cases("oracle-selftest", 1, func(k *mon.Case) { k.Inconclusive("oracle-selftest-failed: " + err.Error()) })
			return
		}
		pairsExhaustive(c)
		pairsRandom(c)
		chainWindow(c)
		forkChoiceEnum(c)
		priority(c)
		executerOrder(c)
		recordedReceiveTime(c)
	})
}

// ---------------------------------------------------------------------------------------

func pairsExhaustive(c *mon.Ctx) {
	R := uint32(c.N(6, 11))
	n := int((R + 1) * (R + 1) * (R + 1))
	dec := func(i int) (uint32, uint32, uint32) {
		m := int(R + 1)
		return uint32(i % m), uint32(i / m % m), uint32(i / m / m)
	}
	c.Cases("pairs-exhaustive", n, func(k *mon.Case) {
		h, g, p := dec(k.Index)
		a := &ph{h, g, p, genA}
		for j := 0; j < n; j++ {
			h2, g2, p2 := dec(j)
			for _, gen := range [][]byte{genA, genB} {
				b := &ph{h2, g2, p2, gen}
				checkPair(k, a, b, true)
			}
		}
		if k.Index == 0 {
			k.Sample(map[string]any{"first": a.js(), "range": R, "pairs_per_case": 2 * n})
		}
	})
}

func pairsRandom(c *mon.Ctx) {
	c.Cases("pairs-random", c.N(8000, 50000), func(k *mon.Case) {
		r := k.R
		for i := 0; i < 1000; i++ {
			a := &ph{randU32(r), randU32(r), randU32(r), genA}
			b := &ph{randU32(r), randU32(r), randU32(r), genA}
			// ties and near-ties between the fields the relation compares
			switch r.Intn(6) {
			case 0:
				b.p = a.p
			case 1:
				b.p = a.p
				b.h = near(r, a.h)
			case 2:
				b.g = near(r, a.h)
			case 3:
				b.g = a.g
				b.p = near(r, a.p)
			case 4:
				b.g, b.p = a.g, a.p
				b.h = near(r, a.h)
			}
			if r.Intn(3) == 0 {
				b.g = near(r, a.h)
			}
			if r.Intn(3) == 0 {
				a.g = near(r, b.h)
			}
			if r.Intn(8) == 0 {
				b.gen = genB
			}
			checkPair(k, a, b, i%8 == 0)
			if i == 0 {
				k.Sample(map[string]any{"a": a.js(), "b": b.js(), "region": lip14.Why(a.spec(), b.spec())})
			}
		}
	})
}

// ---------------------------------------------------------------------------------------
// chain-window: BFT state built by the module itself; every generator probed at every step.

type simGen struct {
	addr   []byte
	honest bool
	maxGen uint32 // largest height generated so far (on or off this chain)
}

func chainWindow(c *mon.Ctx) {
	c.Cases("chain-window", c.N(24000, 150000), func(k *mon.Case) {
		r := k.R
		batch := 1 + r.Intn(5)
		window := 3 * batch
		nVal := 1 + r.Intn(batch)
		nGen := nVal + r.Intn(3) // generators outside the BFT validator set are allowed (weight 0)
		length := window + 2 + r.Intn(2*window+4)
		database, err := db.NewInMemoryDB()
		if err != nil {
			k.Inconclusive("db")
			return
		}
		defer database.Close()
		store := diffdb.New(database, blockchain.DBPrefixToBytes(blockchain.DBPrefixState))
		mod := liskbft.NewModule()
		mod.Init(batch)
		g0 := uint32(r.Intn(4))
		gh := &blockchain.BlockHeader{Version: 0, Height: g0, AggregateCommit: &blockchain.AggregateCommit{}}
		if err := mod.InitGenesisState(gh.Readonly(), store); err != nil {
			k.Violation("chain:init-genesis-error", "InitGenesisState failed", err.Error())
			return
		}
		gens := make([]*simGen, nGen)
		vals := liskbft.BFTValidators{}
		for i := range gens {
			gens[i] = &simGen{addr: addr(i), honest: r.Intn(3) != 0}
			if i < nVal {
				vals = append(vals, liskbft.NewValidator(addr(i), 1, append(crypto.Hash(addr(i)), zeros(16)...)))
			}
		}
		thr := uint64(nVal)*2/3 + 1
		if err := mod.API().SetBFTParameters(store, thr, thr, vals); err != nil {
			k.Violation("chain:set-params-error", "SetBFTParameters failed", err.Error())
			return
		}
		k.Sample(map[string]any{"batchSize": batch, "validators": nVal, "generators": nGen, "length": length, "genesisHeight": g0})

		var chain []lip14.H // appended headers, oldest first
		plausible := true   // every appended header has maxHeightGenerated < height
		tip := g0
		flagged := func(x *ph) (bool, bool) {
			f, err := mod.API().IsHeaderContradictingChain(store, full(x, 7).Readonly())
			if err != nil {
				k.Violation("chain:is-contradicting-error", "IsHeaderContradictingChain returned an error on a well-formed store", err.Error())
				return false, false
			}
			return f, true
		}
		// judge compares one answer of IsHeaderContradictingChain with the reference.
		judge := func(x *ph, f bool, honest bool, kind string) {
			k.Eval(1)
			xs := x.spec()
			// most recent header of the generator: inside the window / anywhere
			var inWin, anyw *lip14.H
			depth := -1
			olderInWinContra := false
			anyContra := false
			for d := 0; d < len(chain); d++ {
				hd := chain[len(chain)-1-d]
				if hd.Generator != xs.Generator {
					continue
				}
				if anyw == nil {
					anyw = &hd
					depth = d
				}
				if d < window && inWin == nil {
					inWin = &chain[len(chain)-1-d]
				} else if d < window && lip14.Contradicting(hd, xs) {
					olderInWinContra = true
				}
				if lip14.Contradicting(hd, xs) {
					anyContra = true
				}
			}
			pos := "never-generated"
			switch {
			case depth < 0:
			case depth == window-1:
				pos = "oldest-in-window"
			case depth < window:
				pos = "in-window"
			case depth == window:
				pos = "just-outside-window"
			default:
				pos = "outside-window"
			}
			must := inWin != nil && lip14.Contradicting(*inWin, xs)
			region := "-"
			if inWin != nil {
				region = lip14.Why(*inWin, xs)
			} else if anyw != nil {
				region = "out:" + lip14.Why(*anyw, xs)
			}
			k.Nontrivial(fmt.Sprintf("%s/%s/%s/%v", kind, pos, region, f))
			k.Count(fmt.Sprintf("chain_probe_%s_flagged=%v", pos, f), 1)
			wit := func() map[string]any {
				w := map[string]any{"header": x.js(), "window": window, "depth_of_generators_last_header": depth, "chain_len": len(chain), "kind": kind}
				w["flagged"] = f
				if inWin != nil {
					w["last_in_window"] = *inWin
				}
				tail := chain
				if len(tail) > window+2 {
					tail = tail[len(tail)-window-2:]
				}
				ts := []string{}
				for _, h := range tail {
					ts = append(ts, fmt.Sprintf("h=%d g=%d p=%d by %x", h.Height, h.MaxHeightGenerated, h.MaxHeightPrevoted, h.Generator[:2]))
				}
				w["chain_tail"] = ts
				return w
			}
			if must && !f {
				k.Violation("chain:contradicting-in-window-not-flagged:"+pos, "header contradicts its generator's most recent header inside the 3-round window but IsHeaderContradictingChain is false", wit())
			}
			if honest && f {
				k.Violation("chain:protocol-following-generator-flagged:"+pos, "header of a generator that follows the protocol is flagged by IsHeaderContradictingChain", wit())
			}
			if f && !anyContra {
				k.Violation("chain:flagged-without-contradiction:"+pos, "IsHeaderContradictingChain is true although the header contradicts none of its generator's headers in the whole chain", wit())
			}
			if f && !must && anyContra {
				k.Count("chain_flagged_by_header_not_most_recent_in_window(not judged)", 1)
			}
			if !f && !must && olderInWinContra {
				if plausible && x.h > tip {
					k.Violation("chain:older-in-window-contradiction-not-flagged", "header above the tip contradicts an older in-window header of its generator on a chain whose headers all have maxHeightGenerated<height, yet is not flagged", wit())
				} else {
					k.Count("chain_contradicts_only_older_in_window_header(not judged)", 1)
				}
			}
		}

		for step := 0; step < length; step++ {
			_, _, _, err := mod.API().GetBFTHeights(store)
			if err != nil {
				k.Violation("chain:get-heights-error", "GetBFTHeights failed", err.Error())
				return
			}
			mhp, _, _, _ := mod.API().GetBFTHeights(store)
			// --- the generator of the next block
			var x *ph
			var g *simGen
			for attempt := 0; attempt < 6; attempt++ {
				g = gens[r.Intn(len(gens))]
				if r.Intn(4) == 0 {
					g = gens[0] // a frequent generator, so that others age towards the window edge
				}
				if g.honest {
					if r.Intn(6) == 0 {
						// generated a block on another fork in the meantime (and came back by fork choice)
						off := tip + uint32(r.Intn(6))
						if off > 2 {
							off -= 2
						}
						if off > g.maxGen {
							g.maxGen = off
						}
					}
					x = &ph{tip + 1, g.maxGen, mhp, g.addr}
				} else {
					mg := uint32(0)
					switch r.Intn(4) {
					case 0:
						mg = g.maxGen
					case 1:
						mg = uint32(r.Intn(int(tip) + 3))
					case 2:
						mg = near(r, g.maxGen)
					case 3:
						mg = tip + 1 + uint32(r.Intn(3)) // implies no votes
					}
					x = &ph{tip + 1, mg, mhp, g.addr}
				}
				f, ok := flagged(x)
				if !ok {
					return
				}
				judge(x, f, g.honest, "candidate")
				if !f {
					break
				}
				k.Count("chain_candidate_rejected", 1)
				x = nil
			}
			// --- probes by every generator (not appended)
			for _, pg := range gens {
				var last *lip14.H
				for d := len(chain) - 1; d >= 0; d-- {
					if chain[d].Generator == string(pg.addr) {
						last = &chain[d]
						break
					}
				}
				for q := 0; q < 3; q++ {
					var pr *ph
					if last == nil || r.Intn(5) == 0 {
						pr = &ph{near(r, tip+1), uint32(r.Intn(int(tip) + 3)), near(r, mhp), pg.addr}
					} else {
						pr = &ph{near(r, last.Height), near(r, last.Height), near(r, last.MaxHeightPrevoted), pg.addr}
						switch r.Intn(4) {
						case 0:
							pr.h = tip + 1
						case 1:
							pr.h = tip + 1
							pr.p = mhp
						case 2:
							pr.g = last.MaxHeightGenerated
						}
					}
					f, ok := flagged(pr)
					if !ok {
						return
					}
					judge(pr, f, false, "probe")
				}
			}
			if x == nil {
				k.Count("chain_step_without_block", 1)
				continue
			}
			hdr := full(x, uint32(step))
			if err := mod.BeforeTransactionsExecute(hdr.Readonly(), store); err != nil {
				k.Violation("chain:before-transactions-execute-error", "BeforeTransactionsExecute failed on an accepted header", err.Error())
				return
			}
			chain = append(chain, x.spec())
			if x.g >= x.h {
				plausible = false
			}
			tip++
			if tip > g.maxGen {
				g.maxGen = tip
			}
			k.Count("chain_blocks_appended", 1)
		}
		// the module's own window must be the last 3*batchSize headers (what the reference assumed)
		votes, err := liskbft.VerifDumpVotes(store)
		if err == nil {
			want := len(chain)
			if want > window {
				want = window
			}
			if len(votes.Blocks) != want {
				k.Violation("chain:window-length", "the BFT vote record does not hold exactly the last min(len,3*batchSize) headers", map[string]any{"have": len(votes.Blocks), "want": want, "batchSize": batch})
			}
			k.Count("chain_window_length_checked", 1)
		}
	})
}

// ---------------------------------------------------------------------------------------
// fork choice

const blockTime = 10000

// slotClock picks a genesis timestamp such that "now" is in the middle of slot 100 and
// tells whether we are at least 60 s away from both edges of that slot.
type slotClock struct {
	genesis uint32
}

func newSlotClock() slotClock {
	now := uint32(time.Now().Unix())
	return slotClock{genesis: now - 100*blockTime - blockTime/2}
}
func (s slotClock) ts(slot int64, off uint32) uint32 {
	return s.genesis + uint32(slot)*blockTime + off
}
func (s slotClock) safe() bool {
	now := uint32(time.Now().Unix())
	if now < s.genesis {
		return false
	}
	el := now - s.genesis
	return el/blockTime == 100 && el%blockTime >= 60 && el%blockTime <= blockTime-60
}
func (s slotClock) slotOf(ts uint32) int64 { return int64((ts - s.genesis) / blockTime) }

type fcIncoming struct {
	hdr  *blockchain.BlockHeader
	desc string
}

func mkHdr(height, mhp uint32, prev, gen []byte, ts uint32, salt byte) *blockchain.BlockHeader {
	h := &blockchain.BlockHeader{
		Version: 2, Timestamp: ts, Height: height, PreviousBlockID: prev, GeneratorAddress: gen,
		TransactionRoot: zeros(32), AssetRoot: zeros(32), EventRoot: zeros(32), StateRoot: append(zeros(31), salt),
		MaxHeightPrevoted: mhp, MaxHeightGenerated: 0, ValidatorsHash: zeros(32),
		AggregateCommit: &blockchain.AggregateCommit{}, Signature: []byte{},
	}
	h.Init()
	return h
}

func specB(h *blockchain.BlockHeader, sc slotClock) lip14.B {
	return lip14.B{ID: string(h.ID), Prev: string(h.PreviousBlockID), Generator: string(h.GeneratorAddress), Height: h.Height, MaxHeightPrevoted: h.MaxHeightPrevoted, Slot: sc.slotOf(h.Timestamp)}
}

func hdrJS(h *blockchain.BlockHeader, sc slotClock) map[string]any {
	return map[string]any{"id": fmt.Sprintf("%x", h.ID[:4]), "prev": fmt.Sprintf("%x", h.PreviousBlockID[:4]), "gen": fmt.Sprintf("%x", h.GeneratorAddress[:4]), "height": h.Height, "maxHeightPrevoted": h.MaxHeightPrevoted, "slot": sc.slotOf(h.Timestamp)}
}

// incomingVariants enumerates incoming headers around a tip.
func incomingVariants(tip *blockchain.BlockHeader, sc slotClock) []*blockchain.BlockHeader {
	out := []*blockchain.BlockHeader{}
	tipSlot := sc.slotOf(tip.Timestamp)
	other := crypto.Hash([]byte("other-prev"))
	for dh := -1; dh <= 2; dh++ {
		for dp := -1; dp <= 1; dp++ {
			for _, prev := range [][]byte{tip.PreviousBlockID, tip.ID, other} {
				for _, gen := range [][]byte{tip.GeneratorAddress, genB} {
					for _, slot := range []int64{tipSlot - 1, tipSlot, tipSlot + 1, 100, 150} {
						out = append(out, mkHdr(uint32(int(tip.Height)+dh), uint32(int(tip.MaxHeightPrevoted)+dp), prev, gen, sc.ts(slot, blockTime/3), 1))
					}
				}
			}
		}
	}
	// the tip itself (identical ID), as a separate object
	cp := *tip
	out = append(out, &cp)
	return out
}

type recvVariant struct {
	name string
	at   *time.Time
	in   bool // tip received within its slot
}

func recvVariants(tip *blockchain.BlockHeader, sc slotClock) []recvVariant {
	tipSlot := sc.slotOf(tip.Timestamp)
	in := time.Unix(int64(sc.ts(tipSlot, blockTime/2)), 0)
	first := time.Unix(int64(sc.ts(tipSlot, 0)), 0)
	last := time.Unix(int64(sc.ts(tipSlot, blockTime-1)), 0)
	after := time.Unix(int64(sc.ts(tipSlot+1, 0)), 0)
	before := time.Unix(int64(sc.ts(tipSlot, 0))-1, 0)
	far := time.Unix(int64(sc.ts(tipSlot+3, 5)), 0)
	return []recvVariant{
		{"nil(synced)", nil, true}, {"mid-slot", &in, true}, {"first-second", &first, true}, {"last-second", &last, true},
		{"next-slot-start", &after, false}, {"second-before-slot", &before, false}, {"3-slots-later", &far, false},
	}
}

func tipVariants(r *rand.Rand, sc slotClock) []*blockchain.BlockHeader {
	out := []*blockchain.BlockHeader{}
	for _, slot := range []int64{50, 99, 100} {
		h := uint32(5 + r.Intn(20))
		p := uint32(2 + r.Intn(int(h)-2))
		out = append(out, mkHdr(h, p, crypto.Hash([]byte{byte(r.Intn(256))}), genA, sc.ts(slot, uint32(r.Intn(blockTime))), 0))
	}
	return out
}

func implClass(fc interface {
	IsValidBlock() bool
	IsIdenticalBlock() bool
	IsDoubleForging() bool
	IsTieBreak() bool
	IsDifferentChain() bool
}) (lip14.Class, string) {
	v := fmt.Sprintf("id=%v,valid=%v,double=%v,tie=%v,diff=%v", b2i(fc.IsIdenticalBlock()), b2i(fc.IsValidBlock()), b2i(fc.IsDoubleForging()), b2i(fc.IsTieBreak()), b2i(fc.IsDifferentChain()))
	// the order in which Executer.process evaluates them
	switch {
	case fc.IsIdenticalBlock():
		return lip14.Identical, v
	case fc.IsValidBlock():
		return lip14.Extends, v
	case fc.IsDoubleForging():
		return lip14.DoubleForging, v
	case fc.IsTieBreak():
		return lip14.TieBreak, v
	case fc.IsDifferentChain():
		return lip14.BetterChain, v
	}
	return lip14.Discard, v
}

func b2i(b bool) int {
	if b {
		return 1
	}
	return 0
}

func forkChoiceEnum(c *mon.Ctx) {
	c.Cases("forkchoice-enum", c.N(1600, 10000), func(k *mon.Case) {
		sc := newSlotClock()
		slot := validator.NewBlockSlot(sc.genesis, blockTime)
		for _, tip := range tipVariants(k.R, sc) {
			incs := incomingVariants(tip, sc)
			for _, rv := range recvVariants(tip, sc) {
				for _, inc := range incs {
					if !sc.safe() {
						k.Inconclusive("near-slot-edge")
						k.Count("forkchoice_skipped_near_slot_edge", 1)
						return
					}
					fc, err := forkchoice.NewForkChoice(tip, inc, slot, rv.at)
					if err != nil {
						k.Violation("forkchoice:new-error", "NewForkChoice returned an error", err.Error())
						continue
					}
					got, vec := implClass(fc)
					if !sc.safe() {
						k.Inconclusive("near-slot-edge")
						return
					}
					k.Eval(1)
					incIn := sc.slotOf(inc.Timestamp) == 100
					want := lip14.Classify(specB(tip, sc), specB(inc, sc), rv.in, incIn)
					k.Nontrivial(fmt.Sprintf("%s/%s", want, vec))
					k.Count("forkchoice_class_"+string(want), 1)
					if got != want {
						k.Violation(fmt.Sprintf("forkchoice:class:impl=%s,spec=%s", got, want), "forkchoice predicates evaluated in the order of Executer.process classify the incoming block differently from LIP-0014", map[string]any{"tip": hdrJS(tip, sc), "incoming": hdrJS(inc, sc), "tip_received": rv.name, "incoming_received_in_its_slot": incIn, "predicates": vec, "impl": got, "spec": want})
					}
				}
			}
		}
		k.Sample(map[string]any{"genesisTimestamp": sc.genesis, "blockTime": blockTime})
	})
}

// ---------------------------------------------------------------------------------------
// HeaderHasPriority

func priority(c *mon.Ctx) {
	c.Cases("priority", c.N(8000, 50000), func(k *mon.Case) {
		r := k.R
		for i := 0; i < 500; i++ {
			k.Eval(1)
			hh, hp := randU32(r), randU32(r)
			h, p := randU32(r), randU32(r)
			switch r.Intn(5) {
			case 0:
				p = hp
			case 1:
				p = hp
				h = near(r, hh)
			case 2:
				h = hh
				p = near(r, hp)
			}
			version := uint32(2)
			if r.Intn(10) == 0 {
				version = uint32(r.Intn(4))
			}
			hdr := &blockchain.BlockHeader{Version: version, Height: hh, MaxHeightPrevoted: hp, AggregateCommit: &blockchain.AggregateCommit{}}
			got, err := api.HeaderHasPriority(nil, hdr.Readonly(), h, p, randU32(r))
			if err != nil {
				k.Violation("priority:error", "HeaderHasPriority returned an error", err.Error())
				continue
			}
			if version == 0 {
				k.Count("priority_version0_not_judged", 1)
				continue
			}
			want := lip14.Prior(p, h, hp, hh)
			rel := "equal"
			if want {
				rel = "header-better"
			} else if lip14.Prior(hp, hh, p, h) {
				rel = "header-worse"
			}
			tie := ""
			if p == hp {
				tie = "/prevoted-tie"
			}
			k.Nontrivial(rel + tie)
			k.Count("priority_"+rel, 1)
			if got != want {
				k.Violation(fmt.Sprintf("priority:impl=%v,spec=%v:%s%s", got, want, rel, tie), "HeaderHasPriority disagrees with the (maxHeightPrevoted,height) order", map[string]any{"header": map[string]any{"height": hh, "maxHeightPrevoted": hp, "version": version}, "height": h, "maxHeightPrevoted": p, "impl": got, "spec": want})
			}
		}
	})
}

// ---------------------------------------------------------------------------------------
// Executer.process branch order and Executer.Synced on a real Executer.

func executerOrder(c *mon.Ctx) {
	c.Cases("executer", c.N(1600, 10000), func(k *mon.Case) {
		sc := newSlotClock()
		// (Chain.PrepareCache loads heights below a non-zero genesis height, so the node starts at 0)
		g0 := uint32(0)
		n, err := newNode(g0, sc.genesis, blockTime)
		if err != nil {
			k.Violation("executer:setup", "could not build a Chain+Executer on an in-memory database", err.Error())
			return
		}
		defer n.close()
		k.Sample(map[string]any{"genesisHeight": g0, "genesisTimestamp": sc.genesis})
		ctx := context.Background()

		observe := func(err error, before, after *time.Time) (lip14.Class, bool) {
			switch {
			case n.log.has("Received identical block"):
				return lip14.Identical, true
			case n.log.has("Processing valid block"):
				return lip14.Extends, true
			case n.log.has("Discarding block due to double forging"):
				return lip14.DoubleForging, true
			case n.log.has("Detected different chain"):
				return lip14.BetterChain, true
			case n.log.has("Discarding block received by"):
				return lip14.Discard, true
			case err != nil && after != nil && after != before:
				return lip14.TieBreak, true
			}
			return "", false
		}

		tips := tipVariants(k.R, sc)
		for ti, t0 := range tips {
			// the chain requires consecutive heights: tip sits right above the genesis block
			tip := mkHdr(g0+1, uint32(1+k.R.Intn(8)), n.genesis.Header.ID, genA, t0.Timestamp, 0)
			if ti == 1 {
				tip.PreviousBlockID = crypto.Hash([]byte("unrelated")) // tip fields are arbitrary for fork choice
				tip.Init()
			}
			if err := n.setTip(tip); err != nil {
				k.Violation("executer:set-tip", "could not add the tip block to the chain", err.Error())
				return
			}
			incs := incomingVariants(tip, sc)
			for _, rv := range recvVariants(tip, sc) {
				for ii, inc := range incs {
					// a deterministic third of the incoming variants per receive variant keeps quick short
					if c.Quick() && (ii+k.Index)%3 != 0 && ii != len(incs)-1 {
						continue
					}
					if !sc.safe() {
						k.Inconclusive("near-slot-edge")
						return
					}
					n.ex.VerifSetLastBlockReceived(rv.at)
					n.log.reset()
					before := n.ex.VerifLastBlockReceived()
					blk := &blockchain.Block{Header: inc, Transactions: []*blockchain.Transaction{}, Assets: []*blockchain.BlockAsset{}}
					perr := n.ex.VerifProcess(ctx, blk, "peer")
					after := n.ex.VerifLastBlockReceived()
					if !sc.safe() {
						k.Inconclusive("near-slot-edge")
						return
					}
					k.Eval(1)
					if string(n.chain.LastBlock().Header.ID) != string(tip.ID) {
						k.Violation("executer:tip-changed", "processing a block with an empty signature changed the tip", map[string]any{"tip": hdrJS(tip, sc), "incoming": hdrJS(inc, sc)})
						return
					}
					got, ok := observe(perr, before, after)
					incIn := sc.slotOf(inc.Timestamp) == 100
					want := lip14.Classify(specB(tip, sc), specB(inc, sc), rv.in, incIn)
					k.Nontrivial(fmt.Sprintf("%s/%s/in=%v", want, rv.name, incIn))
					k.Count("process_class_"+string(want), 1)
					if !ok {
						k.Violation("executer:process:unobservable:spec="+string(want), "Executer.process took none of the observable branches", map[string]any{"tip": hdrJS(tip, sc), "incoming": hdrJS(inc, sc), "log": n.log.all(), "err": fmt.Sprint(perr)})
						continue
					}
					if got != want {
						k.Violation(fmt.Sprintf("executer:process:impl=%s,spec=%s", got, want), "Executer.process took a branch other than the LIP-0014 class of the incoming block", map[string]any{"tip": hdrJS(tip, sc), "incoming": hdrJS(inc, sc), "tip_received": rv.name, "incoming_received_in_its_slot": incIn, "impl": got, "spec": want, "log": n.log.all(), "err": fmt.Sprint(perr)})
					}
				}
			}
			// Synced: (height, maxHeightPrevoted) strictly behind (stored maxHeightPrevoted, tip height)
			for i := 0; i < 40; i++ {
				cur := uint32(k.R.Intn(12))
				if err := n.setMaxHeightPrevoted(cur); err != nil {
					k.Violation("executer:set-mhp", "could not rewrite the BFT vote record", err.Error())
					return
				}
				for j := 0; j < 12; j++ {
					k.Eval(1)
					h, p := near(k.R, tip.Height), near(k.R, cur)
					if k.R.Intn(4) == 0 {
						h, p = randU32(k.R), randU32(k.R)
					}
					got, err := n.ex.Synced(h, p, randU32(k.R))
					if err != nil {
						k.Violation("synced:error", "Executer.Synced returned an error", err.Error())
						continue
					}
					want := lip14.Prior(p, h, cur, tip.Height)
					rel := "equal"
					if want {
						rel = "chain-better"
					} else if lip14.Prior(cur, tip.Height, p, h) {
						rel = "chain-worse"
					}
					tie := ""
					if p == cur {
						tie = "/prevoted-tie"
					}
					k.Nontrivial("synced/" + rel + tie)
					k.Count("synced_"+rel, 1)
					if got != want {
						k.Violation(fmt.Sprintf("synced:impl=%v,spec=%v:%s%s", got, want, rel, tie), "Executer.Synced disagrees with the (maxHeightPrevoted,height) order", map[string]any{"tip_height": tip.Height, "stored_maxHeightPrevoted": cur, "height": h, "maxHeightPrevoted": p, "impl": got, "spec": want})
					}
				}
			}
		}
		// genesis tip: special rule, not covered by the statement
		if err := n.setTip(nil); err == nil {
			if _, err := n.ex.Synced(g0, g0, 0); err == nil {
				k.Count("synced_version0_not_judged", 1)
			}
		}
	})
}
