package main

import (
	"context"
	"fmt"
	"strings"
	"sync"

	"github.com/LiskHQ/lisk-engine/pkg/blockchain"
	"github.com/LiskHQ/lisk-engine/pkg/consensus"
	"github.com/LiskHQ/lisk-engine/pkg/consensus/liskbft"
	"github.com/LiskHQ/lisk-engine/pkg/crypto"
	"github.com/LiskHQ/lisk-engine/pkg/db"
	"github.com/LiskHQ/lisk-engine/pkg/db/diffdb"
	"github.com/LiskHQ/lisk-engine/pkg/labi"
	"github.com/LiskHQ/lisk-engine/pkg/log"
	"github.com/LiskHQ/lisk-engine/pkg/p2p"
)

// ---------------------------------------------------------------------------------------
// capturing logger: the only observable of Executer.process's classification is the log
// line of the branch it took (plus lastBlockReceived for the tie-break branch).

type capLogger struct {
	mu   *sync.Mutex
	msgs *[]string
}

func newCapLogger() *capLogger {
	return &capLogger{mu: &sync.Mutex{}, msgs: &[]string{}}
}
func (l *capLogger) add(msg string, o []interface{}, f bool) {
	if f {
		msg = fmt.Sprintf(msg, o...)
	}
	l.mu.Lock()
	*l.msgs = append(*l.msgs, msg)
	l.mu.Unlock()
}
func (l *capLogger) Debug(msg string, o ...interface{})    { l.add(msg, o, false) }
func (l *capLogger) Info(msg string, o ...interface{})     { l.add(msg, o, false) }
func (l *capLogger) Error(msg string, o ...interface{})    { l.add(msg, o, false) }
func (l *capLogger) Warning(msg string, o ...interface{})  { l.add(msg, o, false) }
func (l *capLogger) Debugf(msg string, o ...interface{})   { l.add(msg, o, true) }
func (l *capLogger) Infof(msg string, o ...interface{})    { l.add(msg, o, true) }
func (l *capLogger) Errorf(msg string, o ...interface{})   { l.add(msg, o, true) }
func (l *capLogger) Warningf(msg string, o ...interface{}) { l.add(msg, o, true) }
func (l *capLogger) With(kv ...interface{}) log.Logger     { return l }
func (l *capLogger) reset()                                { l.mu.Lock(); *l.msgs = (*l.msgs)[:0]; l.mu.Unlock() }
func (l *capLogger) has(prefix string) bool {
	l.mu.Lock()
	defer l.mu.Unlock()
	for _, m := range *l.msgs {
		if strings.HasPrefix(m, prefix) {
			return true
		}
	}
	return false
}
func (l *capLogger) all() []string {
	l.mu.Lock()
	defer l.mu.Unlock()
	return append([]string{}, *l.msgs...)
}

// ---------------------------------------------------------------------------------------
// minimal application: answers every ABI call with an empty result; the genesis state
// yields a fixed validator set so that BFT parameters exist.

type stubABI struct {
	validators []*labi.Validator
	threshold  uint64
}

func (a *stubABI) Init(*labi.InitRequest) (*labi.InitResponse, error) {
	return &labi.InitResponse{}, nil
}
func (a *stubABI) InitStateMachine(*labi.InitStateMachineRequest) (*labi.InitStateMachineResponse, error) {
	return &labi.InitStateMachineResponse{ContextID: []byte{1}}, nil
}
func (a *stubABI) InitGenesisState(*labi.InitGenesisStateRequest) (*labi.InitGenesisStateResponse, error) {
	return &labi.InitGenesisStateResponse{Events: []*blockchain.Event{}, PreCommitThreshold: a.threshold, CertificateThreshold: a.threshold, NextValidators: a.validators}, nil
}
func (a *stubABI) InsertAssets(*labi.InsertAssetsRequest) (*labi.InsertAssetsResponse, error) {
	return &labi.InsertAssetsResponse{}, nil
}
func (a *stubABI) VerifyAssets(*labi.VerifyAssetsRequest) (*labi.VerifyAssetsResponse, error) {
	return &labi.VerifyAssetsResponse{}, nil
}
func (a *stubABI) BeforeTransactionsExecute(*labi.BeforeTransactionsExecuteRequest) (*labi.BeforeTransactionsExecuteResponse, error) {
	return &labi.BeforeTransactionsExecuteResponse{}, nil
}
func (a *stubABI) AfterTransactionsExecute(*labi.AfterTransactionsExecuteRequest) (*labi.AfterTransactionsExecuteResponse, error) {
	return &labi.AfterTransactionsExecuteResponse{}, nil
}
func (a *stubABI) VerifyTransaction(*labi.VerifyTransactionRequest) (*labi.VerifyTransactionResponse, error) {
	return &labi.VerifyTransactionResponse{Result: labi.TxVerifyResultOk}, nil
}
func (a *stubABI) ExecuteTransaction(*labi.ExecuteTransactionRequest) (*labi.ExecuteTransactionResponse, error) {
	return &labi.ExecuteTransactionResponse{Result: labi.TxExecuteResultSuccess}, nil
}
func (a *stubABI) Commit(r *labi.CommitRequest) (*labi.CommitResponse, error) {
	return &labi.CommitResponse{StateRoot: r.ExpectedStateRoot}, nil
}
func (a *stubABI) Revert(r *labi.RevertRequest) (*labi.RevertResponse, error) {
	return &labi.RevertResponse{StateRoot: r.ExpectedStateRoot}, nil
}
func (a *stubABI) Clear(*labi.ClearRequest) (*labi.ClearResponse, error) {
	return &labi.ClearResponse{}, nil
}
func (a *stubABI) Finalize(*labi.FinalizeRequest) (*labi.FinalizeResponse, error) {
	return &labi.FinalizeResponse{}, nil
}
func (a *stubABI) GetMetadata(*labi.MetadataRequest) (*labi.MetadataResponse, error) {
	return &labi.MetadataResponse{}, nil
}
func (a *stubABI) Query(*labi.QueryRequest) (*labi.QueryResponse, error) {
	return &labi.QueryResponse{}, nil
}
func (a *stubABI) Prove(*labi.ProveRequest) (*labi.ProveResponse, error) {
	return &labi.ProveResponse{}, nil
}

// ---------------------------------------------------------------------------------------

type node struct {
	ex      *consensus.Executer
	chain   *blockchain.Chain
	db      *db.DB
	log     *capLogger
	genesis *blockchain.Block
	chainID []byte
}

func addr(i int) []byte {
	h := crypto.Hash([]byte(fmt.Sprintf("c07-validator-%d", i)))
	return h[:20]
}

func zeros(n int) []byte { return make([]byte, n) }

// newNode builds a real Chain + Executer on an in-memory database, with a genesis block at
// the given height and timestamp.  The p2p connection is constructed but never started.
func newNode(genesisHeight, genesisTimestamp, blockTime uint32) (*node, error) {
	chainID := []byte{0, 0, 0, 7}
	database, err := db.NewInMemoryDB()
	if err != nil {
		return nil, err
	}
	vals := []*labi.Validator{}
	for i := 0; i < 4; i++ {
		vals = append(vals, &labi.Validator{Address: addr(i), BFTWeight: 1, GeneratorKey: crypto.Hash(addr(i)), BLSKey: append(crypto.Hash(addr(i)), zeros(16)...)})
	}
	abi := &stubABI{validators: vals, threshold: 3}

	// validatorsHash the way the engine computes it: dry run on a scratch overlay
	mod := liskbft.NewModule()
	if err := mod.Init(4); err != nil {
		return nil, err
	}
	scratch := diffdb.New(database, []byte{0xee})
	gh := &blockchain.BlockHeader{Version: 0, Height: genesisHeight, AggregateCommit: &blockchain.AggregateCommit{}}
	if err := mod.InitGenesisState(gh.Readonly(), scratch); err != nil {
		return nil, err
	}
	bv, _ := liskbft.GetBFTValidatorAndGenerators(vals)
	if err := mod.API().SetBFTParameters(scratch, 3, 3, bv); err != nil {
		return nil, err
	}
	params, err := mod.API().GetBFTParameters(scratch, genesisHeight+1)
	if err != nil {
		return nil, err
	}
	eventRoot, err := blockchain.CalculateEventRoot(nil)
	if err != nil {
		return nil, err
	}
	genesis := &blockchain.Block{
		Header: &blockchain.BlockHeader{
			Version:          0,
			Timestamp:        genesisTimestamp,
			Height:           genesisHeight,
			PreviousBlockID:  zeros(32),
			GeneratorAddress: zeros(20),
			TransactionRoot:  crypto.Hash([]byte{}),
			AssetRoot:        blockchain.BlockAssets{}.GetRoot(),
			EventRoot:        eventRoot,
			StateRoot:        crypto.Hash([]byte("state")),
			ValidatorsHash:   params.ValidatorsHash(),
			AggregateCommit:  &blockchain.AggregateCommit{},
			Signature:        []byte{},
		},
		Transactions: []*blockchain.Transaction{},
		Assets:       []*blockchain.BlockAsset{},
	}
	genesis.Init()
	chain := blockchain.NewChain(&blockchain.ChainConfig{ChainID: chainID, MaxTransactionsLength: 15 * 1024, MaxBlockCache: 20, KeepEventsForHeights: -1})
	chain.Init(genesis, database)
	lg := newCapLogger()
	conn := p2p.NewConnection(lg, &p2p.Config{ChainID: chainID})
	ex := consensus.NewExecuter(&consensus.ExecuterConfig{CTX: context.Background(), ABI: abi, Chain: chain, Conn: conn, BlockTime: blockTime, BatchSize: 4})
	if err := ex.Init(&consensus.ExecuterInitParam{CTX: context.Background(), Logger: lg, Database: database, GenesisBlock: genesis}); err != nil {
		return nil, err
	}
	return &node{ex: ex, chain: chain, db: database, log: lg, genesis: genesis, chainID: chainID}, nil
}

func (n *node) close() {
	n.ex.Stop()
	n.db.Close()
}

// setTip puts an arbitrary block on top of the genesis block (the chain object only
// requires consecutive heights), replacing a previous one.
func (n *node) setTip(tip *blockchain.BlockHeader) error {
	if n.chain.LastBlock().Header.Height != n.genesis.Header.Height {
		if err := n.chain.RemoveBlock(n.db.NewBatch(), false); err != nil {
			return err
		}
	}
	if tip == nil {
		return nil
	}
	blk := &blockchain.Block{Header: tip, Transactions: []*blockchain.Transaction{}, Assets: []*blockchain.BlockAsset{}}
	return n.chain.AddBlock(n.db.NewBatch(), blk, []*blockchain.Event{}, n.genesis.Header.Height, false)
}

// setMaxHeightPrevoted rewrites the BFT vote record so that the stored maxHeightPrevoted
// is m, using the module's own genesis initialiser.
func (n *node) setMaxHeightPrevoted(m uint32) error {
	store := n.ex.VerifStateStore()
	h := &blockchain.BlockHeader{Version: 0, Height: m, AggregateCommit: &blockchain.AggregateCommit{}}
	if err := n.ex.VerifLiskBFT().InitGenesisState(h.Readonly(), store); err != nil {
		return err
	}
	batch := n.db.NewBatch()
	store.Commit(batch)
	n.db.Write(batch)
	return nil
}
