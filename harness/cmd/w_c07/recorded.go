// Stream "recorded": the fork choice classifies an incoming block against the time at which the
// CURRENT tip was received.  The other streams set that time through a hook; here the tip becomes
// the tip through Executer.process itself (as a block from a peer, or as the node's own generated
// block), and the classification of the next competing block shows which receive time the node
// recorded for it.
//
// Layout (block time 10^5 s, so the real current slot lasts for hours): the tip T belongs to the
// slot before the current one; T is (re-)applied now, i.e. after its own slot ("late"); a sibling
// S of T (same parent, height and maxHeightPrevoted) from the current slot arrives inside its own
// slot.  LIP-0014: duplicate height/parent/prevoted, later slot, tip received outside its slot,
// incoming inside its slot = TIE BREAK, S replaces T.  Before T is applied the recorded receive
// time holds a stale value that lies inside T's slot (or is unknown): if applying T does not
// record its own receive time the stale value makes the node discard S.
package main

import (
	"context"
	"fmt"
	"time"

	"github.com/LiskHQ/lisk-engine/pkg/p2p"

	"verifharness/internal/mon"
	vnode "verifharness/internal/node"
)

func recordedReceiveTime(c *mon.Ctx) {
	c.Cases("recorded", c.N(96, 1200), func(k *mon.Case) {
		r := k.R
		g := vnode.EqualGenesis(2 + r.Intn(5))
		cfg := vnode.Config{Genesis: g, Universe: 7, BatchSize: 6, MaxBlockCache: 8 + r.Intn(20), BlockTime: 100000}
		pre := 2 + r.Intn(8)
		cfg.GenesisTimestamp = uint32(time.Now().Unix()) - uint32(pre+1)*cfg.BlockTime - cfg.BlockTime/2
		n, err := vnode.New(cfg)
		if err != nil {
			k.Inconclusive("node-init:" + err.Error())
			return
		}
		defer n.Close()
		for i := 0; i < pre; i++ {
			b, err := n.NextBlock(vnode.BlockOpts{})
			if err != nil {
				k.Inconclusive("history-build")
				return
			}
			if err := n.Apply(b); err != nil {
				k.Inconclusive("history-valid-block-rejected")
				return
			}
		}
		tip := n.Tip()
		inSlot := func() bool {
			return n.Slot.GetSlotNumber(uint32(time.Now().Unix())) == n.Slot.GetSlotNumber(tip.Header.Timestamp)+1
		}
		if !inSlot() {
			k.Inconclusive("slot-layout")
			return
		}
		if err := n.DeleteTip(false); err != nil {
			k.Inconclusive("setup-delete")
			return
		}
		sib, err := n.NextBlock(vnode.BlockOpts{SlotsAhead: 2, Directive: &vnode.Directive{Salt: 77}, NoRecord: true})
		if err != nil {
			k.Inconclusive("sibling:" + err.Error())
			return
		}
		// stale receive time left over from before T: inside T's slot, or unknown
		stale := "inside-the-slot-of-the-tip"
		if r.Intn(3) == 0 {
			stale = "unknown"
			n.Exec.VerifSetLastBlockReceived(nil)
		} else {
			t := time.Unix(int64(tip.Header.Timestamp)+1+int64(r.Intn(1000)), 0)
			n.Exec.VerifSetLastBlockReceived(&t)
		}
		path := []string{"from-peer", "own-generated-block"}[r.Intn(2)]
		peer := "peer"
		if path == "own-generated-block" {
			peer = "" // what AddInternal queues for a block of the node's own generator
		}
		t0 := time.Now()
		if err := n.Exec.VerifProcess(context.Background(), vnode.CloneBlock(tip), p2p.PeerID(peer)); err != nil || string(n.Tip().Header.ID) != string(tip.Header.ID) {
			k.Inconclusive("tip-not-applied")
			return
		}
		t1 := time.Now()
		k.Eval(1)
		k.Count("tip_applied_"+path, 1)
		rec := n.Exec.VerifLastBlockReceived()
		perr := n.Exec.VerifProcess(context.Background(), sib, "peer")
		if !inSlot() {
			k.Inconclusive("slot-layout")
			return
		}
		wit := map[string]any{"tip": vnode.DescribeBlock(tip), "tip_applied_as": path, "stale_receive_time_before": stale, "sibling": vnode.DescribeBlock(sib),
			"tip_applied_between": []string{t0.Format(time.RFC3339Nano), t1.Format(time.RFC3339Nano)}, "recorded_receive_time": fmt.Sprint(rec), "error": fmt.Sprint(perr)}
		k.Nontrivial(path + "/" + stale)
		switch string(n.Tip().Header.ID) {
		case string(sib.Header.ID):
			k.Count("tie_break_taken", 1)
		case string(tip.Header.ID):
			k.Violation("executer:process:recorded-receive-time:impl=discard,spec=tie-break:"+path,
				"the tip was applied after its own slot and a sibling from the next slot arrived inside its slot, but the node kept the tip: the receive time it holds is not the one of the current tip", wit)
		default:
			k.Violation("executer:process:recorded-receive-time:tip-is-neither-block:"+path, "after the tie-break the tip is neither of the two competing blocks", wit)
		}
	})
}
