package main

import (
	"fmt"

	"github.com/LiskHQ/lisk-engine/pkg/consensus"
	"github.com/anishathalye/porcupine"
	_ "go.etcd.io/gofail/runtime"
)

func main() {
	fmt.Println(consensus.P2PEventPostBlock, porcupine.Ok)
}
