package main

import (
	"bytes"
	"context"
	"fmt"
	"math"
	"math/rand"
	"sort"
	"sync"

	"github.com/LiskHQ/lisk-engine/pkg/blockchain"
	"github.com/LiskHQ/lisk-engine/pkg/codec"
	"github.com/LiskHQ/lisk-engine/pkg/consensus"
	"github.com/LiskHQ/lisk-engine/pkg/consensus/certificate"
	lsync "github.com/LiskHQ/lisk-engine/pkg/consensus/sync"
	"github.com/LiskHQ/lisk-engine/pkg/crypto"
	"github.com/LiskHQ/lisk-engine/pkg/p2p"
	"github.com/LiskHQ/lisk-engine/pkg/txpool"

	"verifharness/internal/hostile"
	"verifharness/internal/mon"
	"verifharness/internal/node"
)

const (
	// chainLength: long enough for maxHeightPrecommitted >= 100 (singleCommitValidator discards
	// every commit on shorter chains because of an unsigned subtraction, see the report)
	chainLength = 135
	nValidators = 10
	hostilePeer = p2p.PeerID("12D3KooWHostilePeerOfC09")
)

var certTag = []byte("LSK_CE_")

// world is the node every chain-level stream of this process talks to: 10 validators of equal
// weight (so that an aggregation bitmap needs 2 bytes), a chain long enough for precommitted
// heights above the certified height, a started libp2p connection without peers.
type world struct {
	n         *node.Node
	pool      *txpool.TransactionPool
	tipID     []byte
	tipHeight uint32
	certified uint32
	precommit uint32
	vals      []*node.Validator // BFT validators sorted by BLS key ascending
	chain     []*blockchain.Block
}

var theWorld *world

func getWorld(k *mon.Case) *world {
	if theWorld != nil {
		return theWorld
	}
	cfg := node.Config{Genesis: node.EqualGenesis(nValidators), Universe: nValidators + 2, BatchSize: nValidators,
		GenesisTimestamp: 1600000000, P2PAddresses: []string{"/ip4/127.0.0.1/tcp/0"}}
	n, err := node.New(cfg)
	if err != nil {
		k.Inconclusive("node-init:" + err.Error())
		return nil
	}
	blocks, err := n.Grow(chainLength)
	if err != nil {
		k.Inconclusive("node-grow:" + err.Error())
		return nil
	}
	w := &world{n: n, chain: append([]*blockchain.Block{n.Genesis}, blocks...)}
	w.pool = txpool.VerifNewPool(context.Background(), nil, n.Log, n.Conn, n.ABI)
	_, w.precommit, w.certified = n.Heights()
	w.tipID, w.tipHeight = n.Tip().Header.ID, n.Tip().Header.Height
	w.vals = append([]*node.Validator{}, n.Universe[:nValidators]...)
	sort.Slice(w.vals, func(i, j int) bool { return bytes.Compare(w.vals[i].BLS.PublicKey, w.vals[j].BLS.PublicKey) < 0 })
	if w.precommit <= w.certified+1 {
		k.Inconclusive("no-precommitted-height-above-certified")
		return nil
	}
	theWorld = w
	return w
}

// certHeight draws a height whose single / aggregate commits are in scope: above the certified
// height, not above the precommitted height, within the last 100 precommitted heights.
func (w *world) certHeight(r *rand.Rand) uint32 {
	lo := w.certified
	if w.precommit > certificate.CommitRangeStored && w.precommit-certificate.CommitRangeStored > lo {
		lo = w.precommit - certificate.CommitRangeStored
	}
	return lo + 1 + uint32(r.Intn(int(w.precommit-lo)))
}

// restore brings the node back to the tip it had when the world was built.
func (w *world) restore(k *mon.Case) {
	for w.n.Tip().Header.Height > w.tipHeight {
		if err := w.n.DeleteTip(false); err != nil {
			break
		}
		k.Count("hostile_input_changed_the_tip_(restored)", 1)
	}
	if !bytes.Equal(w.n.Tip().Header.ID, w.tipID) {
		k.Count("world_rebuilt", 1)
		theWorld = nil
	}
	w.n.Exec.VerifSetLastBlockReceived(nil)
	w.n.Log.TakeErrors()
	w.n.Log.TakeWarnings()
}

func certMessage(chainID []byte, h *blockchain.BlockHeader) []byte {
	c := certificate.NewCertificateFromBlock(h)
	return crypto.Hash(append(append(append([]byte{}, certTag...), chainID...), c.SigningBytes()...))
}

// aggregate builds the honest aggregate commit of the validators selected by mask for height h.
func (w *world) aggregate(h uint32, mask int) *blockchain.AggregateCommit {
	hdr := w.chain[h].Header
	keys := make([][]byte, len(w.vals))
	var pairs []*crypto.BLSPublicKeySignaturePair
	m := certMessage(w.n.Chain.ChainID(), hdr)
	for i, v := range w.vals {
		keys[i] = v.BLS.PublicKey
		if mask&(1<<uint(i)) != 0 {
			pairs = append(pairs, &crypto.BLSPublicKeySignaturePair{PublicKey: v.BLS.PublicKey, Signature: crypto.BLSSign(m, v.BLS.PrivateKey)})
		}
	}
	bits, sig := crypto.BLSCreateAggSig(keys, pairs)
	return &blockchain.AggregateCommit{Height: h, AggregationBits: bits, CertificateSignature: sig}
}

type capWriter struct {
	data    []byte
	err     error
	written bool
}

func (w *capWriter) Write(b []byte) { w.data, w.written = b, true }
func (w *capWriter) Error(e error)  { w.err = e }

func resultName(r p2p.ValidationResult) string {
	switch r {
	case p2p.ValidationAccept:
		return "accept"
	case p2p.ValidationReject:
		return "reject"
	case p2p.ValidationIgnore:
		return "ignore"
	}
	return "other"
}

func envelope(data []byte) []byte { return p2p.NewMessage(data).Encode() }

// deliverBlock runs onBlockReceived + process on data the block validator accepted.
func (w *world) deliverBlock(k *mon.Case, h *hostile.Harness, class string, data []byte) string {
	out := "?"
	res := h.Call(k, "consensus.onBlockReceived+process", class, data, func() {
		w.n.Exec.VerifOnBlockReceived(p2p.NewEvent(hostilePeer, consensus.P2PEventPostBlock, data))
		ran, _, err := w.n.Exec.VerifDrainOne()
		switch {
		case !ran:
			out = "not-queued"
		case err != nil:
			out = "process-error"
		default:
			out = "processed"
		}
	})
	w.restore(k)
	if res.Panicked {
		return "panic"
	}
	k.Count("delivered_after_accept:"+out, 1)
	return out
}

func (w *world) blockTargets(k *mon.Case, h *hostile.Harness) []target {
	ctx := context.Background()
	return []target{
		{"blockchain.NewBlock+Validate", func(in []byte) string {
			b, err := blockchain.NewBlock(in)
			if err != nil {
				return "err"
			}
			if b.Validate() != nil {
				return "decoded-invalid"
			}
			return "valid"
		}},
		{"consensus.blockValidator", func(in []byte) string {
			return resultName(w.n.Exec.VerifBlockValidator(ctx, &p2p.Message{Data: in}))
		}},
		{"p2p.gossipValidator(postBlock)", func(in []byte) string {
			return resultName(p2p.VerifGossipValidate(ctx, w.n.Exec.VerifBlockValidator, hostilePeer, envelope(in)))
		}},
	}
}

func (w *world) nextBlock(r *rand.Rand, o node.BlockOpts) (*blockchain.Block, error) {
	o.NoRecord = true
	for try := 0; try < 12; try++ {
		b, err := w.n.NextBlock(o)
		if err != node.ErrWouldContradict {
			return b, err
		}
		o.SlotsAhead++
	}
	return nil, fmt.Errorf("no slot")
}

func chainStreams(c *mon.Ctx, h *hostile.Harness) {
	ctx := context.Background()

	// ---------------------------------------------------------------- blocks
	c.Cases("block", c.N(96, 1500), func(k *mon.Case) {
		w := getWorld(k)
		if w == nil {
			return
		}
		r := k.R
		o := w.n.RandomOpts(r)
		if o.Directive != nil {
			o.Directive.Change = nil
		}
		kind := "random"
		switch r.Intn(8) { // (not k.Index: the index is correlated with the shard)
		case 0: // many small transactions
			kind = "many-transactions"
			o.Txs = nil
			for i := 0; i < 60+r.Intn(40); i++ {
				o.Txs = append(o.Txs, w.n.NewTx(w.n.Universe[r.Intn(nValidators)], uint64(i), 1000, node.TxVerifyOK, node.TxExecOK, 0))
			}
		case 1: // aggregate commit present
			kind = "with-aggregate-commit"
			o.AggregateCommit = w.aggregate(w.certHeight(r), 0x3ff)
		case 2:
			kind = "empty"
			o = node.BlockOpts{}
		case 3: // well-formed (valid NFC UTF-8) names outside ASCII: a peer may send them
			kind = "non-ascii-names"
			o.Txs = nil
			for i := 0; i < 1+r.Intn(3); i++ {
				tx := w.n.NewTx(w.n.Universe[r.Intn(nValidators)], uint64(i), 1000, node.TxVerifyOK, node.TxExecOK, 0)
				nonASCIIName(r, tx)
				o.Txs = append(o.Txs, tx)
			}
		}
		b, err := w.nextBlock(r, o)
		if err != nil {
			k.Inconclusive("block-build")
			return
		}
		base := b.Encode()
		opts := defaultOpts
		if len(base) > 4096 {
			opts.capMutants = 700
		}
		targets := w.blockTargets(k, h)
		drive(k, h, r, base, targets, opts)
		// accepted inputs are delivered (separately, so that the validator's own call stays a
		// single measured call): re-run the mutants the validator accepts
		delivered := 0
		sm, _ := hostile.SampleStructureMutants(r, base, 1400)
		cand := []hostile.Lazy{{Class: "valid", Build: func() []byte { return base }}}
		cand = append(cand, sm...)
		for _, m := range hostile.RandomMutants(r, base, 60) {
			m := m
			cand = append(cand, hostile.Lazy{Class: m.Class, Build: func() []byte { return m.Data }})
		}
		for _, lm := range cand {
			m := hostile.Mutant{Class: lm.Class, Data: lm.Build()}
			if getWorld(k) == nil {
				return
			}
			verdict := p2p.ValidationReject
			h.Call(k, "consensus.blockValidator", m.Class, m.Data, func() {
				verdict = theWorld.n.Exec.VerifBlockValidator(ctx, &p2p.Message{Data: m.Data})
			})
			if verdict != p2p.ValidationAccept {
				continue
			}
			out := theWorld.deliverBlock(k, h, m.Class, m.Data)
			k.Nontrivial("deliver|" + classOnly(m.Class) + "|" + out)
			delivered++
		}
		k.Count("blocks_accepted_by_validator_and_delivered", delivered)
		// envelope level
		eo := opts
		eo.capMutants, eo.random, eo.truncSample, eo.sampleAbove = 200, 10, 40, 64
		drive(k, h, r, envelope(base), []target{{"p2p.gossipValidator(postBlock)", func(in []byte) string {
			return resultName(p2p.VerifGossipValidate(ctx, theWorld.n.Exec.VerifBlockValidator, hostilePeer, in))
		}}}, eo)
		if k.Index%40 < 8 {
			k.Sample(map[string]any{"entry": "block", "kind": kind, "bytes": len(base), "txs": len(b.Transactions), "delivered": delivered})
		}
	})

	// ---------------------------------------------------------------- transactions (gossip)
	c.Cases("tx-gossip", c.N(64, 1000), func(k *mon.Case) {
		w := getWorld(k)
		if w == nil {
			return
		}
		r := k.R
		w.pool = txpool.VerifNewPool(ctx, nil, w.n.Log, w.n.Conn, w.n.ABI)
		tx := w.n.NewTx(w.n.Universe[r.Intn(nValidators)], uint64(r.Intn(5)), uint64(1000+r.Intn(100000)), node.TxVerifyOK, node.TxExecOK, r.Intn(200))
		if r.Intn(6) == 0 { // more signatures
			for i := 0; i < 1+r.Intn(5); i++ {
				tx.Signatures = append(tx.Signatures, bytes.Repeat([]byte{byte(i)}, 64))
			}
			tx.Init()
		}
		if r.Intn(4) == 0 { // well-formed names outside ASCII
			nonASCIIName(r, tx)
			k.Count("transactions_with_non_ascii_names", 1)
		}
		base := tx.Encode()
		accepted := 0
		targets := []target{
			{"txpool.transactionValidator", func(in []byte) string {
				res := w.pool.VerifTransactionValidator(ctx, &p2p.Message{Data: in})
				return resultName(res)
			}},
			{"p2p.gossipValidator(postTransactionsAnnouncement)", func(in []byte) string {
				return resultName(p2p.VerifGossipValidate(ctx, w.pool.VerifTransactionValidator, hostilePeer, envelope(in)))
			}},
		}
		drive(k, h, r, base, targets, defaultOpts)
		sm, _ := hostile.SampleStructureMutants(r, base, 2500)
		cand := []hostile.Mutant{{Class: "valid", Data: base}}
		for _, l := range sm {
			cand = append(cand, hostile.Mutant{Class: l.Class, Data: l.Build()})
		}
		cand = append(cand, hostile.RandomMutants(r, base, 100)...)
		for _, m := range cand {
			verdict := p2p.ValidationReject
			h.Call(k, "txpool.transactionValidator", m.Class, m.Data, func() {
				verdict = w.pool.VerifTransactionValidator(ctx, &p2p.Message{Data: m.Data})
			})
			if verdict != p2p.ValidationAccept {
				continue
			}
			accepted++
			res := h.Call(k, "txpool.onTransactionAnnouncement", m.Class, m.Data, func() {
				w.pool.VerifOnTransactionAnnouncement(p2p.NewEvent(hostilePeer, txpool.RPCEventPostTransactionAnnouncement, m.Data))
			})
			if !res.Panicked && !res.Skipped {
				k.Nontrivial("tx-deliver|" + classOnly(m.Class))
			}
		}
		k.Count("transactions_accepted_by_validator_and_delivered", accepted)
		drive(k, h, r, envelope(base), []target{{"p2p.gossipValidator(postTransactionsAnnouncement)", func(in []byte) string {
			return resultName(p2p.VerifGossipValidate(ctx, w.pool.VerifTransactionValidator, hostilePeer, in))
		}}}, driveOpts{sampleAbove: 64, truncSample: 30, random: 10, capMutants: 150})
		w.n.Log.TakeErrors()
	})

	// ---------------------------------------------------------------- gossip validator, concurrent
	// GossipSub runs a topic's validator from one goroutine per received message. The verdict for
	// a message must be the verdict that message gets on its own: a malformed message that is let
	// through reaches the subscription handler, which decodes it again and panics on failure.
	c.Cases("gossip-concurrent", c.N(32, 400), func(k *mon.Case) {
		w := getWorld(k)
		if w == nil {
			return
		}
		r := k.R
		w.pool = txpool.VerifNewPool(ctx, nil, w.n.Log, w.n.Conn, w.n.ABI)
		var msgs, payloads [][]byte
		var classes []string
		for i := 0; i < 5; i++ {
			tx := w.n.NewTx(w.n.Universe[r.Intn(nValidators)], uint64(r.Intn(5)), uint64(1000+r.Intn(100000)), node.TxVerifyOK, node.TxExecOK, r.Intn(120))
			base := tx.Encode()
			payloads, msgs, classes = append(payloads, base), append(msgs, envelope(base)), append(classes, "valid")
			sm, _ := hostile.SampleStructureMutants(r, base, 5)
			for _, l := range sm {
				d := l.Build()
				payloads, msgs, classes = append(payloads, d), append(msgs, envelope(d)), append(classes, l.Class)
			}
		}
		alone := make([]p2p.ValidationResult, len(msgs))
		nAcc, nRej := 0, 0
		for i, m := range msgs {
			alone[i] = p2p.VerifGossipValidate(ctx, w.pool.VerifTransactionValidator, hostilePeer, m)
			if alone[i] == p2p.ValidationAccept {
				nAcc++
			} else {
				nRej++
			}
		}
		if nAcc == 0 || nRej == 0 {
			k.Count("gossip_concurrent_skipped_no_mix", 1)
			return
		}
		shared := p2p.VerifNewGossipValidator(w.pool.VerifTransactionValidator)
		workers := 2 + r.Intn(7)
		rounds := 30
		type miss struct {
			i   int
			got p2p.ValidationResult
		}
		var mu sync.Mutex
		var misses []miss
		var panics []string
		var wg sync.WaitGroup
		seeds := make([]int64, workers)
		for g := range seeds {
			seeds[g] = r.Int63()
		}
		for g := 0; g < workers; g++ {
			g := g
			wg.Add(1)
			go func() {
				defer wg.Done()
				defer func() {
					if p := recover(); p != nil {
						mu.Lock()
						panics = append(panics, fmt.Sprint(p))
						mu.Unlock()
					}
				}()
				rr := rand.New(rand.NewSource(seeds[g]))
				for q := 0; q < rounds; q++ {
					for _, i := range rr.Perm(len(msgs)) {
						if got := shared(ctx, hostilePeer, msgs[i]); got != alone[i] {
							mu.Lock()
							if len(misses) < 64 {
								misses = append(misses, miss{i, got})
							}
							mu.Unlock()
						}
					}
				}
			}()
		}
		wg.Wait()
		k.Eval(workers * rounds * len(msgs))
		k.Count("calls:p2p.gossipValidator(shared wrapper, concurrent)", workers*rounds*len(msgs))
		k.Nontrivial(fmt.Sprintf("gossip-concurrent|workers=%d|msgs=%d|acc=%d", workers, len(msgs), nAcc))
		for _, p := range panics {
			k.Violation("panic:p2p.gossipValidator(concurrent)", "the topic validator panicked when run for several messages at once", map[string]any{"panic": p})
		}
		for _, m := range misses {
			key := "gossip:verdict-is-not-the-messages-own:well-formed-refused"
			if m.got == p2p.ValidationAccept {
				key = "gossip:verdict-is-not-the-messages-own:malformed-accepted"
			}
			k.Violation(key, "a gossip message validated while other messages of the topic were being validated got another verdict than on its own", map[string]any{"class": classes[m.i], "own_verdict": resultName(alone[m.i]), "concurrent_verdict": resultName(m.got), "workers": workers})
			if m.got == p2p.ValidationAccept {
				// what the node does next with an accepted message
				h.Call(k, "txpool.onTransactionAnnouncement", classes[m.i], payloads[m.i], func() {
					w.pool.VerifOnTransactionAnnouncement(p2p.NewEvent(hostilePeer, txpool.RPCEventPostTransactionAnnouncement, payloads[m.i]))
				})
				break
			}
		}
		w.n.Log.TakeErrors()
	})

	// ---------------------------------------------------------------- single commits
	c.Cases("single-commits", c.N(64, 1000), func(k *mon.Case) {
		w := getWorld(k)
		if w == nil {
			return
		}
		r := k.R
		chainID := w.n.Chain.ChainID()
		pool := w.n.Exec.VerifCertificatePool()
		clear := func() { pool.Cleanup(func(uint32) bool { return false }) }
		encode := func(cs []*certificate.SingleCommit) []byte {
			wr := codec.NewWriter()
			for _, sc := range cs {
				wr.WriteEncodable(1, sc)
			}
			return wr.Result()
		}
		heights := func() uint32 {
			switch r.Intn(6) {
			case 0:
				return w.certified
			case 1:
				return w.tipHeight
			default:
				return w.certHeight(r)
			}
		}
		var cs []*certificate.SingleCommit
		for i, n := 0, 1+r.Intn(4); i < n; i++ {
			hh := heights()
			v := w.vals[r.Intn(len(w.vals))]
			cs = append(cs, certificate.NewSingleCommit(w.chain[hh].Header, v.Address, chainID, v.BLS.PrivateKey))
		}
		targets := []target{
			{"consensus.singleCommitValidator", func(in []byte) string {
				defer clear()
				return resultName(w.n.Exec.VerifSingleCommitValidator(ctx, &p2p.Message{Data: in}))
			}},
			{"p2p.gossipValidator(postSingleCommits)", func(in []byte) string {
				defer clear()
				return resultName(p2p.VerifGossipValidate(ctx, w.n.Exec.VerifSingleCommitValidator, hostilePeer, envelope(in)))
			}},
		}
		base := encode(cs)
		before := pool.Size()
		res := w.n.Exec.VerifSingleCommitValidator(ctx, &p2p.Message{Data: base})
		k.Count(fmt.Sprintf("honest_single_commits:%s:pool+%d", resultName(res), pool.Size()-before), 1)
		clear()
		drive(k, h, r, base, targets, defaultOpts)
		// component level: one commit with a hostile part
		hh := w.certHeight(r)
		hdr := w.chain[hh].Header
		v := w.vals[r.Intn(len(w.vals))]
		good := crypto.BLSSign(certMessage(chainID, hdr), v.BLS.PrivateKey)
		for _, sv := range pointVariants(r, good, v.BLS.PublicKey, 96) {
			sc := certificate.VerifNewSingleCommit(hdr.ID, hh, v.Address, sv.data, false)
			in := encode([]*certificate.SingleCommit{sc})
			var out string
			cres := h.Call(k, "consensus.singleCommitValidator", "signature="+sv.name, in, func() {
				out = resultName(w.n.Exec.VerifSingleCommitValidator(ctx, &p2p.Message{Data: in}))
			})
			clear()
			if !cres.Panicked && !cres.Skipped {
				k.Nontrivial("singleCommitValidator|signature=" + sv.name + "|" + out)
			}
		}
		for _, hv := range []uint32{0, w.certified, w.precommit + 1, w.tipHeight, w.tipHeight + 1, 1 << 31, math.MaxUint32} {
			sc := certificate.VerifNewSingleCommit(hdr.ID, hv, v.Address, good, false)
			in := encode([]*certificate.SingleCommit{sc})
			var out string
			cres := h.Call(k, "consensus.singleCommitValidator", "height-varied", in, func() {
				out = resultName(w.n.Exec.VerifSingleCommitValidator(ctx, &p2p.Message{Data: in}))
			})
			clear()
			if !cres.Panicked && !cres.Skipped {
				k.Nontrivial(fmt.Sprintf("singleCommitValidator|height=%s|%s", idxName(uint64(hv)), out))
			}
		}
		w.n.Log.TakeErrors()
	})

	// ---------------------------------------------------------------- aggregate commits
	c.Cases("aggregate-commit", c.N(128, 2000), func(k *mon.Case) {
		w := getWorld(k)
		if w == nil {
			return
		}
		r := k.R
		hh := w.certHeight(r)
		mask := 0
		for popcount(mask) < 7 {
			mask |= 1 << uint(r.Intn(nValidators))
		}
		honest := w.aggregate(hh, mask)
		type acv struct {
			class string
			ac    *blockchain.AggregateCommit
		}
		cp := func() *blockchain.AggregateCommit {
			return &blockchain.AggregateCommit{Height: honest.Height, AggregationBits: cpb(honest.AggregationBits), CertificateSignature: cpb(honest.CertificateSignature)}
		}
		vars := []acv{{"valid", cp()}}
		for _, l := range []int{0, 1, 3, 4, 64} {
			for _, fill := range []byte{0x00, 0xff, 0x01} {
				a := cp()
				nb := bytes.Repeat([]byte{fill}, l)
				copy(nb, honest.AggregationBits)
				a.AggregationBits = nb
				name := "bits-long"
				if l < 2 {
					name = fmt.Sprintf("bits-%d-bytes", l)
				}
				vars = append(vars, acv{name, a})
			}
		}
		{
			a := cp()
			a.AggregationBits = []byte{0xff}
			vars = append(vars, acv{"bits-1-byte-all-ones", a})
			a = cp()
			a.AggregationBits = []byte{0xff, 0xff}
			vars = append(vars, acv{"bits-beyond-validator-count", a})
			a = cp()
			a.AggregationBits = []byte{0, 0}
			vars = append(vars, acv{"bits-none-selected", a})
			a = cp()
			a.AggregationBits = nil
			a.CertificateSignature = nil
			vars = append(vars, acv{"empty-at-uncertified-height", a})
		}
		for _, sv := range pointVariants(r, honest.CertificateSignature, w.vals[0].BLS.PublicKey, 96)[1:] {
			a := cp()
			a.CertificateSignature = sv.data
			vars = append(vars, acv{"sig=" + sv.name, a})
		}
		for _, hv := range []uint32{0, w.certified, w.precommit + 1, w.tipHeight + 1, math.MaxUint32} {
			a := cp()
			a.Height = hv
			vars = append(vars, acv{"height=" + idxName(uint64(hv)), a})
		}
		// two combined
		for i := 0; i < 4; i++ {
			a := cp()
			b := vars[1+r.Intn(len(vars)-1)]
			c2 := vars[1+r.Intn(len(vars)-1)]
			a.AggregationBits, a.CertificateSignature, a.Height = cpb(b.ac.AggregationBits), cpb(c2.ac.CertificateSignature), b.ac.Height
			vars = append(vars, acv{"combined", a})
		}
		for _, v := range vars {
			w = getWorld(k)
			if w == nil {
				return
			}
			in := v.ac.Encode()
			var err error
			res := h.Call(k, "consensus.verifyAggregateCommit", v.class, in, func() { err = w.n.Exec.VerifVerifyAggregateCommit(v.ac) })
			if !res.Panicked && !res.Skipped {
				k.Nontrivial("verifyAggregateCommit|" + v.class + "|" + errClass(err))
				if v.class == "valid" && err != nil {
					k.Count("honest_aggregate_rejected", 1)
				}
			}
			// a block carrying it, signed by the slot's generator
			b, berr := w.nextBlock(r, node.BlockOpts{AggregateCommit: v.ac})
			if berr != nil {
				k.Count("block_with_aggregate_not_built", 1)
				continue
			}
			enc := b.Encode()
			var perr error
			res = h.Call(k, "consensus.processValidated", "aggregate:"+v.class, enc, func() { perr = w.n.Exec.VerifProcessValidated(ctx, b, false, false) })
			w.restore(k)
			if !res.Panicked && !res.Skipped {
				k.Nontrivial("processValidated|" + v.class + "|" + errClass(perr))
			}
			// and as a gossiped block
			if w = getWorld(k); w == nil {
				return
			}
			if r.Intn(3) == 0 && w.n.Exec.VerifBlockValidator(ctx, &p2p.Message{Data: enc}) == p2p.ValidationAccept {
				out := w.deliverBlock(k, h, "aggregate:"+v.class, enc)
				k.Nontrivial("deliver-aggregate|" + v.class + "|" + out)
			}
		}
		if k.Index%60 == 0 {
			k.Sample(map[string]any{"entry": "aggregate-commit", "height": hh, "certified": w.certified, "precommitted": w.precommit, "variants": len(vars)})
		}
	})

	// ---------------------------------------------------------------- RPC envelopes and handlers
	c.Cases("rpc", c.N(96, 1500), func(k *mon.Case) {
		w := getWorld(k)
		if w == nil {
			return
		}
		r := k.R
		s := w.n.Exec.VerifSyncer()
		handlers := map[string]p2p.RPCHandler{
			lsync.RPCEndpointGetLastBlock:          s.HandleRPCEndpointGetLastBlock(),
			lsync.RPCEndpointGetHighestCommonBlock: s.HandleRPCEndpointGetHighestCommonBlock(),
			lsync.RPCEndpointGetBlocksFromID:       s.HandleRPCEndpointGetBlocksFromID(),
			txpool.RPCEndpointGetTransactions:      w.pool.HandleRPCEndpointGetTransaction,
		}
		onRequest := func(in []byte) string {
			req, err := p2p.VerifDecodeRequest(hostilePeer, in)
			if err != nil {
				return "undecodable"
			}
			hd, ok := handlers[req.Procedure]
			if !ok {
				return "unknown-procedure"
			}
			cw := &capWriter{}
			hd(cw, req)
			switch {
			case cw.err != nil:
				return req.Procedure + ":error"
			case cw.written:
				return req.Procedure + ":answered"
			}
			return req.Procedure + ":silent"
		}
		var ids [][]byte
		nIDs := 1 + r.Intn(20)
		if r.Intn(16) == 0 {
			nIDs = 1500 + r.Intn(500) // ~64 KiB request
		}
		for i := 0; i < nIDs; i++ {
			if r.Intn(3) == 0 {
				ids = append(ids, crypto.Hash([]byte{byte(i), byte(k.Index)}))
			} else {
				ids = append(ids, w.chain[r.Intn(len(w.chain))].Header.ID)
			}
		}
		bodies := map[string][]byte{
			lsync.RPCEndpointGetLastBlock:          nil,
			lsync.RPCEndpointGetHighestCommonBlock: lsync.VerifEncodeGetHighestCommonBlockRequest(ids),
			lsync.RPCEndpointGetBlocksFromID:       lsync.VerifEncodeGetBlocksFromIDRequest(w.chain[r.Intn(len(w.chain))].Header.ID),
			txpool.RPCEndpointGetTransactions:      nil,
		}
		procs := []string{lsync.RPCEndpointGetLastBlock, lsync.RPCEndpointGetHighestCommonBlock, lsync.RPCEndpointGetBlocksFromID, txpool.RPCEndpointGetTransactions}
		proc := procs[r.Intn(len(procs))]
		o := defaultOpts
		if nIDs > 100 {
			o.capMutants = 300
		}
		drive(k, h, r, p2p.VerifEncodeRequest("8f2f8d5c-6d55-4b1c-a2d0-3a1f0a1c9e77", proc, bodies[proc]), []target{{"p2p.onRequest(decode+dispatch)", onRequest}}, o)
		// the handler bodies directly
		direct := func(name string, hd p2p.RPCHandler) target {
			return target{name, func(in []byte) string {
				cw := &capWriter{}
				hd(cw, &p2p.Request{ID: "x", Procedure: "p", Data: in, PeerID: hostilePeer})
				switch {
				case cw.err != nil:
					return "error"
				case cw.written:
					return "answered"
				}
				return "silent"
			}}
		}
		switch proc {
		case lsync.RPCEndpointGetHighestCommonBlock:
			drive(k, h, r, bodies[proc], []target{direct("sync.HandleRPCEndpointGetHighestCommonBlock", handlers[proc])}, o)
		case lsync.RPCEndpointGetBlocksFromID:
			drive(k, h, r, bodies[proc], []target{direct("sync.HandleRPCEndpointGetBlocksFromID", handlers[proc])}, o)
		default:
			junk := make([]byte, r.Intn(40))
			r.Read(junk)
			drive(k, h, r, junk, []target{direct("sync.HandleRPCEndpointGetLastBlock", handlers[lsync.RPCEndpointGetLastBlock]), direct("txpool.HandleRPCEndpointGetTransaction", handlers[txpool.RPCEndpointGetTransactions])}, driveOpts{sampleAbove: 64, random: 10})
		}
		// id lists consisting of blocks the node has (duplicates included), of every size class a
		// fan-out or a worker pool may treat differently: the handler must answer each of them
		for _, m := range []int{1, 8, 9, 16, 17, 33, 64, 65, 103, 104, 257} {
			known := make([][]byte, 0, m)
			for i := 0; i < m; i++ {
				if r.Intn(4) == 0 && len(known) > 0 {
					known = append(known, known[r.Intn(len(known))])
				} else {
					known = append(known, w.chain[r.Intn(len(w.chain))].Header.ID)
				}
			}
			body := lsync.VerifEncodeGetHighestCommonBlockRequest(known)
			hd := handlers[lsync.RPCEndpointGetHighestCommonBlock]
			cw := &capWriter{}
			res := h.Call(k, "sync.HandleRPCEndpointGetHighestCommonBlock", fmt.Sprintf("known-ids-%d", m), body, func() {
				hd(cw, &p2p.Request{ID: "x", Procedure: "p", Data: body, PeerID: hostilePeer})
			})
			if !res.Skipped && !res.Panicked {
				k.Count("common_block_requests_with_known_ids_only", 1)
				if !cw.written {
					k.Count("common_block_request_with_known_ids_not_answered(observed, C19)", 1)
				}
			}
		}
		// nil body (handlers distinguish nil from empty)
		for name, hd := range map[string]p2p.RPCHandler{"sync.HandleRPCEndpointGetHighestCommonBlock": handlers[lsync.RPCEndpointGetHighestCommonBlock], "sync.HandleRPCEndpointGetBlocksFromID": handlers[lsync.RPCEndpointGetBlocksFromID]} {
			hd := hd
			h.Call(k, name, "nil-body", nil, func() { hd(&capWriter{}, &p2p.Request{PeerID: hostilePeer}) })
		}
		// response envelopes
		respBody := bodies[lsync.RPCEndpointGetBlocksFromID]
		drive(k, h, r, p2p.VerifEncodeResponse("8f2f8d5c-6d55-4b1c-a2d0-3a1f0a1c9e77", proc, respBody, []string{"", "some error"}[r.Intn(2)]), []target{{"p2p.onResponse(decode)", func(in []byte) string {
			_, _, _, _, err := p2p.VerifDecodeResponse(in)
			return errClass(err)
		}}}, driveOpts{sampleAbove: 512, random: 20, capMutants: 600})
		w.n.Log.TakeErrors()
		w.n.Log.TakeWarnings()
	})

	// ---------------------------------------------------------------- sync client side (decoding)
	c.Cases("sync-client-decode", c.N(48, 700), func(k *mon.Case) {
		w := getWorld(k)
		if w == nil {
			return
		}
		r := k.R
		s := w.n.Exec.VerifSyncer()
		from := r.Intn(len(w.chain) - 1)
		if r.Intn(4) != 0 { // short answers mostly: a few blocks
			from = len(w.chain) - 2 - r.Intn(4)
		}
		cw := &capWriter{}
		s.HandleRPCEndpointGetBlocksFromID()(cw, &p2p.Request{Data: lsync.VerifEncodeGetBlocksFromIDRequest(w.chain[from].Header.ID), PeerID: hostilePeer})
		if cw.err != nil || !cw.written {
			k.Inconclusive("honest-response")
			return
		}
		o := defaultOpts
		if len(cw.data) > 4096 {
			o.capMutants = 500
		}
		drive(k, h, r, cw.data, []target{{"sync.requestBlocksFromID(response)", func(in []byte) string {
			raws, err := lsync.VerifDecodeGetBlocksFromIDResponse(in)
			if err != nil {
				return "undecodable"
			}
			blocks := make([]*blockchain.Block, len(raws))
			for i, raw := range raws {
				b, err := blockchain.NewBlock(raw)
				if err != nil {
					return "block-undecodable"
				}
				blocks[i] = b
			}
			blockchain.SortBlockByHeightAsc(blocks)
			for _, b := range blocks {
				if b.Validate() != nil {
					return "block-invalid"
				}
			}
			return fmt.Sprintf("blocks-%d", minInt(len(blocks), 3))
		}}}, o)
		cw2 := &capWriter{}
		s.HandleRPCEndpointGetHighestCommonBlock()(cw2, &p2p.Request{Data: lsync.VerifEncodeGetHighestCommonBlockRequest([][]byte{w.chain[from].Header.ID}), PeerID: hostilePeer})
		drive(k, h, r, cw2.data, []target{{"sync.requestHighestCommonBlock(response)", func(in []byte) string {
			id, err := lsync.VerifDecodeGetHighestCommonBlockResponse(in)
			if err != nil {
				return "undecodable"
			}
			if len(id) == 0 {
				return "empty-id"
			}
			_, gerr := w.n.Chain.DataAccess().GetBlockHeader(id)
			return "id-" + errClass(gerr)
		}}}, defaultOpts)
		cw3 := &capWriter{}
		s.HandleRPCEndpointGetLastBlock()(cw3, &p2p.Request{PeerID: hostilePeer})
		drive(k, h, r, cw3.data, []target{{"sync.requestLastBlockHeader(response)", func(in []byte) string {
			b, err := blockchain.NewBlock(in)
			if err != nil {
				return "undecodable"
			}
			if b.Header.Validate() != nil {
				return "header-invalid"
			}
			lsync.NewNodeInfo(b.Header.Height, b.Header.MaxHeightPrevoted, b.Header.Version, b.Header.ID)
			return "ok"
		}}}, defaultOpts)
	})
}

func minInt(a, b int) int {
	if a < b {
		return a
	}
	return b
}

func popcount(x int) int {
	n := 0
	for ; x != 0; x &= x - 1 {
		n++
	}
	return n
}

// nonASCIIName gives the transaction a module or command name that is valid NFC UTF-8 but not ASCII.
func nonASCIIName(r *rand.Rand, tx *blockchain.Transaction) {
	names := []string{"tok\u00e9n", "\u043c\u043e\u0434\u0443\u043b\u044c", "\u6a21\u5757", "mod\U0001f642", "tx\u0663", "\uff54oken", "\u00ff", "a\u0080b"}
	n := names[r.Intn(len(names))]
	if r.Intn(2) == 0 {
		tx.Module = n
	} else {
		tx.Command = n
	}
	tx.Init()
}
