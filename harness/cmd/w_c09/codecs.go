package main

import (
	"reflect"

	"github.com/LiskHQ/lisk-engine/pkg/blockchain"

	"verifharness/internal/codectypes"
	"verifharness/internal/hostile"
	"verifharness/internal/mon"
)

type codecType struct {
	name string
	t    reflect.Type // struct type
}

type decoder interface {
	Decode([]byte) error
	DecodeStrict([]byte) error
}

func allCodecTypes() []codecType {
	var out []codecType
	for _, p := range codectypes.All() {
		for _, v := range p.Types {
			t := reflect.TypeOf(v).Elem()
			if _, ok := reflect.New(t).Interface().(decoder); !ok {
				continue
			}
			out = append(out, codecType{p.Path + "." + t.Name(), t})
		}
	}
	return out
}

// types that are decoded directly from bytes a peer sent: all byte strings of length <= 2 are
// fed to these in the quick tier as well (to every type in the thorough tier)
var wireFacing = map[string]bool{
	"pkg/blockchain.RawBlock": true, "pkg/blockchain.BlockHeader": true, "pkg/blockchain.Transaction": true,
	"pkg/p2p.Request": true, "pkg/p2p.responseMsg": true, "pkg/p2p.Message": true,
	"pkg/consensus.EventPostSingleCommits": true,
}

func decodeTargets(ct codecType) []target {
	return []target{
		{"codec.Decode", func(in []byte) string {
			return errClass(reflect.New(ct.t).Interface().(decoder).Decode(in))
		}},
		{"codec.DecodeStrict", func(in []byte) string {
			return errClass(reflect.New(ct.t).Interface().(decoder).DecodeStrict(in))
		}},
	}
}

func codecStreams(c *mon.Ctx, h *hostile.Harness) {
	types := allCodecTypes()
	c.Cases("codec-types", len(types)*c.N(2, 20), func(k *mon.Case) {
		ct := types[k.Index%len(types)]
		base, ok := hostile.RandomWire(k.R, ct.t, 0)
		if !ok {
			k.Count("generator_unsupported_type:"+ct.name, 1)
			return
		}
		d := reflect.New(ct.t).Interface().(decoder)
		if err := d.Decode(base); err != nil {
			k.Count("generated_message_rejected:"+ct.name, 1)
		} else {
			k.Count("generated_message_accepted", 1)
		}
		if k.Index < 2*len(types) && k.Index%7 == 0 {
			k.Sample(map[string]any{"type": ct.name, "valid_message_len": len(base)})
		}
		o := defaultOpts
		o.tag = ct.name
		drive(k, h, k.R, base, decodeTargets(ct), o)
	})

	// all byte strings of length <= 2
	type job struct {
		ct     codecType
		lo, hi int
	}
	var jobs []job
	for _, ct := range types {
		jobs = append(jobs, job{ct, 0, 257})
		if !c.Quick() || wireFacing[ct.name] {
			for lo := 257; lo < hostile.ShortStringCount; lo += 8192 {
				jobs = append(jobs, job{ct, lo, lo + 8192})
			}
		}
	}
	c.Cases("codec-short", len(jobs), func(k *mon.Case) {
		j := jobs[k.Index]
		ts := decodeTargets(j.ct)
		okN := 0
		for i := j.lo; i < j.hi && i < hostile.ShortStringCount; i++ {
			in := hostile.ShortString(i)
			for _, t := range ts {
				var out string
				res := h.Call(k, t.entry, "short-string", in, func() { out = t.fn(in) })
				if !res.Panicked && out == "ok" {
					okN++
				}
			}
		}
		k.Count("short_strings_accepted", okN)
		if okN > 0 {
			k.Nontrivial(j.ct.name + "|short|accepted")
		} else {
			k.Nontrivial(j.ct.name + "|short|all-rejected")
		}
	})

	// constructors of the blockchain package on generated messages of their own type
	ctors := []struct {
		t       reflect.Type
		targets []target
	}{
		{reflect.TypeOf(blockchain.BlockHeader{}), []target{{"blockchain.NewBlockHeader", func(in []byte) string {
			hd, err := blockchain.NewBlockHeader(in)
			if err != nil {
				return "err"
			}
			hd.SigningBytes()
			hd.VerifySignature([]byte{0, 0, 0, 0}, make([]byte, 32))
			if hd.Validate() != nil {
				return "decoded-invalid"
			}
			return "valid"
		}}}},
		{reflect.TypeOf(blockchain.Transaction{}), []target{{"blockchain.NewTransaction", func(in []byte) string {
			tx, err := blockchain.NewTransaction(in)
			if err != nil {
				return "err"
			}
			tx.SigningBytes()
			tx.Freeze()
			tx.SenderAddress()
			if tx.Validate() != nil {
				return "decoded-invalid"
			}
			return "valid"
		}}}},
		{reflect.TypeOf(blockchain.Event{}), []target{{"blockchain.NewEvent", func(in []byte) string {
			ev, err := blockchain.NewEvent(in)
			if err != nil {
				return "err"
			}
			ev.KeyPairs()
			ev.UpdateID()
			if ev.Validate() != nil {
				return "decoded-invalid"
			}
			return "valid"
		}}}},
		{reflect.TypeOf(blockchain.BlockAsset{}), []target{{"blockchain.NewBlockAsset", func(in []byte) string {
			_, err := blockchain.NewBlockAsset(in)
			return errClass(err)
		}}}},
	}
	c.Cases("constructors", len(ctors)*c.N(6, 60), func(k *mon.Case) {
		ct := ctors[k.Index%len(ctors)]
		base, ok := hostile.RandomWire(k.R, ct.t, 0)
		if !ok {
			k.Count("generator_unsupported_type:"+ct.t.Name(), 1)
			return
		}
		drive(k, h, k.R, base, ct.targets, defaultOpts)
	})
}
