package main

import (
	"bytes"
	"crypto/sha256"
	"encoding/binary"
	"fmt"
	"math"
	"math/rand"
	"sync"

	"github.com/LiskHQ/lisk-engine/pkg/codec"
	"github.com/LiskHQ/lisk-engine/pkg/trie/rmt"
	"github.com/LiskHQ/lisk-engine/pkg/trie/smt"

	"verifharness/internal/hostile"
	"verifharness/internal/mon"
)

// mapDB is a concurrency-safe in-memory store (smt.Update writes from several goroutines).
type mapDB struct {
	mu sync.Mutex
	m  map[string][]byte
}

func newMapDB() *mapDB { return &mapDB{m: map[string][]byte{}} }
func (d *mapDB) Get(k []byte) ([]byte, bool) {
	d.mu.Lock()
	defer d.mu.Unlock()
	v, ok := d.m[string(k)]
	if !ok {
		return nil, false
	}
	return append([]byte(nil), v...), true
}
func (d *mapDB) Set(k, v []byte) {
	d.mu.Lock()
	d.m[string(k)] = append([]byte(nil), v...)
	d.mu.Unlock()
}
func (d *mapDB) Del(k []byte) {
	d.mu.Lock()
	delete(d.m, string(k))
	d.mu.Unlock()
}

func cpb(b []byte) []byte { return append([]byte{}, b...) }

func cloneSMTProof(p *smt.Proof) *smt.Proof {
	out := &smt.Proof{}
	for _, s := range p.SiblingHashes {
		out.SiblingHashes = append(out.SiblingHashes, cpb(s))
	}
	for _, q := range p.Queries {
		out.Queries = append(out.Queries, &smt.QueryProof{Key: cpb(q.Key), Value: cpb(q.Value), Bitmap: cpb(q.Bitmap)})
	}
	return out
}

func packSMT(keys [][]byte, p *smt.Proof, root []byte) []byte {
	return pack(packList(keys), p.Encode(), root)
}

// smtCase builds a trie, a valid proof for a mix of present and absent keys and returns them.
func smtCase(r *rand.Rand) (keyLen int, queryKeys [][]byte, proof *smt.Proof, root []byte, err error) {
	keyLen = []int{1, 2, 8, 32, 32, 32, 38}[r.Intn(7)]
	n := 1 + r.Intn(40)
	if keyLen == 1 && n > 20 {
		n = 20
	}
	seen := map[string]bool{}
	var keys, vals [][]byte
	prefix := make([]byte, keyLen)
	r.Read(prefix)
	for len(keys) < n {
		kb := make([]byte, keyLen)
		r.Read(kb)
		if r.Intn(2) == 0 && keyLen > 1 { // clustered keys: deep paths
			copy(kb, prefix[:1+r.Intn(keyLen-1)])
		}
		if seen[string(kb)] {
			if keyLen == 1 && len(seen) > 200 {
				break
			}
			continue
		}
		seen[string(kb)] = true
		v := make([]byte, 32)
		r.Read(v)
		keys, vals = append(keys, kb), append(vals, v)
	}
	db := newMapDB()
	t := smt.NewTrie(nil, keyLen)
	root, err = t.Update(db, keys, vals)
	if err != nil {
		return
	}
	nq := 1 + r.Intn(4)
	asked := map[string]bool{}
	for i := 0; i < nq; i++ {
		kb := make([]byte, keyLen)
		r.Read(kb)
		if r.Intn(3) != 0 {
			kb = cpb(keys[r.Intn(len(keys))])
		}
		if !asked[string(kb)] {
			asked[string(kb)] = true
			queryKeys = append(queryKeys, kb)
		}
	}
	proof, err = smt.NewTrie(root, keyLen).Prove(db, queryKeys)
	return
}

func trieStreams(c *mon.Ctx, h *hostile.Harness) {
	c.Cases("smt", c.N(500, 8000), func(k *mon.Case) {
		r := k.R
		keyLen, qk, proof, root, err := smtCase(r)
		if err != nil {
			k.Inconclusive("smt-setup:" + err.Error())
			return
		}
		verify := func(class string, keys [][]byte, p *smt.Proof, rt []byte, kl int) {
			var ok bool
			var verr error
			in := packSMT(keys, p, rt)
			if res := h.Call(k, "smt.Verify", class, in, func() { ok, verr = smt.Verify(keys, p, rt, kl) }); !res.Panicked && !res.Skipped {
				k.Nontrivial("smt.Verify|" + class + "|" + boolStr(ok) + "|" + errClass(verr))
				if class == "valid" && !ok {
					k.Count("smt_valid_proof_rejected", 1)
				}
			}
		}
		verify("valid", qk, cloneSMTProof(proof), root, keyLen)
		// component mutations
		type mut struct {
			name string
			f    func(keys *[][]byte, p *smt.Proof, rt *[]byte)
		}
		pickQ := func(p *smt.Proof) *smt.QueryProof { return p.Queries[r.Intn(len(p.Queries))] }
		muts := []mut{
			{"siblings-drop-last", func(_ *[][]byte, p *smt.Proof, _ *[]byte) {
				if n := len(p.SiblingHashes); n > 0 {
					p.SiblingHashes = p.SiblingHashes[:n-1]
				}
			}},
			{"siblings-none", func(_ *[][]byte, p *smt.Proof, _ *[]byte) { p.SiblingHashes = nil }},
			{"siblings-extra", func(_ *[][]byte, p *smt.Proof, _ *[]byte) {
				p.SiblingHashes = append(p.SiblingHashes, bytes.Repeat([]byte{7}, 32))
			}},
			{"sibling-empty", func(_ *[][]byte, p *smt.Proof, _ *[]byte) {
				if n := len(p.SiblingHashes); n > 0 {
					p.SiblingHashes[r.Intn(n)] = codec.Hex{}
				}
			}},
			{"sibling-wrong-length", func(_ *[][]byte, p *smt.Proof, _ *[]byte) {
				if n := len(p.SiblingHashes); n > 0 {
					p.SiblingHashes[r.Intn(n)] = bytes.Repeat([]byte{1}, []int{1, 31, 33, 64}[r.Intn(4)])
				}
			}},
			{"bitmap-longer-than-key", func(_ *[][]byte, p *smt.Proof, _ *[]byte) {
				pickQ(p).Bitmap = bytes.Repeat([]byte{0xff}, keyLen+1+r.Intn(3))
			}},
			{"bitmap-all-queries-longer-than-key", func(_ *[][]byte, p *smt.Proof, _ *[]byte) {
				for _, q := range p.Queries {
					q.Bitmap = bytes.Repeat([]byte{0xff}, keyLen+1)
				}
			}},
			{"bitmap-full-key-length", func(_ *[][]byte, p *smt.Proof, _ *[]byte) {
				pickQ(p).Bitmap = bytes.Repeat([]byte{0xff}, keyLen)
			}},
			{"bitmap-empty", func(_ *[][]byte, p *smt.Proof, _ *[]byte) { pickQ(p).Bitmap = codec.Hex{} }},
			{"bitmap-leading-zero", func(_ *[][]byte, p *smt.Proof, _ *[]byte) {
				q := pickQ(p)
				q.Bitmap = append([]byte{0}, q.Bitmap...)
			}},
			{"bitmap-bit-flipped", func(_ *[][]byte, p *smt.Proof, _ *[]byte) {
				q := pickQ(p)
				if len(q.Bitmap) > 0 {
					q.Bitmap[r.Intn(len(q.Bitmap))] ^= 1 << uint(r.Intn(8))
				}
			}},
			{"bitmap-one-bit", func(_ *[][]byte, p *smt.Proof, _ *[]byte) { pickQ(p).Bitmap = codec.Hex{1} }},
			{"query-key-empty", func(_ *[][]byte, p *smt.Proof, _ *[]byte) { pickQ(p).Key = codec.Hex{} }},
			{"query-key-all-empty", func(_ *[][]byte, p *smt.Proof, _ *[]byte) {
				for _, q := range p.Queries {
					q.Key = codec.Hex{}
				}
			}},
			{"query-key-shorter", func(_ *[][]byte, p *smt.Proof, _ *[]byte) {
				q := pickQ(p)
				if len(q.Key) > 0 {
					q.Key = q.Key[:r.Intn(len(q.Key))]
				}
			}},
			{"query-key-shorter-with-long-bitmap", func(_ *[][]byte, p *smt.Proof, _ *[]byte) {
				q := pickQ(p)
				if len(q.Key) > 1 {
					q.Key = q.Key[:1]
				}
				q.Bitmap = bytes.Repeat([]byte{0xff}, 2)
			}},
			{"query-key-longer", func(_ *[][]byte, p *smt.Proof, _ *[]byte) {
				q := pickQ(p)
				q.Key = append(q.Key, 1, 2, 3)
			}},
			{"query-key-changed", func(_ *[][]byte, p *smt.Proof, _ *[]byte) {
				q := pickQ(p)
				if len(q.Key) > 0 {
					q.Key[r.Intn(len(q.Key))] ^= 1 << uint(r.Intn(8))
				}
			}},
			{"query-value-empty", func(_ *[][]byte, p *smt.Proof, _ *[]byte) { pickQ(p).Value = codec.Hex{} }},
			{"query-value-long", func(_ *[][]byte, p *smt.Proof, _ *[]byte) { pickQ(p).Value = bytes.Repeat([]byte{9}, 5000) }},
			{"queries-none", func(_ *[][]byte, p *smt.Proof, _ *[]byte) { p.Queries = nil }},
			{"queries-none-keys-none", func(keys *[][]byte, p *smt.Proof, _ *[]byte) { p.Queries = nil; *keys = nil }},
			{"queries-drop-one", func(_ *[][]byte, p *smt.Proof, _ *[]byte) { p.Queries = p.Queries[:len(p.Queries)-1] }},
			{"queries-and-keys-drop-one", func(keys *[][]byte, p *smt.Proof, _ *[]byte) {
				p.Queries = p.Queries[:len(p.Queries)-1]
				*keys = (*keys)[:len(*keys)-1]
			}},
			{"queries-duplicate-one", func(keys *[][]byte, p *smt.Proof, _ *[]byte) {
				i := r.Intn(len(p.Queries))
				q := p.Queries[i]
				p.Queries = append(p.Queries, &smt.QueryProof{Key: cpb(q.Key), Value: cpb(q.Value), Bitmap: cpb(q.Bitmap)})
				*keys = append(*keys, cpb((*keys)[i]))
			}},
			{"queries-duplicate-differing", func(keys *[][]byte, p *smt.Proof, _ *[]byte) {
				i := r.Intn(len(p.Queries))
				q := p.Queries[i]
				p.Queries = append(p.Queries, &smt.QueryProof{Key: cpb(q.Key), Value: bytes.Repeat([]byte{3}, 32), Bitmap: cpb(q.Bitmap)})
				*keys = append(*keys, cpb((*keys)[i]))
			}},
			{"keys-wrong-length", func(keys *[][]byte, _ *smt.Proof, _ *[]byte) {
				i := r.Intn(len(*keys))
				(*keys)[i] = append((*keys)[i], 0)
			}},
			{"keys-empty-key", func(keys *[][]byte, _ *smt.Proof, _ *[]byte) { (*keys)[r.Intn(len(*keys))] = []byte{} }},
			{"keys-one-more", func(keys *[][]byte, _ *smt.Proof, _ *[]byte) { *keys = append(*keys, make([]byte, keyLen)) }},
			{"root-empty", func(_ *[][]byte, _ *smt.Proof, rt *[]byte) { *rt = nil }},
			{"root-short", func(_ *[][]byte, _ *smt.Proof, rt *[]byte) {
				if len(*rt) > 5 {
					*rt = (*rt)[:5]
				}
			}},
		}
		for _, m := range muts {
			keys := make([][]byte, len(qk))
			for i := range qk {
				keys[i] = cpb(qk[i])
			}
			p := cloneSMTProof(proof)
			rt := cpb(root)
			m.f(&keys, p, &rt)
			verify(m.name, keys, p, rt, keyLen)
			if r.Intn(4) == 0 { // two mutations combined
				m2 := muts[r.Intn(len(muts))]
				if len(p.Queries) > 0 && len(keys) > 0 {
					m2.f(&keys, p, &rt)
					if len(p.Queries) > 0 || m2.name == "queries-none" || m2.name == "queries-none-keys-none" {
						verify("combined", keys, p, rt, keyLen)
					}
				}
			}
		}
		// key length parameter not matching the proof
		for _, kl := range []int{0, 1, keyLen + 1} {
			if kl != keyLen {
				verify(fmt.Sprintf("keyLength-param-%s", map[bool]string{true: "smaller", false: "larger"}[kl < keyLen]), qk, cloneSMTProof(proof), root, kl)
			}
		}
		// wire level: the encoded proof mutated, decoded, verified
		enc := proof.Encode()
		tg := []target{{"smt.Proof.Decode+Verify", func(in []byte) string {
			p := &smt.Proof{}
			if err := p.Decode(in); err != nil {
				return "undecodable"
			}
			ok, err := smt.Verify(qk, p, root, keyLen)
			// CalculateRoot directly on the decoded queries (as exported)
			_, _ = smt.CalculateRoot(p.SiblingHashes, smt.QueryProofs(p.Queries)) //nolint:errcheck
			return boolStr(ok) + "-" + errClass(err)
		}}}
		o := defaultOpts
		o.capMutants, o.random, o.truncSample = 80, 10, 20
		o.sampleAbove = 64
		drive(k, h, r, enc, tg, o)
		if k.Index%300 == 0 {
			k.Sample(map[string]any{"entry": "smt.Verify", "key_length": keyLen, "queries": len(qk), "sibling_hashes": len(proof.SiblingHashes), "proof_bytes": len(enc)})
		}
	})

	c.Cases("rmt", c.N(600, 10000), func(k *mon.Case) {
		r := k.R
		n := 2 + r.Intn(40)
		if r.Intn(5) == 0 {
			n = 2 + r.Intn(300)
		}
		tree := rmt.NewRegularMerkleTree(newMapDB())
		var data, leaves [][]byte
		for i := 0; i < n; i++ {
			d := make([]byte, 1+r.Intn(40))
			r.Read(d)
			if err := tree.Append(cpb(d)); err != nil {
				k.Inconclusive("rmt-setup")
				return
			}
			data = append(data, d)
			lh := sha256.Sum256(append([]byte{0}, d...))
			leaves = append(leaves, lh[:])
		}
		root := tree.Root()
		nq := 1 + r.Intn(4)
		var qh [][]byte
		var qd [][]byte
		picked := map[int]bool{}
		for i := 0; i < nq; i++ {
			j := r.Intn(n)
			if picked[j] {
				continue
			}
			picked[j] = true
			qh = append(qh, cpb(leaves[j]))
			qd = append(qd, cpb(data[j]))
		}
		proof, err := tree.GenerateProof(qh)
		if err != nil {
			k.Inconclusive("rmt-proof")
			return
		}
		cl := func(p *rmt.Proof) *rmt.Proof {
			out := &rmt.Proof{Size: p.Size, Idxs: append([]uint64{}, p.Idxs...)}
			for _, s := range p.SiblingHashes {
				out.SiblingHashes = append(out.SiblingHashes, cpb(s))
			}
			return out
		}
		packRMT := func(hs [][]byte, p *rmt.Proof, rt []byte) []byte { return pack(packList(hs), p.Encode(), rt) }
		run := func(class string, hs [][]byte, p *rmt.Proof, rt []byte) {
			var ok bool
			if res := h.Call(k, "rmt.VerifyProof", class, packRMT(hs, p, rt), func() { ok = rmt.VerifyProof(hs, p, rt) }); !res.Panicked && !res.Skipped {
				k.Nontrivial("rmt.VerifyProof|" + class + "|" + boolStr(ok))
				if class == "valid" && !ok {
					k.Count("rmt_valid_proof_rejected", 1)
				}
			}
			var uerr error
			ud := qd
			if len(hs) != len(qd) {
				ud = hs
			}
			if res := h.Call(k, "rmt.CalculateRootFromUpdateData", class, packRMT(ud, p, nil), func() { _, uerr = rmt.CalculateRootFromUpdateData(ud, p) }); !res.Panicked && !res.Skipped {
				k.Nontrivial("rmt.CalculateRootFromUpdateData|" + class + "|" + errClass(uerr))
			}
		}
		run("valid", qh, cl(proof), root)
		sizes := []uint64{0, 1, 2, uint64(n) - 1, uint64(n) + 1, 2 * uint64(n), 1 << 31, 1<<32 + 1, 1 << 53, 1<<63 - 1, 1 << 63, math.MaxUint64}
		for _, s := range sizes {
			p := cl(proof)
			p.Size = s
			run("size="+sizeName(s, n), qh, p, root)
		}
		idxVals := []uint64{0, 1, 2, 3, 4, uint64(2*n + 5), 1 << 20, 1<<31 - 1, 1 << 31, 1 << 32, 1<<63 - 1, 1 << 63, math.MaxUint64}
		for _, v := range idxVals {
			p := cl(proof)
			p.Idxs[r.Intn(len(p.Idxs))] = v
			run("idx="+idxName(v), qh, p, root)
			p = cl(proof)
			for i := range p.Idxs {
				p.Idxs[i] = v
			}
			run("all-idx="+idxName(v), qh, p, root)
		}
		type pm struct {
			name string
			f    func(hs *[][]byte, p *rmt.Proof)
		}
		for _, m := range []pm{
			{"siblings-none", func(_ *[][]byte, p *rmt.Proof) { p.SiblingHashes = nil }},
			{"siblings-drop-last", func(_ *[][]byte, p *rmt.Proof) {
				if l := len(p.SiblingHashes); l > 0 {
					p.SiblingHashes = p.SiblingHashes[:l-1]
				}
			}},
			{"siblings-extra", func(_ *[][]byte, p *rmt.Proof) { p.SiblingHashes = append(p.SiblingHashes, make([]byte, 32)) }},
			{"sibling-empty", func(_ *[][]byte, p *rmt.Proof) {
				if l := len(p.SiblingHashes); l > 0 {
					p.SiblingHashes[r.Intn(l)] = nil
				}
			}},
			{"sibling-long", func(_ *[][]byte, p *rmt.Proof) {
				if l := len(p.SiblingHashes); l > 0 {
					p.SiblingHashes[r.Intn(l)] = make([]byte, 4000)
				}
			}},
			{"idxs-none", func(_ *[][]byte, p *rmt.Proof) { p.Idxs = nil }},
			{"idxs-and-hashes-none", func(hs *[][]byte, p *rmt.Proof) { p.Idxs = nil; *hs = nil }},
			{"idxs-one-fewer", func(_ *[][]byte, p *rmt.Proof) { p.Idxs = p.Idxs[:len(p.Idxs)-1] }},
			{"idxs-one-more", func(_ *[][]byte, p *rmt.Proof) { p.Idxs = append(p.Idxs, 5) }},
			{"idxs-duplicated", func(hs *[][]byte, p *rmt.Proof) {
				p.Idxs = append(p.Idxs, p.Idxs[0])
				*hs = append(*hs, cpb((*hs)[0]))
			}},
			{"idxs-duplicated-other-hash", func(hs *[][]byte, p *rmt.Proof) {
				p.Idxs = append(p.Idxs, p.Idxs[0])
				*hs = append(*hs, make([]byte, 32))
			}},
			{"idxs-siblings-without-hashes", func(hs *[][]byte, p *rmt.Proof) {
				p.Idxs = append(p.Idxs, p.Idxs[0]^1)
				*hs = append(*hs, make([]byte, 32))
				p.SiblingHashes = nil
			}},
			{"hashes-none", func(hs *[][]byte, _ *rmt.Proof) { *hs = nil }},
			{"hash-empty", func(hs *[][]byte, _ *rmt.Proof) { (*hs)[0] = nil }},
			{"hash-changed", func(hs *[][]byte, _ *rmt.Proof) { (*hs)[0][3] ^= 4 }},
		} {
			hs := make([][]byte, len(qh))
			for i := range qh {
				hs[i] = cpb(qh[i])
			}
			p := cl(proof)
			m.f(&hs, p)
			run(m.name, hs, p, root)
			if r.Intn(3) == 0 {
				p.Size = sizes[r.Intn(len(sizes))]
				run("combined", hs, p, root)
			}
		}
		run("root-empty", qh, cl(proof), nil)
		// wire level
		tg := []target{{"rmt.Proof.Decode+VerifyProof", func(in []byte) string {
			p := &rmt.Proof{}
			if err := p.Decode(in); err != nil {
				return "undecodable"
			}
			ok := rmt.VerifyProof(qh, p, root)
			_, err := rmt.CalculateRootFromUpdateData(qd, p)
			return boolStr(ok) + "-" + errClass(err)
		}}}
		o := defaultOpts
		o.capMutants, o.random, o.truncSample, o.sampleAbove = 80, 10, 20, 64
		drive(k, h, r, proof.Encode(), tg, o)

		// right witness
		ap := tree.AppendPath()
		cpl := func(l [][]byte) [][]byte {
			out := make([][]byte, len(l))
			for i := range l {
				out[i] = cpb(l[i])
			}
			return out
		}
		witness := func(class string, idx uint64, apath, w [][]byte, rt []byte) {
			var ok bool
			var ib [8]byte
			binary.BigEndian.PutUint64(ib[:], idx)
			if res := h.Call(k, "rmt.VerifyRightWitness", class, pack(ib[:], packList(apath), packList(w), rt), func() { ok = rmt.VerifyRightWitness(idx, apath, w, rt) }); !res.Panicked && !res.Skipped {
				k.Nontrivial("rmt.VerifyRightWitness|" + class + "|" + boolStr(ok))
			}
		}
		wIdx := uint64(r.Intn(n + 1))
		// the append path of the tree truncated to wIdx leaves = append path of a tree of that size
		sub := rmt.NewRegularMerkleTree(newMapDB())
		for i := uint64(0); i < wIdx; i++ {
			sub.Append(cpb(data[i])) //nolint:errcheck
		}
		subAP := sub.AppendPath()
		w, werr := tree.GenerateRightWitness(wIdx)
		if werr == nil {
			witness("valid", wIdx, cpl(subAP), cpl(w), root)
			for _, iv := range []uint64{0, 1, wIdx + 1, uint64(n), uint64(n) + 1, 1 << 31, 1 << 63, math.MaxUint64} {
				witness("index="+idxName(iv), iv, cpl(subAP), cpl(w), root)
			}
			witness("append-path-empty", wIdx, nil, cpl(w), root)
			witness("witness-empty", wIdx, cpl(subAP), nil, root)
			witness("both-empty", wIdx, nil, nil, root)
			witness("append-path-of-full-tree", wIdx, cpl(ap), cpl(w), root)
			witness("append-path-extra", wIdx, append(cpl(subAP), make([]byte, 32), make([]byte, 32)), cpl(w), root)
			witness("witness-extra", wIdx, cpl(subAP), append(cpl(w), make([]byte, 32), make([]byte, 32)), root)
			if len(w) > 0 {
				witness("witness-drop-last", wIdx, cpl(subAP), cpl(w[:len(w)-1]), root)
			}
			if len(subAP) > 0 {
				witness("append-path-drop-last", wIdx, cpl(subAP[:len(subAP)-1]), cpl(w), root)
			}
			witness("index-zero-long-append-path", 0, cpl(append(ap, ap...)), cpl(w), root)
		}
		// append-path prediction
		appendPath := func(class string, val []byte, apath [][]byte, size uint64) {
			var sb [8]byte
			binary.BigEndian.PutUint64(sb[:], size)
			if res := h.Call(k, "rmt.CalculateRootFromAppendPath", class, pack(val, packList(apath), sb[:]), func() { rmt.CalculateRootFromAppendPath(val, apath, size) }); !res.Panicked && !res.Skipped {
				k.Nontrivial("rmt.CalculateRootFromAppendPath|" + class)
			}
		}
		appendPath("valid", []byte("v"), cpl(ap), uint64(n))
		for _, s := range sizes {
			appendPath("size="+sizeName(s, n), []byte("v"), cpl(ap), s)
		}
		appendPath("path-empty", []byte("v"), nil, uint64(n))
		if len(ap) > 0 {
			appendPath("path-drop-last", []byte("v"), cpl(ap[:len(ap)-1]), uint64(n))
		}
		appendPath("path-extra", []byte("v"), append(cpl(ap), make([]byte, 32)), uint64(n))
		appendPath("value-empty", nil, cpl(ap), uint64(n))
		if k.Index%400 == 0 {
			k.Sample(map[string]any{"entry": "rmt.*", "leaves": n, "queries": nq, "sibling_hashes": len(proof.SiblingHashes)})
		}
	})
}

func sizeName(s uint64, n int) string {
	switch {
	case s == uint64(n)-1:
		return "n-1"
	case s == uint64(n)+1:
		return "n+1"
	case s == 2*uint64(n):
		return "2n"
	}
	return idxName(s)
}

func idxName(v uint64) string {
	switch {
	case v < 8:
		return fmt.Sprint(v)
	case v == math.MaxUint64:
		return "2^64-1"
	case v == 1<<63:
		return "2^63"
	case v == 1<<63-1:
		return "2^63-1"
	case v >= 1<<53:
		return ">=2^53"
	case v >= 1<<32:
		return ">=2^32"
	case v >= 1<<31:
		return ">=2^31"
	case v == 1<<31-1:
		return "2^31-1"
	case v >= 1<<20:
		return ">=2^20"
	}
	return "small"
}
