package main

import (
	"bytes"
	"encoding/binary"
	"fmt"
	"math"
	"math/rand"
	"sort"

	"github.com/LiskHQ/lisk-engine/pkg/blockchain"
	"github.com/LiskHQ/lisk-engine/pkg/crypto"

	"verifharness/internal/hostile"
	"verifharness/internal/mon"
	"verifharness/internal/node"
)

// pack serialises structured arguments for staging / witnesses (4-byte length + bytes each).
func pack(parts ...[]byte) []byte {
	var out []byte
	for _, p := range parts {
		var l [4]byte
		binary.BigEndian.PutUint32(l[:], uint32(len(p)))
		out = append(out, l[:]...)
		out = append(out, p...)
	}
	return out
}

func packList(list [][]byte) []byte { return pack(list...) }

type variant struct {
	name string
	data []byte
}

// pointVariants returns malformed encodings of a compressed curve point of `size` bytes
// (48 = G1 public key, 96 = G2 signature); valid is a valid encoding, other a valid point of
// the other group.
func pointVariants(r *rand.Rand, valid, other []byte, size int) []variant {
	cp := func(b []byte) []byte { return append([]byte{}, b...) }
	if len(valid) != size { // already a malformed encoding: normalise the length first
		nv := make([]byte, size)
		copy(nv, valid)
		valid = nv
	}
	inf := make([]byte, size)
	inf[0] = 0xc0
	infBad := cp(inf)
	infBad[size-1] = 1
	flipped := cp(valid)
	flipped[size-1] ^= 0x01
	flipped2 := cp(valid)
	flipped2[1+r.Intn(size-1)] ^= byte(1 + r.Intn(255))
	noFlag := cp(valid)
	noFlag[0] &= 0x7f
	signFlip := cp(valid)
	signFlip[0] ^= 0x20
	xBig := bytes.Repeat([]byte{0xff}, size)
	xBig[0] = 0x9f
	rnd := make([]byte, size)
	r.Read(rnd)
	rndC := cp(rnd)
	rndC[0] = rndC[0]&0x1f | 0x80
	return []variant{
		{"valid", cp(valid)},
		{"nil", nil},
		{"empty", []byte{}},
		{"one-byte", []byte{0xc0}},
		{"len-1", cp(valid[:size-1])},
		{"len+1", append(cp(valid), 0)},
		{"double", append(cp(valid), valid...)},
		{"other-group", cp(other)},
		{"all-zero", make([]byte, size)},
		{"all-ff", bytes.Repeat([]byte{0xff}, size)},
		{"infinity", inf},
		{"infinity-nonzero-tail", infBad},
		{"last-bit-flipped", flipped},
		{"byte-changed", flipped2},
		{"compression-flag-cleared", noFlag},
		{"sign-flag-flipped", signFlip},
		{"x-above-modulus", xBig},
		{"random", rnd},
		{"random-compressed", rndC},
	}
}

func boolStr(b bool) string {
	if b {
		return "true"
	}
	return "false"
}

func cryptoStreams(c *mon.Ctx, h *hostile.Harness) {
	uni := node.Universe(70)
	msg := crypto.Hash([]byte("c09 message"))
	v0 := uni[0]
	sig0 := crypto.BLSSign(msg, v0.BLS.PrivateKey)
	pop0 := crypto.BLSPopProve(v0.BLS.PrivateKey)
	if !crypto.BLSVerify(msg, sig0, v0.BLS.PublicKey) || !crypto.BLSPopVerify(v0.BLS.PublicKey, pop0) {
		panic("harness: honest BLS material does not verify")
	}
	nv := len(pointVariants(rand.New(rand.NewSource(1)), v0.BLS.PublicKey, sig0, 48))

	// BLSVerify / BLSPopVerify: every (public key variant, signature variant) pair
	c.Cases("bls-verify", nv*nv*c.N(1, 6), func(k *mon.Case) {
		r := k.R
		pks := pointVariants(r, v0.BLS.PublicKey, sig0, 48)
		sigs := pointVariants(r, sig0, v0.BLS.PublicKey, 96)
		pops := pointVariants(r, pop0, v0.BLS.PublicKey, 96)
		i := k.Index % (nv * nv)
		pk, sg, pp := pks[i/nv], sigs[i%nv], pops[i%nv]
		m := msg
		switch (k.Index / (nv * nv)) % 3 {
		case 1:
			m = nil
		case 2:
			m = bytes.Repeat([]byte{0xab}, 4096)
		}
		var ok bool
		class := "pk=" + pk.name + ",sig=" + sg.name
		if res := h.Call(k, "crypto.BLSVerify", class, pack(m, sg.data, pk.data), func() { ok = crypto.BLSVerify(m, sg.data, pk.data) }); !res.Panicked && !res.Skipped {
			k.Nontrivial("BLSVerify|" + class + "|" + boolStr(ok))
			if ok && (pk.name != "valid" || sg.name != "valid") {
				k.Count("bls_verify_true_on_variant:"+class, 1)
			}
		}
		if res := h.Call(k, "crypto.BLSPopVerify", class, pack(pk.data, pp.data), func() { ok = crypto.BLSPopVerify(pk.data, pp.data) }); !res.Panicked && !res.Skipped {
			k.Nontrivial("BLSPopVerify|" + class + "|" + boolStr(ok))
		}
		if k.Index%97 == 0 {
			k.Sample(map[string]any{"entry": "BLSVerify/BLSPopVerify", "public_key": pk.name, "signature": sg.name})
		}
	})

	// aggregate verification
	c.Cases("bls-aggregate", c.N(6000, 100000), func(k *mon.Case) {
		r := k.R
		sizes := []int{0, 1, 2, 7, 8, 9, 10, 15, 16, 17, 33, 64, 65}
		n := sizes[r.Intn(len(sizes))]
		vals := append([]*node.Validator{}, uni[:n]...)
		sort.Slice(vals, func(i, j int) bool { return bytes.Compare(vals[i].BLS.PublicKey, vals[j].BLS.PublicKey) < 0 })
		keys := make([][]byte, n)
		for i, v := range vals {
			keys[i] = v.BLS.PublicKey
		}
		// honest aggregate of a random non-empty subset
		var pairs []*crypto.BLSPublicKeySignaturePair
		weights := make([]uint64, n)
		var wsum uint64
		for i, v := range vals {
			weights[i] = uint64(1 + r.Intn(5))
			if r.Intn(3) != 0 || (i == n-1 && len(pairs) == 0) {
				pairs = append(pairs, &crypto.BLSPublicKeySignaturePair{PublicKey: v.BLS.PublicKey, Signature: crypto.BLSSign(msg, v.BLS.PrivateKey)})
				wsum += weights[i]
			}
		}
		bits := []byte{}
		agg := sig0
		if n > 0 {
			bits, agg = crypto.BLSCreateAggSig(keys, pairs)
		}
		full := (n + 7) / 8
		// mutations (1-3 of them)
		class := fmt.Sprintf("n=%d", n)
		threshold := wsum
		nm := 1 + r.Intn(3)
		for q := 0; q < nm; q++ {
			switch r.Intn(12) {
			case 0: // bitmap length
				ls := []int{0, 1, full - 1, full + 1, full + 8, 2 * full}
				l := ls[r.Intn(len(ls))]
				if l < 0 {
					l = 0
				}
				nb := make([]byte, l)
				copy(nb, bits)
				fill := r.Intn(3)
				for i := len(bits); i < l; i++ {
					if fill == 1 {
						nb[i] = 0xff
					}
				}
				if fill == 2 {
					for i := range nb {
						nb[i] = 0xff
					}
				}
				bits = nb
				switch {
				case l == 0:
					class += ",bits=empty"
				case l < full:
					class += ",bits=short"
				default:
					class += ",bits=long"
				}
			case 1:
				bits = nil
				class += ",bits=nil"
			case 2: // bitmap content
				if len(bits) > 0 {
					switch r.Intn(3) {
					case 0:
						for i := range bits {
							bits[i] = 0xff
						}
						class += ",bits=all-ones"
					case 1:
						for i := range bits {
							bits[i] = 0
						}
						class += ",bits=all-zero"
					default:
						bits[r.Intn(len(bits))] ^= 1 << uint(r.Intn(8))
						class += ",bits=flipped"
					}
				}
			case 3, 4: // one key malformed
				if len(keys) > 0 {
					i := r.Intn(len(keys))
					pv := pointVariants(r, keys[i], agg, 48)
					v := pv[1+r.Intn(len(pv)-1)]
					keys = append([][]byte{}, keys...)
					keys[i] = v.data
					sel := len(bits) > i/8 && bits[i/8]>>(uint(i)%8)&1 == 1
					class += ",key=" + v.name + map[bool]string{true: "(selected)", false: "(unselected)"}[sel]
				}
			case 5: // key list length
				switch r.Intn(4) {
				case 0:
					keys = nil
					class += ",keys=nil"
				case 1:
					if len(keys) > 0 {
						keys = keys[:len(keys)-1]
						class += ",keys=one-fewer"
					}
				case 2:
					keys = append(append([][]byte{}, keys...), uni[69].BLS.PublicKey)
					class += ",keys=one-more"
				default:
					if len(keys) > 1 {
						keys = append([][]byte{}, keys...)
						keys[0], keys[len(keys)-1] = keys[len(keys)-1], keys[0]
						class += ",keys=reordered"
					}
				}
			case 6, 7: // signature
				sv := pointVariants(r, agg, v0.BLS.PublicKey, 96)
				v := sv[1+r.Intn(len(sv)-1)]
				agg = v.data
				class += ",sig=" + v.name
			case 8: // weights length
				switch r.Intn(4) {
				case 0:
					weights = nil
					class += ",weights=nil"
				case 1:
					if len(weights) > 0 {
						weights = weights[:len(weights)-1]
						class += ",weights=one-fewer"
					}
				case 2:
					weights = append(weights, 1)
					class += ",weights=one-more"
				default:
					for i := range weights {
						weights[i] = math.MaxUint64
					}
					class += ",weights=max-uint64"
				}
			case 9: // threshold
				ts := []uint64{0, 1, wsum + 1, math.MaxUint64}
				threshold = ts[r.Intn(len(ts))]
				class += ",threshold=varied"
			case 10:
				class += ",message=empty"
				// message handled below
			default:
			}
		}
		m := msg
		if bytes.Contains([]byte(class), []byte("message=empty")) {
			m = []byte{}
		}
		wb := make([]byte, 8*len(weights))
		for i, w := range weights {
			binary.BigEndian.PutUint64(wb[8*i:], w)
		}
		in := pack(packList(keys), bits, agg, wb, m)
		var ok bool
		if res := h.Call(k, "crypto.BLSVerifyAggSig", class, in, func() { ok = crypto.BLSVerifyAggSig(keys, bits, agg, m) }); !res.Panicked && !res.Skipped {
			k.Nontrivial("BLSVerifyAggSig|" + class + "|" + boolStr(ok))
		}
		if res := h.Call(k, "crypto.BLSVerifyWeightedAggSig", class, in, func() { ok = crypto.BLSVerifyWeightedAggSig(keys, bits, agg, weights, threshold, m) }); !res.Panicked && !res.Skipped {
			k.Nontrivial("BLSVerifyWeightedAggSig|" + class + "|" + boolStr(ok))
		}
		if k.Index%1500 == 0 {
			k.Sample(map[string]any{"entry": "BLSVerifyAggSig/BLSVerifyWeightedAggSig", "class": class, "bitmap_len": len(bits), "keys": len(keys)})
		}
	})

	// Ed25519
	edMsg := crypto.Hash([]byte("c09 ed message"))
	edSig := crypto.Sign(v0.EdPriv, edMsg)
	if crypto.VerifySignature(v0.EdPub, edSig, edMsg) != nil {
		panic("harness: honest Ed25519 signature does not verify")
	}
	edVariants := func(r *rand.Rand, valid []byte) []variant {
		size := len(valid)
		cp := func(b []byte) []byte { return append([]byte{}, b...) }
		fl := cp(valid)
		fl[r.Intn(size)] ^= 1 << uint(r.Intn(8))
		rnd := make([]byte, size)
		r.Read(rnd)
		one := make([]byte, size) // small-order point / scalar 1
		one[0] = 1
		return []variant{
			{"valid", cp(valid)}, {"nil", nil}, {"empty", []byte{}}, {"one-byte", []byte{1}},
			{"len-1", cp(valid[:size-1])}, {"len+1", append(cp(valid), 0)}, {"double", append(cp(valid), valid...)},
			{"all-zero", make([]byte, size)}, {"all-ff", bytes.Repeat([]byte{0xff}, size)}, {"small-order", one},
			{"bit-flipped", fl}, {"random", rnd},
		}
	}
	ne := len(edVariants(rand.New(rand.NewSource(1)), v0.EdPub))
	c.Cases("ed25519", ne*ne*c.N(1, 8), func(k *mon.Case) {
		r := k.R
		pubs, sigs := edVariants(r, v0.EdPub), edVariants(r, edSig)
		i := k.Index % (ne * ne)
		pub, sg := pubs[i/ne], sigs[i%ne]
		m := edMsg
		switch (k.Index / (ne * ne)) % 3 {
		case 1:
			m = nil
		case 2:
			m = bytes.Repeat([]byte{1}, 5000)
		}
		class := "pub=" + pub.name + ",sig=" + sg.name
		var err error
		if res := h.Call(k, "crypto.VerifySignature", class, pack(pub.data, sg.data, m), func() { err = crypto.VerifySignature(pub.data, sg.data, m) }); !res.Panicked && !res.Skipped {
			k.Nontrivial("VerifySignature|" + class + "|" + errClass(err))
		}
		var ok bool
		if res := h.Call(k, "blockchain.ValidateBlockSignature", class, pack(pub.data, sg.data, m), func() {
			ok = blockchain.ValidateBlockSignature(pub.data, sg.data, []byte{0, 0, 0, 9}, m)
		}); !res.Panicked && !res.Skipped {
			k.Nontrivial("ValidateBlockSignature|" + class + "|" + boolStr(ok))
		}
	})
}
