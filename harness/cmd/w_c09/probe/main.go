package main

import (
	"fmt"
	"time"

	"github.com/LiskHQ/lisk-engine/pkg/crypto"
	"github.com/LiskHQ/lisk-engine/pkg/trie/rmt"
)

func try(name string, f func()) {
	defer func() {
		if r := recover(); r != nil {
			fmt.Println(name, "PANIC:", r)
		}
	}()
	f()
	fmt.Println(name, "returned")
}

func main() {
	seed := crypto.Hash([]byte("x"))
	kp := crypto.BLSKeyGen(seed)
	msg := crypto.Hash([]byte("m"))
	sig := crypto.BLSSign(msg, kp.PrivateKey)
	try("BLSVerify bad pk", func() { fmt.Println(crypto.BLSVerify(msg, sig, make([]byte, 48))) })
	try("BLSVerify bad sig", func() { fmt.Println(crypto.BLSVerify(msg, make([]byte, 96), kp.PublicKey)) })
	try("BLSVerify both bad", func() { fmt.Println(crypto.BLSVerify(msg, nil, nil)) })
	try("BLSPopVerify bad proof", func() { fmt.Println(crypto.BLSPopVerify(kp.PublicKey, make([]byte, 96))) })
	try("AggSig bad key", func() { fmt.Println(crypto.BLSVerifyAggSig([][]byte{make([]byte, 48)}, []byte{1}, sig, msg)) })
	try("AggSig bad sig", func() { fmt.Println(crypto.BLSVerifyAggSig([][]byte{kp.PublicKey}, []byte{1}, make([]byte, 96), msg)) })
	try("AggSig no keys selected", func() { fmt.Println(crypto.BLSVerifyAggSig([][]byte{kp.PublicKey}, []byte{0}, sig, msg)) })
	done := make(chan bool)
	go func() {
		h := make([]byte, 32)
		try("right witness", func() { fmt.Println(rmt.VerifyRightWitness(0, [][]byte{h, h, h}, [][]byte{h}, h)) })
		close(done)
	}()
	select {
	case <-done:
	case <-time.After(5 * time.Second):
		fmt.Println("right witness: still running after 5s")
	}
}
