// Worker for C09: untrusted input never crashes or hangs the node.
//
// Every network-facing decoder, validator, handler and verifier of lisk-engine is called on
// hostile inputs (see the Rule string in main) under the oracle of internal/hostile: no panic,
// allocation per call bounded by the input size, no absurd CPU time, no CPU-burning hang.
package main

import (
	"math/rand"
	"os"
	"strings"
	"time"

	"verifharness/internal/hostile"
	"verifharness/internal/mon"
)

// target is one entry point driven with a byte string; the returned outcome ("accept",
// "reject", "ok", "err:<class>" ...) only feeds the non-trivial-case key.
type target struct {
	entry string
	fn    func(in []byte) string
}

type driveOpts struct {
	sampleAbove int // truncate at every offset up to this size
	truncSample int
	random      int
	capMutants  int    // structure mutants are sampled down to this many
	tag         string // added to the non-trivial-case key (e.g. the codec type)
}

var defaultOpts = driveOpts{sampleAbove: 2048, truncSample: 200, random: 40, capMutants: 2500}

func classOnly(c string) string {
	if i := strings.LastIndex(c, "@"); i >= 0 {
		return c[:i]
	}
	return c
}

// drive feeds the base message and all of its mutants to every target.
func drive(k *mon.Case, h *hostile.Harness, r *rand.Rand, base []byte, targets []target, o driveOpts) {
	run := func(class string, data []byte) {
		for _, t := range targets {
			var out string
			res := h.Call(k, t.entry, class, data, func() { out = t.fn(data) })
			if res.Skipped {
				continue
			}
			if res.Panicked {
				out = "panic"
			}
			k.Nontrivial(t.entry + "|" + o.tag + "|" + classOnly(class) + "|" + out)
			k.Count("outcome:"+t.entry+":"+out, 1)
		}
	}
	run("valid", base)
	for _, m := range hostile.Truncations(r, base, o.sampleAbove, o.truncSample) {
		run(m.Class, m.Data)
	}
	sm, parsed := hostile.SampleStructureMutants(r, base, o.capMutants)
	if !parsed {
		k.Count("base_not_parsed_by_wire_parser", 1)
	}
	for _, l := range sm {
		run(l.Class, l.Build())
	}
	for _, m := range hostile.RandomMutants(r, base, o.random) {
		run(m.Class, m.Data)
	}
}

func errClass(err error) string {
	if err == nil {
		return "ok"
	}
	return "err"
}

func main() {
	mon.Main(mon.Options{
		Property: "C09", Level: "exploration",
		Rule: "entry points: Decode/DecodeStrict of every generated codec type; blockchain.NewBlock(+Validate)/NewBlockHeader/NewTransaction/NewEvent/NewBlockAsset; Executer.blockValidator, singleCommitValidator, txpool.transactionValidator directly and through p2p's gossip validator wrapper, then (only for data the validator accepted) onBlockReceived+process / onTransactionAnnouncement; verifyAggregateCommit and processValidated/process with re-signed blocks carrying hostile aggregate commits; p2p request/response envelope decoding and dispatch to the sync and txpool RPC handlers on a started connection; client-side decoding of sync responses, and the real client functions + Downloader against a hostile libp2p peer; smt.Verify/CalculateRoot, rmt.VerifyProof/CalculateRootFromUpdateData/VerifyRightWitness/CalculateRootFromAppendPath; crypto.BLSVerify/BLSPopVerify/BLSVerifyAggSig/BLSVerifyWeightedAggSig/VerifySignature/ValidateBlockSignature. inputs per entry point: valid message, truncation at every offset (sampled above 2 KB), structure-aware mutation of the lisk codec wire format (each length prefix -> 0, len-1, len+1, 2^31, 2^63-1, 2^63, 2^64-1 with fixed-up and with stale ancestors, each varint -> boundary values and over-long / unterminated encodings, wire type and field number changes, field deletion/duplication/reordering/40x repetition), random byte mutations, all byte strings of length <= 2; structured arguments mutated per component (wrong lengths, non-curve points, point at infinity, all-zero, all-0xff, short/long bitmaps, parallel slices of different lengths, out-of-range indexes, missing sibling hashes). oracle per call (single goroutine per shard): no panic; TotalAlloc delta <= 1024*len(input)+8 MiB; user CPU time of the process (getrusage) <= 5 s for inputs < 64 KiB; no return within 60 s wall and >= 30 s user CPU burned meanwhile = hang; Downloader: >= 40 identical requests answered identically without the download ending = hang (state provably not advancing). non-trivial+distinct = (entry point, mutation class, outcome)",
		Assumptions: []string{
			"the scripted ABI of internal/node stands in for the application behind processValidated / transaction verification",
			"allocation and CPU bounds use generous constants (1024 B per input byte + 8 MiB; 5 s) - they catch length-prefix-driven and super-linear behaviour, not small constant-factor waste",
			"CPU verdicts use user time only: under memory pressure the kernel charges page reclaim to the allocating process as system time, which is not the work of the call",
			"after an entry point was found hanging (60 s watchdog, shard restart) it is not driven again in the same run; skipped calls are counted as skipped_after_hang:<entry>",
			"hang without CPU consumption is inconclusive except for the Downloader, where non-termination is decided logically from the repeated identical request/response pair",
		},
		Shards:            16,
		MaxRestarts:       40,
		ChildTimeoutQuick: 30 * time.Minute, ChildTimeoutThorough: 4 * time.Hour,
		MinNontrivial: 200,
	}, func(c *mon.Ctx) {
		h := hostile.New(c)
		// VERIF_C09_ONLY=codec,crypto,trie,chain,net restricts a development run to some stream
		// groups (the cases of a stream do not depend on which other streams run)
		only := os.Getenv("VERIF_C09_ONLY")
		want := func(g string) bool { return only == "" || strings.Contains(","+only+",", ","+g+",") }
		if want("codec") {
			codecStreams(c, h)
		}
		if want("crypto") {
			cryptoStreams(c, h)
		}
		if want("trie") {
			trieStreams(c, h)
		}
		if want("chain") {
			chainStreams(c, h)
		}
		if want("net") {
			netStreams(c, h)
		}
		h.Report()
	})
}
