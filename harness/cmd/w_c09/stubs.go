package main

import (
	"verifharness/internal/hostile"
	"verifharness/internal/mon"
)

func chainStreams(c *mon.Ctx, h *hostile.Harness) {}
func netStreams(c *mon.Ctx, h *hostile.Harness)   {}
