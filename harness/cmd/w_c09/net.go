package main

import (
	"bytes"
	"context"
	"fmt"
	"sync"
	"sync/atomic"
	"time"

	"github.com/libp2p/go-libp2p"
	"github.com/libp2p/go-libp2p/core/network"
	"github.com/libp2p/go-libp2p/core/peer"

	"github.com/LiskHQ/lisk-engine/pkg/blockchain"
	"github.com/LiskHQ/lisk-engine/pkg/codec"
	lsync "github.com/LiskHQ/lisk-engine/pkg/consensus/sync"
	"github.com/LiskHQ/lisk-engine/pkg/crypto"
	"github.com/LiskHQ/lisk-engine/pkg/p2p"
	"github.com/LiskHQ/lisk-engine/pkg/txpool"

	"verifharness/internal/hostile"
	"verifharness/internal/mon"
	"verifharness/internal/node"
)

var ipCounter atomic.Int32

// freshListen returns a listen address on a loopback IP not used before by this process
// (a peer that sent a malformed message is banned by IP).
func freshListen(shard int) string {
	n := ipCounter.Add(1)
	return fmt.Sprintf("/ip4/127.%d.%d.%d/tcp/0", 20+shard, (n/250)%250, 1+n%250)
}

// evilPeer is a lisk-engine p2p connection whose sync handlers answer whatever the case wants.
type evilPeer struct {
	conn *p2p.Connection
	info *p2p.AddrInfo
	mu   sync.Mutex
	// blocksFromID: answer for the i-th getBlocksFromId request (request data given)
	blocksFromID func(i int, req []byte) ([]byte, error)
	commonBlock  func(req []byte) ([]byte, error)
	lastBlock    func() ([]byte, error)
	reqLog       [][]byte // getBlocksFromId request bodies
	respLog      [][]byte
}

func newEvilPeer(shard int, chainID []byte) (*evilPeer, error) {
	e := &evilPeer{}
	e.conn = p2p.NewConnection(node.NewLogger(), &p2p.Config{ChainID: chainID, Addresses: []string{freshListen(shard)}})
	answer := func(w p2p.ResponseWriter, data []byte, err error) {
		if err != nil {
			w.Error(err)
			return
		}
		w.Write(data)
	}
	e.conn.RegisterRPCHandler(lsync.RPCEndpointGetLastBlock, func(w p2p.ResponseWriter, r *p2p.Request) { //nolint:errcheck
		d, err := e.lastBlock()
		answer(w, d, err)
	})
	e.conn.RegisterRPCHandler(lsync.RPCEndpointGetHighestCommonBlock, func(w p2p.ResponseWriter, r *p2p.Request) { //nolint:errcheck
		d, err := e.commonBlock(r.Data)
		answer(w, d, err)
	})
	e.conn.RegisterRPCHandler(lsync.RPCEndpointGetBlocksFromID, func(w p2p.ResponseWriter, r *p2p.Request) { //nolint:errcheck
		e.mu.Lock()
		i := len(e.reqLog)
		e.reqLog = append(e.reqLog, append([]byte{}, r.Data...))
		e.mu.Unlock()
		d, err := e.blocksFromID(i, r.Data)
		e.mu.Lock()
		e.respLog = append(e.respLog, append([]byte{}, d...))
		e.mu.Unlock()
		answer(w, d, err)
	})
	e.conn.RegisterRPCHandler(txpool.RPCEndpointGetTransactions, func(w p2p.ResponseWriter, r *p2p.Request) { w.Write(nil) }) //nolint:errcheck
	if err := e.conn.Start(crypto.RandomBytes(16)); err != nil {
		return nil, err
	}
	addrs, err := e.conn.MultiAddress()
	if err != nil || len(addrs) == 0 {
		e.conn.Stop() //nolint:errcheck
		return nil, fmt.Errorf("no address: %v", err)
	}
	e.info, err = p2p.AddrInfoFromMultiAddr(addrs[0])
	if err != nil {
		e.conn.Stop() //nolint:errcheck
		return nil, err
	}
	return e, nil
}

// stalled reports how many of the latest getBlocksFromId exchanges were identical
// (same request body, same response body) to the one before.
func (e *evilPeer) stalled() int {
	e.mu.Lock()
	defer e.mu.Unlock()
	n := len(e.respLog)
	run := 0
	for i := n - 1; i >= 1; i-- {
		if !bytes.Equal(e.reqLog[i], e.reqLog[i-1]) || !bytes.Equal(e.respLog[i], e.respLog[i-1]) {
			break
		}
		run++
	}
	return run
}

func (e *evilPeer) requests() int {
	e.mu.Lock()
	defer e.mu.Unlock()
	return len(e.reqLog)
}

const stallLimit = 40

// forgedBlock builds a statically valid block on a foreign branch (no valid signature needed:
// the sync trigger only runs Block.Validate).
func forgedBlock(w *world, height uint32) *blockchain.Block {
	tip := w.n.Tip().Header
	hd := &blockchain.BlockHeader{
		Version: 2, Timestamp: tip.Timestamp + 10*(height-tip.Height), Height: height,
		PreviousBlockID: crypto.Hash([]byte("foreign parent")), GeneratorAddress: w.vals[0].Address,
		TransactionRoot: crypto.Hash(nil), AssetRoot: blockchain.BlockAssets{}.GetRoot(), EventRoot: crypto.Hash(nil), StateRoot: crypto.Hash([]byte("s")),
		MaxHeightPrevoted: tip.MaxHeightPrevoted, MaxHeightGenerated: 0, ValidatorsHash: tip.ValidatorsHash,
		AggregateCommit: &blockchain.AggregateCommit{Height: 0, AggregationBits: codec.Hex{}, CertificateSignature: codec.Hex{}},
		Signature:       bytes.Repeat([]byte{1}, 64),
	}
	hd.Init()
	return &blockchain.Block{Header: hd, Transactions: []*blockchain.Transaction{}, Assets: []*blockchain.BlockAsset{}}
}

func netStreams(c *mon.Ctx, h *hostile.Harness) {
	// ------------------------------------------------------------ Downloader / fast sync against a stalling peer
	modes := []string{"empty-block-list", "same-blocks-again", "fast-sync:empty-block-list", "fast-sync:same-blocks-again"}
	c.Cases("downloader", len(modes)*c.N(1, 4), func(k *mon.Case) {
		w := getWorld(k)
		if w == nil {
			return
		}
		mode := modes[k.Index%len(modes)]
		entry := "sync.Downloader.Start"
		if k.Index%len(modes) >= 2 {
			entry = "consensus.process(fast-sync)"
		}
		if h.Hung(entry + ":" + mode) {
			k.Count("skipped_after_hang:"+entry, 1)
			return
		}
		e, err := newEvilPeer(c.Shard(), w.n.Cfg.ChainID)
		if err != nil {
			k.Inconclusive("evil-peer:" + err.Error())
			return
		}
		defer e.conn.Stop() //nolint:errcheck
		tip := w.n.Tip()
		forged := forgedBlock(w, tip.Header.Height+2)
		filler := forgedBlock(w, tip.Header.Height+1) // statically valid, never the requested end block
		e.lastBlock = func() ([]byte, error) { return forged.Encode(), nil }
		e.commonBlock = func(req []byte) ([]byte, error) {
			return (&lsync.GetHighestCommonBlockResponse{ID: tip.Header.ID}).Encode(), nil
		}
		e.blocksFromID = func(i int, req []byte) ([]byte, error) {
			if bytes.HasSuffix([]byte(mode), []byte("empty-block-list")) {
				return (&lsync.GetBlocksFromIDResponse{Blocks: []*blockchain.Block{}}).Encode(), nil
			}
			return (&lsync.GetBlocksFromIDResponse{Blocks: []*blockchain.Block{filler}}).Encode(), nil
		}
		cctx, cancel := context.WithTimeout(context.Background(), 20*time.Second)
		err = w.n.Conn.Connect(cctx, *e.info)
		cancel()
		if err != nil {
			k.Inconclusive("connect:" + err.Error())
			return
		}
		ctx, stop := context.WithCancel(context.Background())
		defer stop()
		done := make(chan struct{})
		received := atomic.Int64{}
		var perr atomic.Value
		k.Stage([]byte(mode))
		k.Eval(1)
		k.Count("calls:"+entry, 1)
		if entry == "sync.Downloader.Start" {
			d := lsync.NewDownloader(ctx, w.n.Log, w.n.Conn, w.n.Chain, e.info.ID, tip.Header.ID, tip.Header.Height, forged.Header.ID, forged.Header.Height)
			go d.Start()
			go func() {
				for dl := range d.Downloaded() { // what downloadAndValidate / downloadAndProcess do
					_ = dl
					received.Add(1)
				}
				close(done)
			}()
		} else {
			go func() {
				if err := w.n.Exec.VerifProcess(ctx, forged, e.info.ID); err != nil {
					perr.Store(err.Error())
				}
				close(done)
			}()
		}
		verdict := ""
		deadline := time.After(120 * time.Second)
	wait:
		for {
			select {
			case <-done:
				verdict = "terminated"
				break wait
			case <-deadline:
				verdict = "watchdog"
				break wait
			case <-time.After(50 * time.Millisecond):
				if e.stalled() >= stallLimit {
					verdict = "stalled"
					break wait
				}
			}
		}
		wit := map[string]any{"mode": mode, "getBlocksFromId_requests": e.requests(), "identical_exchanges_in_a_row": e.stalled(), "items_handed_to_the_syncer": received.Load()}
		if e, ok := perr.Load().(string); ok {
			wit["process_error"] = e
		}
		switch verdict {
		case "terminated":
			k.Count("download_terminated:"+mode, 1)
			k.Nontrivial("downloader|" + mode + "|terminated")
		case "stalled":
			k.Violation("hang:"+entry+":peer-answers-"+mode[bytes.LastIndexByte([]byte(mode), ':')+1:],
				fmt.Sprintf("the download loop repeated the identical getBlocksFromId request %d times, got the identical answer each time and neither ended nor advanced: it never terminates (10 requests/s, the consensus loop waits for it)", stallLimit), wit)
			k.Nontrivial("downloader|" + mode + "|stalled")
			h.MarkHung(entry + ":" + mode)
		default:
			k.Inconclusive("downloader-watchdog:" + mode)
		}
		stop()
		select {
		case <-done:
		case <-time.After(30 * time.Second):
			k.Inconclusive("downloader-did-not-stop-after-cancel")
		}
		w.restore(k)
		k.Sample(wit)
	})

	// ------------------------------------------------------------ real client functions against hostile answers
	c.Cases("sync-client-net", c.N(16, 200), func(k *mon.Case) {
		w := getWorld(k)
		if w == nil {
			return
		}
		r := k.R
		e, err := newEvilPeer(c.Shard(), w.n.Cfg.ChainID)
		if err != nil {
			k.Inconclusive("evil-peer:" + err.Error())
			return
		}
		defer e.conn.Stop() //nolint:errcheck
		cctx, cancel := context.WithTimeout(context.Background(), 20*time.Second)
		err = w.n.Conn.Connect(cctx, *e.info)
		cancel()
		if err != nil {
			k.Inconclusive("connect:" + err.Error())
			return
		}
		from := len(w.chain) - 2 - r.Intn(3)
		cw := &capWriter{}
		w.n.Exec.VerifSyncer().HandleRPCEndpointGetBlocksFromID()(cw, &p2p.Request{Data: lsync.VerifEncodeGetBlocksFromIDRequest(w.chain[from].Header.ID), PeerID: hostilePeer})
		honest := cw.data
		sm, _ := hostile.SampleStructureMutants(r, honest, 14)
		muts := append([]hostile.Mutant{{Class: "valid", Data: honest}}, hostile.Truncations(r, honest, 0, 6)[:6]...)
		for _, l := range sm {
			muts = append(muts, hostile.Mutant{Class: l.Class, Data: l.Build()})
		}
		muts = append(muts, hostile.RandomMutants(r, honest, 4)...)
		var cur []byte
		e.blocksFromID = func(int, []byte) ([]byte, error) { return cur, nil }
		e.commonBlock = func([]byte) ([]byte, error) { return cur, nil }
		e.lastBlock = func() ([]byte, error) { return cur, nil }
		ctx := context.Background()
		for _, m := range muts {
			cur = m.Data
			var rerr error
			res := h.Call(k, "sync.requestBlocksFromID", m.Class, m.Data, func() {
				_, rerr = lsync.VerifRequestBlocksFromID(ctx, w.n.Conn, e.info.ID, w.chain[from].Header.ID)
			})
			if !res.Panicked && !res.Skipped {
				k.Nontrivial("requestBlocksFromID|" + classOnly(m.Class) + "|" + errClass(rerr))
			}
		}
		// last block / common block answers: a block resp. an id envelope, mutated
		lb := w.n.Tip().Encode()
		for _, m := range append(hostile.RandomMutants(r, lb, 6), hostile.Mutant{Class: "valid", Data: lb}, hostile.Mutant{Class: "empty", Data: nil}) {
			cur = m.Data
			var rerr error
			res := h.Call(k, "sync.requestLastBlockHeader", m.Class, m.Data, func() { _, rerr = lsync.VerifRequestLastBlockHeader(ctx, w.n.Conn, e.info.ID) })
			if !res.Panicked && !res.Skipped {
				k.Nontrivial("requestLastBlockHeader|" + m.Class + "|" + errClass(rerr))
			}
		}
		cb := (&lsync.GetHighestCommonBlockResponse{ID: w.tipID}).Encode()
		lcsm, _ := hostile.SampleStructureMutants(r, cb, 8)
		csm := []hostile.Mutant{{Class: "valid", Data: cb}, {Class: "empty", Data: nil}}
		for _, l := range lcsm {
			csm = append(csm, hostile.Mutant{Class: l.Class, Data: l.Build()})
		}
		for _, m := range csm {
			cur = m.Data
			var rerr error
			res := h.Call(k, "sync.requestHighestCommonBlock", m.Class, m.Data, func() {
				_, rerr = lsync.VerifRequestHighestCommonBlock(ctx, w.n.Conn, e.info.ID, [][]byte{w.tipID})
			})
			if !res.Panicked && !res.Skipped {
				k.Nontrivial("requestHighestCommonBlock|" + classOnly(m.Class) + "|" + errClass(rerr))
			}
		}
		w.n.Log.TakeErrors()
	})

	// ------------------------------------------------------------ hostile bytes on real streams
	c.Cases("wire", c.N(32, 600), func(k *mon.Case) {
		w := getWorld(k)
		if w == nil {
			return
		}
		r := k.R
		addrs, err := w.n.Conn.MultiAddress()
		if err != nil || len(addrs) == 0 {
			k.Inconclusive("node-address")
			return
		}
		target, err := p2p.AddrInfoFromMultiAddr(addrs[0])
		if err != nil {
			k.Inconclusive("node-address")
			return
		}
		reqID := p2p.VerifReqProtocolID(w.n.Cfg.ChainID, w.n.Conn.Version())
		resID := p2p.VerifResProtocolID(w.n.Cfg.ChainID, w.n.Conn.Version())
		id := "8f2f8d5c-6d55-4b1c-a2d0-3a1f0a1c9e77"
		bases := []struct {
			name  string
			proto string
			data  []byte
		}{
			{"request:getBlocksFromId", "req", p2p.VerifEncodeRequest(id, lsync.RPCEndpointGetBlocksFromID, lsync.VerifEncodeGetBlocksFromIDRequest(w.tipID))},
			{"request:getHighestCommonBlock", "req", p2p.VerifEncodeRequest(id, lsync.RPCEndpointGetHighestCommonBlock, lsync.VerifEncodeGetHighestCommonBlockRequest([][]byte{w.tipID, w.chain[3].Header.ID}))},
			{"request:getLastBlock", "req", p2p.VerifEncodeRequest(id, lsync.RPCEndpointGetLastBlock, nil)},
			{"response:getBlocksFromId", "res", p2p.VerifEncodeResponse(id, lsync.RPCEndpointGetBlocksFromID, w.n.Tip().Encode(), "")},
		}
		b := bases[r.Intn(len(bases))]
		sm, _ := hostile.SampleStructureMutants(r, b.data, 3)
		muts := []hostile.Mutant{{Class: "valid", Data: b.data}}
		for _, l := range sm {
			muts = append(muts, hostile.Mutant{Class: l.Class, Data: l.Build()})
		}
		tr := hostile.Truncations(r, b.data, 1<<20, 0)
		muts = append(muts, tr[r.Intn(len(tr))], hostile.RandomMutants(r, b.data, 1)[0])
		// hostile inner body inside a well-formed request envelope
		if b.proto == "req" {
			junk := make([]byte, r.Intn(80))
			r.Read(junk)
			muts = append(muts, hostile.Mutant{Class: "well-formed-envelope-junk-body", Data: p2p.VerifEncodeRequest(id, []string{lsync.RPCEndpointGetBlocksFromID, lsync.RPCEndpointGetHighestCommonBlock}[r.Intn(2)], junk)})
		}
		for _, m := range muts {
			host, err := libp2p.New(libp2p.ListenAddrStrings(freshListen(c.Shard())))
			if err != nil {
				k.Inconclusive("raw-host")
				return
			}
			gotResponse := make(chan struct{}, 4)
			host.SetStreamHandler(resID, func(s network.Stream) {
				s.Close()
				gotResponse <- struct{}{}
			})
			cctx, cancel := context.WithTimeout(context.Background(), 20*time.Second)
			err = host.Connect(cctx, peer.AddrInfo(*target))
			if err != nil {
				cancel()
				host.Close()
				k.Inconclusive("raw-connect")
				continue
			}
			w.n.Log.TakeErrors()
			w.n.Log.TakeWarnings()
			k.Stage(m.Data)
			k.Eval(1)
			proto := reqID
			entry := "p2p.onRequest(stream)"
			if b.proto == "res" {
				proto, entry = resID, "p2p.onResponse(stream)"
			}
			k.Count("calls:"+entry, 1)
			s, err := host.NewStream(cctx, target.ID, proto)
			if err == nil {
				s.Write(m.Data) //nolint:errcheck
				s.Close()
			}
			cancel()
			// the node handles the stream on its own goroutines: wait until it reacted (a log
			// line, an answer) - a panic there kills this process and is attributed by the driver
			reacted := "no-observable-reaction"
			deadline := time.Now().Add(3 * time.Second)
			for time.Now().Before(deadline) {
				select {
				case <-gotResponse:
					reacted = "answered"
				default:
				}
				if reacted == "answered" {
					break
				}
				if es, ws := w.n.Log.TakeErrors(), w.n.Log.TakeWarnings(); len(es)+len(ws) > 0 {
					reacted = "logged"
					break
				}
				time.Sleep(5 * time.Millisecond)
			}
			k.Count("wire_reaction:"+entry+":"+reacted, 1)
			k.Nontrivial("wire|" + b.name + "|" + classOnly(m.Class) + "|" + reacted)
			host.Close()
		}
	})
}
