// Worker for property C18 - peer penalties accumulate into bans that are enforced and expire
// (pkg/p2p connectionGater, Peer.addPenalty/banPeer, rateLimit, MessageProtocol).
//
// Direct tier: connectionGater / rateLimit objects driven without sockets against a small
// model (per-IP sum, ban threshold 100, blacklist).  "Before / after expiry" is decided from
// unix seconds recorded around each call: a banned IP MUST be refused only while
// unix(after the call) <= unix(before the banning call) + expiration, it MUST be accepted
// again only once the sweeper has had >= 50 intervals (we allow 400) past the latest possible
// expiry; anything between is counted, not judged.
// Network tier: real p2p.Connections on 127.0.0.2/3/4; a trigger (malformed envelope, unknown
// procedure, invalid sync-style request, message rate above the limit, accumulated
// ApplyPenalty) must leave the sender banned, disconnected and unable to reconnect until the
// ban expires; legal traffic must leave no score.
package main

import (
	"bytes"
	"context"
	"crypto/ed25519"
	"encoding/binary"
	"fmt"
	"net/netip"
	"runtime/debug"
	"sort"
	"strings"
	"sync"
	"sync/atomic"
	"time"

	"github.com/libp2p/go-libp2p/core/crypto"
	"github.com/libp2p/go-libp2p/core/network"
	"github.com/libp2p/go-libp2p/core/peer"
	ma "github.com/multiformats/go-multiaddr"

	"github.com/LiskHQ/lisk-engine/pkg/p2p"

	"verifharness/internal/mon"
	"verifharness/internal/p2pnet"
)

const (
	sweep        = 50 * time.Millisecond
	graceSweeps  = 400 // must-accept horizon: this many sweep intervals past the latest possible expiry
	pollInterval = 20 * time.Millisecond
	watchdog     = 30 * time.Second
)

func unix() int64 { return time.Now().Unix() }

// ---------------------------------------------------------------------------------------
// direct tier: gater

// ipForm is one way of writing an IP in a multiaddr; canon is the key the property speaks of.
type ipForm struct {
	Addr  string // multiaddr text
	Canon string // canonical IP (v4-mapped unmapped)
}

func mkForm(ip string, r interface{ Intn(int) int }) ipForm {
	a := netip.MustParseAddr(ip)
	canon := a.Unmap().String()
	proto := "ip4"
	txt := a.String()
	if a.Is6() { // includes v4-mapped
		proto = "ip6"
		if a.Is4In6() {
			txt = "::ffff:" + a.Unmap().String()
		}
	}
	s := "/" + proto + "/" + txt
	switch r.Intn(4) {
	case 0:
		s += fmt.Sprintf("/tcp/%d", 1+r.Intn(65000))
	case 1:
		s += fmt.Sprintf("/udp/%d/quic-v1", 1+r.Intn(65000))
	case 2:
		s += fmt.Sprintf("/tcp/%d/p2p/%s", 1+r.Intn(65000), fixedPeerIDs[r.Intn(len(fixedPeerIDs))])
	}
	return ipForm{Addr: s, Canon: canon}
}

var fixedPeerIDs = func() []string {
	var out []string
	for i := 0; i < 4; i++ {
		seed := make([]byte, ed25519.SeedSize)
		seed[0] = byte(i + 1)
		k := ed25519.NewKeyFromSeed(seed)
		priv, _, err := crypto.KeyPairFromStdKey(&k)
		if err != nil {
			panic(err)
		}
		id, err := peer.IDFromPrivateKey(priv)
		if err != nil {
			panic(err)
		}
		out = append(out, id.String())
	}
	return out
}()

// ipPool: each entry lists equivalent spellings of one IP.
func genIPs(k *mon.Case, n int) [][]string {
	var out [][]string
	used := map[string]bool{}
	for len(out) < n {
		var forms []string
		switch k.R.Intn(3) {
		case 0, 1: // v4 (+ its v4-mapped v6 spelling)
			v4 := fmt.Sprintf("%d.%d.%d.%d", 1+k.R.Intn(222), k.R.Intn(256), k.R.Intn(256), 1+k.R.Intn(254))
			forms = []string{v4, "::ffff:" + v4}
		default:
			v6 := fmt.Sprintf("2001:db8:%x:%x::%x", k.R.Intn(0xffff), k.R.Intn(0xffff), 1+k.R.Intn(0xfffe))
			forms = []string{v6}
		}
		c := netip.MustParseAddr(forms[0]).Unmap().String()
		if used[c] {
			continue
		}
		used[c] = true
		out = append(out, forms)
	}
	return out
}

type ipModel struct {
	canon       string
	sum         int   // accumulated since the last clean state
	banned      bool  // sum reached 100 at some point since the last clean state
	banBefore   int64 // unix before the latest call that (re)armed the ban
	banAfter    int64 // unix after it
	blacklisted bool
	maybeSwept  bool // a ban may already have been swept (we are past the guaranteed window)
}

type gaterRun struct {
	k     *mon.Case
	g     *p2p.VerifGater
	exp   int64 // seconds
	steps []string
	mu    sync.Mutex
}

func (gr *gaterRun) log(f string, a ...any) {
	gr.mu.Lock()
	if len(gr.steps) < 60 {
		gr.steps = append(gr.steps, fmt.Sprintf(f, a...))
	}
	gr.mu.Unlock()
}

func (gr *gaterRun) witness(extra map[string]any) map[string]any {
	gr.mu.Lock()
	defer gr.mu.Unlock()
	w := map[string]any{"expiration_s": gr.exp, "sweep_ms": int(sweep / time.Millisecond), "history": append([]string(nil), gr.steps...)}
	for k, v := range extra {
		w[k] = v
	}
	return w
}

type gates struct{ Dial, Accept, SecuredIn, SecuredOut, PeerDial bool }

func (gr *gaterRun) intercept(f ipForm) gates {
	addr := ma.StringCast(f.Addr)
	cma := p2pnet.CMA{Remote: addr}
	return gates{
		Dial:       gr.g.InterceptAddrDial(peer.ID("x"), addr),
		Accept:     gr.g.InterceptAccept(cma),
		SecuredIn:  gr.g.InterceptSecured(network.DirInbound, peer.ID("x"), cma),
		SecuredOut: gr.g.InterceptSecured(network.DirOutbound, peer.ID("x"), cma),
		PeerDial:   gr.g.InterceptPeerDial(peer.ID("x")),
	}
}

// check calls the gates for one spelling of the IP and judges them against the model.
func (gr *gaterRun) check(m *ipModel, f ipForm) {
	k := gr.k
	gs := gr.intercept(f)
	after := unix()
	allAccept := gs.Dial && gs.Accept && gs.SecuredIn
	allRefuse := !gs.Dial && !gs.Accept && !gs.SecuredIn
	gr.log("check %s -> dial=%v accept=%v securedIn=%v (unix %d)", f.Addr, gs.Dial, gs.Accept, gs.SecuredIn, after)
	fam := family(f)
	switch {
	case m.blacklisted:
		k.Count("check_blacklisted", 1)
		if !allRefuse {
			k.Violation("blacklisted-ip-accepted:"+fam, "a gate returned true for a permanently blacklisted IP",
				gr.witness(map[string]any{"addr": f.Addr, "gates": gs}))
		}
	case !m.banned:
		k.Count("check_unbanned", 1)
		if !allAccept {
			k.Violation("unbanned-ip-refused:"+fam, "a gate returned false for an IP whose accumulated penalty is below 100 and which is not blacklisted",
				gr.witness(map[string]any{"addr": f.Addr, "gates": gs, "model_sum": m.sum}))
		}
	case after <= m.banBefore+gr.exp:
		k.Count("check_banned_within_guaranteed_window", 1)
		if !allRefuse {
			k.Violation("banned-ip-accepted-before-expiry:"+fam+":"+gateNames(gs), "a gate returned true for an IP whose accumulated penalty reached 100 and whose ban cannot have expired yet",
				gr.witness(map[string]any{"addr": f.Addr, "gates": gs, "model_sum": m.sum, "ban_before_unix": m.banBefore, "check_after_unix": after}))
		}
	default:
		k.Count("check_in_unjudged_interval_around_expiry", 1)
		m.maybeSwept = true
	}
	if !gs.SecuredOut || !gs.PeerDial {
		k.Count("outbound_secured_or_peerdial_false", 1)
	}
}

func gateNames(g gates) string {
	var s []string
	if g.Dial {
		s = append(s, "InterceptAddrDial")
	}
	if g.Accept {
		s = append(s, "InterceptAccept")
	}
	if g.SecuredIn {
		s = append(s, "InterceptSecured(inbound)")
	}
	return strings.Join(s, "+")
}

func family(f ipForm) string {
	a := netip.MustParseAddr(f.Canon)
	switch {
	case strings.HasPrefix(f.Addr, "/ip6/::ffff:"):
		return "v4-mapped"
	case a.Is4():
		return "v4"
	default:
		return "v6"
	}
}

// penalty applies one penalty and judges the returned score.
func (gr *gaterRun) penalty(m *ipModel, f ipForm, amount int) {
	k := gr.k
	before := unix()
	got, err := gr.g.AddPenalty(ma.StringCast(f.Addr), amount)
	after := unix()
	gr.log("addPenalty %s %d -> %d err=%v (unix %d..%d)", f.Addr, amount, got, err, before, after)
	k.Count("penalties", 1)
	if err != nil {
		k.Violation("addPenalty-error:"+family(f), "addPenalty returned an error for a plain IP multiaddr on a started gater",
			gr.witness(map[string]any{"addr": f.Addr, "error": err.Error()}))
		return
	}
	want := m.sum + amount
	certain := !m.banned || (after <= m.banBefore+gr.exp && !m.maybeSwept)
	switch {
	case got == want:
		m.sum = want
	case !certain && got == amount:
		// the earlier ban had been swept: clean restart
		k.Count("penalty_after_silent_expiry", 1)
		m.sum, m.banned, m.maybeSwept = amount, false, false
	default:
		k.Violation("penalty-not-accumulated:"+family(f), "addPenalty did not return the previous per-IP total plus the penalty",
			gr.witness(map[string]any{"addr": f.Addr, "amount": amount, "returned": got, "model_total": want, "certain": certain}))
		m.sum = got
	}
	if m.sum >= p2p.MaxPenaltyScore {
		if !m.banned {
			k.Count("bans", 1)
		}
		m.banned = true
		m.banBefore, m.banAfter = before, after
		m.maybeSwept = false
	}
}

// awaitExpiry polls until the IP is accepted again; judged only at the horizon.
func (gr *gaterRun) awaitExpiry(m *ipModel, f ipForm) bool {
	k := gr.k
	horizon := m.banAfter + gr.exp + 1 + int64(graceSweeps*sweep/time.Second)
	for {
		before := unix()
		gs := gr.intercept(f)
		if gs.Dial && gs.Accept && gs.SecuredIn {
			after := unix()
			gr.log("accepted again %s at unix %d..%d (ban armed at %d..%d)", f.Addr, before, after, m.banBefore, m.banAfter)
			if after <= m.banBefore+gr.exp {
				k.Violation("banned-ip-accepted-before-expiry:"+family(f)+":during-wait", "a banned IP was accepted again before its ban can have expired",
					gr.witness(map[string]any{"addr": f.Addr, "ban_before_unix": m.banBefore, "accepted_after_unix": after}))
			}
			return true
		}
		if before > horizon {
			k.Violation("ban-never-expires:"+family(f)+":"+gateNames(gs), "a gate still refuses the IP long after its ban expired (>= 400 sweep intervals past the latest possible expiry)",
				gr.witness(map[string]any{"addr": f.Addr, "gates": gs, "ban_after_unix": m.banAfter, "now_unix": before}))
			return false
		}
		time.Sleep(pollInterval)
	}
}

func runGaterSequence(k *mon.Case, sub int) {
	r := k.R
	expS := 1 + r.Intn(2)
	rl := p2pnet.NewRecLogger("gater", nil)
	g, err := p2p.VerifNewGater(rl, time.Duration(expS)*time.Second, sweep)
	if err != nil {
		panic(err)
	}
	gr := &gaterRun{k: k, g: g, exp: int64(expS)}
	nIP := 1 + r.Intn(5)
	pool := genIPs(k, nIP)
	models := make([]*ipModel, nIP)
	var bl []string
	for i, forms := range pool {
		models[i] = &ipModel{canon: netip.MustParseAddr(forms[0]).Unmap().String()}
		if nIP > 1 && r.Intn(6) == 0 {
			models[i].blacklisted = true
			bl = append(bl, forms[r.Intn(len(forms))])
		}
	}
	if err := g.Blacklist(bl); err != nil {
		k.Violation("blacklist-rejected-valid-ip", "optionWithBlacklist rejected a valid IP literal", gr.witness(map[string]any{"blacklist": bl, "error": err.Error()}))
		return
	}
	ctx, cancel := context.WithCancel(context.Background())
	var wg sync.WaitGroup
	defer func() { cancel(); wg.Wait() }()

	// not started: penalties must be refused and must not count
	if r.Intn(4) == 0 {
		f := mkForm(pool[0][0], r)
		if _, err := g.AddPenalty(ma.StringCast(f.Addr), 100); err == nil {
			k.Violation("penalty-accepted-before-start", "addPenalty succeeded on a gater that was not started", gr.witness(nil))
		}
		gr.log("addPenalty before start -> error (expected)")
	}
	g.Start(ctx, &wg)
	gr.log("gater: expiration %ds, blacklist %v, %d IPs", expS, bl, nIP)

	pick := func() (int, ipForm) {
		i := r.Intn(nIP)
		return i, mkForm(pool[i][r.Intn(len(pool[i]))], r)
	}
	amounts := []int{1, 5, 10, 25, 33, 49, 50, 51, 99, 100, 101, 150}
	nOps := 6 + r.Intn(20)
	shape := r.Intn(4) // 0: small steps, 1: exact threshold walks, 2: mixed, 3: mixed + pauses
	for op := 0; op < nOps; op++ {
		i, f := pick()
		m := models[i]
		switch x := r.Intn(10); {
		case x < 5:
			amt := amounts[r.Intn(len(amounts))]
			switch shape {
			case 0:
				amt = 1 + r.Intn(30)
			case 1:
				if rest := p2p.MaxPenaltyScore - m.sum; rest > 0 && r.Intn(2) == 0 {
					amt = rest - r.Intn(2) // land exactly on, or one below, the threshold
					if amt <= 0 {
						amt = 1
					}
				}
			}
			gr.penalty(m, f, amt)
			gr.check(m, f)
		case x < 9:
			gr.check(m, f)
		default:
			if shape == 3 {
				time.Sleep(time.Duration(r.Intn(400)) * time.Millisecond)
			}
		}
	}
	// every IP once more, in every spelling
	for i, forms := range pool {
		for _, s := range forms {
			gr.check(models[i], mkForm(s, r))
		}
	}
	// listBannedPeers agrees with the model where the model is certain
	listed := map[string]bool{}
	for _, ip := range g.ListBanned() {
		listed[netip.MustParseAddr(ip.String()).Unmap().String()] = true
	}
	now := unix()
	for _, m := range models {
		if m.banned && now <= m.banBefore+gr.exp && !listed[m.canon] {
			k.Violation("banned-ip-missing-from-listBannedPeers", "listBannedPeers does not list an IP whose ban cannot have expired",
				gr.witness(map[string]any{"ip": m.canon}))
		}
		if !m.banned && listed[m.canon] {
			k.Violation("unbanned-ip-in-listBannedPeers", "listBannedPeers lists an IP whose accumulated penalty is below 100",
				gr.witness(map[string]any{"ip": m.canon, "model_sum": m.sum}))
		}
	}

	// expiry for one banned IP (half of the sequences that have one)
	var bannedIdx []int
	for i, m := range models {
		if m.banned && !m.blacklisted {
			bannedIdx = append(bannedIdx, i)
		}
	}
	expired := false
	if len(bannedIdx) > 0 && r.Intn(2) == 0 {
		i := bannedIdx[r.Intn(len(bannedIdx))]
		m := models[i]
		f := mkForm(pool[i][r.Intn(len(pool[i]))], r)
		if gr.awaitExpiry(m, f) {
			expired = true
			k.Count("expiries_observed", 1)
			if sc, ex, ok := g.Score(m.canon); ok {
				k.Violation("score-not-clean-after-expiry:"+family(f), "after the ban expired and the IP is accepted again the gater still holds a score for it",
					gr.witness(map[string]any{"ip": m.canon, "score": sc, "expiration": ex}))
			}
			m.sum, m.banned, m.maybeSwept = 0, false, false
			f2 := mkForm(pool[i][r.Intn(len(pool[i]))], r)
			gr.penalty(m, f2, 99)
			gr.check(m, f2)
			gr.penalty(m, f, 1)
			gr.check(m, f)
			// other IPs keep their state
			for j, forms := range pool {
				if j != i {
					gr.check(models[j], mkForm(forms[0], r))
				}
			}
		}
	}
	// blacklisted IPs stay refused whatever happened
	for i, forms := range pool {
		if models[i].blacklisted {
			gr.check(models[i], mkForm(forms[r.Intn(len(forms))], r))
		}
	}
	nb := 0
	for _, m := range models {
		if m.banned {
			nb++
		}
	}
	k.Nontrivial(fmt.Sprintf("ips=%d|bl=%d|banned=%d|shape=%d|expired=%v|exp=%d|ops=%d", nIP, len(bl), nb, shape, expired, expS, nOps/4))
	if sub == 0 {
		k.Sample(gr.witness(map[string]any{"ips": pool, "blacklist": bl}))
	}
}

// ---------------------------------------------------------------------------------------
// direct tier: concurrent callers on one gater

type concOp struct {
	T0, T1 int64 // logical ticks around the call
	U0, U1 int64 // unix around the call
	IP     int
	Amount int // 0 = check
	Score  int
	Accept bool
	Refuse bool
}

func runGaterConcurrent(k *mon.Case, sub int) {
	r := k.R
	const expS = 3
	g, err := p2p.VerifNewGater(p2pnet.NewRecLogger("gater", nil), expS*time.Second, sweep)
	if err != nil {
		panic(err)
	}
	gr := &gaterRun{k: k, g: g, exp: expS}
	ctx, cancel := context.WithCancel(context.Background())
	var swg sync.WaitGroup
	defer func() { cancel(); swg.Wait() }()
	g.Start(ctx, &swg)

	nIP := 1 + r.Intn(3)
	pool := genIPs(k, nIP)
	workers := 2 + r.Intn(7)
	perWorker := 4 + r.Intn(10)
	type job struct {
		ip     int
		form   ipForm
		amount int
	}
	jobs := make([][]job, workers)
	for w := range jobs {
		for j := 0; j < perWorker; j++ {
			ip := r.Intn(nIP)
			jb := job{ip: ip, form: mkForm(pool[ip][r.Intn(len(pool[ip]))], r)}
			if r.Intn(3) != 0 {
				jb.amount = 1 + r.Intn(40)
			}
			jobs[w] = append(jobs[w], jb)
		}
	}
	startUnix := unix()
	ops := make([][]concOp, workers)
	var wg sync.WaitGroup
	start := make(chan struct{})
	for w := 0; w < workers; w++ {
		w := w
		wg.Add(1)
		go func() {
			defer wg.Done()
			<-start
			for _, jb := range jobs[w] {
				o := concOp{IP: jb.ip, Amount: jb.amount}
				o.U0 = unix()
				o.T0 = p2pnet.Tick()
				if jb.amount > 0 {
					sc, err := g.AddPenalty(ma.StringCast(jb.form.Addr), jb.amount)
					if err != nil {
						sc = -1
					}
					o.Score = sc
				} else {
					gs := gr.intercept(jb.form)
					o.Accept = gs.Dial && gs.Accept && gs.SecuredIn
					o.Refuse = !gs.Dial && !gs.Accept && !gs.SecuredIn
				}
				o.T1 = p2pnet.Tick()
				o.U1 = unix()
				ops[w] = append(ops[w], o)
				if len(jobs[w])%2 == 0 {
					// let the other callers in
					time.Sleep(time.Duration(w) * 50 * time.Microsecond)
				}
			}
		}()
	}
	k.Watch("concurrent gater callers", watchdog, func() { close(start); wg.Wait() })
	endUnix := unix()
	var all []concOp
	for _, o := range ops {
		all = append(all, o...)
	}
	k.Count("concurrent_ops", len(all))
	// no entry of this phase can have been swept if the phase ended within the expiration
	if endUnix > startUnix+expS {
		k.Inconclusive("concurrent-phase-longer-than-expiration")
		return
	}
	nBanned := 0
	for ip := 0; ip < nIP; ip++ {
		var pens, checks []concOp
		for _, o := range all {
			if o.IP != ip {
				continue
			}
			if o.Amount > 0 {
				pens = append(pens, o)
			} else {
				checks = append(checks, o)
			}
		}
		wit := func(extra map[string]any) map[string]any {
			w := map[string]any{"ip_spellings": pool[ip], "penalty_calls": pens, "check_calls": checks, "workers": workers}
			for a, b := range extra {
				w[a] = b
			}
			return w
		}
		// returned totals are the prefix sums of some order of the amounts ...
		sort.Slice(pens, func(i, j int) bool { return pens[i].Score < pens[j].Score })
		prev := 0
		okLin := true
		for _, o := range pens {
			if o.Score-prev != o.Amount {
				okLin = false
			}
			prev = o.Score
		}
		// ... that respects real time
		for i := range pens {
			for j := range pens {
				if pens[i].T1 < pens[j].T0 && pens[i].Score >= pens[j].Score {
					okLin = false
				}
			}
		}
		if !okLin {
			k.Violation("concurrent-penalties-not-linearizable", "the totals returned by concurrent addPenalty calls for one IP are not the running sums of any order of the penalties consistent with real time (lost or duplicated update)",
				wit(nil))
			continue
		}
		// gates: banArmed = the call that returned the first total >= 100
		var arm *concOp
		for i := range pens {
			if pens[i].Score >= p2p.MaxPenaltyScore {
				arm = &pens[i]
				break
			}
		}
		if arm != nil {
			nBanned++
		}
		for _, c := range checks {
			mixed := !c.Accept && !c.Refuse
			switch {
			case arm == nil:
				if !c.Accept {
					k.Violation("unbanned-ip-refused:concurrent", "a gate refused an IP whose penalties never reached 100", wit(map[string]any{"check": c}))
				}
			case c.T1 < arm.T0:
				if !c.Accept {
					k.Violation("unbanned-ip-refused:concurrent", "a gate refused an IP before the penalty call that made its total reach 100 had even started", wit(map[string]any{"check": c, "arming_call": *arm}))
				}
			case c.T0 > arm.T1 && c.U1 <= arm.U0+expS:
				if !c.Refuse {
					k.Violation("banned-ip-accepted-before-expiry:concurrent", "a gate accepted an IP after the penalty call that made its total reach 100 had returned", wit(map[string]any{"check": c, "arming_call": *arm}))
				}
			default:
				if mixed {
					k.Count("concurrent_check_overlapping_ban_mixed_gates", 1)
				}
			}
		}
	}
	k.Nontrivial(fmt.Sprintf("conc|ips=%d|workers=%d|banned=%d|ops=%d", nIP, workers, nBanned, len(all)/16))
	if sub == 0 {
		k.Sample(map[string]any{"ips": pool, "workers": workers, "ops": len(all), "banned_ips": nBanned})
	}
}

// ---------------------------------------------------------------------------------------
// direct tier: rate limiter object on a Peer without sockets

// runGaterRenew: penalties that hit an IP whose ban has just run out but whose entry the sweeper
// has not removed yet. On such an entry a penalty brings the total to >= 100 again (AddPenalty
// reports it), so the IP is banned for a further full period from that moment: every gate must
// refuse it while unix(after the gate call) <= unix(before the penalty) + expiration. Many IPs
// are banned within one second and penalised again from several goroutines right after the
// second in which their bans run out, while the sweeper is at work on the same entries.
func runGaterRenew(k *mon.Case) {
	r := k.R
	const expS = 1
	sw := []time.Duration{5, 20, 40}[r.Intn(3)] * time.Millisecond
	g, err := p2p.VerifNewGater(p2pnet.NewRecLogger("gater", nil), expS*time.Second, sw)
	if err != nil {
		panic(err)
	}
	gr := &gaterRun{k: k, g: g, exp: expS}
	ctx, cancel := context.WithCancel(context.Background())
	var swg sync.WaitGroup
	defer func() { cancel(); swg.Wait() }()
	g.Start(ctx, &swg)
	nIP := 600 + r.Intn(1800)
	forms := make([]ipForm, nIP)
	for i := range forms {
		forms[i] = mkForm(fmt.Sprintf("10.%d.%d.%d", 1+r.Intn(3), i/250, 1+i%250), r)
	}
	// ban them all inside one second
	for t := unix(); unix() == t; {
		time.Sleep(time.Millisecond)
	}
	u0 := unix()
	for _, f := range forms {
		if sc, err := g.AddPenalty(ma.StringCast(f.Addr), 100); err != nil || sc < 100 {
			k.Inconclusive("renew:initial-ban-failed")
			return
		}
	}
	u1 := unix()
	if u1 != u0 {
		k.Count("renew_bans_spread_over_two_seconds", 1)
	}
	workers := 2 + r.Intn(7)
	var renewed, fresh, bad atomic.Int64
	var mu sync.Mutex
	var wit map[string]any
	var wg sync.WaitGroup
	for w := 0; w < workers; w++ {
		w := w
		wg.Add(1)
		go func() {
			defer wg.Done()
			// the bans carry expiration <= u1+expS: they have run out once unix() > u1+expS
			for unix() <= u1+expS {
				time.Sleep(200 * time.Microsecond)
			}
			for i := w; i < nIP; i += workers {
				f := forms[i]
				b0 := unix()
				sc, err := g.AddPenalty(ma.StringCast(f.Addr), 1)
				if err != nil {
					continue
				}
				if sc < 100 {
					fresh.Add(1) // the entry had been swept already: a clean score, nothing to enforce
					continue
				}
				renewed.Add(1)
				gs := gr.intercept(f)
				a1 := unix()
				if (gs.Dial || gs.Accept || gs.SecuredIn) && a1 <= b0+expS {
					bad.Add(1)
					mu.Lock()
					if wit == nil {
						wit = map[string]any{"ip": f.Canon, "multiaddr": f.Addr, "total_reported_by_penalty": sc, "unix_before_penalty": b0, "unix_after_gates": a1, "expiration_s": expS, "gates_open": gateNames(gs), "sweep_interval_ms": sw.Milliseconds(), "ips": nIP, "workers": workers}
					}
					mu.Unlock()
				}
			}
		}()
	}
	k.Watch("gater renew", watchdog, wg.Wait)
	k.Count("renew_penalties_on_expired_unswept_entries", int(renewed.Load()))
	k.Count("renew_penalties_on_swept_entries", int(fresh.Load()))
	if renewed.Load() > 0 {
		k.Nontrivial(fmt.Sprintf("renew/sweep=%dms/workers=%d/renewed>=%d", sw.Milliseconds(), workers, bucket(int(renewed.Load()))))
	}
	if bad.Load() > 0 {
		wit["occurrences"] = bad.Load()
		k.Violation("renewed-ban-not-enforced:penalty-on-expired-unswept-entry", "a penalty brought an IP's total to >= 100 (its earlier ban had run out, the entry was still there), yet the gates admitted the IP within the new ban period", wit)
	}
}

func bucket(n int) int {
	b := 1
	for b*4 <= n {
		b *= 4
	}
	return b
}

func runRateLimitDirect(k *mon.Case) {
	r := k.R
	ctx, cancel := context.WithCancel(context.Background())
	var wg sync.WaitGroup
	lg := p2pnet.NewRecLogger("rl", nil)
	pr, err := p2p.VerifNewPeer(ctx, &wg, lg, []byte(fmt.Sprintf("rl-%d", k.Index)), &p2p.Config{ChainID: p2pnet.ChainID, Version: p2pnet.Version})
	if err != nil {
		cancel()
		k.Inconclusive("peer-create-failed")
		return
	}
	defer func() { cancel(); _ = pr.VerifClose(); wg.Wait() }()
	limit := 1 + r.Intn(8)
	penalty := []int{10, 25, 34, 50, 100}[r.Intn(5)]
	procsN := 1 + r.Intn(2)
	procs := []string{"p0", "p1"}[:procsN]
	rl, err := p2p.VerifNewRateLimit(lg, pr, procs, limit, penalty)
	if err != nil {
		panic(err)
	}
	g := pr.VerifGater()
	nPeers := 1 + r.Intn(3)
	ips := genIPs(k, nPeers)
	type pm struct {
		id    peer.ID
		addr  ma.Multiaddr
		canon string
		cnt   map[string]int
	}
	peers := make([]*pm, nPeers)
	for i := range peers {
		id, _ := peer.Decode(fixedPeerIDs[i])
		f := ipForm{Canon: netip.MustParseAddr(ips[i][0]).Unmap().String()}
		proto := "ip4"
		if netip.MustParseAddr(ips[i][0]).Is6() {
			proto = "ip6"
		}
		peers[i] = &pm{id: id, addr: ma.StringCast(fmt.Sprintf("/%s/%s/tcp/%d", proto, ips[i][0], 4000+i)), canon: f.Canon, cnt: map[string]int{}}
	}
	score := map[string]int{}
	var hist []string
	n := 10 + r.Intn(60)
	maxScore := 0
	for step := 0; step < n; step++ {
		p := peers[r.Intn(nPeers)]
		proc := procs[r.Intn(procsN)]
		// exactly what onRequest/onResponse do for one message
		rl.IncreaseCounter(proc, p.id)
		err := rl.CheckLimit(proc, p.id, p.addr)
		p.cnt[proc]++
		penalised := false
		if p.cnt[proc] > limit {
			score[p.canon] += penalty
			p.cnt[proc] = 0
			penalised = true
		}
		if len(hist) < 80 {
			hist = append(hist, fmt.Sprintf("msg %s from %s -> err=%v model: counter=%d score=%d penalised=%v", proc, p.canon, err, p.cnt[proc], score[p.canon], penalised))
		}
		k.Count("ratelimit_direct_messages", 1)
		if penalised {
			k.Count("ratelimit_direct_penalties", 1)
		}
		gotCnt := rl.Counter(proc, p.id)
		gotScore, gotExp, has := g.Score(p.canon)
		wit := map[string]any{"limit": limit, "penalty": penalty, "history": hist, "peer_ip": p.canon, "procedure": proc,
			"counter": gotCnt, "model_counter": p.cnt[proc], "score": gotScore, "has_entry": has, "model_score": score[p.canon], "error": fmt.Sprint(err)}
		if err != nil {
			k.Violation("ratelimit-checkLimit-error", "checkLimit returned an error for a well-formed peer address", wit)
			return
		}
		if gotCnt != p.cnt[proc] {
			k.Violation("ratelimit-counter-mismatch", "the per-peer message counter differs from the number of messages since the last penalty/reset", wit)
			return
		}
		if gotScore != score[p.canon] || (has != (score[p.canon] > 0)) {
			key := "ratelimit-penalty-missing-or-wrong-above-limit"
			if score[p.canon] == 0 {
				key = "ratelimit-penalty-within-limit"
			}
			k.Violation(key, "the score of the sender's IP differs from penalty x (number of times its counter exceeded the limit)", wit)
			return
		}
		banned := gotExp != -1 && has
		if banned != (score[p.canon] >= p2p.MaxPenaltyScore) {
			k.Violation("ratelimit-ban-threshold", "the sender's IP is banned although its score is below 100, or not banned although it reached 100", wit)
			return
		}
		if score[p.canon] > maxScore {
			maxScore = score[p.canon]
		}
	}
	k.Nontrivial(fmt.Sprintf("rl|limit=%d|penalty=%d|peers=%d|procs=%d|max=%d", limit, penalty, nPeers, procsN, maxScore/50))
	k.Sample(map[string]any{"limit": limit, "penalty": penalty, "peers": nPeers, "messages": n, "history_head": hist[:min(len(hist), 6)]})
}

// ---------------------------------------------------------------------------------------
// network tier

const (
	maxAttempts = 4 // 1 + messageMaxRetries
	netExp      = 4 // seconds
	netTimeout  = 300 * time.Millisecond
	rlLimit     = 5
)

type netScenario struct {
	k           *mon.Case
	trigger     string
	V, O, B, O2 *p2pnet.Node // O2: a second peer (own identity) behind the offender's IP
	served      atomic.Int64 // V's "ok" handler invocations for requests from O
	servedB     atomic.Int64
	quic        bool
	bigSeen     atomic.Int64
	syncInvalid atomic.Int64 // invalid sync-style requests seen by the victim's handler
	hist        []string
	hmu         sync.Mutex
	gctx        context.Context
	gcancel     context.CancelFunc
	gwg         sync.WaitGroup
	rlPen       int
	interval    time.Duration
	okCalls     int // "ok" request messages sent O -> V
	okSeq       int
}

func (ns *netScenario) log(f string, a ...any) {
	ns.hmu.Lock()
	if len(ns.hist) < 80 {
		ns.hist = append(ns.hist, fmt.Sprintf("[unix %d] ", unix())+fmt.Sprintf(f, a...))
	}
	ns.hmu.Unlock()
}

func (ns *netScenario) wit(extra map[string]any) map[string]any {
	ns.hmu.Lock()
	defer ns.hmu.Unlock()
	w := map[string]any{"trigger": ns.trigger, "victim": "127.0.0.2", "offender": "127.0.0.3", "ban_expiration_s": netExp, "history": append([]string(nil), ns.hist...),
		"victim_log_counts": ns.V.Logger.Counts()}
	for a, b := range extra {
		w[a] = b
	}
	return w
}

func waitUntil(d time.Duration, cond func() bool) bool {
	deadline := time.Now().Add(d)
	for {
		if cond() {
			return true
		}
		if time.Now().After(deadline) {
			return false
		}
		time.Sleep(pollInterval)
	}
}

func (ns *netScenario) startNode(ip string, victim bool, blacklist []string) (*p2pnet.Node, error) {
	seed := "c18-" + ip // "ip#tag": same address, another identity
	if i := strings.IndexByte(ip, '#'); i >= 0 {
		ip = ip[:i]
	}
	return p2pnet.StartNode(p2pnet.NodeOptions{
		IP: ip, Seed: seed, Blacklist: blacklist, QUIC: ns.quic,
		Setup: func(c *p2p.ExtendedConnection) {
			lim, pen := 1<<30, 0
			if victim {
				lim, pen = rlLimit, ns.rlPen
			}
			must(c.RegisterRPCHandler("ok", func(w p2p.ResponseWriter, req *p2p.Request) {
				if victim {
					if ns.O != nil && req.PeerID == ns.O.ID() {
						ns.served.Add(1)
					} else {
						ns.servedB.Add(1)
					}
				}
				w.Write([]byte("ok"))
			}, p2p.WithRPCMessageCounter(lim, pen)))
			// large but well-formed traffic (a sync batch of blocks): answers with as many bytes as the
			// first four bytes of the request say
			must(c.RegisterRPCHandler("big", func(w p2p.ResponseWriter, req *p2p.Request) {
				n := 0
				if len(req.Data) >= 4 {
					n = int(binary.BigEndian.Uint32(req.Data[:4]))
				}
				if victim {
					ns.bigSeen.Add(int64(len(req.Data)))
				}
				w.Write(bytes.Repeat([]byte{0x5a}, n))
			}, p2p.WithRPCMessageCounter(1<<30, 0)))
			// sync-style endpoint: like pkg/consensus/sync it bans the sender of an invalid request
			must(c.RegisterRPCHandler("getBlocksFromID", func(w p2p.ResponseWriter, req *p2p.Request) {
				if len(req.Data) != 34 || req.Data[0] != 0x0a || req.Data[1] != 0x20 { // {1: bytes(32)}
					if victim {
						ns.syncInvalid.Add(1)
					}
					c.BanPeer(req.PeerID)
					return
				}
				w.Write([]byte("blocks"))
			}, p2p.WithRPCMessageCounter(1<<30, 0)))
			c.VerifMessageProtocol().VerifSetTimeout(netTimeout)
			if victim && ns.interval > 0 {
				c.VerifMessageProtocol().VerifSetRateInterval(ns.interval)
			}
		},
	})
}

func must(err error) {
	if err != nil {
		panic(err)
	}
}

func (ns *netScenario) raw(from, to *p2pnet.Node, response bool, wire []byte) error {
	ctx, cancel := context.WithTimeout(context.Background(), 10*time.Second)
	defer cancel()
	pid := p2p.VerifReqProtocolID(p2pnet.ChainID, p2pnet.Version)
	if response {
		pid = p2p.VerifResProtocolID(p2pnet.ChainID, p2pnet.Version)
	}
	s, err := from.Conn.NewStream(ctx, to.ID(), pid)
	if err != nil {
		return err
	}
	if _, err := s.Write(wire); err != nil {
		_ = s.Reset()
		return err
	}
	return s.Close()
}

// request sends one well-formed request under the deadlock rule.  Its context expires before the
// per-attempt response timeout, so RequestFrom cannot retry: one call = at most one message.
func (ns *netScenario) request(from, to *p2pnet.Node, proc string, data []byte) (string, error) {
	var resp p2p.Response
	if from == ns.O && to == ns.V && proc == "ok" {
		ns.okCalls += maxAttempts // upper bound on the messages this call can have sent
	}
	ns.k.Watch("RequestFrom", watchdog, func() {
		ctx, cancel := context.WithTimeout(context.Background(), netTimeout*2/3)
		defer cancel()
		resp = from.Conn.RequestFrom(ctx, to.ID(), proc, data)
	})
	return string(resp.Data()), resp.Error()
}

// sendOK sends exactly one well-formed "ok" request message from the offender to the victim on a
// raw stream (RequestFrom may retry and so send several).  The victim's reply reaches the
// offender as a response to an unknown request ID, which is only logged there.
func (ns *netScenario) sendOK() error {
	ns.okCalls++
	ns.okSeq++
	id := fmt.Sprintf("00000000-0000-4000-8000-%012d", ns.okSeq)
	return ns.raw(ns.O, ns.V, false, p2p.VerifEncodeRequest(id, "ok", []byte("hello")))
}

// settled waits until the victim has handled every "ok" request the offender has sent so far.
func (ns *netScenario) settled(d time.Duration) bool {
	return waitUntil(d, func() bool { return ns.served.Load() >= int64(ns.okCalls) })
}

func (ns *netScenario) bannedAtV(ip string) bool {
	for _, b := range ns.V.Conn.VerifPeer().VerifGater().ListBanned() {
		if b.String() == ip {
			return true
		}
	}
	return false
}

func (ns *netScenario) remoteAddrsAtV() []string {
	var out []string
	for _, c := range ns.V.Conn.ConnsToPeer(ns.O.ID()) {
		out = append(out, c.RemoteMultiaddr().String())
	}
	return out
}

// vSeesOfrom: some connection V has to O comes from the given IP.
func (ns *netScenario) vSeesOfrom(ip string) bool {
	for _, a := range ns.remoteAddrsAtV() {
		if strings.HasPrefix(a, "/ip4/"+ip+"/") {
			return true
		}
	}
	return false
}

func (ns *netScenario) stop() {
	for _, n := range []*p2pnet.Node{ns.O, ns.O2, ns.B, ns.V} {
		if n != nil {
			n.Stop()
		}
	}
	if ns.gcancel != nil {
		ns.gcancel()
		ns.gwg.Wait()
	}
}

var triggers = []string{
	"malformed-request-envelope", "unknown-procedure-request", "malformed-response-envelope", "unknown-procedure-response",
	"invalid-sync-request:nil-data", "invalid-sync-request:undecodable", "invalid-sync-request:wrong-id-length",
	"rate-limit:penalty-100", "rate-limit:penalty-50x2", "apply-penalty:accumulated", "ban-peer-api",
}

func runNetBan(k *mon.Case) {
	ns := &netScenario{k: k, trigger: triggers[k.Index%len(triggers)], rlPen: 100, interval: time.Hour}
	if ns.trigger == "rate-limit:penalty-50x2" {
		ns.rlPen = 50
	}
	r := k.R
	withB := r.Intn(2) == 0
	// one case in three: the offender is connected twice (TCP one way, QUIC the other way)
	ns.quic = r.Intn(3) == 0
	var err error
	defer ns.stop()
	if ns.V, err = ns.startNode("127.0.0.2", true, nil); err == nil {
		ns.gctx, ns.gcancel = context.WithCancel(context.Background())
		ns.V.Conn.VerifPeer().VerifGater().Retune(ns.gctx, &ns.gwg, netExp*time.Second, sweep)
		if ns.O, err = ns.startNode("127.0.0.3", false, nil); err == nil && withB {
			ns.B, err = ns.startNode("127.0.0.4", false, nil)
		}
	}
	if err != nil {
		k.Inconclusive("node-start-failed")
		return
	}
	bg := context.Background()
	// who dials whom is part of the case
	oDials := r.Intn(2) == 0
	twice := false
	if ns.quic {
		// one peer, two connections with different remote addresses (the victim dials the offender
		// over QUIC while the offender dials the victim over TCP); a ban must leave none of them
		if twice = p2pnet.DoubleConnect(ns.V, ns.O, 12); twice {
			k.Count("offender_connected_twice(tcp+quic)", 1)
		} else {
			k.Count("double_connection_not_established", 1)
		}
	}
	if twice {
		err = nil
	} else if oDials {
		err = ns.O.ConnectTo(bg, ns.V)
	} else {
		err = ns.V.ConnectTo(bg, ns.O)
	}
	if err == nil && withB {
		err = ns.B.ConnectTo(bg, ns.V)
	}
	if err != nil {
		k.Inconclusive("connect-failed")
		return
	}
	// sometimes a second peer sits behind the offender's IP (penalties and bans are per IP)
	if r.Intn(2) == 0 {
		if o2, e := ns.startNode("127.0.0.3#second", false, nil); e == nil {
			ns.O2 = o2
			if e := ns.O2.ConnectTo(bg, ns.V); e != nil || !ns.V.Connected(ns.O2) {
				ns.O2.Stop()
				ns.O2 = nil
			} else {
				same := false
				for _, c := range ns.V.Conn.ConnsToPeer(ns.O2.ID()) {
					if strings.HasPrefix(c.RemoteMultiaddr().String(), "/ip4/127.0.0.3/") {
						same = true
					}
				}
				if !same {
					ns.O2.Stop()
					ns.O2 = nil
				}
			}
		}
	}
	var seenAs []string
	for _, c := range ns.V.Conn.ConnsToPeer(ns.O.ID()) {
		seenAs = append(seenAs, c.RemoteMultiaddr().String())
	}
	ns.log("V sees O as %v (dialled by offender: %v)", seenAs, oDials)
	offIP := "127.0.0.3"
	if len(seenAs) == 0 || !strings.HasPrefix(seenAs[0], "/ip4/"+offIP+"/") {
		k.Inconclusive("offender-not-seen-under-its-own-loopback-ip")
		return
	}
	g := ns.V.Conn.VerifPeer().VerifGater()

	// legal traffic first: must leave no trace
	nLegal := 1 + r.Intn(rlLimit-1)
	if strings.HasPrefix(ns.trigger, "rate-limit") {
		nLegal = 0
	}
	for i := 0; i < nLegal; i++ {
		if err := ns.sendOK(); err != nil {
			k.Count("legal_request_failed_not_judged", 1)
		}
	}
	ns.settled(5 * time.Second)
	if _, _, has := g.Score(offIP); has {
		k.Violation("legal-traffic-penalised:requests-within-limit", "well-formed requests within the rate limit left a score for the sender", ns.wit(map[string]any{"requests": nLegal, "limit": rlLimit}))
		return
	}
	k.Count("legal_requests", nLegal)

	// the offence
	banBefore := unix()
	garbage := []byte{0xff, 0xff, 0xff, 0xff, 0x07}
	switch ns.trigger {
	case "malformed-request-envelope":
		err = ns.raw(ns.O, ns.V, false, garbage)
	case "unknown-procedure-request":
		err = ns.raw(ns.O, ns.V, false, p2p.VerifEncodeRequest("11111111-2222-3333-4444-555555555555", "noSuchProcedure", []byte("x")))
	case "malformed-response-envelope":
		err = ns.raw(ns.O, ns.V, true, garbage)
	case "unknown-procedure-response":
		err = ns.raw(ns.O, ns.V, true, p2p.VerifEncodeResponse("11111111-2222-3333-4444-555555555555", "noSuchProcedure", []byte("x"), ""))
	case "invalid-sync-request:nil-data":
		err = ns.raw(ns.O, ns.V, false, p2p.VerifEncodeRequest("11111111-2222-3333-4444-666666666666", "getBlocksFromID", nil))
	case "invalid-sync-request:undecodable":
		err = ns.raw(ns.O, ns.V, false, p2p.VerifEncodeRequest("11111111-2222-3333-4444-666666666666", "getBlocksFromID", []byte{0x0a, 0xff, 0x01}))
	case "invalid-sync-request:wrong-id-length":
		err = ns.raw(ns.O, ns.V, false, p2p.VerifEncodeRequest("11111111-2222-3333-4444-666666666666", "getBlocksFromID", append([]byte{0x0a, 0x1f}, make([]byte, 31)...)))
	case "rate-limit:penalty-100", "rate-limit:penalty-50x2":
		// the limiter's interval is 1 h here, so "one interval" is the whole scenario
		need := rlLimit + 1
		if ns.rlPen == 50 {
			need = 2 * (rlLimit + 1)
		}
		for ns.served.Load() < int64(need) && ns.okCalls < 4*need && !ns.bannedAtV(offIP) {
			e := ns.sendOK()
			waitUntil(2*time.Second, func() bool { return ns.served.Load() >= int64(ns.okCalls) || ns.bannedAtV(offIP) })
			if ns.bannedAtV(offIP) {
				break // from here on the score may be swept at any time
			}
			// each handled message passed the limiter before its handler ran, and each raw send is one
			// message:  floor(handled/(limit+1)) <= score/penalty <= floor(sent/(limit+1))
			handled := int(ns.served.Load())
			got, _, _ := g.Score(offIP)
			lo, hi := ns.rlPen*(handled/(rlLimit+1)), ns.rlPen*(ns.okCalls/(rlLimit+1))
			if ns.bannedAtV(offIP) {
				break
			}
			if got < lo || got > hi || got%ns.rlPen != 0 {
				cnt, _ := ns.V.Conn.VerifMessageProtocol().VerifRateCounter("ok", ns.O.ID())
				key := "rate-limit-penalty-missing-above-limit"
				if got > hi {
					key = "rate-limit-penalty-within-limit"
				}
				k.Violation(key, "after n well-formed requests in one interval the sender's score is not penalty x floor(n/(limit+1))",
					ns.wit(map[string]any{"calls": ns.okCalls, "handled": handled, "limit": rlLimit, "penalty": ns.rlPen, "score": got, "want_min": lo, "want_max": hi, "counter": cnt, "last_error": fmt.Sprint(e)}))
				return
			}
		}
		ns.log("rate offence: %d calls, %d handled", ns.okCalls, ns.served.Load())
		if ns.served.Load() < int64(need) && !ns.bannedAtV(offIP) {
			k.Inconclusive("rate-offence-could-not-be-delivered")
			return
		}
	case "apply-penalty:accumulated":
		a := 1 + r.Intn(98)
		ns.V.Conn.ApplyPenalty(ns.O.ID(), a)
		if ns.bannedAtV(offIP) || !ns.V.Connected(ns.O) {
			k.Violation("sub-threshold-penalty-banned-or-disconnected", "a penalty below 100 banned or disconnected the peer", ns.wit(map[string]any{"penalty": a}))
			return
		}
		banBefore = unix()
		if err := ns.sendOK(); err != nil { // nLegal+1 <= limit messages in total
			k.Count("legal_request_failed_not_judged", 1)
		}
		ns.settled(5 * time.Second)
		ns.V.Conn.ApplyPenalty(ns.O.ID(), p2p.MaxPenaltyScore-a)
	case "ban-peer-api":
		ns.V.Conn.BanPeer(ns.O.ID())
	}
	ns.log("offence %q done (raw send error: %v)", ns.trigger, err)
	if err != nil {
		k.Inconclusive("offence-could-not-be-sent")
		return
	}
	k.Count("offences:"+ns.trigger, 1)

	// evidence from the victim that the offending message was processed there (its own log line
	// or handler invocation); only then is "no ban" its fault
	delivered := func() bool { return true }
	switch {
	case strings.HasPrefix(ns.trigger, "malformed-"):
		delivered = func() bool { return ns.V.Logger.Count("decode-error") > 0 }
	case ns.trigger == "unknown-procedure-response":
		// either line shows that onResponse worked on this envelope (whichever check it ran first)
		delivered = func() bool { return ns.V.Logger.Count("unregistered") > 0 || ns.V.Logger.Count("unknown-id") > 0 }
	case strings.HasPrefix(ns.trigger, "unknown-procedure-"):
		delivered = func() bool { return ns.V.Logger.Count("unregistered") > 0 }
	case strings.HasPrefix(ns.trigger, "invalid-sync-request"):
		delivered = func() bool { return ns.syncInvalid.Load() > 0 }
	case strings.HasPrefix(ns.trigger, "rate-limit"):
		delivered = func() bool { return ns.served.Load() > int64(rlLimit) }
	}
	if !waitUntil(watchdog, func() bool { return delivered() || ns.bannedAtV(offIP) }) {
		k.Inconclusive("offence-not-processed-by-victim")
		k.Count("offence_not_processed_by_victim:"+ns.trigger, 1)
		return
	}

	// (a) penalised up to a ban
	if !waitUntil(watchdog, func() bool { return ns.bannedAtV(offIP) }) {
		sc, ex, has := g.Score(offIP)
		if !ns.V.Connected(ns.O) {
			// on a stalled machine a 4 s ban can come and go unobserved (the peer was disconnected,
			// which only a ban does here), or the connection was lost before the offence
			k.Inconclusive("ban-not-observed-but-peer-disconnected")
			return
		}
		k.Violation("offence-did-not-ban:"+ns.trigger, "the offence did not leave the sender's IP banned (waited 30 s)", ns.wit(map[string]any{"score": sc, "expiration": ex, "has_entry": has}))
		return
	}
	ns.log("V lists %s as banned", offIP)

	// (b) disconnected
	disconnected := waitUntil(10*time.Second, func() bool { return !ns.V.Connected(ns.O) })
	var d string
	var e error
	servedAfterBan := false
	if !disconnected {
		// logical confirmation: a request sent after the ban was visible is still handled by the
		// victim; failing that, the connection must survive the full 30 s to count as "never closed"
		before := ns.served.Load()
		d, e = ns.request(ns.O, ns.V, "ok", []byte("hello"))
		servedAfterBan = waitUntil(2*time.Second, func() bool { return ns.served.Load() > before })
		if !servedAfterBan {
			disconnected = waitUntil(20*time.Second, func() bool { return !ns.V.Connected(ns.O) })
		}
	}
	if !disconnected && !ns.vSeesOfrom(offIP) {
		// the connections from the banned IP are gone; what V holds is a new connection that the
		// offender's host opened from another source address (a QUIC dial from an unbound socket
		// leaves from 127.0.0.1 on this machine): not a connection "involving that IP"
		ns.log("connections from %s closed; V now sees O as %v", offIP, ns.remoteAddrsAtV())
		k.Count("offender_reconnected_from_another_source_ip(not judged)", 1)
		_ = ns.V.Conn.Disconnect(ns.O.ID())
		disconnected = true
	}
	if !disconnected {
		ns.log("still connected 10 s after the ban (V sees O as %v); a further request was served by V: %v (reply %q, err %v)", ns.remoteAddrsAtV(), servedAfterBan, d, e)
		k.Violation("banned-peer-not-disconnected:"+ns.trigger, "the sender's IP is banned but the connection to it stays open (and keeps being served)",
			ns.wit(map[string]any{"request_served_after_ban": servedAfterBan, "reply": d, "error": fmt.Sprint(e), "banPeer_errors_logged_by_victim": ns.V.Logger.Count("banpeer-error")}))
		// continue with the remaining clauses from a disconnected state
		_ = ns.V.Conn.Disconnect(ns.O.ID())
		if !waitUntil(10*time.Second, func() bool { return !ns.V.Connected(ns.O) && !ns.O.Connected(ns.V) }) {
			k.Inconclusive("could-not-force-disconnect")
			return
		}
	} else {
		k.Count("disconnected_after_ban", 1)
	}
	waitUntil(5*time.Second, func() bool { return !ns.O.Connected(ns.V) })

	if ns.O2 != nil {
		ns.log("second peer behind %s still connected to V after the ban: %v (O2 sees V: %v)", offIP, ns.V.Connected(ns.O2), ns.O2.Connected(ns.V))
	}
	// (b2) a second peer behind the banned IP that is penalised while the ban stands has reached
	// the threshold just the same: it must be disconnected too
	if ns.O2 != nil && ns.V.Connected(ns.O2) {
		ns.V.Conn.ApplyPenalty(ns.O2.ID(), 1+r.Intn(40))
		sc, _, has := g.Score(offIP)
		if has && sc >= p2p.MaxPenaltyScore {
			k.Count("second_peer_behind_banned_ip_penalised", 1)
			if !waitUntil(10*time.Second, func() bool { return !ns.V.Connected(ns.O2) }) {
				before := ns.served.Load() + ns.servedB.Load()
				d, e := ns.request(ns.O2, ns.V, "ok", []byte("hello"))
				k.Violation("penalised-peer-of-banned-ip-not-disconnected", "a peer whose IP total is at or above the ban threshold was penalised and stays connected",
					ns.wit(map[string]any{"ip_score": sc, "reply": d, "error": fmt.Sprint(e), "served_before": before}))
				_ = ns.V.Conn.Disconnect(ns.O2.ID())
			}
		} else {
			k.Count("second_peer_penalty_after_expiry_not_judged", 1)
		}
	} else if ns.O2 != nil {
		k.Count("second_peer_already_disconnected_by_the_ban", 1)
	}
	if ns.O2 != nil {
		ns.O2.Stop()
		ns.O2 = nil
	}

	// (c) bystander unaffected
	if ns.B != nil {
		if !ns.V.Connected(ns.B) {
			k.Violation("bystander-disconnected", "banning one IP disconnected a peer on another IP", ns.wit(nil))
		} else if d, e := ns.request(ns.B, ns.V, "ok", []byte("hello")); e != nil || d != "ok" {
			k.Count("bystander_request_failed_not_judged", 1)
		} else {
			k.Count("bystander_served", 1)
		}
		if _, _, has := g.Score("127.0.0.4"); has {
			k.Violation("bystander-penalised", "banning one IP left a score for another IP", ns.wit(nil))
		}
	}

	// (d) cannot reconnect in either direction while the ban cannot have expired
	for i := 0; i < 2; i++ {
		for _, dir := range []string{"offender-dials", "victim-dials"} {
			var e error
			cctx, ccancel := context.WithTimeout(bg, 3*time.Second)
			if dir == "offender-dials" {
				e = ns.O.ConnectTo(cctx, ns.V)
			} else {
				e = ns.V.ConnectTo(cctx, ns.O)
			}
			ccancel()
			// a connection that the victim's gater refuses may exist for an instant on the dialler's side; what counts is the victim
			up := e == nil && !waitUntil(300*time.Millisecond, func() bool { return !ns.V.Connected(ns.O) })
			after := unix()
			ns.log("reconnect %s -> err=%v, connection up at V: %v", dir, e, up)
			// bans are per IP: when the listening port's 4-tuple is still in TIME_WAIT libp2p dials
			// from an ephemeral port and the kernel picks another loopback source address
			if up && !ns.vSeesOfrom(offIP) {
				k.Count("reconnected_from_another_source_ip_not_judged", 1)
				ns.log("the new connection reaches V from %v, not from the banned IP", ns.remoteAddrsAtV())
				_ = ns.V.Conn.Disconnect(ns.O.ID())
				waitUntil(5*time.Second, func() bool { return !ns.V.Connected(ns.O) && !ns.O.Connected(ns.V) })
				continue
			}
			if after <= banBefore+netExp {
				k.Count("reconnect_attempts_within_guaranteed_window", 1)
				if up {
					k.Violation("banned-peer-reconnected-before-expiry:"+dir, "a connection with a banned IP was established before the ban can have expired",
						ns.wit(map[string]any{"ban_before_unix": banBefore, "attempt_after_unix": after, "victim_sees_offender_as": ns.remoteAddrsAtV()}))
					return
				}
			} else {
				k.Count("reconnect_attempts_in_unjudged_interval", 1)
				if up {
					_ = ns.V.Conn.Disconnect(ns.O.ID())
				}
			}
		}
	}

	// (e) after expiry: accepted again with a clean score
	banAfter := unix() // upper bound of the last (re)arming: nothing has penalised O since the offence was processed
	horizon := banAfter + netExp + 1 + int64(graceSweeps*sweep/time.Second)
	reconnected := false
	for {
		now := unix()
		if !ns.bannedAtV(offIP) {
			cctx, ccancel := context.WithTimeout(bg, 3*time.Second)
			e := ns.O.ConnectTo(cctx, ns.V)
			ccancel()
			if e == nil && ns.V.Connected(ns.O) {
				reconnected = true
				break
			}
			ns.log("ban gone but reconnect failed: %v", e)
		}
		if now > horizon {
			break
		}
		time.Sleep(100 * time.Millisecond)
	}
	if !reconnected && !ns.bannedAtV(offIP) {
		// the gater has forgotten the ban and all its gates accept the IP: the failed dials are
		// timeouts of a stalled machine, not refusals
		a := ma.StringCast("/ip4/" + offIP + "/tcp/1")
		if g.InterceptAddrDial(ns.O.ID(), a) && g.InterceptAccept(p2pnet.CMA{Remote: a}) && g.InterceptSecured(network.DirInbound, ns.O.ID(), p2pnet.CMA{Remote: a}) {
			k.Inconclusive("ban-expired-but-reconnect-timed-out")
			return
		}
	}
	if !reconnected {
		sc, ex, has := g.Score(offIP)
		k.Violation("ban-never-expires:network", "long after the ban expired the offender is still listed as banned or still cannot connect",
			ns.wit(map[string]any{"score": sc, "expiration": ex, "has_entry": has, "still_listed": ns.bannedAtV(offIP)}))
		return
	}
	k.Count("reconnected_after_expiry", 1)
	if sc, ex, has := g.Score(offIP); has {
		k.Violation("score-not-clean-after-expiry:network", "after the ban expired the gater still holds a score for the IP", ns.wit(map[string]any{"score": sc, "expiration": ex}))
		return
	}
	ns.V.Conn.ApplyPenalty(ns.O.ID(), 99)
	if ns.bannedAtV(offIP) || !ns.V.Connected(ns.O) {
		k.Violation("score-not-clean-after-expiry:network", "after the ban expired a penalty of 99 banned the peer again", ns.wit(nil))
		return
	}
	if d, e := ns.request(ns.O, ns.V, "ok", []byte("hello")); e == nil && d == "ok" {
		k.Count("served_again_after_expiry", 1)
	}
	k.Nontrivial(fmt.Sprintf("net|%s|bystander=%v|odials=%v|disconnected=%v", ns.trigger, withB, oDials, disconnected))
	k.Sample(ns.wit(nil))
}

// runNetLegal: exactly `limit` well-formed messages per interval, over several intervals, plus a
// sub-threshold penalty, must not ban, disconnect or (for the traffic) leave any score.
func runNetLegal(k *mon.Case) {
	ns := &netScenario{k: k, trigger: "legal-traffic", rlPen: 100, interval: 400 * time.Millisecond}
	var err error
	defer ns.stop()
	if ns.V, err = ns.startNode("127.0.0.2", true, nil); err == nil {
		ns.O, err = ns.startNode("127.0.0.3", false, nil)
	}
	if err != nil {
		k.Inconclusive("node-start-failed")
		return
	}
	if err := ns.O.ConnectTo(context.Background(), ns.V); err != nil {
		k.Inconclusive("connect-failed")
		return
	}
	g := ns.V.Conn.VerifPeer().VerifGater()
	mp := ns.V.Conn.VerifMessageProtocol()
	intervals := 2 + k.R.Intn(3)
	okIntervals := 0
	for iv := 0; iv < intervals; iv++ {
		// every earlier message has been handled, and the limiter has reset since: the burst below
		// is all that the limiter can count until its next reset
		if !ns.settled(10 * time.Second) {
			k.Inconclusive("earlier-requests-never-handled")
			return
		}
		if !waitUntil(50*ns.interval, func() bool { c, _ := mp.VerifRateCounter("ok", ns.O.ID()); return c == 0 }) {
			c, _ := mp.VerifRateCounter("ok", ns.O.ID())
			k.Violation("rate-limit-counters-never-reset", "the per-interval message counter was not reset within 50 intervals, so legal traffic of later intervals is counted against the limit",
				ns.wit(map[string]any{"counter": c, "interval_ms": ns.interval.Milliseconds(), "limit": rlLimit}))
			return
		}
		n := rlLimit
		if k.R.Intn(3) == 0 {
			n = 1 + k.R.Intn(rlLimit)
		}
		maxSeen := 0
		for i := 0; i < n; i++ {
			_ = ns.sendOK()
			if c, _ := mp.VerifRateCounter("ok", ns.O.ID()); c > maxSeen {
				maxSeen = c
			}
		}
		ns.log("interval %d: %d requests (%d handled so far of %d), highest counter seen %d", iv, n, ns.served.Load(), ns.okCalls, maxSeen)
		k.Count("legal_requests", n)
		if maxSeen == n {
			okIntervals++
		}
		if sc, ex, has := g.Score("127.0.0.3"); has {
			k.Violation("legal-traffic-penalised:limit-messages-per-interval", "at most `limit` well-formed messages per interval left a score for the sender",
				ns.wit(map[string]any{"score": sc, "expiration": ex, "limit": rlLimit, "interval_ms": 400, "requests_this_interval": n}))
			return
		}
	}
	ns.settled(5 * time.Second)
	if sc, ex, has := g.Score("127.0.0.3"); has {
		k.Violation("legal-traffic-penalised:limit-messages-per-interval", "at most `limit` well-formed messages per interval left a score for the sender",
			ns.wit(map[string]any{"score": sc, "expiration": ex, "limit": rlLimit, "interval_ms": 400}))
		return
	}
	if !ns.V.Connected(ns.O) {
		k.Violation("legal-traffic-disconnected", "a peer that only sent legal traffic was disconnected", ns.wit(nil))
		return
	}
	// large well-formed messages in both directions (request body and response body of 1.5-4 MiB):
	// size alone is no offence
	for i := 0; i < 2; i++ {
		reqSize, respSize := 64, 64
		if i == 0 {
			reqSize = (3 << 19) + k.R.Intn(5<<19)
		} else {
			respSize = (3 << 19) + k.R.Intn(5<<19)
		}
		body := bytes.Repeat([]byte{0x33}, reqSize)
		binary.BigEndian.PutUint32(body[:4], uint32(respSize))
		got, err := ns.request(ns.O, ns.V, "big", body)
		k.Count("large_messages_exchanged", 1)
		ns.log("large message %d: request %d bytes, response %d bytes expected, %d received, err=%v", i, reqSize, respSize, len(got), err)
		for _, side := range []struct {
			name string
			n    *p2pnet.Node
			ip   string
		}{{"receiver-of-the-large-request", ns.V, "127.0.0.3"}, {"receiver-of-the-large-response", ns.O, "127.0.0.2"}} {
			if sc, ex, has := side.n.Conn.VerifPeer().VerifGater().Score(side.ip); has {
				k.Violation("legal-traffic-penalised:large-well-formed-message:"+side.name, "a well-formed message of a few MiB left a penalty for its sender",
					ns.wit(map[string]any{"score": sc, "expiration": ex, "request_bytes": reqSize, "response_bytes": respSize, "error": fmt.Sprint(err)}))
				return
			}
		}
		if !ns.V.Connected(ns.O) {
			k.Violation("legal-traffic-disconnected:large-well-formed-message", "a peer that sent a large well-formed message was disconnected", ns.wit(map[string]any{"request_bytes": reqSize, "response_bytes": respSize}))
			return
		}
		if err != nil || len(got) != respSize {
			k.Count("large_message_not_answered_in_full(observed, C17)", 1)
		}
	}
	a := 1 + k.R.Intn(99)
	ns.V.Conn.ApplyPenalty(ns.O.ID(), a)
	sc, ex, _ := g.Score("127.0.0.3")
	if sc != a || ex != -1 || !ns.V.Connected(ns.O) || ns.bannedAtV("127.0.0.3") {
		k.Violation("sub-threshold-penalty-banned-or-disconnected", "a penalty below 100 banned or disconnected the peer, or was not recorded as given",
			ns.wit(map[string]any{"penalty": a, "score": sc, "expiration": ex}))
		return
	}
	k.Nontrivial(fmt.Sprintf("net-legal|intervals=%d|ok=%d|pen=%d", intervals, okIntervals, a/25))
	k.Sample(ns.wit(nil))
}

// runNetBlacklist: a blacklisted IP can neither connect nor be dialled; other IPs can.
func runNetBlacklist(k *mon.Case) {
	ns := &netScenario{k: k, trigger: "blacklist", rlPen: 100}
	var err error
	defer ns.stop()
	if ns.V, err = ns.startNode("127.0.0.2", true, []string{"127.0.0.3"}); err == nil {
		if ns.O, err = ns.startNode("127.0.0.3", false, nil); err == nil {
			ns.B, err = ns.startNode("127.0.0.4", false, nil)
		}
	}
	if err != nil {
		k.Inconclusive("node-start-failed")
		return
	}
	bg := context.Background()
	for round := 0; round < 2; round++ {
		for _, dir := range []string{"offender-dials", "victim-dials"} {
			cctx, cancel := context.WithTimeout(bg, 3*time.Second)
			var e error
			if dir == "offender-dials" {
				e = ns.O.ConnectTo(cctx, ns.V)
			} else {
				e = ns.V.ConnectTo(cctx, ns.O)
			}
			cancel()
			up := e == nil && !waitUntil(300*time.Millisecond, func() bool { return !ns.V.Connected(ns.O) })
			ns.log("blacklisted %s -> err=%v up=%v", dir, e, up)
			k.Count("blacklist_connect_attempts", 1)
			if up && !ns.vSeesOfrom("127.0.0.3") {
				k.Count("reconnected_from_another_source_ip_not_judged", 1)
				ns.log("the connection reaches V from %v, not from the blacklisted IP", ns.remoteAddrsAtV())
				_ = ns.V.Conn.Disconnect(ns.O.ID())
				waitUntil(5*time.Second, func() bool { return !ns.V.Connected(ns.O) && !ns.O.Connected(ns.V) })
				continue
			}
			if up {
				k.Violation("blacklisted-ip-connected:"+dir, "a connection with a permanently blacklisted IP was established", ns.wit(nil))
				return
			}
		}
		var err error
		for try := 0; try < 3; try++ { // a dial can time out on a stalled machine; refusal is persistent
			cctx, cancel := context.WithTimeout(bg, 20*time.Second)
			err = ns.B.ConnectTo(cctx, ns.V)
			cancel()
			if err == nil && ns.V.Connected(ns.B) {
				break
			}
		}
		if err != nil || !ns.V.Connected(ns.B) {
			k.Violation("non-blacklisted-ip-refused", "a peer on an IP that is neither banned nor blacklisted could not connect", ns.wit(map[string]any{"error": fmt.Sprint(err)}))
			return
		}
		if round == 0 {
			time.Sleep(time.Duration(200+k.R.Intn(600)) * time.Millisecond)
		}
	}
	k.Nontrivial(fmt.Sprintf("net-blacklist|%d", k.Index%4))
	k.Sample(ns.wit(nil))
}

func main() {
	mon.Main(mon.Options{
		Property: "C18",
		Level:    "exploration",
		Rule: "(network tier also: a second peer with its own identity behind the offender's IP, penalised while the ban stands.) direct tier: random penalty/check sequences over 1-5 IPs (v4, v6, v4-mapped spellings, with and without /tcp,/udp,/p2p suffixes), blacklists, threshold walks, pauses and expiry on a connectionGater (expiration 1-2 s, sweep 50 ms) against a per-IP sum model; " +
			"concurrent callers (2-8 goroutines) with a linearizability check of the returned totals; the rateLimit object on a socket-less Peer against a counter model. " +
			"Network tier: victim 127.0.0.2, offender 127.0.0.3, optional bystander 127.0.0.4; 11 offences (malformed / unknown-procedure request and response envelopes, 3 invalid sync-style requests, rate above limit with penalty 100 and 2x50, accumulated ApplyPenalty, BanPeer), legal traffic at the limit over several intervals, blacklist. " +
			"Non-trivial per distinct (IPs, blacklisted, banned, shape, expiry observed) / (offence, bystander, dial direction, disconnected).",
		Assumptions: []string{
			"must-refuse is judged only while unix(after call) <= unix(before ban) + expiration; must-accept only 400 sweep intervals (20 s) past the latest possible expiry; in between nothing is judged",
			"network tier: newPeer hard-wires a 24 h ban and a 10 s sweep; the hook re-runs the gater's own start() with 4 s / 50 ms",
			"all of 127.0.0.0/8 is local and libp2p dials from the listening address (checked per scenario: otherwise inconclusive)",
			"30 s for one message to be processed on loopback is treated as 'never'",
		},
		RacePkgs: []string{"p2p"},
	}, func(c *mon.Ctx) {
		const batch = 25
		c.Cases("gater", c.N(64, 2400), func(k *mon.Case) {
			// one case = a batch of independent sequences, each on its own gater, run side by side
			// (they spend most of their time waiting for expiry)
			var wg sync.WaitGroup
			for i := 0; i < batch; i++ {
				i := i
				wg.Add(1)
				go func() {
					defer wg.Done()
					defer func() {
						if r := recover(); r != nil {
							st := string(debug.Stack())
							k.Violation("panic:gater:"+mon.PanicKey(r, st), "panic in gater sequence", map[string]any{"panic": fmt.Sprint(r), "stack": st})
						}
					}()
					sk := *k
					sk.R = c.RNG(fmt.Sprintf("gater-sub-%d", i), k.Index)
					runGaterSequence(&sk, i)
				}()
			}
			k.Watch("gater batch", 5*time.Minute, wg.Wait)
			k.Eval(batch - 1)
		})
		c.Cases("gater-concurrent", c.N(64, 2400), func(k *mon.Case) {
			for i := 0; i < 8; i++ {
				sk := *k
				sk.R = c.RNG(fmt.Sprintf("gater-conc-sub-%d", i), k.Index)
				runGaterConcurrent(&sk, i)
			}
			k.Eval(7)
		})
		c.Cases("gater-renew", c.N(32, 480), runGaterRenew)
		c.Cases("ratelimit-direct", c.N(32, 800), runRateLimitDirect)
		c.Cases("net-legal", c.N(8, 200), runNetLegal)
		c.Cases("net-blacklist", c.N(4, 100), runNetBlacklist)
		c.Cases("net-ban", c.N(33, 440), runNetBan)
	})
}
