package main

import (
	"context"
	"fmt"
	"time"

	"github.com/LiskHQ/lisk-engine/pkg/log"
	"github.com/LiskHQ/lisk-engine/pkg/p2p"
)

func main() {
	lg, _ := log.NewDefaultProductionLogger()
	t0 := time.Now()
	mk := func(ip string) *p2p.ExtendedConnection {
		cfg := &p2p.Config{Addresses: []string{"/ip4/" + ip + "/tcp/0"}, ChainID: []byte{1, 2, 3, 4}, Version: "2.0"}
		c := p2p.NewExtendedConnection(lg, cfg)
		c.RegisterRPCHandler("echo", func(w p2p.ResponseWriter, r *p2p.Request) { w.Write(r.Data) })
		if err := c.Start([]byte(ip)); err != nil {
			panic(err)
		}
		return c
	}
	a := mk("127.0.0.2")
	b := mk("127.0.0.3")
	fmt.Println("start", time.Since(t0))
	t0 = time.Now()
	if err := a.Connect(context.Background(), *b.Info()); err != nil {
		panic(err)
	}
	fmt.Println("connect", time.Since(t0))
	for _, c := range b.ConnsToPeer(a.ID()) {
		fmt.Println("b sees a as", c.RemoteMultiaddr(), "local", c.LocalMultiaddr())
	}
	for _, c := range a.ConnsToPeer(b.ID()) {
		fmt.Println("a sees b as", c.RemoteMultiaddr(), "local", c.LocalMultiaddr())
	}
	t0 = time.Now()
	for i := 0; i < 100; i++ {
		r := a.RequestFrom(context.Background(), b.ID(), "echo", []byte("hi"))
		if r.Error() != nil {
			panic(r.Error())
		}
	}
	fmt.Println("100 req", time.Since(t0))
	t0 = time.Now()
	fmt.Println(a.Stop(), b.Stop())
	fmt.Println("stop", time.Since(t0))
}
