package main

// The chain runner: drives the real framework.ABIHandler + statemachine.Executer through
// the labi.ABI surface in the order the engine uses (pkg/consensus/abi_caller.go,
// pkg/generator/abi_caller.go, engine.Start -> Init) and checks every response, the staged
// state, the state DB and the roots against the reference model.  runPlan is a pure
// function of the plan, so a failing plan can be shrunk by re-running it.

import (
	"bytes"
	"context"
	"encoding/binary"
	"encoding/hex"
	"fmt"
	"regexp"
	"runtime/debug"
	"sort"
	"strings"

	"github.com/cockroachdb/pebble"
	"github.com/cockroachdb/pebble/vfs"

	"github.com/LiskHQ/lisk-engine/pkg/blockchain"
	"github.com/LiskHQ/lisk-engine/pkg/codec"
	"github.com/LiskHQ/lisk-engine/pkg/db"
	"github.com/LiskHQ/lisk-engine/pkg/framework"
	"github.com/LiskHQ/lisk-engine/pkg/framework/config"
	"github.com/LiskHQ/lisk-engine/pkg/labi"
	"github.com/LiskHQ/lisk-engine/pkg/log"
	"github.com/LiskHQ/lisk-engine/pkg/statemachine"

	"verifharness/internal/mon"
)

// ---------------------------------------------------------------------------------------
// plans

type Block struct {
	Before []Step    `json:"before,omitempty"`
	After  []Step    `json:"after,omitempty"`
	Txs    []*Script `json:"txs,omitempty"`
	Gen    bool      `json:"gen,omitempty"`   // generator pass (everything + Commit DryRun + Clear) before the real pass
	Reads  bool      `json:"reads,omitempty"` // module hooks read the whole universe (also warms the overlay)
	VRead  bool      `json:"vread,omitempty"` // module.VerifyTransaction reads the universe (counted only)
}

type Op struct {
	Kind   string   `json:"kind"`            // block | revert | restart
	Block  *Block   `json:"block,omitempty"` // block
	Extra  []*Block `json:"extra,omitempty"` // restart: blocks the application commits beyond the engine's tip
	Reopen bool     `json:"reopen,omitempty"`
}

type Plan struct {
	GenesisHeight uint32 `json:"genesisHeight"`
	Genesis       []Step `json:"genesis,omitempty"`
	// NilConsensus: send ExecuteTransactionRequest exactly as pkg/consensus/abi_caller.go and
	// pkg/generator/abi_caller.go build it, i.e. without the Consensus field.
	NilConsensus bool `json:"nilConsensus,omitempty"`
	Ops          []Op `json:"ops"`
}

type viol struct {
	Key    string
	What   string
	Op     int
	Detail any
}

type outcome struct {
	viols      []viol
	counts     map[string]int
	nontrivial map[string]struct{}
	evals      int
	aborted    string
}

func (o *outcome) has(key string) (int, bool) {
	for _, v := range o.viols {
		if v.Key == key {
			return v.Op, true
		}
	}
	return 0, false
}

type tip struct {
	height uint32
	root   []byte
	state  kv
	ghost  map[string]bool // diagnosis only: keys whose leaf the tree may still hold with value H("")
	header *blockchain.BlockHeader
}

type runner struct {
	plan     *Plan
	out      *outcome
	op       int
	fs       vfs.FS
	stateDB  *db.DB
	moduleDB *db.DB
	mod      *vmod
	h        *framework.ABIHandler
	genesis  *blockchain.Block
	logger   log.Logger
	chain    []tip
	salt     int
	// tainted: an engine-style Revert was rejected and the harness went on without an expected
	// root; the application's root record is then not the engine's, so restarts are skipped.
	tainted bool
	// crash stream: directory of the DB on fs ("" = FS root, needed on the strict MemFS) and
	// callbacks around the targeted call (Commit / Revert / Init) of operation stepOp.
	inExtra    bool
	dbPath     string
	stepKind   string
	stepOp     int
	stepBefore func()
	stepAfter  func() bool // true: stop the run here (the crash run abandons the process)
}

// step brackets the targeted call of the crash stream; returns true if the run stops.
func (r *runner) stepping(kind string) bool {
	return r.stepKind == kind && r.op == r.stepOp && r.stepBefore != nil
}

var chainID = []byte{4, 0, 0, 9}

var (
	reHex    = regexp.MustCompile(`[0-9a-f]{8,}`)
	reDigits = regexp.MustCompile(`[0-9]+`)
)

func errClass(err error) string {
	s := err.Error()
	s = reHex.ReplaceAllString(s, "X")
	s = reDigits.ReplaceAllString(s, "N")
	if len(s) > 70 {
		s = s[:70]
	}
	return s
}

func (r *runner) count(name string, n int) { r.out.counts[name] += n }
func (r *runner) nontrivial(key string)    { r.out.nontrivial[key] = struct{}{} }
func (r *runner) abort(why string) {
	if r.out.aborted == "" {
		r.out.aborted = why
	}
}
func (r *runner) dead() bool { return r.out.aborted != "" }

func (r *runner) violate(key, what string, detail any) {
	for _, v := range r.out.viols {
		if v.Key == key {
			return
		}
	}
	r.out.viols = append(r.out.viols, viol{Key: key, What: what, Op: r.op, Detail: detail})
}

// call runs one ABI call; a panic is a violation and ends the case, an error is returned.
func (r *runner) call(name string, f func() error) (err error) {
	r.count("abi_"+name, 1)
	defer func() {
		if p := recover(); p != nil {
			st := string(debug.Stack())
			if strings.HasPrefix(fmt.Sprint(p), "harness:") {
				panic(p)
			}
			r.violate("panic:"+name+":"+mon.PanicKey(p, st), fmt.Sprintf("%s panicked: %v", name, p),
				map[string]any{"panic": fmt.Sprint(p), "stack": firstLines(st, 30)})
			r.abort("panic in " + name)
			err = fmt.Errorf("panic: %v", p)
		}
	}()
	return f()
}

func firstLines(s string, n int) string {
	l := strings.Split(s, "\n")
	if len(l) > n {
		l = l[:n]
	}
	return strings.Join(l, "\n")
}

// abiErr reports an unexpected error of an ABI call and ends the case.
func (r *runner) abiErr(name string, err error) {
	if r.dead() {
		return
	}
	r.violate("abi-error:"+name+":"+errClass(err), name+" returned an error on a valid request: "+err.Error(), nil)
	r.abort("error in " + name)
}

// ---------------------------------------------------------------------------------------
// environment

func (r *runner) open() error {
	sdb, err := db.NewDBWithFS(r.dbPath, r.fs, &pebble.Options{MemTableSize: 1 << 20})
	if err != nil {
		return err
	}
	r.stateDB = sdb
	return nil
}

func (r *runner) newHandler() {
	sm := statemachine.NewExecuter()
	sm.Init(r.logger)
	if err := sm.AddModule(r.mod); err != nil {
		panic("harness: " + err.Error())
	}
	r.h = framework.NewABIHandler(context.Background(), &config.ApplicationConfig{}, r.logger, sm, r.genesis, r.stateDB, r.moduleDB, []framework.Module{r.mod})
}

func (r *runner) close() {
	if r.stateDB != nil {
		r.stateDB.Close()
	}
	if r.moduleDB != nil {
		r.moduleDB.Close()
	}
}

func (r *runner) dump(prefix byte) kv {
	out := kv{}
	for _, e := range r.stateDB.Iterate([]byte{prefix}, -1, false) {
		out[string(e.Key())] = string(e.Value())
	}
	return out
}

func (r *runner) dumpAll() kv {
	out := kv{}
	for p := byte(0); p < 4; p++ {
		for k, v := range r.dump(p) {
			out[k] = v
		}
	}
	return out
}

// treeState returns the (height, root) record the application keeps (StateDBPrefixTreeState).
func (r *runner) treeState() (uint32, []byte, bool) {
	v, ok := r.stateDB.Get(framework.StateDBPrefixTreeState)
	if !ok || len(v) < 4 {
		return 0, nil, false
	}
	return binary.BigEndian.Uint32(v[:4]), v[4:], true
}

func zeros(n int) []byte { return make([]byte, n) }

func mkHeader(prev *blockchain.BlockHeader, height uint32, stateRoot []byte) *blockchain.BlockHeader {
	h := &blockchain.BlockHeader{
		Version:          2,
		Timestamp:        1000 + height*10,
		Height:           height,
		PreviousBlockID:  prev.ID,
		GeneratorAddress: zeros(20),
		TransactionRoot:  refEmpty,
		AssetRoot:        refEmpty,
		EventRoot:        refEmpty,
		StateRoot:        stateRoot,
		ValidatorsHash:   zeros(32),
		AggregateCommit:  &blockchain.AggregateCommit{AggregationBits: []byte{}, CertificateSignature: []byte{}},
		Signature:        zeros(64),
	}
	h.Init()
	return h
}

func (r *runner) mkTx(sc *Script, vread bool) *blockchain.Transaction {
	c := *sc
	r.salt++
	c.Salt = r.salt
	c.VRead = vread
	tx := &blockchain.Transaction{
		Module:          modName,
		Command:         cmdName,
		Nonce:           uint64(r.salt),
		Fee:             0,
		SenderPublicKey: zeros(32),
		Params:          mustJSON(&c),
		Signatures:      []codec.Hex{zeros(64)},
	}
	tx.Init()
	return tx
}

// ---------------------------------------------------------------------------------------
// roots

func ghostFor(prev tip, staged kv) map[string]bool {
	g := map[string]bool{}
	for k := range prev.state {
		if _, ok := staged[k]; !ok {
			g[k] = true
		}
	}
	for k := range prev.ghost {
		if _, ok := staged[k]; !ok {
			g[k] = true
		}
	}
	return g
}

// rootClass compares a root produced by the code with the LIP-0039 root of st.
// "" = equal; "deleted-key-kept-as-H(empty)-leaf" = equal to the root of the tree in which
// every deleted key is still present with value SHA256("") ; "other".
func rootClass(actual []byte, st kv, ghost map[string]bool) string {
	if bytes.Equal(actual, refRoot(treeEntries(st, nil))) {
		return ""
	}
	if len(ghost) > 0 && bytes.Equal(actual, refRoot(treeEntries(st, ghost))) {
		return "deleted-key-kept-as-H(empty)-leaf"
	}
	return "other"
}

// ---------------------------------------------------------------------------------------
// events

type evsig struct {
	Module string `json:"module"`
	Name   string `json:"name"`
	Data   string `json:"data"`
	Index  uint32 `json:"index"`
}

func sigs(evs []*blockchain.Event) []evsig {
	out := make([]evsig, len(evs))
	for i, e := range evs {
		out[i] = evsig{e.Module, e.Name, hex.EncodeToString(e.Data), e.Index}
	}
	return out
}

func sameList(a []evsig, m []mev) bool {
	if len(a) != len(m) {
		return false
	}
	for i := range a {
		if a[i].Module != modName || a[i].Name != m[i].name || a[i].Data != hex.EncodeToString([]byte(m[i].data)) {
			return false
		}
	}
	return true
}

func mevStrings(m []mev) []string {
	out := make([]string, len(m))
	for i, e := range m {
		out[i] = e.name + ":" + hex.EncodeToString([]byte(e.data))
	}
	return out
}

// checkEvents checks one response's events. std: -1 none expected, 0 failure, 1 success.
func (r *runner) checkEvents(where, outcomeName string, evs []*blockchain.Event, want, wantKeepRev []mev, std int, height uint32, topic []byte) {
	got := sigs(evs)
	detail := map[string]any{"where": where, "got": got, "want": mevStrings(want)}
	for i, e := range evs {
		if e.Index != uint32(i) {
			r.violate("events:"+outcomeName+":index-not-consecutive", fmt.Sprintf("%s: event %d of the response has index %d", where, i, e.Index), detail)
			return
		}
		if e.Height != height || len(e.Topics) == 0 || !bytes.Equal(e.Topics[0], topic) {
			r.violate("events:"+outcomeName+":height-or-default-topic-wrong", where+": event height/default topic differ from the block height/transaction id", detail)
			return
		}
	}
	if std >= 0 {
		wantData := hex.EncodeToString(blockchain.NewStandardTransactionEventData(std == 1))
		n := 0
		ok := false
		for _, s := range got {
			if s.Name == blockchain.EventNameDefault {
				n++
				ok = s.Module == modName && s.Data == wantData
			}
		}
		if n != 1 || !ok {
			r.violate("events:"+outcomeName+":standard-event-missing-or-wrong", fmt.Sprintf("%s: expected exactly one %s event with success=%v", where, blockchain.EventNameDefault, std == 1), detail)
			return
		}
		want = append(append([]mev{}, want...), mev{blockchain.EventNameDefault, string(blockchain.NewStandardTransactionEventData(std == 1)), false})
		wantKeepRev = append(append([]mev{}, wantKeepRev...), mev{blockchain.EventNameDefault, string(blockchain.NewStandardTransactionEventData(std == 1)), false})
	}
	if sameList(got, want) {
		return
	}
	if std == 0 && sameList(got, wantKeepRev) {
		r.violate("events:exec-fail:revertible-event-not-discarded", where+": the command failed but its revertible events (EventQueue().Add) are still in the response", detail)
		return
	}
	r.violate("events:"+outcomeName+":list-differs-from-model", where+": events differ from what the script emitted", detail)
}

// ---------------------------------------------------------------------------------------
// one pass over a block (generator pass: real=false; consensus pass: real=true)

type passResult struct {
	root   []byte
	staged kv
	events [][]evsig
}

func (r *runner) stagedViolation(outcomeName, feature, how string, model, actual kv, extra map[string]any) {
	d := map[string]any{"observed_by": how}
	if actual != nil {
		d["diff"] = model.diff(actual)
	}
	for k, v := range extra {
		d[k] = v
	}
	what := "state after the command differs from the model"
	if outcomeName == "exec-fail" {
		what = "a failing command did not leave the state as it was before the command"
	}
	r.violate("staged-state:"+outcomeName+":"+feature, what+" ("+how+")", d)
	r.abort("staged state diverged")
}

func (r *runner) dryRoot(ctxID []byte, prevRoot []byte) ([]byte, bool) {
	var resp *labi.CommitResponse
	err := r.call("Commit(dry)", func() (e error) {
		resp, e = r.h.Commit(&labi.CommitRequest{ContextID: ctxID, StateRoot: prevRoot, DryRun: true})
		return
	})
	if err != nil {
		r.abiErr("Commit(dry)", err)
		return nil, false
	}
	return resp.StateRoot, true
}

func (r *runner) checkObs(want map[string]kv, keyOf func(hook string) (string, string)) bool {
	for _, o := range r.mod.rec.drain() {
		w, ok := want[o.Hook]
		if !ok {
			continue
		}
		r.count("reads_compared", 1)
		if !w.equal(o.State) {
			oc, feat := keyOf(o.Hook)
			r.stagedViolation(oc, feat, "read at "+o.Hook, w, o.State, nil)
			return false
		}
	}
	return true
}

func (r *runner) pass(blk *Block, header *blockchain.BlockHeader, prev tip, real bool) (*passResult, bool) {
	res := &passResult{}
	name := "generator-pass"
	if real {
		name = "consensus-pass"
	}
	assets := blockchain.BlockAssets{{Module: modName, Data: mustJSON(&BlockScript{Before: blk.Before, After: blk.After, Reads: blk.Reads})}}
	cons := &labi.Consensus{CurrentValidators: []*labi.Validator{}}
	var ctxID []byte
	if err := r.call("InitStateMachine", func() error {
		resp, e := r.h.InitStateMachine(&labi.InitStateMachineRequest{Header: header})
		if e == nil {
			ctxID = resp.ContextID
		}
		return e
	}); err != nil {
		r.abiErr("InitStateMachine", err)
		return nil, false
	}
	defer r.call("Clear", func() error { _, e := r.h.Clear(&labi.ClearRequest{}); return e })
	if real {
		if err := r.call("VerifyAssets", func() error {
			_, e := r.h.VerifyAssets(&labi.VerifyAssetsRequest{ContextID: ctxID, Assets: assets})
			return e
		}); err != nil {
			r.abiErr("VerifyAssets", err)
			return nil, false
		}
	}
	staged := prev.state.clone()
	r.mod.rec.drain()

	// BeforeTransactionsExecute
	var bresp *labi.BeforeTransactionsExecuteResponse
	if err := r.call("BeforeTransactionsExecute", func() (e error) {
		bresp, e = r.h.BeforeTransactionsExecute(&labi.BeforeTransactionsExecuteRequest{ContextID: ctxID, Assets: assets, Consensus: cons})
		return
	}); err != nil {
		r.abiErr("BeforeTransactionsExecute", err)
		return nil, false
	}
	if !r.checkObs(map[string]kv{"BeforeTransactionsExecute": staged}, func(string) (string, string) { return "block-hook", "state-at-block-start" }) {
		return nil, false
	}
	var bev []mev
	staged = modelSteps(staged, blk.Before, &bev)
	r.checkEvents(name+" BeforeTransactionsExecute", "block-hook", bresp.Events, bev, bev, -1, header.Height, statemachine.EventTopicBeforeTransactionsExecute)
	res.events = append(res.events, sigs(bresp.Events))
	rootBefore, ok := r.dryRoot(ctxID, prev.root)
	if !ok {
		return nil, false
	}
	if c := rootClass(rootBefore, staged, ghostFor(prev, staged)); c == "other" {
		r.stagedViolation("block-hook", "plain", "dry-run commit root after BeforeTransactionsExecute", staged, nil, nil)
		return nil, false
	} else if c != "" {
		r.violate("root:dry-run:"+c, "dry-run commit root differs from the LIP-0039 root of the staged state: a deleted key is still a leaf with value SHA256(\"\")", map[string]any{"root": hex.EncodeToString(rootBefore), "want": hex.EncodeToString(refRoot(treeEntries(staged, nil)))})
	}

	txs := make([]*blockchain.Transaction, len(blk.Txs))
	for i, sc := range blk.Txs {
		r.out.evals++
		tx := r.mkTx(sc, blk.VRead)
		txs[i] = tx
		outcomeName := "exec-ok"
		if sc.Fail {
			outcomeName = "exec-fail"
		}
		feature := sc.feature()
		where := fmt.Sprintf("%s tx %d", name, i)

		// VerifyTransaction (engine: result must be Ok, else the block is rejected)
		var vresp *labi.VerifyTransactionResponse
		if err := r.call("VerifyTransaction", func() (e error) {
			vresp, e = r.h.VerifyTransaction(&labi.VerifyTransactionRequest{ContextID: ctxID, Transaction: tx})
			return
		}); err != nil {
			r.abiErr("VerifyTransaction", err)
			return nil, false
		}
		if vresp.Result != labi.TxVerifyResultOk {
			r.violate("verify:valid-transaction-not-ok", "VerifyTransaction of a valid transaction did not return Ok", map[string]any{"result": vresp.Result})
			r.abort("verify")
			return nil, false
		}
		for _, vo := range r.mod.rec.verifyObserved {
			switch {
			case vo.equal(staged):
				r.count("verify_view_equals_staged_state", 1)
			case vo.equal(prev.state):
				r.count("verify_view_equals_committed_state_not_staged", 1)
			default:
				r.count("verify_view_other", 1)
			}
		}
		r.mod.rec.verifyObserved = nil

		// ExecuteTransaction
		req := &labi.ExecuteTransactionRequest{ContextID: ctxID, Assets: assets, Header: header, Transaction: tx, DryRun: false}
		if !r.plan.NilConsensus {
			req.Consensus = cons
		}
		var eresp *labi.ExecuteTransactionResponse
		execName := "ExecuteTransaction"
		if r.plan.NilConsensus {
			execName = "ExecuteTransaction(request-as-built-by-engine:no-Consensus)"
		}
		if err := r.call(execName, func() (e error) {
			eresp, e = r.h.ExecuteTransaction(req)
			return
		}); err != nil {
			r.abiErr(execName, err)
			return nil, false
		}
		tm := modelTx(staged, sc)
		want := labi.TxExecuteResultSuccess
		if sc.Fail {
			want = labi.TxExecuteResultFail
		}
		if eresp.Result != want {
			r.violate("result:"+outcomeName+":wrong-code", fmt.Sprintf("%s: result code %d, want %d", where, eresp.Result, want), nil)
		}
		for _, e := range r.mod.rec.apiErrs {
			r.violate("script-api-error:"+errClass(fmt.Errorf("%s", e)), where+": a context API call failed on valid use: "+e, nil)
		}
		r.mod.rec.apiErrs = nil
		std := 1
		if sc.Fail {
			std = 0
		}
		r.checkEvents(where, outcomeName, eresp.Events, tm.events, tm.eventsKeepRev, std, header.Height, tx.ID)
		res.events = append(res.events, sigs(eresp.Events))

		// reads at the hook entries of this transaction
		if !r.checkObs(map[string]kv{"BeforeCommandExecute": tm.atPre, "Execute": tm.atExec, "AfterCommandExecute": tm.atPost}, func(hook string) (string, string) {
			if hook == "AfterCommandExecute" {
				return outcomeName, feature
			}
			return "command-hook", "state-at-" + hook
		}) {
			return nil, false
		}
		// dry-run commit root after the transaction
		rootAfter, ok := r.dryRoot(ctxID, prev.root)
		if !ok {
			return nil, false
		}
		ex := map[string]any{"tx": i, "script": sc}
		if sc.Fail && len(sc.Pre) == 0 && len(sc.Post) == 0 && !bytes.Equal(rootAfter, rootBefore) {
			r.stagedViolation(outcomeName, feature, "dry-run commit root changed across the failing command", tm.final, nil, ex)
			return nil, false
		}
		if c := rootClass(rootAfter, tm.final, ghostFor(prev, tm.final)); c == "other" {
			r.stagedViolation(outcomeName, feature, "dry-run commit root after the transaction", tm.final, nil, ex)
			return nil, false
		} else if c != "" {
			r.violate("root:dry-run:"+c, "dry-run commit root differs from the LIP-0039 root of the staged state: a deleted key is still a leaf with value SHA256(\"\")", map[string]any{"root": hex.EncodeToString(rootAfter), "want": hex.EncodeToString(refRoot(treeEntries(tm.final, nil)))})
		}
		rootBefore = rootAfter
		staged = tm.final
		r.txNontrivial(sc, prev.state, tm)
	}

	// AfterTransactionsExecute
	var aresp *labi.AfterTransactionsExecuteResponse
	if err := r.call("AfterTransactionsExecute", func() (e error) {
		aresp, e = r.h.AfterTransactionsExecute(&labi.AfterTransactionsExecuteRequest{ContextID: ctxID, Assets: assets, Consensus: cons, Transactions: txs})
		return
	}); err != nil {
		r.abiErr("AfterTransactionsExecute", err)
		return nil, false
	}
	if !r.checkObs(map[string]kv{"AfterTransactionsExecute": staged}, func(string) (string, string) { return "command-hook", "state-after-last-transaction" }) {
		return nil, false
	}
	var aev []mev
	staged = modelSteps(staged, blk.After, &aev)
	r.checkEvents(name+" AfterTransactionsExecute", "block-hook", aresp.Events, aev, aev, -1, header.Height, statemachine.EventTopicAfterTransactionsExecute)
	res.events = append(res.events, sigs(aresp.Events))

	root, ok := r.dryRoot(ctxID, prev.root)
	if !ok {
		return nil, false
	}
	r.checkRoot("dry-run", root, staged, ghostFor(prev, staged))
	res.root, res.staged = root, staged
	if !real {
		return res, true
	}

	// Commit as pkg/consensus does: expected root = the block header's state root
	var cresp *labi.CommitResponse
	stepping := r.stepping("commit") && !r.inExtra
	if stepping {
		r.stepBefore()
	}
	if err := r.call("Commit", func() (e error) {
		cresp, e = r.h.Commit(&labi.CommitRequest{ContextID: ctxID, StateRoot: prev.root, ExpectedStateRoot: root, DryRun: false})
		return
	}); err != nil {
		r.abiErr("Commit", err)
		return nil, false
	}
	if stepping && r.stepAfter() {
		r.abort("crash-step-done")
		return nil, false
	}
	if !bytes.Equal(cresp.StateRoot, root) {
		r.violate("commit:root-differs-from-dry-run-root", "Commit returned a different root than the dry run over the same staged state", nil)
	}
	return res, true
}

func (r *runner) checkRoot(op string, root []byte, st kv, ghost map[string]bool) {
	r.count("roots_compared_"+op, 1)
	switch c := rootClass(root, st, ghost); c {
	case "":
	case "other":
		r.violate("root:"+op+":differs-from-lip39-root-of-state", op+": state root is not the LIP-0039 root of the state (and not explained by deleted keys kept as leaves)",
			map[string]any{"root": hex.EncodeToString(root), "want": hex.EncodeToString(refRoot(treeEntries(st, nil))), "keys": len(st)})
	default:
		r.violate("root:"+op+":"+c, op+": state root differs from the LIP-0039 root of the state with deleted keys absent; it equals the root of the tree in which every deleted key is still a leaf with value SHA256(\"\")",
			map[string]any{"root": hex.EncodeToString(root), "want": hex.EncodeToString(refRoot(treeEntries(st, nil))), "deleted_keys_still_in_tree": len(ghost)})
	}
}

func (r *runner) txNontrivial(sc *Script, committed kv, tm *txModel) {
	delCommitted, setAfterDel, rev, unrev, overwrite := false, false, false, false, false
	deleted := map[string]bool{}
	for _, s := range sc.Cmd {
		switch s.Op {
		case "del":
			fk := fullKey(s.S, s.K)
			if _, ok := committed[fk]; ok {
				delCommitted = true
			}
			deleted[fk] = true
		case "set":
			fk := fullKey(s.S, s.K)
			if deleted[fk] {
				setAfterDel = true
			}
			if _, ok := committed[fk]; ok {
				overwrite = true
			}
		case "ev":
			rev = true
		case "uev":
			unrev = true
		}
	}
	changed := !tm.atExec.equal(modelSteps(tm.atExec.clone(), sc.Cmd, &[]mev{}))
	r.nontrivial(fmt.Sprintf("tx:fail=%t:%s:changes=%t:delCommitted=%t:setAfterDel=%t:overwrite=%t:rev=%t:unrev=%t:hooks=%t",
		sc.Fail, sc.feature(), changed, delCommitted, setAfterDel, overwrite, rev, unrev, len(sc.Pre)+len(sc.Post) > 0))
	if sc.Fail {
		r.count("tx_failing", 1)
		if changed {
			r.count("tx_failing_after_changing_state", 1)
		}
		if rev {
			r.count("tx_failing_with_revertible_event", 1)
		}
	} else {
		r.count("tx_succeeding", 1)
	}
	r.count("tx_feature_"+sc.feature(), 1)
}

// ---------------------------------------------------------------------------------------
// operations

// blockFeature is the strongest feature class among the succeeding commands of a block.
func blockFeature(blk *Block) string {
	rank := map[string]int{"plain": 0, "ctx-restore": 1, "ctx-restore+held-view": 2, "store-level-restore": 3}
	best := "plain"
	for _, sc := range blk.Txs {
		if f := sc.feature(); !sc.Fail && rank[f] > rank[best] {
			best = f
		}
	}
	return best
}

func (r *runner) top() tip { return r.chain[len(r.chain)-1] }

// runBlock executes and commits one block on top of the application's tip.
func (r *runner) runBlock(blk *Block) bool {
	prev := r.top()
	height := prev.height + 1
	r.out.evals++
	var genRes *passResult
	if blk.Gen {
		// generator: header without state root; everything is a dry run
		before := r.dumpAll()
		var ok bool
		genRes, ok = r.pass(blk, mkHeader(prev.header, height, nil), prev, false)
		if !ok {
			return false
		}
		if after := r.dumpAll(); !before.equal(after) {
			r.violate("dry-run:state-db-modified", "a generator pass (Commit with DryRun=true, then Clear) changed the state DB", map[string]any{"diff": before.diff(after)})
			r.abort("dry run wrote")
			return false
		}
		r.count("generator_passes", 1)
	}
	var header *blockchain.BlockHeader
	if genRes != nil {
		header = mkHeader(prev.header, height, genRes.root)
	} else {
		header = mkHeader(prev.header, height, nil)
	}
	res, ok := r.pass(blk, header, prev, true)
	if !ok {
		return false
	}
	if genRes != nil {
		if !bytes.Equal(genRes.root, res.root) || fmt.Sprint(genRes.events) != fmt.Sprint(res.events) {
			r.violate("dry-run:generator-pass-differs-from-consensus-pass", "the same block executed twice from the same state gave different roots or events", nil)
		}
	}
	header = mkHeader(prev.header, height, res.root) // the header the engine stores carries the committed root
	// after Commit
	r.checkRoot("commit", res.root, res.staged, ghostFor(prev, res.staged))
	if d := r.dump(0); !d.equal(res.staged) {
		// a divergence of the staged state can escape the per-transaction root comparison when
		// the differing leaf coincides with a leaf left behind by an earlier deletion; if the
		// block used stale-view features the failure is the same one, observed later
		if f := blockFeature(blk); f == "store-level-restore" || f == "ctx-restore+held-view" {
			r.stagedViolation("exec-ok", f, "state DB dump after Commit", res.staged, d, nil)
			return false
		}
		r.violate("commit:state-db-differs-from-staged-state", "after Commit the state DB (prefix 0) is not the state the block produced", map[string]any{"diff": res.staged.diff(d)})
		r.abort("commit state")
		return false
	}
	if h, root, ok := r.treeState(); !ok || h != height || !bytes.Equal(root, res.root) {
		r.violate("commit:tree-state-record-wrong", "after Commit the application's (height, root) record is not (block height, returned root)", map[string]any{"height": h, "want": height})
	}
	r.count("blocks_committed", 1)
	r.nontrivial(fmt.Sprintf("block:gen=%t:reads=%t:txs=%d:hooks=%t", blk.Gen, blk.Reads, len(blk.Txs), len(blk.Before)+len(blk.After) > 0))
	r.chain = append(r.chain, tip{height: height, root: res.root, state: res.staged, ghost: ghostFor(prev, res.staged), header: header})
	return true
}

// ghostAfterRevert (diagnosis model): RevertDiff deletes the added keys (their leaf may stay
// with value H("")) and sets the deleted/updated ones; leaves left by earlier deletions stay
// unless set again.
func ghostAfterRevert(cur, prev tip) map[string]bool {
	g := map[string]bool{}
	for k := range cur.ghost {
		if _, ok := prev.state[k]; !ok {
			g[k] = true
		}
	}
	for k := range cur.state {
		if _, ok := prev.state[k]; !ok {
			g[k] = true
		}
	}
	return g
}

var reInitConflict = regexp.MustCompile(`conflict in state root at height [0-9]+ with application ([0-9a-f]+) engine`)
var reRootMismatch = regexp.MustCompile(`^state root ([0-9a-f]+) does not match with expected state root`)

// revertTop reverts the application's top block exactly as consensus.deleteBlock does.
func (r *runner) revertTop() bool {
	if len(r.chain) < 2 {
		r.count("revert_skipped_at_genesis", 1)
		return true
	}
	cur, prev := r.chain[len(r.chain)-1], r.chain[len(r.chain)-2]
	r.out.evals++
	added, deleted, updated := 0, 0, 0
	for k, v := range cur.state {
		if pv, ok := prev.state[k]; !ok {
			added++
		} else if pv != v {
			updated++
		}
	}
	for k := range prev.state {
		if _, ok := cur.state[k]; !ok {
			deleted++
		}
	}
	ghostAfter := ghostAfterRevert(cur, prev)
	var ctxID []byte
	if err := r.call("InitStateMachine", func() error {
		resp, e := r.h.InitStateMachine(&labi.InitStateMachineRequest{Header: cur.header})
		if e == nil {
			ctxID = resp.ContextID
		}
		return e
	}); err != nil {
		r.abiErr("InitStateMachine", err)
		return false
	}
	defer r.call("Clear", func() error { _, e := r.h.Clear(&labi.ClearRequest{}); return e })
	// cur.root is the block header's state root (consensus passes c.header.StateRoot) unless an
	// earlier engine-style Revert was rejected (tainted), in which case it is the root of the
	// tree the application really has.
	var resp *labi.RevertResponse
	stepping := r.stepping("revert")
	if stepping {
		r.stepBefore()
	}
	err := r.call("Revert", func() (e error) {
		resp, e = r.h.Revert(&labi.RevertRequest{ContextID: ctxID, StateRoot: cur.root, ExpectedStateRoot: prev.header.StateRoot})
		return
	})
	if r.dead() {
		return false
	}
	if stepping && r.stepAfter() {
		r.abort("crash-step-done")
		return false
	}
	engineStyleOK := err == nil
	if err != nil {
		m := reRootMismatch.FindStringSubmatch(err.Error())
		if m == nil {
			r.abiErr("Revert", err)
			return false
		}
		got, _ := hex.DecodeString(m[1])
		r.checkRoot("revert", got, prev.state, ghostAfter)
		r.count("revert_engine_style_rejected_root_mismatch", 1)
		r.tainted = true
		// keep observing: revert without an expected root (the API allows it)
		if err2 := r.call("Revert(no-expected-root)", func() (e error) {
			resp, e = r.h.Revert(&labi.RevertRequest{ContextID: ctxID, StateRoot: cur.root})
			return
		}); err2 != nil {
			r.abiErr("Revert(no-expected-root)", err2)
			return false
		}
	} else {
		r.checkRoot("revert", resp.StateRoot, prev.state, ghostAfter)
		if !bytes.Equal(resp.StateRoot, prev.root) {
			r.violate("revert:root-differs-from-previous-block-root", "Revert returned a root different from the previous block's committed root", nil)
		}
	}
	if d := r.dump(0); !d.equal(prev.state) {
		r.violate("revert:state-db-differs-from-previous-block", "after Revert the state DB (prefix 0) is not the previous block's state", map[string]any{"diff": prev.state.diff(d), "added": added, "deleted": deleted, "updated": updated})
		r.abort("revert state")
		return false
	}
	if h, root, ok := r.treeState(); !ok || h != prev.height || !bytes.Equal(root, resp.StateRoot) {
		r.violate("revert:tree-state-record-wrong", "after Revert the application's (height, root) record is not (height-1, returned root)", map[string]any{"height": h, "want": prev.height})
	}
	r.count("blocks_reverted", 1)
	if engineStyleOK {
		r.count("revert_engine_style_ok", 1)
	}
	r.nontrivial(fmt.Sprintf("revert:added=%t:deleted=%t:updated=%t", added > 0, deleted > 0, updated > 0))
	r.chain = r.chain[:len(r.chain)-1]
	// the application's tree now has the root it returned (the engine's header root when correct)
	t := r.chain[len(r.chain)-1]
	t.root = resp.StateRoot
	t.ghost = ghostAfter
	r.chain[len(r.chain)-1] = t
	return true
}

// restart: the application commits the extra blocks, the engine does not persist them
// (crash between the application's Commit and the engine's own batch), the process
// restarts and the engine calls Init with its tip.
func (r *runner) restart(op *Op) bool {
	if r.tainted {
		r.count("restart_skipped_after_rejected_revert", 1)
		return true
	}
	engineLen := len(r.chain)
	r.inExtra = true
	for _, blk := range op.Extra {
		if !r.runBlock(blk) {
			r.inExtra = false
			return false
		}
	}
	r.inExtra = false
	ahead := len(r.chain) - engineLen
	engine := r.chain[engineLen-1]
	r.out.evals++
	if op.Reopen {
		if err := r.stateDB.Close(); err != nil {
			r.count("pebble_close_error", 1)
		}
		r.stateDB = nil
		if err := r.open(); err != nil {
			panic("harness: reopen: " + err.Error())
		}
	}
	r.newHandler()
	stepping := r.stepping("init")
	if stepping {
		r.stepBefore()
	}
	err := r.call("Init", func() error {
		_, e := r.h.Init(&labi.InitRequest{ChainID: chainID, LastBlockHeight: engine.height, LastStateRoot: engine.header.StateRoot})
		return e
	})
	if r.dead() {
		return false
	}
	if stepping && r.stepAfter() {
		r.abort("crash-step-done")
		return false
	}
	if m := reInitConflict.FindStringSubmatch(fmt.Sprint(err)); err != nil && m != nil {
		// Init rolled back but arrived at another root than the engine's: compare it with the
		// LIP-0039 root of the state at the engine's height
		got, _ := hex.DecodeString(m[1])
		cur := r.top()
		for i := len(r.chain) - 2; i >= engineLen-1; i-- {
			prev := r.chain[i]
			prev.ghost = ghostAfterRevert(cur, prev)
			cur = prev
		}
		if rootClass(got, engine.state, cur.ghost) != "" {
			r.checkRoot("init-recovery", got, engine.state, cur.ghost)
			r.abort("init root conflict")
			return false
		}
	}
	if err != nil {
		r.violate(fmt.Sprintf("init-recovery:error:%s", errClass(err)), fmt.Sprintf("Init with the application %d block(s) ahead of the engine returned an error instead of rolling back: %v", ahead, err), map[string]any{"ahead": ahead})
		r.abort("init error")
		return false
	}
	if d := r.dump(0); !d.equal(engine.state) {
		r.violate("init-recovery:state-db-differs-from-engine-tip", fmt.Sprintf("after Init (application %d ahead) the state DB is not the state at the engine's height", ahead), map[string]any{"diff": engine.state.diff(d), "ahead": ahead})
		r.abort("init state")
		return false
	}
	if h, root, ok := r.treeState(); !ok || h != engine.height || !bytes.Equal(root, engine.header.StateRoot) {
		r.violate("init-recovery:tree-state-record-wrong", fmt.Sprintf("after Init (application %d ahead) the application's (height, root) record is not the engine's tip", ahead), map[string]any{"height": h, "want": engine.height, "ahead": ahead})
	}
	r.count(fmt.Sprintf("init_recovered_ahead_%d", ahead), 1)
	r.nontrivial(fmt.Sprintf("restart:ahead=%d:reopen=%t", ahead, op.Reopen))
	r.chain = r.chain[:engineLen]
	return true
}

func (r *runner) genesisBlock() bool {
	p := r.plan
	assets := blockchain.BlockAssets{{Module: modName, Data: mustJSON(&GenesisScript{Init: p.Genesis})}}
	r.genesis = blockchain.NewGenesisBlock(p.GenesisHeight, 1000, zeros(32), assets)
	r.genesis.Header.StateRoot = nil
	r.genesis.Header.EventRoot = refEmpty
	r.genesis.Header.ValidatorsHash = zeros(32)
	r.newHandler()
	if err := r.call("Init", func() error {
		_, e := r.h.Init(&labi.InitRequest{ChainID: chainID, LastBlockHeight: 0, LastStateRoot: refEmpty})
		return e
	}); err != nil {
		r.abiErr("Init(fresh)", err)
		return false
	}
	var ctxID []byte
	if err := r.call("InitStateMachine", func() error {
		resp, e := r.h.InitStateMachine(&labi.InitStateMachineRequest{Header: r.genesis.Header})
		if e == nil {
			ctxID = resp.ContextID
		}
		return e
	}); err != nil {
		r.abiErr("InitStateMachine", err)
		return false
	}
	defer r.call("Clear", func() error { _, e := r.h.Clear(&labi.ClearRequest{}); return e })
	if err := r.call("InitGenesisState", func() error {
		_, e := r.h.InitGenesisState(&labi.InitGenesisStateRequest{ContextID: ctxID})
		return e
	}); err != nil {
		r.abiErr("InitGenesisState", err)
		return false
	}
	st := modelSteps(kv{}, p.Genesis, &[]mev{})
	root, ok := r.dryRoot(ctxID, []byte{})
	if !ok {
		return false
	}
	var cresp *labi.CommitResponse
	if err := r.call("Commit", func() (e error) {
		cresp, e = r.h.Commit(&labi.CommitRequest{ContextID: ctxID, StateRoot: []byte{}, ExpectedStateRoot: root, DryRun: false})
		return
	}); err != nil {
		r.abiErr("Commit(genesis)", err)
		return false
	}
	r.checkRoot("commit", cresp.StateRoot, st, nil)
	if d := r.dump(0); !d.equal(st) {
		r.violate("commit:state-db-differs-from-staged-state", "after the genesis Commit the state DB is not the genesis state", map[string]any{"diff": st.diff(d)})
		r.abort("genesis state")
		return false
	}
	hdr := *r.genesis.Header
	hdr.StateRoot = cresp.StateRoot
	hdr.Init()
	r.chain = []tip{{height: p.GenesisHeight, root: cresp.StateRoot, state: st, ghost: map[string]bool{}, header: &hdr}}
	return true
}

var silentLogger = func() log.Logger {
	l, err := log.NewSilentLogger()
	if err != nil {
		panic(err)
	}
	return l
}()

// runPlan executes a plan on a fresh environment and returns everything observed.
func runPlan(p *Plan) *outcome {
	r := newRunner(p, vfs.NewMem(), "state")
	defer r.close()
	r.run()
	return r.out
}

func newRunner(p *Plan, fs vfs.FS, dbPath string) *runner {
	out := &outcome{counts: map[string]int{}, nontrivial: map[string]struct{}{}}
	r := &runner{plan: p, out: out, fs: fs, dbPath: dbPath, mod: newVmod(), logger: silentLogger, op: -1}
	if err := r.open(); err != nil {
		panic("harness: open: " + err.Error())
	}
	mdb, err := db.NewInMemoryDB()
	if err != nil {
		panic("harness: open: " + err.Error())
	}
	r.moduleDB = mdb
	return r
}

func (r *runner) run() {
	p, out := r.plan, r.out
	if !r.genesisBlock() {
		return
	}
	for i := range p.Ops {
		if r.dead() {
			break
		}
		r.op = i
		op := &p.Ops[i]
		switch op.Kind {
		case "block":
			r.runBlock(op.Block)
		case "revert":
			r.revertTop()
		case "restart":
			r.restart(op)
		}
	}
	r.count("read_iterate_disagrees_with_get(C12 subject, not judged)", r.mod.rec.iterDisagree)
	r.count("read_has_disagrees_with_get", r.mod.rec.hasDisagree)
	r.count("commands_executed", r.mod.rec.executed)
	if out.aborted != "" && out.aborted != "crash-step-done" {
		r.count("cases_ended_early", 1)
	}
}

func sortedKeys(m map[string]struct{}) []string {
	out := make([]string, 0, len(m))
	for k := range m {
		out = append(out, k)
	}
	sort.Strings(out)
	return out
}
