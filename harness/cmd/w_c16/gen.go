package main

// Plan generation (random and directed) and the plan shrinker.

import (
	"encoding/hex"
	"encoding/json"
	"math/rand"
)

func genValue(r *rand.Rand) string {
	switch x := r.Intn(100); {
	case x < 6:
		return "" // empty value: present key whose tree value is SHA256("")
	case x < 12:
		b := make([]byte, 40)
		r.Read(b)
		return hex.EncodeToString(b)
	default:
		b := make([]byte, 1+r.Intn(6))
		r.Read(b)
		return hex.EncodeToString(b)
	}
}

func genPlainSteps(r *rand.Rand, n int, events bool) []Step {
	var out []Step
	for i := 0; i < n; i++ {
		switch x := r.Intn(100); {
		case x < 55:
			out = append(out, Step{Op: "set", S: r.Intn(len(stores)), K: r.Intn(len(keyUniverse)), V: genValue(r)})
		case x < 85 || !events:
			out = append(out, Step{Op: "del", S: r.Intn(len(stores)), K: r.Intn(len(keyUniverse))})
		case x < 93:
			out = append(out, Step{Op: "ev", V: genValue(r)})
		default:
			out = append(out, Step{Op: "uev", V: genValue(r)})
		}
	}
	return out
}

// genScript: mode plain | held | storesnap.
func genScript(r *rand.Rand, mode string) *Script {
	sc := &Script{Fail: r.Intn(100) < 40}
	useStoreSnap := mode == "storesnap" && r.Intn(100) < 30
	if mode == "held" && r.Intn(100) < 30 {
		sc.Hold = true
	}
	if useStoreSnap {
		sc.Hold = r.Intn(2) == 0
	}
	n := r.Intn(9)
	if r.Intn(10) == 0 {
		n = 0 // read-only command
	}
	var live []int // indexes (in order of taking) of live snapshots
	var kinds []string
	lastKey := [2]int{r.Intn(len(stores)), r.Intn(len(keyUniverse))}
	pickKey := func() (int, int) {
		if r.Intn(100) < 35 { // come back to the same key: overwrite, delete after set, re-set after delete
			return lastKey[0], lastKey[1]
		}
		lastKey = [2]int{r.Intn(len(stores)), r.Intn(len(keyUniverse))}
		return lastKey[0], lastKey[1]
	}
	for i := 0; i < n; i++ {
		x := r.Intn(100)
		switch {
		case x < 40:
			s, k := pickKey()
			sc.Cmd = append(sc.Cmd, Step{Op: "set", S: s, K: k, V: genValue(r)})
		case x < 62:
			s, k := pickKey()
			sc.Cmd = append(sc.Cmd, Step{Op: "del", S: s, K: k})
		case x < 70:
			sc.Cmd = append(sc.Cmd, Step{Op: "ev", V: genValue(r)})
		case x < 76:
			sc.Cmd = append(sc.Cmd, Step{Op: "uev", V: genValue(r)})
		case x < 88:
			if useStoreSnap && r.Intn(2) == 0 {
				sc.Cmd = append(sc.Cmd, Step{Op: "ssnap", S: r.Intn(len(stores))})
				kinds = append(kinds, "s")
			} else {
				sc.Cmd = append(sc.Cmd, Step{Op: "snap"})
				kinds = append(kinds, "c")
			}
			live = append(live, len(kinds)-1)
		default:
			if len(live) == 0 {
				s, k := pickKey()
				sc.Cmd = append(sc.Cmd, Step{Op: "set", S: s, K: k, V: genValue(r)})
				continue
			}
			j := r.Intn(len(live))
			id := live[j]
			live = append(live[:j], live[j+1:]...)
			op := "rest"
			if kinds[id] == "s" {
				op = "srest"
			}
			sc.Cmd = append(sc.Cmd, Step{Op: op, N: id})
		}
	}
	if r.Intn(100) < 15 {
		sc.Pre = genPlainSteps(r, 1+r.Intn(2), true)
	}
	if r.Intn(100) < 15 {
		sc.Post = genPlainSteps(r, 1+r.Intn(2), true)
	}
	return sc
}

func genBlock(r *rand.Rand, mode string) *Block {
	b := &Block{Gen: r.Intn(100) < 30, Reads: r.Intn(2) == 0, VRead: r.Intn(4) == 0}
	if r.Intn(100) < 30 {
		b.Before = genPlainSteps(r, 1+r.Intn(2), true)
	}
	if r.Intn(100) < 30 {
		b.After = genPlainSteps(r, 1+r.Intn(2), true)
	}
	n := []int{0, 1, 1, 2, 2, 3, 3, 4, 5, 6, 8}[r.Intn(11)]
	for i := 0; i < n; i++ {
		b.Txs = append(b.Txs, genScript(r, mode))
	}
	return b
}

func genPlan(r *rand.Rand, maxOps int) (*Plan, string) {
	mode := "plain"
	switch x := r.Intn(100); {
	case x < 15:
		mode = "held"
	case x < 30:
		mode = "storesnap"
	}
	p := &Plan{GenesisHeight: uint32(r.Intn(4))}
	for i, n := 0, 3+r.Intn(10); i < n; i++ {
		p.Genesis = append(p.Genesis, Step{Op: "set", S: r.Intn(len(stores)), K: r.Intn(len(keyUniverse)), V: genValue(r)})
	}
	length := 1
	for i, n := 0, 3+r.Intn(maxOps-2); i < n; i++ {
		x := r.Intn(100)
		switch {
		case x < 68 || (x < 84 && length < 2):
			p.Ops = append(p.Ops, Op{Kind: "block", Block: genBlock(r, mode)})
			length++
		case x < 84:
			p.Ops = append(p.Ops, Op{Kind: "revert"})
			length--
		default:
			op := Op{Kind: "restart", Reopen: r.Intn(2) == 0}
			for j, k := 0, r.Intn(4); j < k; j++ {
				op.Extra = append(op.Extra, genBlock(r, mode))
			}
			p.Ops = append(p.Ops, op)
		}
	}
	return p, mode
}

// ---------------------------------------------------------------------------------------
// directed plans: one minimal script per clause / per suspected defect

type directed struct {
	Name string
	Plan *Plan
}

func set(s, k int, v string) Step { return Step{Op: "set", S: s, K: k, V: v} }
func del(s, k int) Step           { return Step{Op: "del", S: s, K: k} }
func blockOp(txs ...*Script) Op   { return Op{Kind: "block", Block: &Block{Txs: txs, Reads: true}} }
func blockOpNoReads(txs ...*Script) Op {
	return Op{Kind: "block", Block: &Block{Txs: txs}}
}

var genesis2 = []Step{set(0, 1, "01"), set(0, 3, "02")}

func directedPlans() []directed {
	upd := &Script{Cmd: []Step{set(0, 1, "07")}} // update of a committed key only: no tree deletion on revert
	add := &Script{Cmd: []Step{set(1, 2, "09")}}
	return []directed{
		{"failing command: sets, overwrite, delete of a committed key; then a read-only command", &Plan{Genesis: genesis2, Ops: []Op{
			blockOp(&Script{Cmd: []Step{set(0, 1, "aa"), set(1, 2, "bb"), del(0, 3), set(2, 0, "")}, Fail: true}, &Script{})}}},
		{"failing command with a revertible and an unrevertible event (suspect 14)", &Plan{Genesis: genesis2, Ops: []Op{
			blockOp(&Script{Cmd: []Step{{Op: "ev", V: "aa"}, {Op: "uev", V: "bb"}}, Fail: true})}}},
		{"succeeding command with both kinds of events", &Plan{Genesis: genesis2, Ops: []Op{
			blockOp(&Script{Cmd: []Step{{Op: "ev", V: "aa"}, {Op: "uev", V: "bb"}, set(0, 1, "05")}})}}},
		{"block deleting a committed key, then Commit (suspect 15)", &Plan{Genesis: genesis2, Ops: []Op{
			blockOpNoReads(&Script{Cmd: []Step{del(0, 1)}})}}},
		{"block adding a key, then Revert as consensus.deleteBlock does (suspect 15 through RevertDiff)", &Plan{Genesis: genesis2, Ops: []Op{
			blockOpNoReads(add), {Kind: "revert"}}}},
		{"block only updating a key, then Revert", &Plan{Genesis: genesis2, Ops: []Op{
			blockOpNoReads(upd), {Kind: "revert"}}}},
		{"block deleting a key, then Revert", &Plan{Genesis: genesis2, Ops: []Op{
			blockOpNoReads(&Script{Cmd: []Step{del(0, 1)}}), {Kind: "revert"}}}},
		{"restart with the application level with the engine (ahead 0)", &Plan{Genesis: genesis2, GenesisHeight: 2, Ops: []Op{
			blockOpNoReads(upd), {Kind: "restart", Reopen: true}, blockOpNoReads(upd)}}},
		{"restart with the application 1 block ahead, block only updates a key (suspect 16)", &Plan{Genesis: genesis2, Ops: []Op{
			{Kind: "restart", Extra: []*Block{{Txs: []*Script{upd}}}}, blockOpNoReads(upd)}}},
		{"restart with the application 2 blocks ahead", &Plan{Genesis: genesis2, Ops: []Op{
			blockOpNoReads(upd), {Kind: "restart", Extra: []*Block{{Txs: []*Script{{Cmd: []Step{set(0, 1, "08")}}}}, {Txs: []*Script{{Cmd: []Step{set(0, 3, "09")}}}}}}, blockOpNoReads(upd)}}},
		{"restart with the application 3 blocks ahead, DB reopened", &Plan{Genesis: genesis2, Ops: []Op{
			{Kind: "restart", Reopen: true, Extra: []*Block{{Txs: []*Script{{Cmd: []Step{set(0, 1, "08")}}}}, {Txs: []*Script{{Cmd: []Step{set(0, 3, "09")}}}}, {Txs: []*Script{{Cmd: []Step{set(0, 1, "0a")}}}}}}}}},
		{"restart with the application 1 block ahead, block adds a key", &Plan{Genesis: genesis2, Ops: []Op{
			{Kind: "restart", Extra: []*Block{{Txs: []*Script{add}}}}}}},
		{"nested ctx.Snapshot/RestoreSnapshot, fresh views, command succeeds (suspect 13, ctx level)", &Plan{Genesis: genesis2, Ops: []Op{
			blockOp(&Script{Cmd: []Step{set(0, 1, "02"), {Op: "snap"}, set(0, 1, "03"), set(1, 2, "04"), {Op: "rest", N: 0}, set(2, 3, "05")}})}}},
		{"nested ctx.Snapshot/RestoreSnapshot, views obtained once at command start (suspect 13)", &Plan{Genesis: genesis2, Ops: []Op{
			blockOp(&Script{Hold: true, Cmd: []Step{{Op: "snap"}, set(0, 1, "03"), {Op: "rest", N: 0}, set(2, 3, "05")}})}}},
		{"Store.Snapshot/RestoreSnapshot on a prefix view (suspect 13, store level)", &Plan{Genesis: genesis2, Ops: []Op{
			blockOp(&Script{Cmd: []Step{{Op: "ssnap", S: 0}, set(0, 1, "03"), {Op: "srest", N: 0}}})}}},
		{"Store.RestoreSnapshot on a held view, then a write through it", &Plan{Genesis: genesis2, Ops: []Op{
			blockOp(&Script{Hold: true, Cmd: []Step{{Op: "ssnap", S: 0}, {Op: "srest", N: 0}, set(0, 1, "09")}})}}},
		{"failing command with nested ctx restore", &Plan{Genesis: genesis2, Ops: []Op{
			blockOp(&Script{Cmd: []Step{set(0, 1, "02"), {Op: "snap"}, set(0, 1, "03"), {Op: "rest", N: 0}, set(2, 3, "05")}, Fail: true}, &Script{})}}},
		{"failing command that used store-level and held views", &Plan{Genesis: genesis2, Ops: []Op{
			blockOp(&Script{Hold: true, Cmd: []Step{{Op: "ssnap", S: 0}, set(0, 1, "03"), {Op: "srest", N: 0}, set(0, 3, "04")}, Fail: true}, &Script{})}}},
		{"ExecuteTransaction request exactly as the engine builds it (no Consensus field)", &Plan{Genesis: genesis2, NilConsensus: true, Ops: []Op{
			blockOpNoReads(upd)}}},
		{"generator pass then consensus pass; add+delete in one command; delete then re-set; empty value", &Plan{Genesis: genesis2, Ops: []Op{
			{Kind: "block", Block: &Block{Gen: true, Reads: true, Txs: []*Script{
				{Cmd: []Step{set(1, 4, "01"), del(1, 4)}},
				{Cmd: []Step{del(0, 1), set(0, 1, "")}},
				{Cmd: []Step{set(2, 0, ""), set(2, 7, "ff")}},
			}, Before: []Step{set(1, 1, "b1"), {Op: "ev", V: "01"}}, After: []Step{set(1, 1, "a1"), {Op: "uev", V: "02"}}}}}}},
		{"hooks around a failing command keep their writes and events", &Plan{Genesis: genesis2, Ops: []Op{
			blockOp(&Script{Pre: []Step{set(0, 4, "f0"), {Op: "ev", V: "f1"}}, Cmd: []Step{set(0, 4, "c0"), {Op: "ev", V: "c1"}, {Op: "uev", V: "c2"}}, Post: []Step{set(0, 5, "e0"), {Op: "ev", V: "e1"}}, Fail: true})}}},
	}
}

// ---------------------------------------------------------------------------------------
// shrinking

func clonePlan(p *Plan) *Plan {
	b, _ := json.Marshal(p)
	q := &Plan{}
	if err := json.Unmarshal(b, q); err != nil {
		panic(err)
	}
	return q
}

func (p *Plan) blocks() []*Block {
	var out []*Block
	for i := range p.Ops {
		if p.Ops[i].Block != nil {
			out = append(out, p.Ops[i].Block)
		}
		out = append(out, p.Ops[i].Extra...)
	}
	return out
}

func dropStep(s []Step, i int) []Step { return append(append([]Step{}, s[:i]...), s[i+1:]...) }

// shrink greedily removes parts of the plan while the violation with the given key still
// occurs. budget bounds the number of re-runs.
func shrink(p *Plan, key string, budget int) (*Plan, int) {
	runs := 0
	still := func(q *Plan) bool {
		if runs >= budget {
			return false
		}
		runs++
		_, ok := runPlan(q).has(key)
		return ok
	}
	cur := clonePlan(p)
	if op, ok := runPlan(cur).has(key); ok && op >= 0 && op+1 < len(cur.Ops) {
		q := clonePlan(cur)
		q.Ops = q.Ops[:op+1]
		if still(q) {
			cur = q
		}
	}
	try := func(mut func(q *Plan) bool) bool {
		q := clonePlan(cur)
		if !mut(q) {
			return false
		}
		if still(q) {
			cur = q
			return true
		}
		return false
	}
	for progress := true; progress && runs < budget; {
		progress = false
		for i := 0; i < len(cur.Ops); i++ {
			if try(func(q *Plan) bool { q.Ops = append(q.Ops[:i], q.Ops[i+1:]...); return true }) {
				progress = true
				i--
			}
		}
		for i := range cur.Ops {
			for j := 0; j < len(cur.Ops[i].Extra); j++ {
				if try(func(q *Plan) bool { q.Ops[i].Extra = append(q.Ops[i].Extra[:j], q.Ops[i].Extra[j+1:]...); return true }) {
					progress = true
					j--
				}
			}
			if cur.Ops[i].Reopen && try(func(q *Plan) bool { q.Ops[i].Reopen = false; return true }) {
				progress = true
			}
		}
		for bi := range cur.blocks() {
			b := cur.blocks()[bi]
			for j := 0; j < len(cur.blocks()[bi].Txs); j++ {
				if try(func(q *Plan) bool { x := q.blocks()[bi]; x.Txs = append(x.Txs[:j], x.Txs[j+1:]...); return true }) {
					progress = true
					j--
				}
			}
			if (len(b.Before) > 0 || len(b.After) > 0) && try(func(q *Plan) bool { x := q.blocks()[bi]; x.Before, x.After = nil, nil; return true }) {
				progress = true
			}
			b = cur.blocks()[bi]
			if (b.Gen || b.VRead) && try(func(q *Plan) bool { x := q.blocks()[bi]; x.Gen, x.VRead = false, false; return true }) {
				progress = true
			}
			if b.Reads && try(func(q *Plan) bool { q.blocks()[bi].Reads = false; return true }) {
				progress = true
			}
			for ti := range cur.blocks()[bi].Txs {
				sc := cur.blocks()[bi].Txs[ti]
				if (len(sc.Pre) > 0 || len(sc.Post) > 0) && try(func(q *Plan) bool { x := q.blocks()[bi].Txs[ti]; x.Pre, x.Post = nil, nil; return true }) {
					progress = true
				}
				for si := 0; si < len(cur.blocks()[bi].Txs[ti].Cmd); si++ {
					if try(func(q *Plan) bool {
						x := q.blocks()[bi].Txs[ti]
						removed := x.Cmd[si]
						x.Cmd = dropStep(x.Cmd, si)
						if removed.Op == "snap" || removed.Op == "ssnap" {
							// keep restore indexes pointing at the same snapshots
							nth := 0
							for _, s := range q.blocks()[bi].Txs[ti].Cmd[:si] {
								if s.Op == "snap" || s.Op == "ssnap" {
									nth++
								}
							}
							var kept []Step
							for _, s := range x.Cmd {
								if s.Op == "rest" || s.Op == "srest" {
									if s.N == nth {
										continue
									}
									if s.N > nth {
										s.N--
									}
								}
								kept = append(kept, s)
							}
							x.Cmd = kept
						}
						return true
					}) {
						progress = true
						si--
					}
				}
				if cur.blocks()[bi].Txs[ti].Hold && try(func(q *Plan) bool { q.blocks()[bi].Txs[ti].Hold = false; return true }) {
					progress = true
				}
			}
		}
		for i := 0; i < len(cur.Genesis); i++ {
			if try(func(q *Plan) bool { q.Genesis = dropStep(q.Genesis, i); return true }) {
				progress = true
				i--
			}
		}
		if cur.GenesisHeight != 0 && try(func(q *Plan) bool { q.GenesisHeight = 0; return true }) {
			progress = true
		}
	}
	return cur, runs
}
