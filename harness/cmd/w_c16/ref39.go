package main

// Reference sparse Merkle root (LIP-0039), written from the LIP and independent of
// pkg/trie/smt: the root is a pure function of the final key->value map.
//
//	leaf   = SHA256(0x00 || key || value)
//	branch = SHA256(0x01 || left || right)
//	empty  = SHA256("")
//
// A subtree holding exactly one key is that key's leaf (the leaf sits at the highest
// position at which it is alone); a subtree holding no key is empty.

import (
	"bytes"
	"crypto/sha256"
	"encoding/hex"
	"sort"
)

type refEntry struct {
	key   []byte // full tree key (fixed length)
	value []byte // tree value (already hashed where the caller hashes)
}

var refEmpty = func() []byte { s := sha256.Sum256(nil); return s[:] }()

func h256(parts ...[]byte) []byte {
	h := sha256.New()
	for _, p := range parts {
		h.Write(p)
	}
	return h.Sum(nil)
}

func bitAt(b []byte, i int) byte {
	return (b[i/8] >> (7 - uint(i%8))) & 1
}

// refRoot returns the LIP-0039 root of the entries (keys distinct, same length).
func refRoot(entries []refEntry) []byte {
	es := make([]refEntry, len(entries))
	copy(es, entries)
	sort.Slice(es, func(i, j int) bool { return bytes.Compare(es[i].key, es[j].key) < 0 })
	return refSub(es, 0)
}

func refSub(es []refEntry, depth int) []byte {
	switch len(es) {
	case 0:
		return refEmpty
	case 1:
		return h256([]byte{0}, es[0].key, es[0].value)
	}
	i := sort.Search(len(es), func(j int) bool { return bitAt(es[j].key, depth) == 1 })
	return h256([]byte{1}, refSub(es[:i], depth+1), refSub(es[i:], depth+1))
}

// Independent facts: update vectors taken verbatim from the LIP-0039 fixtures shipped in
// /repo/pkg/trie/smt/fixtures/smt_fixtures.json (test cases 0, 1, 2, 3 and 5).
type refVector struct {
	keys, values []string
	root         string
}

var refVectors = []refVector{
	{nil, nil, "e3b0c44298fc1c149afbf4c8996fb92427ae41e4649b934ca495991b7852b855"},
	{
		[]string{"6e340b9cffb37a989ca544e6bb780a2c78901d3fb33738768511a30617afa01d"},
		[]string{"1406e05881e299367766d313e26c05564ec91bf721d31726bd6e46e60689539a"},
		"ccd1c136c75ffd2e3947466ad17dd6687d890ce50cbeb7ca7a4da638df482b96",
	},
	{
		[]string{"4bf5122f344554c53bde2ebb8cd2b7e3d1600ad631c385a5d7cce23c7785459a", "6e340b9cffb37a989ca544e6bb780a2c78901d3fb33738768511a30617afa01d"},
		[]string{"9c12cfdc04c74584d787ac3d23772132c18524bc7ab28dec4219b8fc5b425f70", "1406e05881e299367766d313e26c05564ec91bf721d31726bd6e46e60689539a"},
		"6d13bfad2a210dc084b9a896f79243d58c7fbd2721181b86cdaed00af349f429",
	},
	{
		[]string{"dbc1b4c900ffe48d575b5da5c638040125f65db0fe3e24494b76ea986457d986", "4bf5122f344554c53bde2ebb8cd2b7e3d1600ad631c385a5d7cce23c7785459a", "6e340b9cffb37a989ca544e6bb780a2c78901d3fb33738768511a30617afa01d"},
		[]string{"1cc3adea40ebfd94433ac004777d68150cce9db4c771bc7de1b297a7b795bbba", "9c12cfdc04c74584d787ac3d23772132c18524bc7ab28dec4219b8fc5b425f70", "1406e05881e299367766d313e26c05564ec91bf721d31726bd6e46e60689539a"},
		"abc92edff302a5c3528e256fb166edb2126f9c8c81f00ccd0b605069a44f12b0",
	},
	{
		[]string{"084fed08b978af4d7d196a7446a86b58009e636b611db16211b65a9aadff29c5", "dbc1b4c900ffe48d575b5da5c638040125f65db0fe3e24494b76ea986457d986", "4bf5122f344554c53bde2ebb8cd2b7e3d1600ad631c385a5d7cce23c7785459a", "e52d9c508c502347344d8c07ad91cbd6068afc75ff6292f062a09ca381c89e71", "6e340b9cffb37a989ca544e6bb780a2c78901d3fb33738768511a30617afa01d"},
		[]string{"c942a06c127c2c18022677e888020afb174208d299354f3ecfedb124a1f3fa45", "1cc3adea40ebfd94433ac004777d68150cce9db4c771bc7de1b297a7b795bbba", "9c12cfdc04c74584d787ac3d23772132c18524bc7ab28dec4219b8fc5b425f70", "214e63bf41490e67d34476778f6707aa6c8d2c8dccdf78ae11e40ee9f91e89a7", "1406e05881e299367766d313e26c05564ec91bf721d31726bd6e46e60689539a"},
		"0e4a35394e3f64a182a4e927e8ce363f6a842f645e8b19f1cdd99c42773e780a",
	},
}

// refVectorsOK checks the reference against the fixture vectors.
func refVectorsOK() (bool, string) {
	for i, v := range refVectors {
		es := make([]refEntry, len(v.keys))
		for j := range v.keys {
			k, _ := hex.DecodeString(v.keys[j])
			val, _ := hex.DecodeString(v.values[j])
			es[j] = refEntry{k, val}
		}
		if got := hex.EncodeToString(refRoot(es)); got != v.root {
			return false, "vector " + string(rune('0'+i)) + ": got " + got + " want " + v.root
		}
	}
	return true, ""
}
