package main

// Stream "crash" (fault enumeration): power loss at every mutating file-system call inside
// ABIHandler.Commit, ABIHandler.Revert and the Init recovery itself, followed by restart
// recovery with the engine's tip.
//
// Per scenario the history is run once on a counting strict in-memory FS to learn the N
// mutating FS calls of the targeted call (reference run, also gives the model tips); then
// for j = 1..N+1 the same history is rebuilt on a fresh FS, the crash is armed so that the
// j-th call and everything after it is not durable (j = N+1: the call completes, the crash
// comes right after it), the call is made, every handle is dropped, the DB closed, unsynced
// data discarded, the DB reopened and a new ABIHandler+Executer is given Init with the
// engine's tip.

import (
	"bytes"
	"encoding/hex"
	"fmt"
	"math/rand"
	"runtime/debug"
	"strings"

	"github.com/LiskHQ/lisk-engine/pkg/labi"

	"verifharness/internal/crashfs"
	"verifharness/internal/mon"
)

type crashScenario struct {
	Kind string `json:"kind"` // commit | commit-deleting | revert | init
	Plan *Plan  `json:"plan"` // the targeted call belongs to the last operation
}

func (s *crashScenario) stepKind() string {
	if strings.HasPrefix(s.Kind, "commit") {
		return "commit"
	}
	return s.Kind
}

// modelBlock is the state a block must produce from st (st is not modified).
func modelBlock(st kv, blk *Block) kv {
	cur := modelSteps(st.clone(), blk.Before, &[]mev{})
	for _, sc := range blk.Txs {
		cur = modelTx(cur, sc).final
	}
	return modelSteps(cur, blk.After, &[]mev{})
}

func presentKeys(st kv) [][2]int {
	var out [][2]int
	for s := range stores {
		for k := range keyUniverse {
			if _, ok := st[fullKey(s, k)]; ok {
				out = append(out, [2]int{s, k})
			}
		}
	}
	return out
}

// changingBlock returns a block that changes st (adds, overwrites and, if wanted, deletes
// committed keys).
func changingBlock(r *rand.Rand, st kv, deleting bool) *Block {
	blk := genBlock(r, "plain")
	blk.Gen = false
	if len(blk.Txs) > 3 {
		blk.Txs = blk.Txs[:3]
	}
	if deleting {
		pk := presentKeys(modelBlock(st, blk))
		sc := &Script{}
		for i := 0; i < 1+r.Intn(3) && len(pk) > 0; i++ {
			x := pk[r.Intn(len(pk))]
			sc.Cmd = append(sc.Cmd, del(x[0], x[1]))
		}
		blk.Txs = append(blk.Txs, sc)
	}
	if modelBlock(st, blk).equal(st) || !deleting {
		blk.Txs = append(blk.Txs, &Script{Cmd: []Step{set(r.Intn(len(stores)), r.Intn(len(keyUniverse)), hex.EncodeToString([]byte{0xc0, byte(r.Intn(256)), byte(r.Intn(256))}))}})
	}
	return blk
}

func genCrashScenario(r *rand.Rand, idx int) *crashScenario {
	sc := &crashScenario{Kind: []string{"commit", "commit-deleting", "revert", "init"}[idx%4]}
	p := &Plan{GenesisHeight: uint32(r.Intn(3))}
	for i, n := 0, 2+r.Intn(8); i < n; i++ {
		p.Genesis = append(p.Genesis, Step{Op: "set", S: r.Intn(len(stores)), K: r.Intn(len(keyUniverse)), V: genValue(r)})
	}
	st := modelSteps(kv{}, p.Genesis, &[]mev{})
	for i, n := 0, r.Intn(3); i < n; i++ {
		blk := changingBlock(r, st, r.Intn(2) == 0)
		st = modelBlock(st, blk)
		p.Ops = append(p.Ops, Op{Kind: "block", Block: blk})
	}
	switch sc.Kind {
	case "commit":
		p.Ops = append(p.Ops, Op{Kind: "block", Block: changingBlock(r, st, false)})
	case "commit-deleting":
		p.Ops = append(p.Ops, Op{Kind: "block", Block: changingBlock(r, st, true)})
	case "revert":
		p.Ops = append(p.Ops, Op{Kind: "block", Block: changingBlock(r, st, r.Intn(2) == 0)}, Op{Kind: "revert"})
	case "init":
		op := Op{Kind: "restart"}
		for i, n := 0, 1+r.Intn(3); i < n; i++ {
			blk := changingBlock(r, st, r.Intn(2) == 0)
			st = modelBlock(st, blk)
			op.Extra = append(op.Extra, blk)
		}
		p.Ops = append(p.Ops, op)
	}
	sc.Plan = p
	return sc
}

type crashRun struct {
	r      *runner
	fs     *crashfs.FS
	n      int      // FS calls of the targeted call
	trace  []string // their names
	before []tip    // application chain when the targeted call started
	done   bool     // the targeted call was reached
}

// runCrash rebuilds the history on a fresh FS; j > 0 arms the crash at the j-th FS call of
// the targeted call and stops right after that call.
func runCrash(sc *crashScenario, j int) *crashRun {
	fs := crashfs.New()
	cr := &crashRun{fs: fs}
	r := newRunner(sc.Plan, fs, "")
	cr.r = r
	r.stepKind, r.stepOp = sc.stepKind(), len(sc.Plan.Ops)-1
	c0 := 0
	r.stepBefore = func() {
		cr.before = append([]tip{}, r.chain...)
		c0 = fs.Count()
		fs.StartTrace()
		if j > 0 {
			fs.CrashAfter(j)
		}
	}
	r.stepAfter = func() bool {
		cr.trace = fs.StopTrace()
		cr.n = fs.Count() - c0
		cr.done = true
		return j > 0
	}
	r.run()
	return cr
}

func opClass(trace []string, j int) string {
	if j-1 >= len(trace) {
		return "after-the-call"
	}
	op := trace[j-1]
	if i := strings.Index(op, ":"); i >= 0 {
		name := op[i+1:]
		if k := strings.LastIndex(name, "."); k >= 0 {
			return op[:i] + ":*" + name[k:]
		}
		if strings.HasPrefix(name, "MANIFEST") {
			return op[:i] + ":MANIFEST"
		}
		return op[:i] + ":" + name
	}
	return op
}

func safely(f func() error) (err error, panicked any, stack string) {
	defer func() {
		if p := recover(); p != nil {
			panicked, stack = p, string(debug.Stack())
		}
	}()
	return f(), nil, ""
}

// recoverAndCheck: new handler on the recovered DB, Init with the engine's tip, then the
// application must be exactly at that tip.
func recoverAndCheck(k *mon.Case, r *runner, kind string, engine tip, wit map[string]any) bool {
	r.stepBefore, r.stepAfter = nil, nil
	r.newHandler()
	err, p, st := safely(func() error {
		_, e := r.h.Init(&labi.InitRequest{ChainID: chainID, LastBlockHeight: engine.height, LastStateRoot: engine.header.StateRoot})
		return e
	})
	if p != nil {
		wit["panic"] = fmt.Sprint(p)
		wit["stack"] = firstLines(st, 25)
		k.Violation("crash:"+kind+":init-panics:"+mon.PanicKey(p, st), "Init panicked after a crash", wit)
		return false
	}
	if err != nil {
		wit["err"] = err.Error()
		k.Violation("crash:"+kind+":init-fails", "after a crash Init with the engine's tip returns an error: "+errClass(err), wit)
		return false
	}
	ok := true
	if h, root, found := r.treeState(); !found || h != engine.height || !bytes.Equal(root, engine.root) {
		wit["record_height"] = h
		wit["record_root"] = hex.EncodeToString(root)
		k.Violation("crash:"+kind+":tree-state-record-not-engine-tip-after-recovery", "after crash + Init the application's (height, root) record is not the engine's tip", wit)
		ok = false
	}
	if d := r.dump(0); !d.equal(engine.state) {
		wit["state_diff"] = engine.state.diff(d)
		k.Violation("crash:"+kind+":state-differs-from-engine-tip-after-recovery", "after crash + Init the state DB is not the state recorded at the engine's height in the reference run", wit)
		return false
	}
	if !ok {
		return false
	}
	// dry-run Commit of an empty block reproduces the root
	hdr := mkHeader(engine.header, engine.height+1, nil)
	var root []byte
	err, p, _ = safely(func() error {
		resp, e := r.h.InitStateMachine(&labi.InitStateMachineRequest{Header: hdr})
		if e != nil {
			return e
		}
		defer r.h.Clear(&labi.ClearRequest{}) //nolint:errcheck
		cresp, e := r.h.Commit(&labi.CommitRequest{ContextID: resp.ContextID, StateRoot: engine.root, DryRun: true})
		if e == nil {
			root = cresp.StateRoot
		}
		return e
	})
	if p != nil || err != nil || !bytes.Equal(root, engine.root) {
		wit["err"] = fmt.Sprint(err, p)
		k.Violation("crash:"+kind+":empty-block-dry-run-root-differs-after-recovery", "after crash + Init a dry-run Commit of an empty block does not reproduce the engine's root", wit)
		return false
	}
	// a dry run of a block touching every store must work on the recovered tree and agree
	// with the model (root, reads, events)
	probe := &Block{Reads: true, Txs: []*Script{{Cmd: []Step{set(0, 1, "c1"), set(1, 2, "c2"), set(2, 3, "c3")}}}}
	if pk := presentKeys(engine.state); len(pk) > 0 {
		probe.Txs = append(probe.Txs, &Script{Cmd: []Step{del(pk[0][0], pk[0][1])}})
	}
	saved := r.out
	r.out = &outcome{counts: map[string]int{}, nontrivial: map[string]struct{}{}}
	r.op, r.stepKind = -1, ""
	r.chain = []tip{engine}
	r.mod.rec = &recorder{}
	var perr any
	func() {
		defer func() { perr = recover() }()
		r.pass(probe, hdr, engine, false)
	}()
	probeOut := r.out
	r.out = saved
	if perr != nil || len(probeOut.viols) > 0 {
		var keys []string
		for _, v := range probeOut.viols {
			keys = append(keys, v.Key)
		}
		wit["probe_violations"] = keys
		wit["probe_panic"] = fmt.Sprint(perr)
		k.Violation("crash:"+kind+":next-block-dry-run-differs-after-recovery", "after crash + Init the dry run of the next block disagrees with the model of the engine tip's state", wit)
		return false
	}
	return true
}

func crashCase(k *mon.Case) {
	sc := genCrashScenario(rand.New(rand.NewSource(k.R.Int63())), k.Index)
	kind := sc.stepKind()
	ref := runCrash(sc, 0)
	refChain := append([]tip{}, ref.r.chain...)
	ref.r.close()
	if len(ref.r.out.viols) > 0 || !ref.done {
		// the history itself already violates the property without any crash: that is the
		// other streams' finding; nothing to enumerate here
		for _, v := range ref.r.out.viols {
			k.Count("crash_reference_run_violates:"+v.Key, 1)
		}
		k.Inconclusive("crash-reference-run-not-clean")
		return
	}
	N := ref.n
	k.Count("crash_scenarios_"+sc.Kind, 1)
	k.Count("crash_fs_calls_in_targeted_calls", N)
	k.Sample(map[string]any{"kind": sc.Kind, "fs_calls": N, "trace": ref.trace, "plan": sc.Plan})
	before := ref.before // application chain at the start of the call
	tipAt := func(chain []tip, height uint32) (tip, bool) {
		for _, t := range chain {
			if t.height == height {
				return t, true
			}
		}
		return tip{}, false
	}
	for j := 1; j <= N+1; j++ {
		k.Eval(1)
		cr := runCrash(sc, j)
		r := cr.r
		wit := map[string]any{"scenario": sc.Kind, "crash_at_fs_call": j, "of": N, "op": opClass(ref.trace, j), "trace": ref.trace, "plan": sc.Plan}
		if !cr.done || len(r.out.viols) > 0 {
			k.Inconclusive("crash-rebuild-diverged")
			r.close()
			continue
		}
		if cr.n != N {
			k.Count("crash_nondeterministic_fs_call_count", 1)
		}
		if j <= N && !cr.fs.Crashed() {
			k.Count("crash_point_not_reached", 1)
		}
		// power loss: drop every handle, close, discard unsynced data, reopen
		r.h = nil
		r.stateDB.Close() //nolint:errcheck
		r.stateDB = nil
		cr.fs.Recover()
		if err := r.open(); err != nil {
			wit["err"] = err.Error()
			k.Violation("crash:"+kind+":reopen-fails", "the state DB cannot be reopened after a crash", wit)
			r.close()
			continue
		}
		recH, _, _ := r.treeState()
		top := before[len(before)-1]
		var engines []tip
		switch kind {
		case "commit":
			// the engine writes its own batch only after labi.Commit returned: it is at h-1;
			// if the call completed (j = N+1) it may also have stored block h
			engines = []tip{top}
			if j == N+1 {
				if t, ok := tipAt(refChain, top.height+1); ok {
					engines = append(engines, t)
				}
			}
			wit["application_record_height_after_crash"] = recH
		case "revert":
			// consensus.deleteBlock reverts the application first and removes its own block
			// afterwards: the engine is at h unless the call completed. An application that
			// durably reverted while the engine did not is behind the engine, which Init does
			// not promise to repair: the engine tip tried is the one at the height the
			// application records (h or h-1); any other height is torn.
			prev := before[len(before)-2]
			switch recH {
			case top.height:
				engines = []tip{top}
			case prev.height:
				engines = []tip{prev}
				if j <= N {
					k.Count("crash_revert_durable_before_engine_removed_block(not judged)", 1)
				}
			default:
				wit["record_height"] = recH
				k.Violation("crash:revert:marker-height-unexpected", "after a crash inside Revert the application records neither the reverted block's height nor the previous one", wit)
				r.close()
				continue
			}
		case "init":
			// the engine has not moved: Init again with the same tip
			eng := refChain[len(refChain)-1]
			engines = []tip{eng}
			wit["application_record_height_after_crash"] = recH
		}
		for i, eng := range engines {
			if i > 0 {
				// second engine choice: rebuild (recovery mutated the DB)
				r.close()
				cr = runCrash(sc, j)
				r = cr.r
				r.h = nil
				r.stateDB.Close() //nolint:errcheck
				r.stateDB = nil
				cr.fs.Recover()
				if err := r.open(); err != nil {
					break
				}
			}
			w := map[string]any{}
			for a, b := range wit {
				w[a] = b
			}
			w["engine_height"] = eng.height
			w["block_height"] = top.height + 1
			if recoverAndCheck(k, r, kind, eng, w) {
				k.Count("crash_recovered_"+kind, 1)
				rel := "at-engine-tip"
				if recH > eng.height {
					rel = fmt.Sprintf("ahead-by-%d", recH-eng.height)
				}
				k.Nontrivial(fmt.Sprintf("%s|%s|app-after-crash=%s|engine-choice=%d", sc.Kind, opClass(ref.trace, j), rel, i))
			}
		}
		r.close()
	}
}
