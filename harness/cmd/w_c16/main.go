// Worker for property C16: transaction execution is atomic; the state root is a function
// of the state; revert and restart recovery.
package main

import (
	"bytes"
	"encoding/hex"
	"fmt"
	"math/rand"
	"sync"

	"github.com/LiskHQ/lisk-engine/pkg/db"
	"github.com/LiskHQ/lisk-engine/pkg/trie/smt"

	"verifharness/internal/mon"
)

var (
	shrunkMu sync.Mutex
	shrunk   = map[string]bool{}
)

func report(k *mon.Case, name string, p *Plan, out *outcome) {
	for n, c := range out.counts {
		k.Count(n, c)
	}
	k.Eval(out.evals)
	for key := range out.nontrivial {
		k.Nontrivial(key)
	}
	for _, v := range out.viols {
		k.Count("violation:"+v.Key, 1)
		w := map[string]any{"case": name, "op_index": v.Op, "detail": v.Detail}
		shrunkMu.Lock()
		first := !shrunk[v.Key] && len(shrunk) < 16
		if first {
			shrunk[v.Key] = true
		}
		shrunkMu.Unlock()
		if first {
			min, runs := shrink(p, v.Key, 400)
			w["minimal_plan"] = min
			w["shrink_runs"] = runs
			if mo := runPlan(min); len(mo.viols) > 0 {
				for _, mv := range mo.viols {
					if mv.Key == v.Key {
						w["detail_on_minimal_plan"] = mv.Detail
					}
				}
			}
		} else {
			w["plan"] = p
		}
		k.Violation(v.Key, v.What, w)
	}
}

// ref39 stream: the reference root against independent vectors and against smt.Trie.
func ref39Case(k *mon.Case) {
	if ok, why := refVectorsOK(); !ok {
		k.Violation("ref39:reference-fails-LIP-0039-fixture-vector", "the harness' own reference root disagrees with a fixture vector: "+why, nil)
		return
	}
	r := k.R
	keyLen := []int{32, 38, 38, 38, 8, 4}[r.Intn(6)]
	n := []int{0, 1, 2, 3, 5, 9, 17, 40, 120}[r.Intn(9)]
	model := map[string][]byte{}
	mdb, err := db.NewInMemoryDB()
	if err != nil {
		panic(err)
	}
	defer mdb.Close()
	root := []byte{}
	rounds := 1 + r.Intn(4)
	withDeletes := false
	clustered := r.Intn(2) == 0
	for round := 0; round < rounds; round++ {
		var keys, values [][]byte
		seen := map[string]bool{}
		for i := 0; i < n; i++ {
			key := make([]byte, keyLen)
			r.Read(key)
			if clustered && keyLen > 6 { // common 6-byte store prefix, as in the state tree
				copy(key, []byte{0xaa, 0xaa, 0xaa, 0x01, 0, byte(r.Intn(2))})
			}
			if r.Intn(4) == 0 && len(model) > 0 { // touch an existing key
				for mk := range model {
					key = []byte(mk)
					break
				}
			}
			if seen[string(key)] {
				continue
			}
			seen[string(key)] = true
			val := make([]byte, 32)
			r.Read(val)
			if r.Intn(5) == 0 {
				val = []byte{} // LIP-0039 / smt.Update: empty value deletes
				withDeletes = true
				delete(model, string(key))
			} else {
				model[string(key)] = val
			}
			keys = append(keys, key)
			values = append(values, val)
		}
		t := smt.NewTrie(root, keyLen)
		root, err = t.Update(mdb, keys, values)
		if err != nil {
			k.Inconclusive("smt.Update error in ref39 stream")
			return
		}
	}
	es := make([]refEntry, 0, len(model))
	for mk, v := range model {
		es = append(es, refEntry{[]byte(mk), v})
	}
	want := refRoot(es)
	k.Count("ref39_compared_with_smt_trie", 1)
	if withDeletes {
		k.Count("ref39_compared_with_deletes", 1)
	}
	k.Nontrivial(fmt.Sprintf("keylen=%d:n=%d:rounds=%d:deletes=%t:clustered=%t:final=%t", keyLen, n, rounds, withDeletes, clustered, len(model) > 0))
	if !bytes.Equal(root, want) {
		kind := "insert-only"
		if withDeletes {
			kind = "with-deletes"
		}
		k.Violation("ref39:smt.Trie-root-differs-from-reference:"+kind, "smt.Trie.Update root differs from the recursive LIP-0039 root of the final map",
			map[string]any{"keylen": keyLen, "keys": len(model), "rounds": rounds, "got": hex.EncodeToString(root), "want": hex.EncodeToString(want)})
	}
}

func main() {
	mon.Main(mon.Options{
		Property: "C16",
		Level:    "exploration",
		Rule: "stream chain: random histories (genesis, then block / revert / restart-with-app-0..3-ahead) over a real ABIHandler+statemachine.Executer+pebble, " +
			"blocks of 0-8 scripted transactions (set/delete/overwrite over 3 stores x 8 keys, nested ctx/store snapshots, revertible/unrevertible events, hooks, success or failure); " +
			"stream directed: one minimal history per clause / suspected defect; stream ref39: reference root vs smt.Trie. " +
			"stream crash (fault enumeration, exhaustive per scenario): power loss at every mutating FS call (strict in-memory FS) inside ABIHandler.Commit (state-changing / key-deleting block), Revert and the Init rollback, then reopen + Init with the engine's tip; non-trivial key = (scenario kind, FS call class at the crash boundary, where the application was after the crash, engine choice). " +
			"A transaction is non-trivial under the key (fails?, feature class, changed state?, deleted a committed key?, re-set after delete?, overwrote?, event kinds, hooks); " +
			"blocks, reverts (added/deleted/updated keys) and restarts (blocks ahead, reopen) have their own keys",
		Assumptions: []string{
			"state DB key = 0x00 || 4-byte store prefix || 2-byte sub-store prefix || key; tree key = store prefix || sub-store prefix || SHA256(key) (38 bytes), tree value = SHA256(value); an empty value is a present key (pkg/framework/state_batch.go, diffdb.KeySize)",
			"LIP-0039 root computed by the worker's own recursive reference, validated in every run against 5 fixture vectors of pkg/trie/smt/fixtures and against smt.Trie on random maps (stream ref39)",
			"Snapshot/RestoreSnapshot (ctx level and Store level) are modelled as: snapshot = copy of the whole staged state, restore = state becomes that copy; writes made after a restore are kept",
			"ExecuteTransactionRequest carries a non-nil Consensus in streams chain/directed except the directed case that reproduces the engine's request (the engine's callers omit the field)",
			"restart = new ABIHandler and Executer over the same pebble DB (optionally closed and reopened on the same in-memory FS); the engine's tip is the last block the harness counts as persisted by the engine",
			"after an engine-style Revert is rejected for a root mismatch the harness repeats the Revert without ExpectedStateRoot only to keep observing the state DB; restarts are skipped afterwards",
			"Store.Iterate/Range results are only counted against Get (they are property C12's subject)",
			"stream crash: pebble's batch+WAL atomicity and the strict MemFS power-loss model (SetIgnoreSyncs/ResetToSyncedState) are trusted; the engine's tip after a crash inside Commit of block h is h-1 (the engine writes its batch after labi.Commit returns), also h when the call completed; after a crash inside Revert the engine tip tried is the one at the height the application records (an application that durably reverted before the engine removed its block is behind the engine, which Init does not promise to repair: counted only)",
		},
	}, func(c *mon.Ctx) {
		c.Cases("ref39", c.N(400, 8000), ref39Case)
		dps := directedPlans()
		c.Cases("directed", len(dps), func(k *mon.Case) {
			d := dps[k.Index]
			out := runPlan(d.Plan)
			k.Sample(map[string]any{"name": d.Name, "plan": d.Plan, "violations": len(out.viols)})
			k.Nontrivial("directed:" + d.Name)
			report(k, d.Name, d.Plan, out)
		})
		c.Cases("crash", c.N(64, 2400), crashCase)
		c.Cases("chain", c.N(4800, 70000), func(k *mon.Case) {
			p, mode := genPlan(rand.New(rand.NewSource(k.R.Int63())), c.N(8, 12))
			out := runPlan(p)
			k.Count("cases_mode_"+mode, 1)
			k.Sample(map[string]any{"mode": mode, "ops": len(p.Ops), "plan": p})
			report(k, "random:"+mode, p, out)
		})
	})
}
