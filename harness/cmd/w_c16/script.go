package main

// Scripts (the data carried in transaction params / block assets), the key universe and
// the reference model of what a script must do to the state and to the event list.

import (
	"encoding/hex"
	"encoding/json"
	"fmt"
	"sort"
)

const modName = "vmod"
const cmdName = "script"

// A module store is addressed by a 4-byte store prefix and a 2-byte sub-store prefix
// (framework.prefixSize = 6 = "4 bytes module ID and 2 bytes store prefix").
type storeID struct{ store, sub []byte }

var stores = []storeID{
	{[]byte{0xaa, 0xaa, 0xaa, 0x01}, []byte{0x00, 0x00}},
	{[]byte{0xaa, 0xaa, 0xaa, 0x01}, []byte{0x00, 0x01}}, // same store, other sub-store
	{[]byte{0xbb, 0x00, 0x00, 0x02}, []byte{0x80, 0x00}}, // other store
}

var keyUniverse = [][]byte{
	{},
	[]byte("a"),
	[]byte("ab"),
	[]byte("b"),
	{0xff},
	{0x00},
	[]byte("ab\x00"),
	h256([]byte("long key")),
}

// fullKey is the key as it appears in the state DB: StateDBPrefixState(0x00) || store || sub || key.
func fullKey(s, k int) string {
	b := []byte{0}
	b = append(b, stores[s].store...)
	b = append(b, stores[s].sub...)
	b = append(b, keyUniverse[k]...)
	return string(b)
}

// Step is one instruction of a script.
//
//	set S K V   store S, key K := V            del S K
//	snap        id := ctx.Snapshot()           rest N   ctx.RestoreSnapshot(id of N-th snap)
//	ssnap S     id := view(S).Snapshot()       srest N  same view .RestoreSnapshot(id)
//	ev V        EventQueue().Add (revertible)  uev V    EventQueue().AddUnrevertible
type Step struct {
	Op string `json:"o"`
	S  int    `json:"s,omitempty"`
	K  int    `json:"k,omitempty"`
	N  int    `json:"n,omitempty"`
	V  string `json:"v,omitempty"` // hex
}

func (s Step) String() string {
	switch s.Op {
	case "set":
		return fmt.Sprintf("set(s%d,k%d,%s)", s.S, s.K, s.V)
	case "del":
		return fmt.Sprintf("del(s%d,k%d)", s.S, s.K)
	case "ssnap":
		return fmt.Sprintf("ssnap(s%d)", s.S)
	case "rest", "srest":
		return fmt.Sprintf("%s(#%d)", s.Op, s.N)
	case "ev", "uev":
		return fmt.Sprintf("%s(%s)", s.Op, s.V)
	}
	return s.Op
}

// Script is the params of one transaction.
type Script struct {
	Hold  bool   `json:"hold,omitempty"` // obtain the store views once at command start and reuse them
	Pre   []Step `json:"pre,omitempty"`  // module.BeforeCommandExecute (set/del/ev/uev only)
	Cmd   []Step `json:"cmd,omitempty"`  // command.Execute
	Post  []Step `json:"post,omitempty"` // module.AfterCommandExecute (set/del/ev/uev only)
	Fail  bool   `json:"fail,omitempty"` // command returns an error after its steps
	Salt  int    `json:"salt,omitempty"` // makes transaction IDs distinct
	VRead bool   `json:"vr,omitempty"`   // module.VerifyTransaction reads the universe and reports it (counted only)
}

// BlockScript is the block asset of the harness module.
type BlockScript struct {
	Before []Step `json:"b,omitempty"` // module.BeforeTransactionsExecute
	After  []Step `json:"a,omitempty"` // module.AfterTransactionsExecute
	Reads  bool   `json:"r,omitempty"` // hooks read the whole universe and report it
}

// GenesisScript is the genesis block asset of the harness module.
type GenesisScript struct {
	Init []Step `json:"i,omitempty"`
}

func mustJSON(v any) []byte {
	b, err := json.Marshal(v)
	if err != nil {
		panic(err)
	}
	return b
}

func unhex(s string) []byte {
	b, err := hex.DecodeString(s)
	if err != nil {
		panic(err)
	}
	if b == nil {
		b = []byte{}
	}
	return b
}

// feature is the minimal script feature class used in violation keys.
func (sc *Script) feature() string {
	rest, srest := false, false
	for _, s := range sc.Cmd {
		if s.Op == "rest" {
			rest = true
		}
		if s.Op == "srest" {
			srest = true
		}
	}
	switch {
	case srest:
		return "store-level-restore"
	case rest && sc.Hold:
		return "ctx-restore+held-view"
	case rest:
		return "ctx-restore"
	}
	return "plain"
}

// ------------------------------------------------------------------------------------
// reference model

type kv map[string]string

func (m kv) clone() kv {
	c := make(kv, len(m))
	for k, v := range m {
		c[k] = v
	}
	return c
}

func (m kv) equal(o kv) bool {
	if len(m) != len(o) {
		return false
	}
	for k, v := range m {
		if ov, ok := o[k]; !ok || ov != v {
			return false
		}
	}
	return true
}

func (m kv) diff(o kv) []string {
	var out []string
	for k, v := range m {
		if ov, ok := o[k]; !ok {
			out = append(out, fmt.Sprintf("%x: model=%x actual=<absent>", k, v))
		} else if ov != v {
			out = append(out, fmt.Sprintf("%x: model=%x actual=%x", k, v, ov))
		}
	}
	for k, v := range o {
		if _, ok := m[k]; !ok {
			out = append(out, fmt.Sprintf("%x: model=<absent> actual=%x", k, v))
		}
	}
	sort.Strings(out)
	if len(out) > 8 {
		out = out[:8]
	}
	return out
}

type mev struct {
	name string
	data string
	rev  bool // revertible
}

// modelSteps applies steps to st (in place semantics via return) and appends events.
// Snapshot semantics (both ctx-level and store-level): a snapshot is a copy of the whole
// state; restoring it makes the state equal to that copy and consumes the snapshot.
func modelSteps(st kv, steps []Step, evs *[]mev) kv {
	var snaps []kv
	for _, s := range steps {
		switch s.Op {
		case "set":
			st[fullKey(s.S, s.K)] = string(unhex(s.V))
		case "del":
			delete(st, fullKey(s.S, s.K))
		case "snap", "ssnap":
			snaps = append(snaps, st.clone())
		case "rest", "srest":
			if s.N < len(snaps) && snaps[s.N] != nil {
				st = snaps[s.N]
				snaps[s.N] = nil
			}
		case "ev":
			*evs = append(*evs, mev{"rev", string(unhex(s.V)), true})
		case "uev":
			*evs = append(*evs, mev{"unrev", string(unhex(s.V)), false})
		}
	}
	return st
}

type txModel struct {
	atPre, atExec, atPost, final kv
	events                       []mev // expected (name,data) list without the standard event
	eventsKeepRev                []mev // what the list would be if revertible events were kept
}

// modelTx returns the states a transaction must produce, starting from st (not modified).
func modelTx(st kv, sc *Script) *txModel {
	m := &txModel{atPre: st.clone()}
	var pre, cmd, post []mev
	cur := modelSteps(st.clone(), sc.Pre, &pre)
	m.atExec = cur.clone()
	after := modelSteps(cur.clone(), sc.Cmd, &cmd)
	if sc.Fail {
		after = cur.clone()
	}
	m.atPost = after.clone()
	m.final = modelSteps(after.clone(), sc.Post, &post)
	m.eventsKeepRev = append(append(append([]mev{}, pre...), cmd...), post...)
	m.events = append([]mev{}, pre...)
	for _, e := range cmd {
		if !sc.Fail || !e.rev {
			m.events = append(m.events, e)
		}
	}
	m.events = append(m.events, post...)
	return m
}

// ------------------------------------------------------------------------------------
// tree keys

// treeEntries maps a state to LIP-0039 entries exactly as pkg/framework/state_batch.go
// derives them: key = fullKey[1:7] || SHA256(fullKey[7:]), value = SHA256(value).
// ghosts (optional) are keys left in the tree with value SHA256("") (diagnosis only).
func treeEntries(st kv, ghosts map[string]bool) []refEntry {
	out := make([]refEntry, 0, len(st)+len(ghosts))
	for k, v := range st {
		kb := []byte(k)
		out = append(out, refEntry{append(append([]byte{}, kb[1:7]...), h256(kb[7:])...), h256([]byte(v))})
	}
	for k := range ghosts {
		if _, ok := st[k]; ok {
			continue
		}
		kb := []byte(k)
		out = append(out, refEntry{append(append([]byte{}, kb[1:7]...), h256(kb[7:])...), refEmpty})
	}
	return out
}
