package main

// The harness module: a real statemachine/framework module whose single command
// interprets the Script carried in the transaction params, and whose block hooks interpret
// the BlockScript carried in the block asset of the module.

import (
	"encoding/json"
	"errors"
	"fmt"

	"github.com/LiskHQ/lisk-engine/pkg/blockchain"
	"github.com/LiskHQ/lisk-engine/pkg/framework/blueprint"
	"github.com/LiskHQ/lisk-engine/pkg/statemachine"
)

// changeCtx is satisfied by every state-changing statemachine context.
type changeCtx interface {
	GetStore(storePrefix, substorePrefix []byte) statemachine.Store
	EventQueue() statemachine.EventAdder
	Snapshot() int
	RestoreSnapshot(id int) error
}

type observation struct {
	Hook  string
	TxID  string
	State kv
}

// recorder is what the module reports back to the runner (one per environment, single
// goroutine: the ABI is driven synchronously).
type recorder struct {
	obs            []observation
	apiErrs        []string
	iterDisagree   int // Iterate("") of a store disagrees with Get over the universe (counted only; C12's subject)
	hasDisagree    int
	executed       int
	verifyObserved []kv
}

func (r *recorder) drain() []observation {
	o := r.obs
	r.obs = nil
	return o
}

type vmod struct {
	blueprint.Module
	rec *recorder
	cmd *scriptCommand
}

func newVmod() *vmod {
	m := &vmod{rec: &recorder{}}
	m.cmd = &scriptCommand{m: m}
	return m
}

func (m *vmod) Name() string { return modName }

func (m *vmod) GetCommand(name string) (statemachine.Command, bool) {
	if name == cmdName {
		return m.cmd, true
	}
	return nil, false
}

type storeGetter func(s int) statemachine.ImmutableStore

// readAll reads the whole key universe through fresh views.
func (m *vmod) readAll(get storeGetter) kv {
	out := kv{}
	for s := range stores {
		view := get(s)
		n := 0
		for k := range keyUniverse {
			v, ok := view.Get(keyUniverse[k])
			if ok != view.Has(keyUniverse[k]) {
				m.rec.hasDisagree++
			}
			if ok {
				out[fullKey(s, k)] = string(v)
				n++
			}
		}
		// counted only: Iterate/Range are the subject of C12
		it := view.Iterate([]byte{}, -1, false)
		if len(it) != n {
			m.rec.iterDisagree++
		}
	}
	return out
}

func (m *vmod) observe(hook, txID string, reads bool, get storeGetter) {
	if !reads {
		return
	}
	m.rec.obs = append(m.rec.obs, observation{Hook: hook, TxID: txID, State: m.readAll(get)})
}

func blockScriptOf(assets blockchain.ReadableBlockAssets) *BlockScript {
	bs := &BlockScript{}
	if data, ok := assets.GetAsset(modName); ok {
		if err := json.Unmarshal(data, bs); err != nil {
			panic("harness: bad block asset: " + err.Error())
		}
	}
	return bs
}

func scriptOf(params []byte) *Script {
	sc := &Script{}
	if err := json.Unmarshal(params, sc); err != nil {
		panic("harness: bad params: " + err.Error())
	}
	return sc
}

type liveSnap struct {
	id   int
	view statemachine.Store // nil: ctx-level
}

// interpret runs steps against the real context.
func (m *vmod) interpret(ctx changeCtx, steps []Step, hold bool) {
	var held []statemachine.Store
	if hold {
		held = make([]statemachine.Store, len(stores))
		for i, s := range stores {
			held[i] = ctx.GetStore(s.store, s.sub)
		}
	}
	view := func(s int) statemachine.Store {
		if hold {
			return held[s]
		}
		return ctx.GetStore(stores[s].store, stores[s].sub)
	}
	var snaps []*liveSnap
	for _, s := range steps {
		switch s.Op {
		case "set":
			view(s.S).Set(keyUniverse[s.K], unhex(s.V))
		case "del":
			view(s.S).Del(keyUniverse[s.K])
		case "snap":
			snaps = append(snaps, &liveSnap{id: ctx.Snapshot()})
		case "ssnap":
			v := view(s.S)
			snaps = append(snaps, &liveSnap{id: v.Snapshot(), view: v})
		case "rest", "srest":
			if s.N >= len(snaps) || snaps[s.N] == nil {
				continue
			}
			sn := snaps[s.N]
			snaps[s.N] = nil
			var err error
			if sn.view == nil {
				err = ctx.RestoreSnapshot(sn.id)
			} else {
				err = sn.view.RestoreSnapshot(sn.id)
			}
			if err != nil {
				m.rec.apiErrs = append(m.rec.apiErrs, fmt.Sprintf("%s of a live snapshot: %v", s.Op, err))
			}
		case "ev":
			if err := ctx.EventQueue().Add(modName, "rev", unhex(s.V), nil); err != nil {
				m.rec.apiErrs = append(m.rec.apiErrs, "EventQueue.Add: "+err.Error())
			}
		case "uev":
			if err := ctx.EventQueue().AddUnrevertible(modName, "unrev", unhex(s.V), nil); err != nil {
				m.rec.apiErrs = append(m.rec.apiErrs, "EventQueue.AddUnrevertible: "+err.Error())
			}
		}
	}
}

func mutableGetter(ctx changeCtx) storeGetter {
	return func(s int) statemachine.ImmutableStore { return ctx.GetStore(stores[s].store, stores[s].sub) }
}

func (m *vmod) InitGenesisState(ctx *statemachine.GenesisBlockProcessingContext) error {
	gs := &GenesisScript{}
	if data, ok := ctx.BlockAssets().GetAsset(modName); ok {
		if err := json.Unmarshal(data, gs); err != nil {
			return err
		}
	}
	m.interpret(ctx, gs.Init, false)
	return nil
}

func (m *vmod) VerifyTransaction(ctx *statemachine.TransactionVerifyContext) statemachine.VerifyResult {
	if ctx.Transaction().Module() != modName {
		return statemachine.NewVerifyResultOK()
	}
	sc := scriptOf(ctx.Transaction().Params())
	if sc.VRead {
		m.rec.verifyObserved = append(m.rec.verifyObserved, m.readAll(func(s int) statemachine.ImmutableStore {
			return ctx.GetStore(stores[s].store, stores[s].sub)
		}))
	}
	return statemachine.NewVerifyResultOK()
}

func (m *vmod) BeforeTransactionsExecute(ctx *statemachine.BeforeTransactionsExecuteContext) error {
	bs := blockScriptOf(ctx.BlockAssets())
	m.observe("BeforeTransactionsExecute", "", bs.Reads, mutableGetter(ctx))
	m.interpret(ctx, bs.Before, false)
	return nil
}

func (m *vmod) AfterTransactionsExecute(ctx *statemachine.AfterTransactionsExecuteContext) error {
	bs := blockScriptOf(ctx.BlockAssets())
	m.observe("AfterTransactionsExecute", "", bs.Reads, mutableGetter(ctx))
	m.interpret(ctx, bs.After, false)
	return nil
}

func (m *vmod) BeforeCommandExecute(ctx *statemachine.TransactionExecuteContext) error {
	bs := blockScriptOf(ctx.BlockAssets())
	sc := scriptOf(ctx.Transaction().Params())
	m.observe("BeforeCommandExecute", "", bs.Reads, mutableGetter(ctx))
	m.interpret(ctx, sc.Pre, false)
	return nil
}

func (m *vmod) AfterCommandExecute(ctx *statemachine.TransactionExecuteContext) error {
	bs := blockScriptOf(ctx.BlockAssets())
	sc := scriptOf(ctx.Transaction().Params())
	m.observe("AfterCommandExecute", "", bs.Reads, mutableGetter(ctx))
	m.interpret(ctx, sc.Post, false)
	return nil
}

type scriptCommand struct {
	blueprint.Command
	m *vmod
}

func (c *scriptCommand) ID() uint32   { return 0 }
func (c *scriptCommand) Name() string { return cmdName }

var errScriptFail = errors.New("script says fail")

func (c *scriptCommand) Execute(ctx *statemachine.TransactionExecuteContext) error {
	bs := blockScriptOf(ctx.BlockAssets())
	sc := scriptOf(ctx.Transaction().Params())
	c.m.rec.executed++
	c.m.observe("Execute", "", bs.Reads, mutableGetter(ctx))
	c.m.interpret(ctx, sc.Cmd, sc.Hold)
	if sc.Fail {
		return errScriptFail
	}
	return nil
}
