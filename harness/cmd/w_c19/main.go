// Worker for C19: sync picks the best peer, serves correct chain segments, converges safely.
package main

import (
	"bytes"
	"context"
	"fmt"
	"math/rand"
	"sort"
	"sync/atomic"
	"time"

	"github.com/LiskHQ/lisk-engine/pkg/blockchain"
	lsync "github.com/LiskHQ/lisk-engine/pkg/consensus/sync"
	"github.com/LiskHQ/lisk-engine/pkg/crypto"
	"github.com/LiskHQ/lisk-engine/pkg/p2p"

	"verifharness/internal/mon"
	"verifharness/internal/node"
)

// ------------------------------------------------------------------ peer selection

type tip struct {
	h, mhp uint32
	id     byte
}

func selection(c *mon.Ctx) {
	// exhaustive multisets of up to 4 tips over height in 1..2, mhp in 0..1, id in {a,b,c}; random larger ones
	var universe []tip
	for h := uint32(1); h <= 2; h++ {
		for m := uint32(0); m <= 1; m++ {
			for id := byte(0); id < 3; id++ {
				universe = append(universe, tip{h, m, id})
			}
		}
	}
	var sets [][]tip
	var rec func(start int, cur []tip)
	rec = func(start int, cur []tip) {
		if len(cur) > 0 {
			sets = append(sets, append([]tip{}, cur...))
		}
		if len(cur) == 4 {
			return
		}
		for i := start; i < len(universe); i++ {
			rec(i, append(cur, universe[i]))
		}
	}
	rec(0, nil)
	total := len(sets)
	c.Cases("select-exhaustive", total, func(k *mon.Case) { checkSelection(k, sets[k.Index], 40) })
	c.Cases("select-random", c.N(1500, 60000), func(k *mon.Case) {
		r := k.R
		n := 1 + r.Intn(12)
		s := make([]tip, n)
		for i := range s {
			s[i] = tip{uint32(r.Intn(4)) + uint32(r.Intn(2))*1000, uint32(r.Intn(3)), byte(r.Intn(4))}
		}
		checkSelection(k, s, 30)
	})
}

// selectPlurality: the best class (same maxHeightPrevoted and height) is split over three to six
// tips and the most common one has no majority (a plurality); the peers are listed in several random
// orders, plus peers of lower classes in between.
func selectPlurality(c *mon.Ctx) {
	c.Cases("select-plurality", c.N(300, 6000), func(k *mon.Case) {
		r := k.R
		top := 2 + r.Intn(3) // votes of the most common tip
		nOthers := 2 + r.Intn(4)
		var s []tip
		for i := 0; i < top; i++ {
			s = append(s, tip{7, 3, 0})
		}
		rest := 0
		for id := 1; id <= nOthers; id++ {
			cnt := 1 + r.Intn(top-1+1)
			if cnt >= top {
				cnt = top - 1
			}
			if cnt < 1 {
				cnt = 1
			}
			for j := 0; j < cnt; j++ {
				s = append(s, tip{7, 3, byte(id)})
			}
			rest += cnt
		}
		for rest < top { // no majority: the others together hold at least as many votes
			s = append(s, tip{7, 3, byte(1 + r.Intn(nOthers))})
			rest++
		}
		for j := r.Intn(4); j > 0; j-- { // lower classes
			s = append(s, tip{uint32(1 + r.Intn(7)), uint32(r.Intn(3)), byte(r.Intn(6))})
		}
		// keep the plurality strict: no other id may reach `top` votes in the best class
		cnt := map[byte]int{}
		for _, t := range s {
			if t.h == 7 && t.mhp == 3 {
				cnt[t.id]++
			}
		}
		for id, n := range cnt {
			if id != 0 && n >= top {
				k.Count("plurality_case_skipped_tie", 1)
				return
			}
		}
		for p := 0; p < 4; p++ {
			r.Shuffle(len(s), func(i, j int) { s[i], s[j] = s[j], s[i] })
			checkSelection(k, append([]tip{}, s...), 6)
		}
	})
}

func checkSelection(k *mon.Case, s []tip, reps int) {
	infos := make([]*lsync.NodeInfo, len(s))
	for i, t := range s {
		// the block id is a function of (height, mhp, id tag): equal tips share the id
		infos[i] = lsync.NewNodeInfo(t.h, t.mhp, 2, crypto.Hash([]byte{byte(t.h), byte(t.h >> 8), byte(t.mhp), t.id}))
	}
	// allowed set by the statement
	var maxM uint32
	for _, t := range s {
		if t.mhp > maxM {
			maxM = t.mhp
		}
	}
	var maxH uint32
	for _, t := range s {
		if t.mhp == maxM && t.h > maxH {
			maxH = t.h
		}
	}
	freq := map[byte]int{}
	best := 0
	for _, t := range s {
		if t.mhp == maxM && t.h == maxH {
			freq[t.id]++
			if freq[t.id] > best {
				best = freq[t.id]
			}
		}
	}
	distinctIDs := len(freq)
	for rep := 0; rep < reps; rep++ {
		k.Eval(1)
		got, err := lsync.VerifGetBestNodeInfo(infos)
		if err != nil {
			k.Violation("select:error", "getBestNodeInfo failed on a non-empty list: "+err.Error(), nil)
			return
		}
		h, m, _, id := got.VerifFields()
		wit := map[string]any{"tips": fmt.Sprint(s), "chosen": fmt.Sprintf("h=%d mhp=%d id=%x", h, m, id[:2])}
		switch {
		case m != maxM:
			k.Violation("select:not-max-maxHeightPrevoted", "chosen peer does not have the largest maxHeightPrevoted", wit)
			return
		case h != maxH:
			k.Violation("select:not-max-height", "chosen peer does not have the largest height among the largest maxHeightPrevoted", wit)
			return
		}
		var tag byte
		for _, t := range s {
			if t.mhp == maxM && t.h == maxH && bytes.Equal(id, crypto.Hash([]byte{byte(t.h), byte(t.h >> 8), byte(t.mhp), t.id})) {
				tag = t.id
			}
		}
		if freq[tag] != best {
			wit["frequency_of_chosen"] = freq[tag]
			wit["max_frequency"] = best
			k.Violation("select:not-most-frequent-block-id", "chosen peer's block id is not the most common one among the best tips", wit)
			return
		}
	}
	k.Nontrivial(fmt.Sprintf("sel|n%d|ids%d|best%d", len(s), distinctIDs, best))
	if k.Index%400 == 0 {
		k.Sample(map[string]any{"tips": fmt.Sprint(s)})
	}
}

// ------------------------------------------------------------------ handlers

type capWriter struct {
	data    []byte
	err     error
	written bool
}

func (w *capWriter) Write(b []byte) { w.data, w.written = b, true }
func (w *capWriter) Error(e error)  { w.err = e }

func plain(n *node.Node, r *rand.Rand) (*blockchain.Block, error) {
	o := n.RandomOpts(r)
	if o.Directive != nil {
		o.Directive.Change = nil
	}
	for try := 0; try < 10; try++ {
		b, err := n.NextBlock(o)
		if err != node.ErrWouldContradict {
			return b, err
		}
		o.SlotsAhead++
	}
	return nil, fmt.Errorf("no slot")
}

func handlers(c *mon.Ctx) {
	c.Cases("handlers", c.N(64, 1200), func(k *mon.Case) {
		r := k.R
		nv := 3 + r.Intn(4)
		cfg := node.Config{Genesis: node.EqualGenesis(nv), Universe: nv, BatchSize: nv, MaxBlockCache: 5 + r.Intn(20)}
		resp, err := node.New(cfg)
		if err != nil {
			k.Inconclusive("node-init")
			return
		}
		defer resp.Close()
		length := 5 + r.Intn(40)
		if r.Intn(3) == 0 {
			length = 110 + r.Intn(60)
		}
		var chain []*blockchain.Block
		chain = append(chain, resp.Genesis)
		for i := 0; i < length; i++ {
			b, err := plain(resp, r)
			if err != nil || resp.Apply(b) != nil {
				k.Inconclusive("build")
				return
			}
			chain = append(chain, b)
		}
		onChain := map[string]uint32{}
		for _, b := range chain {
			onChain[string(b.Header.ID)] = b.Header.Height
		}
		s := resp.Exec.VerifSyncer()
		hc, hb, hl := s.HandleRPCEndpointGetHighestCommonBlock(), s.HandleRPCEndpointGetBlocksFromID(), s.HandleRPCEndpointGetLastBlock()
		foreign := func(i int) []byte { return crypto.Hash([]byte{0xfe, byte(i), byte(k.Index)}) }
		// GetLastBlock
		w := &capWriter{}
		hl(w, &p2p.Request{PeerID: "x"})
		if lb, err := blockchain.NewBlock(w.data); err != nil || !bytes.Equal(lb.Header.ID, resp.Tip().Header.ID) {
			k.Violation("handler:getLastBlock-not-tip", "getLastBlock did not answer the tip", nil)
		}
		for q := 0; q < 25; q++ {
			k.Eval(1)
			// highest common block
			m := 1 + r.Intn(12)
			var ids [][]byte
			want := -1
			for j := 0; j < m; j++ {
				if r.Intn(3) == 0 {
					ids = append(ids, foreign(q*20+j))
				} else {
					h := r.Intn(len(chain))
					ids = append(ids, chain[h].Header.ID)
					if h > want {
						want = h
					}
				}
			}
			w := &capWriter{}
			hc(w, &p2p.Request{Data: lsync.VerifEncodeGetHighestCommonBlockRequest(ids), PeerID: "x"})
			wit := map[string]any{"ids": m, "chain": len(chain) - 1, "expected_height": want}
			if w.err != nil {
				k.Violation("handler:highestCommon:error", "getHighestCommonBlock answered an error for a well-formed request", wit)
			} else {
				got, derr := lsync.VerifDecodeGetHighestCommonBlockResponse(w.data)
				switch {
				case derr != nil:
					k.Violation("handler:highestCommon:undecodable", "response not decodable", wit)
				case want < 0 && len(got) != 0:
					k.Violation("handler:highestCommon:non-empty-without-common-block", "a common block was answered although none of the ids is on the responder's chain", wit)
				case want >= 0 && !bytes.Equal(got, chain[want].Header.ID):
					wit["got_height"] = onChain[string(got)]
					k.Violation("handler:highestCommon:not-the-highest", "answered id is not the highest requested block on the responder's chain", wit)
				}
			}
			k.Nontrivial(fmt.Sprintf("hc|m%d|found%v|long%v", m/3, want >= 0, length > 103))
			// blocks from id
			k.Eval(1)
			h := r.Intn(len(chain))
			if r.Intn(6) == 0 {
				h = len(chain) - 1
			}
			w = &capWriter{}
			hb(w, &p2p.Request{Data: lsync.VerifEncodeGetBlocksFromIDRequest(chain[h].Header.ID), PeerID: "x"})
			wit = map[string]any{"from_height": h, "chain": len(chain) - 1}
			if w.err != nil {
				k.Violation("handler:blocksFromID:error", "getBlocksFromId answered an error for a known id: "+w.err.Error(), wit)
				continue
			}
			raws, derr := lsync.VerifDecodeGetBlocksFromIDResponse(w.data)
			if derr != nil {
				k.Violation("handler:blocksFromID:undecodable", "response not decodable as the client decodes it", wit)
				continue
			}
			expect := len(chain) - 1 - h
			if expect > 103 {
				expect = 103
			}
			wit["returned"] = len(raws)
			if len(raws) > 103 {
				k.Violation("handler:blocksFromID:above-cap", "more than 103 blocks returned", wit)
			}
			if len(raws) != expect {
				k.Violation("handler:blocksFromID:wrong-count", "returned blocks are not exactly the successors available (capped at 103)", wit)
			}
			for i, raw := range raws {
				b, err := blockchain.NewBlock(raw)
				if err != nil {
					k.Violation("handler:blocksFromID:block-undecodable", "a returned block does not decode", wit)
					break
				}
				if h+1+i >= len(chain) || !bytes.Equal(b.Header.ID, chain[h+1+i].Header.ID) {
					wit["position"] = i
					k.Violation("handler:blocksFromID:not-consecutive-successors", "returned blocks are not the consecutive successors in order", wit)
					break
				}
			}
			k.Nontrivial(fmt.Sprintf("bf|tail%d|cap%v|cache%v", expect/20, expect == 103, h+1 < len(chain)-resp.Cfg.MaxBlockCache))
			// unknown id
			w = &capWriter{}
			hb(w, &p2p.Request{Data: lsync.VerifEncodeGetBlocksFromIDRequest(foreign(q)), PeerID: "x"})
			if w.err == nil && w.written {
				if raws, _ := lsync.VerifDecodeGetBlocksFromIDResponse(w.data); len(raws) > 0 {
					k.Violation("handler:blocksFromID:blocks-for-unknown-id", "blocks returned for an id that is not on the responder's chain", nil)
				}
			}
		}
		k.Sample(map[string]any{"validators": nv, "chain": length, "cache": resp.Cfg.MaxBlockCache})
	})
}

// ------------------------------------------------------------------ convergence

var ipCounter atomic.Int32

func listen(shard int) []string {
	n := ipCounter.Add(1)
	return []string{fmt.Sprintf("/ip4/127.%d.%d.%d/tcp/0", 10+shard, n/250, 1+n%250)}
}

func peerOf(n *node.Node) (*p2p.AddrInfo, error) {
	addrs, err := n.Conn.MultiAddress()
	if err != nil || len(addrs) == 0 {
		return nil, fmt.Errorf("no address: %v", err)
	}
	return p2p.AddrInfoFromMultiAddr(addrs[0])
}

// evil peer: serves an honest node's chain with one tampering
type evil struct {
	conn      *p2p.Connection
	src       *node.Node
	mode      string
	calls     atomic.Int32
	tampered  atomic.Int32
	servedTip atomic.Bool
}

func newEvil(shard int, src *node.Node, mode string) (*evil, error) {
	e := &evil{src: src, mode: mode}
	e.conn = p2p.NewConnection(node.NewLogger(), &p2p.Config{ChainID: src.Cfg.ChainID, Addresses: listen(shard)})
	da := src.Chain.DataAccess()
	e.conn.RegisterRPCHandler(lsync.RPCEndpointGetLastBlock, func(w p2p.ResponseWriter, r *p2p.Request) { //nolint:errcheck
		w.Write(src.Tip().Encode())
	})
	e.conn.RegisterRPCHandler(lsync.RPCEndpointGetHighestCommonBlock, func(w p2p.ResponseWriter, r *p2p.Request) { //nolint:errcheck
		src.Exec.VerifSyncer().HandleRPCEndpointGetHighestCommonBlock()(w, r)
	})
	e.conn.RegisterRPCHandler(lsync.RPCEndpointGetBlocksFromID, func(w p2p.ResponseWriter, r *p2p.Request) { //nolint:errcheck
		e.calls.Add(1)
		cw := &capWriter{}
		src.Exec.VerifSyncer().HandleRPCEndpointGetBlocksFromID()(cw, r)
		if cw.err != nil {
			w.Error(cw.err)
			return
		}
		raws, err := lsync.VerifDecodeGetBlocksFromIDResponse(cw.data)
		if err != nil || len(raws) == 0 {
			w.Write(cw.data)
			return
		}
		blocks := make([]*blockchain.Block, len(raws))
		for i, raw := range raws {
			blocks[i], _ = blockchain.NewBlock(raw)
		}
		switch mode {
		case "invalid-state-root": // passes Block.Validate, fails in processValidated (application refuses the root)
			if len(blocks) < 2 {
				break
			}
			b := blocks[(len(blocks)-1)/2] // never the last one: later ids stay as announced
			b.Header.StateRoot = crypto.Hash([]byte("evil"))
			v := src.ValidatorByAddress(b.Header.GeneratorAddress)
			b.Header.Sign(src.Chain.ChainID(), v.EdPriv)
			e.tampered.Add(1)
		case "bad-signature": // fails verifyBlock
			if len(blocks) < 2 {
				break
			}
			b := blocks[(len(blocks)-1)/2]
			b.Header.Signature[7] ^= 1
			b.Header.Init()
			e.tampered.Add(1)
		case "truncated":
			blocks = blocks[:len(blocks)-1]
		}
		if mode != "truncated" && len(blocks) > 0 && bytes.Equal(blocks[len(blocks)-1].Header.ID, src.Tip().Header.ID) {
			e.servedTip.Store(true) // the download completes: the tampered block will be processed
		}
		resp := &lsync.GetBlocksFromIDResponse{Blocks: blocks}
		w.Write(resp.Encode())
	})
	_ = da
	if err := e.conn.Start(crypto.RandomBytes(16)); err != nil {
		return nil, err
	}
	return e, nil
}

func convergence(c *mon.Ctx) {
	c.Cases("converge", c.N(160, 3000), func(k *mon.Case) {
		r := k.R
		k.Watch("convergence", 240*time.Second, func() { converge(k, r, c.Shard()) })
	})
}

func converge(k *mon.Case, r *rand.Rand, shard int) {
	nv := 3 + r.Intn(3)
	base := node.Config{Genesis: node.EqualGenesis(nv), Universe: nv, BatchSize: nv, MaxBlockCache: 50}
	cfgA := base
	cfgA.P2PAddresses = listen(shard)
	a, err := node.New(cfgA)
	if err != nil {
		k.Inconclusive("node-init:" + err.Error())
		return
	}
	defer a.Close()
	cfgB := base
	cfgB.GenesisTimestamp = a.Cfg.GenesisTimestamp
	cfgB.P2PAddresses = listen(shard)
	b, err := node.New(cfgB)
	if err != nil {
		k.Inconclusive("node-init:" + err.Error())
		return
	}
	defer b.Close()
	// shared prefix
	prefix := 3 + r.Intn(25)
	if r.Intn(7) == 0 {
		prefix = r.Intn(3) // forks directly (or almost) after the genesis block
	}
	for i := 0; i < prefix; i++ {
		blk, err := plain(a, r)
		if err != nil || a.Apply(blk) != nil || b.Apply(node.CloneBlock(blk)) != nil {
			k.Inconclusive("build-prefix")
			return
		}
	}
	b.GenHist = map[string]uint32{}
	for key, v := range a.GenHist {
		b.GenHist[key] = v
	}
	// branches
	forkA := 0
	if r.Intn(2) == 0 {
		forkA = 1 + r.Intn(3)
	}
	atFinalized := forkA > 0 && r.Intn(3) == 0
	// lowerButBetter: the node's own fork is built by one validator alone (long, no new
	// prevotes), the peer's chain by everybody (shorter, higher maxHeightPrevoted)
	lowerButBetter := !atFinalized && r.Intn(6) == 0
	if lowerButBetter {
		forkA = 0
		target := nv + 1 + r.Intn(nv-1)
		for i := 0; i < target; i++ {
			o := node.BlockOpts{SlotsAhead: nv, Directive: &node.Directive{Salt: r.Intn(1 << 20)}}
			if i == 0 {
				o.SlotsAhead = 1 + r.Intn(nv)
			}
			blk, err := a.NextBlock(o)
			if err != nil || a.Apply(blk) != nil {
				break
			}
			forkA++
		}
		if forkA == 0 {
			k.Inconclusive("build-fork-a")
			return
		}
	} else if atFinalized {
		// own fork long enough to finalize the last common block: the common block then sits
		// exactly at the finalized height (the lowest the node may legitimately go back to)
		forkA = 0
		for a.Finalized() < uint32(prefix) && forkA < 2*nv-1 {
			blk, err := plain(a, r)
			if err != nil || a.Apply(blk) != nil {
				k.Inconclusive("build-fork-a")
				return
			}
			forkA++
		}
		if a.Finalized() == uint32(prefix) {
			k.Count("common_block_at_finalized_height", 1)
		}
	} else {
		for i := 0; i < forkA; i++ {
			blk, err := plain(a, r)
			if err != nil || a.Apply(blk) != nil {
				k.Inconclusive("build-fork-a")
				return
			}
		}
	}
	mode := []string{"honest", "honest", "invalid-state-root", "bad-signature", "truncated"}[r.Intn(5)]
	ahead := forkA + 1 + r.Intn(2*nv-1-forkA+1)
	if mode == "honest" && r.Intn(3) == 0 {
		ahead = 2*nv + 2 + r.Intn(12) // beyond two rounds: block sync
	}
	if ahead <= forkA {
		ahead = forkA + 1
	}
	if lowerButBetter {
		ahead = nv + r.Intn(forkA-nv+1) // enough blocks by everybody to prevote, not more than the own fork
		if ahead > forkA {
			ahead = forkA
		}
	}
	for i := 0; i < ahead; i++ {
		blk, err := plain(b, r)
		if err != nil || b.Apply(blk) != nil {
			k.Inconclusive("build-fork-b")
			return
		}
	}
	finA := a.Finalized()
	finalIDs := map[uint32][]byte{}
	for h := uint32(0); h <= finA; h++ {
		hd, err := a.Chain.DataAccess().GetBlockHeaderByHeight(h)
		if err == nil {
			finalIDs[h] = hd.ID
		}
	}
	origTip := append([]byte{}, a.Tip().Header.ID...)
	origDump := node.Dump(a.DB)
	_ = origDump
	var remote *p2p.AddrInfo
	var ev *evil
	if mode == "honest" {
		remote, err = peerOf(b)
	} else {
		ev, err = newEvil(shard, b, mode)
		if err == nil {
			defer ev.conn.Stop() //nolint:errcheck
			addrs, _ := ev.conn.MultiAddress()
			if len(addrs) > 0 {
				remote, err = p2p.AddrInfoFromMultiAddr(addrs[0])
			} else {
				err = fmt.Errorf("no address")
			}
		}
	}
	if err != nil {
		k.Inconclusive("peer-setup:" + err.Error())
		return
	}
	wit, processed := syncAndJudge(k, a, b, remote, ev, mode, prefix, forkA, ahead, nv, finA, finalIDs, origTip, "")
	// second failing fast sync with a higher common block (stale temp blocks of the first
	// restore must not get in the way)
	if processed && wit != nil {
		cfgC := base
		cfgC.GenesisTimestamp = a.Cfg.GenesisTimestamp
		c2, err := node.New(cfgC)
		if err == nil {
			defer c2.Close()
			okc := true
			for h := uint32(1); h <= a.Tip().Header.Height && okc; h++ {
				blk, err := a.Chain.DataAccess().GetBlockByHeight(h)
				if err != nil || c2.Apply(node.CloneBlock(blk)) != nil {
					okc = false
				}
			}
			c2.GenHist = map[string]uint32{}
			for key, v := range a.GenHist {
				c2.GenHist[key] = v
			}
			for i := 0; i < 1+r.Intn(2) && okc; i++ {
				blk, err := plain(a, r)
				if err != nil || a.Apply(blk) != nil {
					okc = false
				}
			}
			ahead2 := 3 + r.Intn(2*nv-3+1)
			for i := 0; i < ahead2 && okc; i++ {
				blk, err := plain(c2, r)
				if err != nil || c2.Apply(blk) != nil {
					okc = false
				}
			}
			if okc && c2.Tip().Header.Height > a.Tip().Header.Height {
				ev2, err := newEvil(shard, c2, mode)
				if err == nil {
					defer ev2.conn.Stop() //nolint:errcheck
					addrs, _ := ev2.conn.MultiAddress()
					if len(addrs) > 0 {
						if remote2, err := p2p.AddrInfoFromMultiAddr(addrs[0]); err == nil {
							fin2 := a.Finalized()
							ids2 := map[uint32][]byte{}
							for h := uint32(0); h <= fin2; h++ {
								if hd, err := a.Chain.DataAccess().GetBlockHeaderByHeight(h); err == nil {
									ids2[h] = hd.ID
								}
							}
							orig2 := append([]byte{}, a.Tip().Header.ID...)
							k.Count("second_failing_syncs", 1)
							tb, _ := a.Chain.DataAccess().GetTempBlocks()
							k.Count(fmt.Sprintf("second_sync_first_fork_%d_temp_blocks_left_%d", forkA, len(tb)), 1)
							syncAndJudge(k, a, c2, remote2, ev2, mode, int(a.Tip().Header.Height), 1, ahead2, nv, fin2, ids2, orig2, ":second-sync")
						}
					}
				}
			}
		}
	}
	if wit != nil {
		k.Sample(wit)
	}
}

// syncAndJudge connects a to the remote peer, delivers b's tip from it and judges the outcome.
// Returns the witness and whether a tampered block reached block processing.
func syncAndJudge(k *mon.Case, a, b *node.Node, remote *p2p.AddrInfo, ev *evil, mode string, prefix, forkA, ahead, nv int, finA uint32, finalIDs map[uint32][]byte, origTip []byte, tag string) (map[string]any, bool) {
	ctx, cancel := context.WithTimeout(context.Background(), 20*time.Second)
	err := a.Conn.Connect(ctx, *remote)
	cancel()
	if err != nil {
		k.Inconclusive("connect:" + err.Error())
		return nil, false
	}
	// B's tip arrives at A from that peer
	tipB := node.CloneBlock(b.Tip())
	// one honest offer in three announces a block below the peer's tip (the peer generated
	// further blocks after the announcement went out): the segment the peer serves then runs
	// beyond the announced block
	below := 0
	if mode == "honest" && tag == "" && ahead >= 4 && k.R.Intn(3) == 0 {
		below = 1 + k.R.Intn(2)
		if blk, err := b.Chain.DataAccess().GetBlockByHeight(tipB.Header.Height - uint32(below)); err == nil {
			tipB = node.CloneBlock(blk)
			k.Count("offers_below_peer_tip", 1)
		} else {
			below = 0
		}
	}
	// reached: the node's tip is a block of the peer's chain at or above the announced block
	reached := func() bool {
		at := a.Tip().Header
		if at.Height < tipB.Header.Height {
			return false
		}
		hb, err := b.Chain.DataAccess().GetBlockHeaderByHeight(at.Height)
		return err == nil && bytes.Equal(hb.ID, at.ID)
	}
	ta := a.Tip().Header
	better := tipB.Header.MaxHeightPrevoted > ta.MaxHeightPrevoted || (tipB.Header.MaxHeightPrevoted == ta.MaxHeightPrevoted && tipB.Header.Height > ta.Height)
	// harness-level bound on one sync (not a verdict): a peer that keeps answering with empty
	// segments makes the downloader ask forever, which is property C09's subject
	bound := 45 * time.Second
	if mode == "truncated" {
		bound = 15 * time.Second
	}
	pctx, pcancel := context.WithTimeout(context.Background(), bound)
	perr := a.Exec.VerifProcess(pctx, tipB, remote.ID)
	pcancel()
	wit := map[string]any{"mode": mode, "prefix": prefix, "fork_a": forkA, "ahead_b": ahead, "validators": nv, "a_tip_after": a.Tip().Header.Height, "b_tip": b.Tip().Header.Height, "finalized_a": finA, "process_error": fmt.Sprint(perr), "phase": tag, "announced_block_below_peer_tip": below}
	// finalized blocks of A never replaced
	for h, id := range finalIDs {
		hd, err := a.Chain.DataAccess().GetBlockHeaderByHeight(h)
		if err != nil || !bytes.Equal(hd.ID, id) {
			k.Violation("converge:finalized-block-replaced"+tag, "a block that was final on the syncing node was replaced or removed by sync", wit)
			break
		}
	}
	if mode == "honest" && tipB.Header.Height <= ta.Height && better {
		k.Count("peer_tip_better_but_not_higher", 1)
	}
	if a.Finalized() < finA {
		k.Violation("converge:finalized-height-decreased"+tag, "finalized height decreased during sync", wit)
	}
	shape := fmt.Sprintf("%s|forkA%d|ahead%d|fast%v%s", mode, forkA, ahead/3, ahead <= 2*nv, tag)
	if mode == "honest" {
		if tag == "" && finA > uint32(prefix) {
			// the node has finalized blocks of its own fork above the common block: the peer's
			// chain conflicts with final blocks and must NOT be adopted (checked above: every
			// final block is still in place)
			k.Count("peer_chain_conflicts_with_finalized_blocks", 1)
			if reached() {
				k.Violation("converge:adopted-chain-conflicting-with-finalized-blocks", "the node switched to a chain that forks below its finalized height", wit)
			}
			return wit, false
		}
		if !better {
			// the peer's chain has no priority under the LIP-0014 order (the node's own fork
			// carries a higher maxHeightPrevoted): nothing to converge to
			k.Count("peer_chain_not_better_than_own_fork", 1)
			return wit, false
		}
		// fast sync legitimately gives up ("wait for new block") when the common block lies more
		// than two rounds below either tip; the node must then get there through the peer's next
		// blocks. Bounded progress: within 2 rounds + 2 further blocks of the peer.
		if reached() {
			k.Count(fmt.Sprintf("converged_at_first_offer:forkA<=%d:ahead<=%d", (forkA+nv-1)/nv, (ahead+nv-1)/nv), 1)
		} else if forkA <= 2*nv-2 && ahead <= 2*nv-2 {
			// both tips lie within two rounds of the common block: fast sync applies to this very
			// offer, there is nothing to wait for (the node may otherwise stay on the worse chain
			// until the peer happens to overtake it in height)
			wit["a_tip_after"], wit["b_tip"] = a.Tip().Header.Height, b.Tip().Header.Height
			k.Violation("converge:honest-peer-not-followed:within-two-rounds", "node offered a better valid chain whose fork point lies within two rounds of both tips did not switch to it", wit)
			return wit, false
		} else {
			k.Count(fmt.Sprintf("first_offer_not_followed:forkA<=%d:ahead<=%d:prefix>0=%v:err=%.40s", (forkA+nv-1)/nv, (ahead+nv-1)/nv, prefix > 0, fmt.Sprint(perr)), 1)
		}
		for extra := 0; extra < 2*nv+2 && !reached(); extra++ {
			nb, err := plain(b, rand.New(rand.NewSource(int64(extra)+int64(prefix))))
			if err != nil || b.Apply(nb) != nil {
				break
			}
			k.Count("extra_peer_blocks_delivered", 1)
			cctx, ccancel := context.WithTimeout(context.Background(), 45*time.Second)
			a.Exec.VerifProcess(cctx, node.CloneBlock(b.Tip()), remote.ID) //nolint:errcheck
			ccancel()
		}
		wit["a_tip_after"], wit["b_tip"] = a.Tip().Header.Height, b.Tip().Header.Height
		if !reached() {
			k.Violation("converge:honest-peer-not-followed", "node offered a better valid chain by an honest peer did not end on that chain", wit)
		} else {
			k.Count("converged", 1)
			k.Nontrivial(shape)
		}
		return wit, false
	}
	if ev.calls.Load() == 0 {
		k.Inconclusive("evil-peer-not-asked")
		return wit, false
	}
	k.Count("faulty_segments_served", 1)
	if mode == "truncated" {
		// a truncated segment is not invalid by itself; finalized blocks were re-read above
		k.Nontrivial(shape)
		return wit, false
	}
	// the statement speaks about downloaded blocks that PROVE INVALID: judged only if the
	// tampered block reached block processing (the error is a processing error)
	// (fast sync hands every downloaded block to the processor only after the download
	// completed, and the tampered block lies before the announced tip; a failing restore
	// replaces the processing error, so the error text alone is not enough)
	es := fmt.Sprint(perr)
	fast := ahead <= 2*nv
	processed := ev.tampered.Load() > 0 && perr != nil && ((fast && ev.servedTip.Load()) || bytes.Contains([]byte(es), []byte("invalid signature")) || bytes.Contains([]byte(es), []byte("state root mismatch")))
	if !processed {
		k.Count("faulty_segment_not_processed(download failed or not fast sync)", 1)
		return wit, false
	}
	k.Count("invalid_block_reached_processing"+tag, 1)
	// every original block must be (back) on the chain
	restored := true
	if hd, err := a.Chain.DataAccess().GetBlockHeader(origTip); err != nil {
		restored = false
	} else if cur, err := a.Chain.DataAccess().GetBlockHeaderByHeight(hd.Height); err != nil || !bytes.Equal(cur.ID, origTip) {
		restored = false
	}
	if !restored {
		k.Violation("converge:original-chain-not-restored"+tag, "fast sync applied an invalid downloaded block but the node's original blocks are not on its chain afterwards", wit)
	} else {
		k.Count("restored_after_invalid_segment", 1)
	}
	banned := false
	for _, ip := range a.Conn.VerifPeer().VerifGater().ListBanned() {
		for _, ad := range remote.Addrs {
			if bytes.Contains([]byte(ad.String()), []byte("/"+ip.String()+"/")) {
				banned = true
			}
		}
	}
	connected := false
	for _, p := range a.Conn.ConnectedPeers() {
		if p == remote.ID {
			connected = true
		}
	}
	wit["banned"], wit["still_connected"] = banned, connected
	if !banned {
		k.Violation("converge:peer-serving-invalid-blocks-not-banned"+tag, "the peer whose fast-sync blocks proved invalid was not banned", wit)
	} else if connected {
		k.Violation("converge:banned-peer-still-connected"+tag, "the peer whose fast-sync blocks proved invalid was banned but not disconnected", wit)
	} else {
		k.Nontrivial(shape)
	}
	return wit, restored
}

var _ = sort.Ints

func main() {
	mon.Main(mon.Options{
		Property: "C19", Level: "exploration",
		Rule: "selection: every multiset of <= 4 peer tips over (height 1..2, maxHeightPrevoted 0..1, 3 block ids) exhaustively plus random larger ones, each asked 30-40 times (the final pick is random) against the three-filter rule of the statement; handlers: called with a capturing ResponseWriter on nodes with chains of 5..170 blocks (beyond the 103 cap and the block cache), id lists mixing on-chain and foreign ids; convergence: two real nodes with started libp2p connections on distinct loopback addresses, shared prefix (also 0-2 blocks: fork right after genesis), own fork also at the finalized height or longer-but-worse than the peer's chain (an offer whose fork point lies within two rounds of both tips must be followed at once), optional own fork on the syncing node, peer 1..2 rounds (fast sync) or further (block sync) ahead, honest peer or a peer serving a segment with an invalid state root / bad signature / truncated tail; finalized blocks of the syncing node re-read afterwards; converge3: three real nodes, block sync triggered by a block from a better but not the best connected peer, the best peer on another branch: the node must end on the best peer's tip. non-trivial+distinct = (tips, distinct ids, best frequency) / (query shape) / (peer mode, fork depth, distance, sync kind)",
		Assumptions: []string{
			"convergence runs use real sockets on loopback; verdicts are read from chain state after Sync returned, never from elapsed time (watchdog 240 s + deadlock rule)",
			"the scripted ABI stands in for the application on both nodes",
		},
		Shards:            8,
		ChildTimeoutQuick: 20 * time.Minute, ChildTimeoutThorough: 120 * time.Minute,
	}, func(c *mon.Ctx) {
		selection(c)
		selectPlurality(c)
		handlers(c)
		convergence(c)
		convergence3(c)
	})
}
