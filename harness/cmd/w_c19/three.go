// Stream "converge3": block sync with more than one connected peer.  The block that triggers the
// sync comes from a peer S that is better than the node but is NOT the best peer; a second honest
// peer B has the best tip (longer chain, higher maxHeightPrevoted, another branch than S).  Block
// sync asks every connected peer for its tip, picks the best one by the rule of the statement, and
// must then take the common block AND the blocks from that very peer: the node has to end on B's
// chain.  (With two nodes the sender is always the best peer, so none of this is visible there.)
package main

import (
	"bytes"
	"context"
	"fmt"
	"math/rand"
	"time"

	"verifharness/internal/mon"
	"verifharness/internal/node"
)

func convergence3(c *mon.Ctx) {
	c.Cases("converge3", c.N(48, 900), func(k *mon.Case) {
		r := k.R
		k.Watch("convergence3", 240*time.Second, func() { converge3(k, r, c.Shard()) })
	})
}

func converge3(k *mon.Case, r *rand.Rand, shard int) {
	nv := 3 + r.Intn(2)
	base := node.Config{Genesis: node.EqualGenesis(nv), Universe: nv, BatchSize: nv, MaxBlockCache: 50}
	var ns []*node.Node
	for i := 0; i < 3; i++ {
		cfg := base
		cfg.P2PAddresses = listen(shard)
		if i > 0 {
			cfg.GenesisTimestamp = ns[0].Cfg.GenesisTimestamp
		}
		n, err := node.New(cfg)
		if err != nil {
			k.Inconclusive("node-init:" + err.Error())
			return
		}
		defer n.Close()
		ns = append(ns, n)
	}
	a, s, b := ns[0], ns[1], ns[2]
	prefix := 3 + r.Intn(12)
	for i := 0; i < prefix; i++ {
		blk, err := plain(a, r)
		if err != nil || a.Apply(blk) != nil || s.Apply(node.CloneBlock(blk)) != nil || b.Apply(node.CloneBlock(blk)) != nil {
			k.Inconclusive("build-prefix")
			return
		}
	}
	for _, o := range []*node.Node{s, b} {
		o.GenHist = map[string]uint32{}
		for key, v := range a.GenHist {
			o.GenHist[key] = v
		}
	}
	grow := func(n *node.Node, m int, what string) bool {
		for i := 0; i < m; i++ {
			blk, err := plain(n, r)
			if err != nil || n.Apply(blk) != nil {
				k.Inconclusive("build-" + what)
				return false
			}
		}
		return true
	}
	forkA := r.Intn(3)
	// S: more than two rounds above the node's tip (block sync, not fast sync)
	aheadS := forkA + 2*nv + 1 + r.Intn(nv)
	// B: the best tip, on its own branch
	aheadB := aheadS + 1 + r.Intn(2*nv)
	if !grow(a, forkA, "fork-a") || !grow(s, aheadS, "fork-s") || !grow(b, aheadB, "fork-b") {
		return
	}
	if bytes.Equal(s.Tip().Header.ID, func() []byte {
		h, err := b.Chain.DataAccess().GetBlockHeaderByHeight(s.Tip().Header.Height)
		if err != nil {
			return nil
		}
		return h.ID
	}()) {
		k.Inconclusive("branches-coincide")
		return
	}
	tb, ts, ta := b.Tip().Header, s.Tip().Header, a.Tip().Header
	better := func(p1, h1, p2, h2 uint32) bool { return p1 > p2 || (p1 == p2 && h1 > h2) }
	if !better(tb.MaxHeightPrevoted, tb.Height, ts.MaxHeightPrevoted, ts.Height) || !better(ts.MaxHeightPrevoted, ts.Height, ta.MaxHeightPrevoted, ta.Height) {
		k.Inconclusive("tips-not-ordered")
		return
	}
	finA := a.Finalized()
	finalIDs := map[uint32][]byte{}
	for h := uint32(0); h <= finA; h++ {
		if hd, err := a.Chain.DataAccess().GetBlockHeaderByHeight(h); err == nil {
			finalIDs[h] = hd.ID
		}
	}
	ps, err1 := peerOf(s)
	pb, err2 := peerOf(b)
	if err1 != nil || err2 != nil {
		k.Inconclusive("peer-setup")
		return
	}
	// connection order varies: the order in which the peers' answers come back must not matter
	order := []int{0, 1}
	if r.Intn(2) == 0 {
		order = []int{1, 0}
	}
	for _, i := range order {
		ctx, cancel := context.WithTimeout(context.Background(), 20*time.Second)
		var err error
		if i == 0 {
			err = a.Conn.Connect(ctx, *ps)
		} else {
			err = a.Conn.Connect(ctx, *pb)
		}
		cancel()
		if err != nil {
			k.Inconclusive("connect:" + err.Error())
			return
		}
	}
	if len(a.Conn.ConnectedPeers()) < 2 {
		k.Inconclusive("less-than-two-peers-connected")
		return
	}
	k.Eval(1)
	pctx, pcancel := context.WithTimeout(context.Background(), 60*time.Second)
	perr := a.Exec.VerifProcess(pctx, node.CloneBlock(s.Tip()), ps.ID)
	pcancel()
	at := a.Tip().Header
	wit := map[string]any{"validators": nv, "prefix": prefix, "fork_a": forkA, "sender_ahead": aheadS, "best_peer_ahead": aheadB,
		"a_tip_after": at.Height, "sender_tip": ts.Height, "best_tip": tb.Height, "process_error": fmt.Sprint(perr), "finalized_a": finA}
	for h, id := range finalIDs {
		hd, err := a.Chain.DataAccess().GetBlockHeaderByHeight(h)
		if err != nil || !bytes.Equal(hd.ID, id) {
			k.Violation("converge3:finalized-block-replaced", "a block that was final on the syncing node was replaced or removed by block sync", wit)
			return
		}
	}
	onChainOf := func(n *node.Node) bool {
		hd, err := n.Chain.DataAccess().GetBlockHeaderByHeight(at.Height)
		return err == nil && bytes.Equal(hd.ID, at.ID)
	}
	k.Nontrivial(fmt.Sprintf("nv%d|forkA%d|s+%d|b+%d", nv, forkA, (aheadS-forkA)/nv, (aheadB-aheadS+nv-1)/nv))
	switch {
	case bytes.Equal(at.ID, tb.ID):
		k.Count("converged_on_best_peer_chain", 1)
	case onChainOf(s) && !onChainOf(b):
		k.Violation("converge3:ended-on-the-senders-chain-not-the-best-peers", "block sync with two connected peers left the node on the chain of the peer that sent the triggering block although another connected peer has the best tip", wit)
	default:
		k.Violation("converge3:best-peer-not-followed", "block sync with two connected honest peers did not bring the node to the tip of the best peer", wit)
	}
	k.Sample(wit)
}
