// Worker for property C17 - P2P request/response: correct correlation, no lost replies,
// no deadlock (pkg/p2p MessageProtocol).
//
// Real p2p.Connections are started on loopback addresses inside this process.  Every logical
// request carries a unique ID L and a latency plan in its payload; the remote handler echoes
// (L, invocation number, responder) so that all verdicts are taken from recorded events:
//
//	H(L,n,id)  handler invocation n for logical request L, with the wire request ID
//	D(L,a)     the requester's select of attempt a has been entered (its response channel
//	           is registered and its timer runs) - observed through the context handed to
//	           RequestFrom, whose Done() is evaluated by that select
//	U(id)      onResponse logged "unknown request ID" for wire ID id (taken on the goroutine
//	           that holds resMu, together with whether id is in resCh at that moment)
//	R(L)       RequestFrom returned
//
// ordered by one atomic logical clock.  Elapsed time enters one verdict only, as a one-sided
// lower bound that load cannot break ("timeout" reported sooner than attempts x timeout);
// otherwise timers and failpoint sleeps only steer the schedule.  Every RequestFrom runs under the deadlock rule.
package main

import (
	"context"
	"encoding/binary"
	"errors"
	"fmt"
	"runtime"
	"sort"
	"strings"
	"sync"
	"sync/atomic"
	"time"

	gofail "go.etcd.io/gofail/runtime"

	"github.com/LiskHQ/lisk-engine/pkg/p2p"

	"verifharness/internal/mon"
	"verifharness/internal/p2pnet"
)

const (
	reqTimeout = 300 * time.Millisecond
	maxBudget  = 4 // 1 attempt + messageMaxRetries(3)
	watchdog   = 30 * time.Second
)

var procs = []string{"echo", "echo2"}

// ---------------------------------------------------------------------------------------
// request plan (travels in the payload)

type plan struct {
	L      uint64
	From   int
	To     int
	Mode   int    // 0 = handler writes data, 1 = handler writes an error
	Dup    int    // raw duplicate responses the handler's node sends before the real one
	DupGo  bool   // duplicates sent from separate goroutines (racing the real response)
	Lat    [6]int // handler latency (ms) of invocation 1..6 (the last repeats)
	Cancel int    // ms after which the requester's context is cancelled; <0 = never
	Proc   int
}

func (p *plan) encode() []byte {
	b := make([]byte, 8+5+12)
	binary.BigEndian.PutUint64(b, p.L)
	b[8], b[9], b[10], b[11] = byte(p.From), byte(p.To), byte(p.Mode), byte(p.Dup)
	if p.DupGo {
		b[12] = 1
	}
	for i, l := range p.Lat {
		binary.BigEndian.PutUint16(b[13+2*i:], uint16(l))
	}
	return b
}

func decodePlan(b []byte) (plan, bool) {
	var p plan
	if len(b) != 25 {
		return p, false
	}
	p.L = binary.BigEndian.Uint64(b)
	p.From, p.To, p.Mode, p.Dup = int(b[8]), int(b[9]), int(b[10]), int(b[11])
	p.DupGo = b[12] == 1
	for i := range p.Lat {
		p.Lat[i] = int(binary.BigEndian.Uint16(b[13+2*i:]))
	}
	return p, true
}

func encodeEcho(L uint64, n, node int) []byte {
	b := make([]byte, 10)
	binary.BigEndian.PutUint64(b, L)
	b[8], b[9] = byte(n), byte(node)
	return b
}

// ---------------------------------------------------------------------------------------
// scenario state

type invocation struct {
	Seq    int64  `json:"seq"`
	N      int    `json:"n"`
	ID     string `json:"wire_id"`
	Node   int    `json:"node"`
	PeerOK bool   `json:"peer_ok"`
}

type uEvent struct {
	Seq     int64  `json:"seq"`
	ID      string `json:"wire_id"`
	Node    int    `json:"node"`
	Pending bool   `json:"in_resCh_at_that_moment"`
}

type outcome struct {
	Seq     int64
	Class   string // ok | handler-error | timeout | canceled | other-error
	ErrStr  string
	Data    []byte
	PeerID  p2p.PeerID
	Elapsed time.Duration // evidence; lower bound in the premature-timeout rule
}

type reqState struct {
	plan plan
	inv  []invocation
	dSeq []int64
	out  *outcome
}

type scenario struct {
	k      *mon.Case
	stream string
	nodes  []*p2pnet.Node
	mps    []atomic.Pointer[p2p.MessageProtocol]

	mu         sync.Mutex
	reqs       map[uint64]*reqState
	idToL      map[string]uint64
	us         []uEvent
	handlerRet int64
	dups       map[string]int // wire ID -> "received more than once" warnings
	rawSent    int64
	rawFail    int64
	badPayload int64
	inflight   atomic.Int64
}

// evCtx is the context handed to RequestFrom.  Its Done() is evaluated exactly once by the
// select of sendRequestMessage on entry (after the response channel was registered and the
// timer created); that call - recognised by its calling function - is event D.
type evCtx struct {
	context.Context
	onSelect func()
}

func (c *evCtx) Done() <-chan struct{} {
	var pcs [4]uintptr
	n := runtime.Callers(2, pcs[:])
	if n > 0 {
		fr, _ := runtime.CallersFrames(pcs[:n]).Next()
		if strings.HasSuffix(fr.Function, ".sendRequestMessage") {
			c.onSelect()
		}
	}
	return c.Context.Done()
}

func (sc *scenario) onLog(node int) func(ev p2pnet.LogEvent) {
	return func(ev p2pnet.LogEvent) {
		if ev.Class == "dup-response" {
			// inside onResponse's default branch: resMu held, the ID is registered
			sc.mu.Lock()
			if sc.dups == nil {
				sc.dups = map[string]int{}
			}
			sc.dups[ev.Arg]++
			sc.mu.Unlock()
			return
		}
		if ev.Class != "unknown-id" {
			return
		}
		// this goroutine is inside onResponse and holds resMu
		pending := false
		if node < len(sc.mps) {
			if mp := sc.mps[node].Load(); mp != nil {
				pending = mp.VerifIsPendingLockHeld(ev.Arg)
			}
		}
		sc.mu.Lock()
		sc.us = append(sc.us, uEvent{Seq: ev.Seq, ID: ev.Arg, Node: node, Pending: pending})
		sc.mu.Unlock()
	}
}

func (sc *scenario) handler(node int, proc string) p2p.RPCHandler {
	return func(w p2p.ResponseWriter, req *p2p.Request) {
		sc.inflight.Add(1)
		defer sc.inflight.Add(-1)
		p, ok := decodePlan(req.Data)
		if !ok || req.Procedure != proc {
			sc.mu.Lock()
			sc.badPayload++
			sc.mu.Unlock()
			return
		}
		sc.mu.Lock()
		st := sc.reqs[p.L]
		if st == nil {
			sc.badPayload++
			sc.mu.Unlock()
			return
		}
		n := len(st.inv) + 1
		peerOK := p.From < len(sc.nodes) && req.PeerID == sc.nodes[p.From].ID() && node == p.To
		st.inv = append(st.inv, invocation{Seq: p2pnet.Tick(), N: n, ID: req.ID, Node: node, PeerOK: peerOK})
		sc.idToL[req.ID] = p.L
		sc.mu.Unlock()

		li := n - 1
		if li >= len(p.Lat) {
			li = len(p.Lat) - 1
		}
		if p.Lat[li] > 0 {
			time.Sleep(time.Duration(p.Lat[li]) * time.Millisecond)
		}
		data := encodeEcho(p.L, n, node)
		errStr := ""
		if p.Mode == 1 {
			errStr = fmt.Sprintf("E:%d:%d:%d", p.L, n, node)
		}
		if p.Dup > 0 && p.From < len(sc.nodes) {
			var d []byte
			if errStr == "" {
				d = data
			}
			wire := p2p.VerifEncodeResponse(req.ID, proc, d, errStr)
			var wg sync.WaitGroup
			for i := 0; i < p.Dup; i++ {
				wg.Add(1)
				f := func() {
					defer wg.Done()
					sc.sendRaw(node, p.From, wire)
				}
				if p.DupGo {
					go f()
				} else {
					f()
				}
			}
			if !p.DupGo {
				wg.Wait()
			}
		}
		if errStr != "" {
			w.Error(errors.New(errStr))
		} else {
			w.Write(data)
		}
		sc.mu.Lock()
		sc.handlerRet++
		sc.mu.Unlock()
	}
}

// sendRaw writes bytes on a fresh response-protocol stream from node a to node b.
func (sc *scenario) sendRaw(a, b int, wire []byte) {
	ctx, cancel := context.WithTimeout(context.Background(), 10*time.Second)
	defer cancel()
	s, err := sc.nodes[a].Conn.NewStream(ctx, sc.nodes[b].ID(), p2p.VerifResProtocolID(p2pnet.ChainID, p2pnet.Version))
	ok := false
	if err == nil {
		if _, err = s.Write(wire); err == nil {
			ok = s.Close() == nil
		} else {
			_ = s.Reset()
		}
	}
	sc.mu.Lock()
	if ok {
		sc.rawSent++
	} else {
		sc.rawFail++
	}
	sc.mu.Unlock()
}

// errShape strips peer IDs, addresses and numbers from an error text (evidence counters only).
func errShape(s string) string {
	var b strings.Builder
	for _, f := range strings.Fields(s) {
		if len(f) > 24 || strings.ContainsAny(f, "0123456789/") {
			f = "_"
		}
		b.WriteString(f)
		b.WriteByte(' ')
	}
	out := strings.TrimSpace(b.String())
	if len(out) > 80 {
		out = out[:80]
	}
	return out
}

func classifyErr(s string) string {
	switch {
	case strings.HasPrefix(s, "E:"):
		return "handler-error"
	case s == "timeout":
		return "timeout"
	case strings.Contains(s, "context canceled"), strings.Contains(s, "context deadline exceeded"):
		return "canceled"
	default:
		return "other-error"
	}
}

// ---------------------------------------------------------------------------------------

type spec struct {
	stream    string
	hosts     int
	conc      int
	plans     []plan
	fps       map[string]string // failpoint -> terms
	needFired []string          // failpoints this case relies on
}

func latClass(ms int) string {
	t := int(reqTimeout / time.Millisecond)
	switch {
	case ms == 0:
		return "0"
	case ms < t-60:
		return "s"
	case ms < t:
		return "n-"
	case ms <= t+60:
		return "n+"
	default:
		return "S"
	}
}

func concBucket(c int) string {
	switch {
	case c <= 1:
		return "1"
	case c <= 4:
		return "2-4"
	case c <= 16:
		return "5-16"
	default:
		return "17-64"
	}
}

func fpStatus(name string) int {
	_, n, err := gofail.Status(name)
	if err != nil {
		return -1
	}
	return n
}

func runScenario(k *mon.Case, sp spec) {
	sc := &scenario{k: k, stream: sp.stream, reqs: map[uint64]*reqState{}, idToL: map[string]uint64{}}
	sc.mps = make([]atomic.Pointer[p2p.MessageProtocol], sp.hosts)

	// failpoints (process-global; cases of one shard run one after another)
	fpOK := true
	for name, terms := range sp.fps {
		if err := gofail.Enable(name, terms); err != nil {
			fpOK = false
		}
	}
	defer func() {
		for name := range sp.fps {
			_ = gofail.Disable(name)
		}
	}()
	if !fpOK {
		k.Inconclusive("failpoints-not-compiled-in")
		k.Count("cases_skipped_no_failpoints", 1)
		return
	}

	for i := 0; i < sp.hosts; i++ {
		i := i
		n, err := p2pnet.StartNode(p2pnet.NodeOptions{
			IP:    fmt.Sprintf("127.0.0.%d", 2+i),
			Seed:  fmt.Sprintf("c17-%d", i),
			OnLog: sc.onLog(i),
			Setup: func(c *p2p.ExtendedConnection) {
				for _, pr := range procs {
					if err := c.RegisterRPCHandler(pr, sc.handler(i, pr), p2p.WithRPCMessageCounter(1<<30, 0)); err != nil {
						panic(err)
					}
				}
				c.VerifMessageProtocol().VerifSetTimeout(reqTimeout)
			},
		})
		if err != nil {
			k.Inconclusive("node-start-failed")
			for _, nd := range sc.nodes {
				nd.Stop()
			}
			return
		}
		sc.nodes = append(sc.nodes, n)
		sc.mps[i].Store(n.Conn.VerifMessageProtocol())
	}
	stopped := false
	stopAll := func() {
		if stopped {
			return
		}
		stopped = true
		for _, nd := range sc.nodes {
			nd.Stop()
		}
	}
	defer stopAll()
	for i := 0; i < sp.hosts; i++ {
		for j := i + 1; j < sp.hosts; j++ {
			if err := sc.nodes[i].ConnectTo(context.Background(), sc.nodes[j]); err != nil {
				k.Inconclusive("connect-failed")
				return
			}
		}
	}

	for i := range sp.plans {
		sc.reqs[sp.plans[i].L] = &reqState{plan: sp.plans[i]}
	}

	// run the requests with bounded concurrency
	sem := make(chan struct{}, sp.conc)
	var wg sync.WaitGroup
	for i := range sp.plans {
		p := sp.plans[i]
		st := sc.reqs[p.L]
		sem <- struct{}{}
		wg.Add(1)
		go func() {
			defer wg.Done()
			defer func() { <-sem }()
			base, cancel := context.WithCancel(context.Background())
			defer cancel()
			ctx := &evCtx{Context: base, onSelect: func() {
				t := p2pnet.Tick()
				sc.mu.Lock()
				st.dSeq = append(st.dSeq, t)
				sc.mu.Unlock()
			}}
			if p.Cancel >= 0 {
				tm := time.AfterFunc(time.Duration(p.Cancel)*time.Millisecond, cancel)
				defer tm.Stop()
			}
			var resp p2p.Response
			t0 := time.Now()
			k.Watch("RequestFrom", watchdog, func() {
				resp = sc.mps[p.From].Load().RequestFrom(ctx, sc.nodes[p.To].ID(), procs[p.Proc], p.encode())
			})
			o := &outcome{Seq: p2pnet.Tick(), Elapsed: time.Since(t0)}
			if e := resp.Error(); e != nil {
				o.ErrStr = e.Error()
				o.Class = classifyErr(o.ErrStr)
			} else {
				o.Class = "ok"
			}
			o.Data = resp.Data()
			o.PeerID = resp.PeerID()
			sc.mu.Lock()
			st.out = o
			sc.mu.Unlock()
		}()
	}
	wg.Wait()
	k.Eval(len(sp.plans) - 1)
	k.Count("requests", len(sp.plans))

	// (1) no pending entry may survive once every request has returned; resMu must be free
	pend := make([]int, sp.hosts)
	k.Watch("VerifPending", watchdog, func() {
		for i := range sc.mps {
			pend[i] = sc.mps[i].Load().VerifPending()
		}
	})
	for i, n := range pend {
		if n != 0 {
			k.Violation("pending-leak:resCh-not-empty-after-all-requests-returned",
				"len(resCh) != 0 after every RequestFrom of the case returned",
				map[string]any{"node": i, "len_resCh": n, "stream": sp.stream, "plans": sp.plans})
		}
	}

	// (2) drain: let handlers finish and stragglers be processed (best effort), then close the
	// hosts - no new stream handler can start after that - and wait until no goroutine is
	// inside onRequest/onResponse any more.  Only then is the process quiescent for certain.
	sc.waitDrained()
	stopAll()
	quiet := waitNoProtocolGoroutines()
	if !quiet {
		k.Inconclusive("no-quiescence-after-case")
	} else {
		// taking resMu once more orders this goroutine after every finished onResponse (each
		// released resMu after its failpoint evaluation), so that gofail's unlocked counter can
		// be read below without a (harness-made) data race
		k.Watch("VerifPending-after-stop", watchdog, func() {
			for i := range sc.mps {
				sc.mps[i].Load().VerifPending()
			}
		})
	}

	// (3) failpoint activations (only read at quiescence: Status reads the counter unlocked)
	fired := map[string]int{}
	if quiet {
		for name := range sp.fps {
			fired[name] = fpStatus(name)
			if fired[name] > 0 {
				k.Count("failpoint_fired_"+name, fired[name])
			}
		}
		for _, name := range sp.needFired {
			if fired[name] <= 0 {
				k.Inconclusive("failpoint-never-fired:" + name)
				k.Count("cases_failpoint_never_fired", 1)
			}
		}
	}

	// (4) oracles over the recorded events
	sc.judge(sp, fired)
}

func allStacks() string {
	buf := make([]byte, 1<<20)
	for {
		n := runtime.Stack(buf, true)
		if n < len(buf) {
			return string(buf[:n])
		}
		buf = make([]byte, 2*len(buf))
	}
}

// waitNoProtocolGoroutines: true once no goroutine has a MessageProtocol stream-handler frame.
func waitNoProtocolGoroutines() bool {
	for i := 0; i < 400; i++ {
		st := allStacks()
		if !strings.Contains(st, "p2p.(*MessageProtocol).onResponse") && !strings.Contains(st, "p2p.(*MessageProtocol).onRequest") {
			return true
		}
		time.Sleep(25 * time.Millisecond)
	}
	return false
}

// waitDrained waits (bounded, best effort - no verdict depends on it) until the handlers have
// returned and every response that was sent has been accounted for by an onResponse.
func (sc *scenario) waitDrained() bool {
	for i := 0; i < 300; i++ {
		if sc.inflight.Load() == 0 {
			sc.mu.Lock()
			delivered := int64(0)
			for _, st := range sc.reqs {
				if st.out != nil && (st.out.Class == "ok" || st.out.Class == "handler-error") {
					delivered++
				}
			}
			us := int64(len(sc.us))
			sent := sc.handlerRet + sc.rawSent
			sc.mu.Unlock()
			respErr := int64(0)
			dropped := int64(0)
			for _, n := range sc.nodes {
				respErr += int64(n.Logger.Count("respond-error"))
				dropped += int64(n.Logger.Count("decode-error") + n.Logger.Count("dup-response") + n.Logger.Count("unregistered") + n.Logger.Count("stream-read-error") + n.Logger.Count("ratelimit-error"))
			}
			if delivered+us+dropped >= sent-respErr {
				return true
			}
		}
		time.Sleep(5 * time.Millisecond)
	}
	return false
}

func (sc *scenario) judge(sp spec, fired map[string]int) {
	k := sc.k
	sc.mu.Lock()
	defer sc.mu.Unlock()

	firstU := map[string]uEvent{}
	for _, u := range sc.us {
		if o, ok := firstU[u.ID]; !ok || u.Seq < o.Seq {
			firstU[u.ID] = u
		}
		k.Count("unknown_request_id_logged", 1)
		if u.Pending {
			L := sc.idToL[u.ID]
			k.Violation("lost-response:unknown-request-id-while-registered",
				"onResponse reported an unknown request ID although that ID was in resCh at that moment (under resMu): the reply of a pending request was dropped",
				map[string]any{"event": u, "logical_id": L, "stream": sp.stream})
		}
	}
	// every peer of these scenarios is honest (late, slow, duplicated or cancelled traffic, never
	// malformed): the message layer must not have banned anybody - a banned responder cannot deliver
	// the replies of the attempts that are still waiting
	for i, n := range sc.nodes {
		if n == nil {
			continue
		}
		if banned := n.Conn.VerifPeer().VerifGater().ListBanned(); len(banned) > 0 {
			k.Violation("lost-response:honest-peer-banned-by-the-message-layer", "a node banned a peer although every peer only sent well-formed (if late, duplicated or cancelled) traffic; replies of attempts still waiting cannot arrive any more",
				map[string]any{"node": i, "banned": fmt.Sprint(banned), "stream": sp.stream})
			break
		}
		k.Count("ban_lists_checked_empty", 1)
	}
	if sc.badPayload > 0 {
		k.Count("handler_bad_payload", int(sc.badPayload))
	}
	k.Count("raw_duplicates_sent", int(sc.rawSent))
	k.Count("raw_duplicates_failed", int(sc.rawFail))

	Ls := make([]uint64, 0, len(sc.reqs))
	for L := range sc.reqs {
		Ls = append(Ls, L)
	}
	sort.Slice(Ls, func(i, j int) bool { return Ls[i] < Ls[j] })
	sampled := false
	for _, L := range Ls {
		st := sc.reqs[L]
		p := st.plan
		o := st.out
		if o == nil {
			continue // Watch already exited the process otherwise
		}
		k.Count("outcome_"+o.Class, 1)
		if o.Class == "other-error" {
			k.Count("other_error:"+errShape(o.ErrStr), 1)
		}
		k.Count("handler_invocations", len(st.inv))
		k.Count("select_entered(D)", len(st.dSeq))
		wit := func() map[string]any {
			return map[string]any{"stream": sp.stream, "plan": p, "failpoints": sp.fps, "failpoints_fired": fired,
				"handler_invocations": st.inv, "D_seq": st.dSeq, "outcome": o.Class, "error": o.ErrStr, "data_hex": fmt.Sprintf("%x", o.Data),
				"returned_seq": o.Seq, "unknown_id_events": sc.usFor(st), "timeout_ms": int(reqTimeout / time.Millisecond)}
		}

		// request side correlation
		for _, in := range st.inv {
			if !in.PeerOK {
				k.Violation("miscorrelation:request-delivered-to-wrong-node-or-with-wrong-sender",
					"the handler saw the request on a node / with a Request.PeerID other than the ones it was sent to / from", wit())
			}
		}
		// retry budget
		if len(st.inv) > maxBudget {
			k.Violation("retry-budget-exceeded:handler-invoked-more-than-4-times",
				"one RequestFrom produced more request messages than 1 + messageMaxRetries", wit())
		}
		// response correlation
		switch o.Class {
		case "ok":
			good := len(o.Data) == 10 && binary.BigEndian.Uint64(o.Data) == L && int(o.Data[9]) == p.To &&
				int(o.Data[8]) >= 1 && int(o.Data[8]) <= len(st.inv) && p.Mode == 0
			if !good {
				k.Violation("miscorrelation:response-data-is-not-the-handlers-output-for-this-request",
					"RequestFrom returned data that the remote handler did not produce for this logical request", wit())
			} else if o.PeerID != sc.nodes[p.To].ID() {
				k.Violation("miscorrelation:response-peer-id",
					"Response.PeerID() is not the peer the request was sent to", wit())
			}
			if len(st.dSeq) == 0 {
				k.Inconclusive("select-probe-missed")
			}
		case "handler-error":
			var eL uint64
			var en, enode int
			_, err := fmt.Sscanf(o.ErrStr, "E:%d:%d:%d", &eL, &en, &enode)
			if err != nil || eL != L || enode != p.To || en < 1 || en > len(st.inv) || p.Mode != 1 {
				k.Violation("miscorrelation:response-error-is-not-the-handlers-error-for-this-request",
					"RequestFrom returned a handler error that the remote handler did not produce for this logical request", wit())
			} else if o.PeerID != sc.nodes[p.To].ID() {
				k.Violation("miscorrelation:response-peer-id",
					"Response.PeerID() is not the peer the request was sent to", wit())
			}
		}

		// premature timeout: RequestFrom reports "timeout" only after every attempt it started has
		// waited the full request timeout (an attempt ends earlier only through a reply or the
		// context, and then the result is not "timeout"). Timers never fire early and load only
		// lengthens a run, so "returned sooner than attempts x timeout" is a one-sided bound that
		// cannot be produced by a slow machine: the requester gave up on an attempt whose reply was
		// still due (and drops it as "unknown request ID" when it arrives in time).
		if o.Class == "timeout" && p.Cancel < 0 {
			att := len(st.inv)
			if len(st.dSeq) > att {
				att = len(st.dSeq)
			}
			k.Count("timeout_results_checked_against_attempts_x_timeout", 1)
			if o.Elapsed < time.Duration(att)*reqTimeout-time.Millisecond {
				w := wit()
				w["attempts_started"], w["elapsed_ms"], w["request_timeout_ms"] = att, o.Elapsed.Milliseconds(), reqTimeout.Milliseconds()
				k.Violation("lost-response:timeout-reported-before-the-deadline-of-an-attempt",
					"RequestFrom returned 'timeout' sooner than (attempts started) x (request timeout): it stopped waiting for an attempt before that attempt's deadline, so a reply arriving in time is dropped", w)
			}
		}

		// lost replies, registered form: per wire ID the responder sent 1 + Dup responses; the
		// response channel holds one, so at most Dup of them can legitimately be refused as
		// "received more than once". One refusal more means a reply was dropped although its
		// request was registered and nothing had been delivered to it.
		for _, in := range st.inv {
			if d := sc.dups[in.ID]; d > 0 {
				k.Count("responses_refused_as_duplicate", d)
				if d > p.Dup {
					w := wit()
					w["wire_id"], w["refused_as_duplicate"], w["responses_sent_for_wire_id_at_most"] = in.ID, d, 1+p.Dup
					k.Violation("lost-response:reply-refused-as-duplicate-although-none-was-delivered",
						"onResponse refused more responses of one wire ID as 'received more than once' than duplicates were sent: a reply to a registered request was dropped instead of delivered", w)
				}
			}
		}

		// lost replies: the k-th smallest first "unknown request ID" event among this request's
		// wire IDs precedes the k-th select entry => for every possible assignment of wire IDs to
		// attempts some reply was looked up, and dropped, before its attempt had even registered.
		var us []int64
		for _, in := range st.inv {
			if u, ok := firstU[in.ID]; ok {
				us = append(us, u.Seq)
			}
		}
		sort.Slice(us, func(i, j int) bool { return us[i] < us[j] })
		ds := append([]int64(nil), st.dSeq...)
		sort.Slice(ds, func(i, j int) bool { return ds[i] < ds[j] })
		early := false
		for i := range us {
			if i < len(ds) && us[i] < ds[i] {
				early = true
			}
		}
		if early {
			k.Count("replies_dropped_before_registration", 1)
			k.Violation("lost-response:reply-dropped-before-response-channel-registered",
				"the remote handler answered, the reply reached onResponse before sendRequestMessage had registered the response channel and was dropped as 'unknown request ID'; the attempt then timed out",
				wit())
		}
		if len(st.inv) > 1 && !early {
			allFast := true
			for i := 0; i < len(st.inv)-1 && i < len(p.Lat); i++ {
				if p.Lat[i] >= int(reqTimeout/time.Millisecond)-60 {
					allFast = false
				}
			}
			if allFast {
				// not a verdict: a reply that was looked up after its attempt had ended (late "unknown
				// request ID") is a slow schedule; without such an event the reply was still in flight
				// or was buffered for an attempt that had already left its select
				cause := "no-unknown-id-event"
				if _, ok := firstU[st.inv[0].ID]; ok {
					cause = "reply-looked-up-after-attempt-ended"
				}
				k.Count("retries_after_fast_handler_not_judged:"+sp.stream+":"+cause, 1)
			}
		}

		// coverage key
		att := len(st.inv)
		lc := ""
		for i := 0; i < att && i < len(p.Lat); i++ {
			lc += latClass(p.Lat[i]) + ","
		}
		fp := make([]string, 0, len(sp.fps))
		for n := range sp.fps {
			fp = append(fp, n)
		}
		sort.Strings(fp)
		k.Nontrivial(fmt.Sprintf("out=%s|att=%d|lat=%s|mode=%d|dup=%d/%v|cancel=%v|conc=%s|hosts=%d|fp=%s|U=%d",
			o.Class, att, lc, p.Mode, p.Dup, p.DupGo, p.Cancel >= 0, concBucket(sp.conc), sp.hosts, strings.Join(fp, "+"), len(us)))
		if !sampled {
			sampled = true
			k.Sample(map[string]any{"hosts": sp.hosts, "concurrency": sp.conc, "requests": len(sp.plans), "failpoints": sp.fps, "failpoints_fired": fired,
				"first_request": map[string]any{"plan": p, "outcome": o.Class, "handler_invocations": len(st.inv), "select_entries": len(st.dSeq), "unknown_id_events": len(us), "elapsed_ms_evidence_only": o.Elapsed.Milliseconds()}})
		}
	}
}

func (sc *scenario) usFor(st *reqState) []uEvent {
	var out []uEvent
	for _, u := range sc.us {
		for _, in := range st.inv {
			if in.ID == u.ID {
				out = append(out, u)
			}
		}
	}
	return out
}

// ---------------------------------------------------------------------------------------
// generators

var nextL atomic.Uint64

func newL() uint64 { return nextL.Add(1) }

func tms() int { return int(reqTimeout / time.Millisecond) }

func genLat(k *mon.Case, class int) int {
	t := tms()
	switch class {
	case 0:
		return 0
	case 1:
		return 1 + k.R.Intn(20)
	case 2:
		return t - 40 + k.R.Intn(36) // just below the timeout
	case 3:
		return t + 5 + k.R.Intn(36) // just above
	default:
		return t + 100 + k.R.Intn(50)
	}
}

func basePlan(k *mon.Case, hosts int) plan {
	p := plan{L: newL(), Cancel: -1, Proc: k.R.Intn(len(procs))}
	p.From = k.R.Intn(hosts)
	p.To = (p.From + 1 + k.R.Intn(hosts-1)) % hosts
	return p
}

func genMix(k *mon.Case) spec {
	hosts := 2 + k.R.Intn(3)
	concs := []int{1, 2, 4, 8, 16, 32, 64}
	sp := spec{stream: "mix", hosts: hosts, conc: concs[k.R.Intn(len(concs))]}
	n := 24 + k.R.Intn(40)
	for i := 0; i < n; i++ {
		p := basePlan(k, hosts)
		switch r := k.R.Intn(100); {
		case r < 45: // fast
			for j := range p.Lat {
				p.Lat[j] = genLat(k, k.R.Intn(2))
			}
		case r < 60: // around the timeout on every attempt
			for j := range p.Lat {
				p.Lat[j] = genLat(k, 2+k.R.Intn(2))
			}
		case r < 80: // slow first, then fast
			slowN := 1 + k.R.Intn(3)
			for j := range p.Lat {
				if j < slowN {
					p.Lat[j] = genLat(k, 3+k.R.Intn(2))
				} else {
					p.Lat[j] = genLat(k, k.R.Intn(2))
				}
			}
		case r < 88: // always too slow: budget exhausted
			for j := range p.Lat {
				p.Lat[j] = genLat(k, 4)
			}
		default:
			for j := range p.Lat {
				p.Lat[j] = genLat(k, k.R.Intn(5))
			}
		}
		if k.R.Intn(5) == 0 {
			p.Mode = 1
		}
		if k.R.Intn(8) == 0 {
			// cancel somewhere between "immediately" and "after two attempts"
			p.Cancel = k.R.Intn(2 * tms())
			if k.R.Intn(3) == 0 {
				p.Cancel = p.Lat[0] + k.R.Intn(3) // right when the first reply is due
			}
		}
		sp.plans = append(sp.plans, p)
	}
	return sp
}

func genDup(k *mon.Case) spec {
	hosts := 2 + k.R.Intn(2)
	sp := spec{stream: "dup", hosts: hosts, conc: []int{1, 2, 4, 8}[k.R.Intn(4)]}
	n := 12 + k.R.Intn(12)
	for i := 0; i < n; i++ {
		p := basePlan(k, hosts)
		for j := range p.Lat {
			p.Lat[j] = genLat(k, k.R.Intn(2))
		}
		p.Dup = 1 + k.R.Intn(3)
		p.DupGo = k.R.Intn(2) == 0
		if k.R.Intn(6) == 0 {
			p.Mode = 1
		}
		sp.plans = append(sp.plans, p)
	}
	return sp
}

// early: the requester is held between send and registration; the handler answers at once.
func genEarly(k *mon.Case) spec {
	hosts := 2 + k.R.Intn(2)
	sleep := 30 + k.R.Intn(50)
	sp := spec{stream: "early", hosts: hosts, conc: []int{1, 1, 2, 4}[k.R.Intn(4)],
		fps: map[string]string{"mpAfterSend": fmt.Sprintf("sleep(%d)", sleep)}, needFired: []string{"mpAfterSend"}}
	if k.R.Intn(3) == 0 { // only some of the attempts are held
		sp.fps["mpAfterSend"] = fmt.Sprintf("50.0%%sleep(%d)", sleep)
	}
	n := 4 + k.R.Intn(5)
	for i := 0; i < n; i++ {
		p := basePlan(k, hosts)
		if k.R.Intn(5) == 0 {
			p.Mode = 1
		}
		sp.plans = append(sp.plans, p)
	}
	return sp
}

// late: delivery is held between arrival and lookup for longer than (or about) the timeout.
func genLate(k *mon.Case) spec {
	hosts := 2
	sleep := tms() + 60 + k.R.Intn(60)
	terms := fmt.Sprintf("sleep(%d)", sleep)
	if k.R.Intn(2) == 0 {
		terms = fmt.Sprintf("60.0%%sleep(%d)", tms()-30+k.R.Intn(60)) // lookup races the timeout branch
	}
	sp := spec{stream: "late", hosts: hosts, conc: 1 + k.R.Intn(2),
		fps: map[string]string{"mpBeforeDeliver": terms}, needFired: []string{"mpBeforeDeliver"}}
	n := 3 + k.R.Intn(3)
	for i := 0; i < n; i++ {
		p := basePlan(k, hosts)
		sp.plans = append(sp.plans, p)
	}
	return sp
}

// trace: the requester is held at the top of the timeout branch while the reply of that very
// attempt arrives.
func genTimeoutRace(k *mon.Case) spec {
	hosts := 2
	sleep := 120 + k.R.Intn(80)
	sp := spec{stream: "timeout-race", hosts: hosts, conc: 1 + k.R.Intn(3),
		fps: map[string]string{"mpOnTimeout": fmt.Sprintf("sleep(%d)", sleep)}, needFired: []string{"mpOnTimeout"}}
	n := 3 + k.R.Intn(4)
	for i := 0; i < n; i++ {
		p := basePlan(k, hosts)
		p.Lat[0] = tms() + 25 + k.R.Intn(sleep-50)
		if k.R.Intn(4) == 0 {
			p.Lat[1] = p.Lat[0]
		}
		sp.plans = append(sp.plans, p)
	}
	return sp
}

// cancel-race: the context is cancelled right when the reply is due.
func genCancelRace(k *mon.Case) spec {
	hosts := 2
	sp := spec{stream: "cancel-race", hosts: hosts, conc: []int{1, 4, 16}[k.R.Intn(3)]}
	n := 16 + k.R.Intn(16)
	for i := 0; i < n; i++ {
		p := basePlan(k, hosts)
		p.Lat[0] = 5 + k.R.Intn(40)
		p.Cancel = p.Lat[0] + k.R.Intn(4)
		sp.plans = append(sp.plans, p)
	}
	return sp
}

func genCombo(k *mon.Case) spec {
	sp := genMix(k)
	sp.stream = "combo"
	if sp.conc > 16 {
		sp.conc = 16
	}
	if len(sp.plans) > 32 {
		sp.plans = sp.plans[:32]
	}
	sp.fps = map[string]string{
		"mpAfterSend":     fmt.Sprintf("%d.0%%sleep(%d)", 10+k.R.Intn(40), 5+k.R.Intn(30)),
		"mpBeforeDeliver": fmt.Sprintf("%d.0%%sleep(%d)", 10+k.R.Intn(40), 5+k.R.Intn(40)),
		"mpOnTimeout":     fmt.Sprintf("%d.0%%sleep(%d)", 20+k.R.Intn(60), 10+k.R.Intn(60)),
	}
	for i := range sp.plans {
		if k.R.Intn(6) == 0 {
			sp.plans[i].Dup = 1 + k.R.Intn(2)
			sp.plans[i].DupGo = k.R.Intn(2) == 0
		}
	}
	return sp
}

func main() {
	mon.Main(mon.Options{
		Property: "C17",
		Level:    "exploration",
		Rule: "each case starts 2-4 real p2p.Connections on 127.0.0.x and issues a batch of RequestFrom calls (1-64 concurrent) whose payload carries a unique logical ID and a per-attempt handler latency plan " +
			"(0 / small / just below / just above / far above the 300 ms timeout), handler errors, context cancellations, duplicate raw responses, and - in the early/late/timeout-race/combo streams - gofail failpoints between send and registration, " +
			"between arrival and lookup, and at the top of the timeout branch. Oracles: echo correlation, <= 4 handler invocations, 'unknown request ID' logged before the attempt registered (or while registered) = lost reply, len(resCh)==0 at quiescence, deadlock rule on every call, race detector. " +
			"A case is non-trivial per distinct (outcome, attempts, latency classes, mode, duplicates, cancel, concurrency bucket, hosts, failpoints, unknown-ID events).",
		Assumptions: []string{
			"libp2p streams on loopback deliver each written message at most once",
			"failpoint sleeps and timers only steer the schedule; every verdict is taken from the logical order of recorded events",
			"the harness handler is invoked once per request message (no handler-level retries)",
		},
		RacePkgs:    []string{"p2p"},
		MaxRestarts: 40,
	}, func(c *mon.Ctx) {
		c.Cases("mix", c.N(40, 960), func(k *mon.Case) { runScenario(k, genMix(k)) })
		c.Cases("dup", c.N(16, 400), func(k *mon.Case) { runScenario(k, genDup(k)) })
		c.Cases("cancel-race", c.N(16, 400), func(k *mon.Case) { runScenario(k, genCancelRace(k)) })
		c.Cases("late", c.N(16, 240), func(k *mon.Case) { runScenario(k, genLate(k)) })
		c.Cases("combo", c.N(16, 600), func(k *mon.Case) { runScenario(k, genCombo(k)) })
		c.Cases("early", c.N(16, 320), func(k *mon.Case) { runScenario(k, genEarly(k)) })
		c.Cases("timeout-race", c.N(16, 320), func(k *mon.Case) { runScenario(k, genTimeoutRace(k)) })
		realDeadline(c)
		stallStream(c)
	})
}
