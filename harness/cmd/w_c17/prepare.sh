#!/bin/bash
# Sourced by /verif/check before the C17 worker is built (cwd = /verif).
# Makes a failpoint-enabled scratch copy of the repository under a FIXED path (so that the Go
# build cache hits), activates the three gofail comment failpoints of pkg/p2p in it and points
# the build at the copy through a private modfile.  The copy's own go.mod stays untouched; the
# harness module already requires go.etcd.io/gofail.
C17_SRC="${VERIF_REPO:-/repo}"
C17_FP_ROOT="/dev/shm/verif-fp-c17"
C17_FP="$C17_FP_ROOT/repo"
C17_LOCK="$C17_FP_ROOT.lock"

cleanup_prepare() {
  rm -rf "$C17_FP_ROOT"
  flock -u 9 2>/dev/null
  exec 9>&- 2>/dev/null
  rm -f "$C17_LOCK"
}

_c17_prepare() {
  command -v rsync >/dev/null || { echo "prepare: rsync missing"; return 1; }
  if [ ! -x "$VERIF_ROOT/bin/gofail" ]; then
    ( cd "$VERIF_ROOT" && ./setup.sh ) >/dev/null 2>&1
  fi
  [ -x "$VERIF_ROOT/bin/gofail" ] || { echo "prepare: /verif/bin/gofail missing (run ./setup.sh)"; return 1; }
  # one C17 check at a time: the scratch path is fixed
  exec 9>"$C17_LOCK" || return 1
  flock -w 3600 9 || { echo "prepare: could not lock $C17_LOCK"; return 1; }
  mkdir -p "$C17_FP" || return 1
  rsync -a --delete --exclude .git "$C17_SRC"/ "$C17_FP"/ || return 1
  # if the comment failpoints were edited away the check still runs (cases that rely on a
  # failpoint which never fires are inconclusive, the natural-schedule streams still decide)
  if grep -q 'gofail: var' "$C17_FP/pkg/p2p/message_protocol.go"; then
    "$VERIF_ROOT/bin/gofail" enable "$C17_FP/pkg/p2p" || return 1
  else
    echo "prepare: no gofail comment failpoints in $C17_SRC/pkg/p2p/message_protocol.go - running without them"
  fi
  if [ -n "${VERIF_REPO:-}" ]; then
    # ./check already chose bin/alt-<hash> for this scratch repository; keep its BIN
    :
  else
    BIN="bin/fp-c17"
  fi
  mkdir -p "$BIN"
  MODFILE="$PWD/$BIN/go.mod"
  sed "s#=> /repo#=> $C17_FP#" harness/go.mod > "$MODFILE" || return 1
  cp harness/go.sum "$BIN/go.sum"
  export MODFILE BIN
  return 0
}

_c17_prepare || { cleanup_prepare; false; }
