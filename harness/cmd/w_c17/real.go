// Two streams that run with the layer's REAL response timeout (3 s, no hook), because what they
// look at is tied to it:
//
// "real-deadline": a handler that answers late but in time (2.3 s of 3 s) for a request that
// arrives late inside a wall-clock second.  The reply was handed to the layer well before the
// requester's deadline, so the requester must receive it: exactly one handler invocation, the
// right data.  (A responder that derives its own send deadline from a coarser clock than the
// requester's timer drops such replies.)
//
// "stall": while a request to a healthy peer is waiting for its reply, another request is sent to a
// peer that accepts the TCP connection and then stays silent (the send hangs in the handshake until
// its context ends).  The healthy request must complete with one handler invocation and the right
// data, unaffected by the hanging send; afterwards nothing may be left pending.
package main

import (
	"context"
	"crypto/ed25519"
	"crypto/sha256"
	"fmt"
	"net"
	"sync"
	"sync/atomic"
	"time"

	"github.com/libp2p/go-libp2p/core/crypto"
	"github.com/libp2p/go-libp2p/core/peer"
	ma "github.com/multiformats/go-multiaddr"

	"github.com/LiskHQ/lisk-engine/pkg/p2p"

	"verifharness/internal/mon"
	"verifharness/internal/p2pnet"
)

const realTimeout = 3 * time.Second // messageResponseTimeout of the layer

type realPair struct {
	a, b     *p2pnet.Node
	calls    atomic.Int64
	returned atomic.Int64 // unix nanos of the handler's last return
	latency  time.Duration
}

func startRealPair(k *mon.Case, ipA, ipB string, latency time.Duration) *realPair {
	rp := &realPair{latency: latency}
	mk := func(ip string, responder bool) (*p2pnet.Node, error) {
		return p2pnet.StartNode(p2pnet.NodeOptions{IP: ip, Seed: "c17-real-" + ip, Setup: func(c *p2p.ExtendedConnection) {
			if err := c.RegisterRPCHandler("echo", func(w p2p.ResponseWriter, req *p2p.Request) {
				if responder {
					rp.calls.Add(1)
					time.Sleep(rp.latency)
				}
				h := sha256.Sum256(req.Data)
				w.Write(h[:])
				if responder {
					rp.returned.Store(time.Now().UnixNano())
				}
			}, p2p.WithRPCMessageCounter(1<<30, 0)); err != nil {
				panic(err)
			}
		}})
	}
	var err error
	if rp.a, err = mk(ipA, false); err == nil {
		rp.b, err = mk(ipB, true)
	}
	if err == nil {
		err = rp.a.ConnectTo(context.Background(), rp.b)
	}
	if err != nil {
		rp.stop()
		k.Inconclusive("node-start-or-connect-failed")
		return nil
	}
	return rp
}

func (rp *realPair) stop() {
	for _, n := range []*p2pnet.Node{rp.a, rp.b} {
		if n != nil {
			n.Stop()
		}
	}
}

func realDeadline(c *mon.Ctx) {
	c.Cases("real-deadline", c.N(8, 96), func(k *mon.Case) {
		shard := c.Shard()
		lat := 2200*time.Millisecond + time.Duration(k.R.Intn(250))*time.Millisecond
		rp := startRealPair(k, fmt.Sprintf("127.%d.0.2", 50+shard), fmt.Sprintf("127.%d.0.3", 50+shard), lat)
		if rp == nil {
			return
		}
		defer rp.stop()
		// send late inside a wall-clock second
		for {
			f := time.Now().Nanosecond()
			if f >= 800e6 && f <= 930e6 {
				break
			}
			time.Sleep(5 * time.Millisecond)
		}
		payload := []byte(fmt.Sprintf("real-deadline-%d-%d", k.Index, k.R.Int63()))
		want := sha256.Sum256(payload)
		var resp p2p.Response
		start := time.Now()
		k.Watch("RequestFrom", 60*time.Second, func() {
			ctx, cancel := context.WithTimeout(context.Background(), 20*time.Second)
			defer cancel()
			resp = rp.a.Conn.RequestFrom(ctx, rp.b.ID(), "echo", payload)
		})
		k.Eval(1)
		firstReturn := time.Duration(0)
		if t := rp.returned.Load(); t > 0 {
			firstReturn = time.Unix(0, t).Sub(start)
		}
		wit := map[string]any{"handler_latency_ms": lat.Milliseconds(), "handler_calls": rp.calls.Load(), "sent_at_second_fraction_ms": start.Nanosecond() / 1e6,
			"error": fmt.Sprint(resp.Error()), "request_took_ms": time.Since(start).Milliseconds(), "timeout_ms": realTimeout.Milliseconds()}
		calls := rp.calls.Load()
		ok := resp.Error() == nil && string(resp.Data()) == string(want[:])
		if ok && calls == 1 {
			k.Count("late_but_in_time_replies_received", 1)
			k.Nontrivial(fmt.Sprintf("real-deadline|lat%d", lat.Milliseconds()/100))
			return
		}
		if calls == 1 && firstReturn > realTimeout-300*time.Millisecond {
			// the machine was so slow that the single reply was not handed over 300 ms before the deadline
			k.Inconclusive("handler-returned-too-close-to-the-deadline")
			return
		}
		if calls > 1 && lat > realTimeout-600*time.Millisecond {
			k.Inconclusive("latency-margin")
			return
		}
		k.Violation("lost-response:reply-handed-over-well-before-the-deadline-never-reached-the-requester", "the handler answered well within the response timeout (one logical request), yet the requester timed out / retried", wit)
	})
}

func stallStream(c *mon.Ctx) {
	c.Cases("stall", c.N(8, 96), func(k *mon.Case) {
		shard := c.Shard()
		lat := 300*time.Millisecond + time.Duration(k.R.Intn(300))*time.Millisecond
		rp := startRealPair(k, fmt.Sprintf("127.%d.1.2", 50+shard), fmt.Sprintf("127.%d.1.3", 50+shard), lat)
		if rp == nil {
			return
		}
		defer rp.stop()
		// a peer that accepts TCP connections and never says anything
		ln, err := net.Listen("tcp", fmt.Sprintf("127.%d.1.4:0", 50+shard))
		if err != nil {
			k.Inconclusive("silent-listener")
			return
		}
		defer ln.Close()
		var held []net.Conn
		var hmu sync.Mutex
		go func() {
			for {
				cn, err := ln.Accept()
				if err != nil {
					return
				}
				hmu.Lock()
				held = append(held, cn)
				hmu.Unlock()
			}
		}()
		defer func() {
			hmu.Lock()
			for _, cn := range held {
				cn.Close()
			}
			hmu.Unlock()
		}()
		_, pub, _ := func() (ed25519.PrivateKey, ed25519.PublicKey, error) {
			seed := sha256.Sum256([]byte(fmt.Sprintf("silent-%d-%d", k.Index, k.R.Int63())))
			priv := ed25519.NewKeyFromSeed(seed[:])
			return priv, priv.Public().(ed25519.PublicKey), nil
		}()
		lpub, err := crypto.UnmarshalEd25519PublicKey(pub)
		if err != nil {
			k.Inconclusive("silent-peer-id")
			return
		}
		silentID, err := peer.IDFromPublicKey(lpub)
		if err != nil {
			k.Inconclusive("silent-peer-id")
			return
		}
		addr, _ := ma.NewMultiaddr(fmt.Sprintf("/ip4/127.%d.1.4/tcp/%d", 50+shard, ln.Addr().(*net.TCPAddr).Port))
		rp.a.Conn.VerifPeer().VerifHost().Peerstore().AddAddrs(silentID, []ma.Multiaddr{addr}, time.Minute)

		payload := []byte(fmt.Sprintf("stall-%d-%d", k.Index, k.R.Int63()))
		want := sha256.Sum256(payload)
		var healthy, stalled p2p.Response
		var order atomic.Int64
		var healthyDone, stalledDone int64
		var wg sync.WaitGroup
		wg.Add(2)
		k.Watch("RequestFrom", 90*time.Second, func() {
			go func() {
				defer wg.Done()
				ctx, cancel := context.WithTimeout(context.Background(), 30*time.Second)
				defer cancel()
				healthy = rp.a.Conn.RequestFrom(ctx, rp.b.ID(), "echo", payload)
				healthyDone = order.Add(1)
			}()
			time.Sleep(100 * time.Millisecond) // the healthy request is on its way, its reply is not due yet
			go func() {
				defer wg.Done()
				ctx, cancel := context.WithTimeout(context.Background(), 5*time.Second)
				defer cancel()
				stalled = rp.a.Conn.RequestFrom(ctx, silentID, "echo", []byte("anyone there?"))
				stalledDone = order.Add(1)
			}()
			wg.Wait()
		})
		k.Eval(1)
		calls := rp.calls.Load()
		wit := map[string]any{"handler_latency_ms": lat.Milliseconds(), "handler_calls": calls, "healthy_error": fmt.Sprint(healthy.Error()), "stalled_error": fmt.Sprint(stalled.Error()),
			"healthy_request_finished_first": healthyDone < stalledDone}
		if stalled.Error() == nil {
			k.Inconclusive("silent-peer-answered")
			return
		}
		ok := healthy.Error() == nil && string(healthy.Data()) == string(want[:])
		switch {
		case !ok:
			k.Violation("lost-response:request-to-a-healthy-peer-failed-while-another-send-was-hanging", "a request to a healthy peer failed while a send to an unresponsive peer was hanging", wit)
		case calls != 1:
			k.Violation("lost-response:request-to-a-healthy-peer-retried-while-another-send-was-hanging", "the reply of a healthy peer was not delivered while a send to an unresponsive peer was hanging: the request was retried", wit)
		case healthyDone > stalledDone:
			k.Violation("blocked:request-to-a-healthy-peer-waited-for-a-hanging-send", "a request to a healthy peer (reply after a few hundred ms) only returned after a 5 s hanging send to another peer had ended", wit)
		default:
			k.Count("healthy_requests_unaffected_by_a_hanging_send", 1)
			k.Nontrivial(fmt.Sprintf("stall|lat%d", lat.Milliseconds()/100))
		}
		if n := rp.a.Conn.VerifMessageProtocol().VerifPending(); n != 0 {
			k.Violation("pending-leak:resCh-not-empty-after-all-requests-returned", "pending response entries remain after every request has returned", map[string]any{"pending": n})
		}
	})
}
