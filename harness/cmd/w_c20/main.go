// Worker for C20: shared chain data is race-free and deadlock-free under concurrent use.
// Built with -race; race reports are collected by the parent from the race logs.
package main

import (
	"bytes"
	"context"
	"fmt"
	"math/rand"
	"runtime"
	"sort"
	"sync"
	"sync/atomic"
	"time"

	"github.com/anishathalye/porcupine"

	"github.com/LiskHQ/lisk-engine/pkg/blockchain"
	"github.com/LiskHQ/lisk-engine/pkg/consensus/certificate"
	lsync "github.com/LiskHQ/lisk-engine/pkg/consensus/sync"
	"github.com/LiskHQ/lisk-engine/pkg/crypto"
	"github.com/LiskHQ/lisk-engine/pkg/db"
	"github.com/LiskHQ/lisk-engine/pkg/db/diffdb"
	"github.com/LiskHQ/lisk-engine/pkg/event"
	"github.com/LiskHQ/lisk-engine/pkg/p2p"
	"github.com/LiskHQ/lisk-engine/pkg/trie/rmt"

	"verifharness/internal/mon"
	"verifharness/internal/node"
)

var _ = lsync.RPCEndpointGetLastBlock

type stamp struct{ c atomic.Int64 }

func (s *stamp) now() int64 { return s.c.Add(1) }

// completeBlock: a reader must obtain a complete committed tip
func completeBlock(b *blockchain.Block) string {
	if b == nil || b.Header == nil {
		return "nil"
	}
	if !bytes.Equal(crypto.Hash(b.Header.Encode()), b.Header.ID) {
		return "id-mismatch"
	}
	ids := make([][]byte, len(b.Transactions))
	for i, tx := range b.Transactions {
		if tx == nil {
			return "nil-transaction"
		}
		ids[i] = tx.ID
	}
	if b.Header.Version == 2 && !bytes.Equal(rmt.CalculateRoot(ids), b.Header.TransactionRoot) {
		return "transactions-do-not-match-root"
	}
	return ""
}

type tipOp struct {
	kind string // push, pop, read
	id   string
}

func tipModel() porcupine.Model {
	return porcupine.Model{
		Init: func() interface{} { return []string(nil) },
		Step: func(state, input, output interface{}) (bool, interface{}) {
			st := state.([]string)
			in := input.(tipOp)
			switch in.kind {
			case "push":
				ns := append(append([]string{}, st...), in.id)
				return true, ns
			case "pop":
				if len(st) == 0 {
					return false, st
				}
				return true, append([]string{}, st[:len(st)-1]...)
			default:
				if len(st) == 0 {
					return false, st
				}
				return output.(string) == st[len(st)-1], st
			}
		},
		Equal: func(a, b interface{}) bool {
			x, y := a.([]string), b.([]string)
			if len(x) != len(y) {
				return false
			}
			for i := range x {
				if x[i] != y[i] {
					return false
				}
			}
			return true
		},
		DescribeOperation: func(input, output interface{}) string {
			return fmt.Sprintf("%v -> %v", input, output)
		},
	}
}

// plainValid: a random valid block without validator-set change (finality keeps its lag)
func plainValid(n *node.Node, r *rand.Rand) (*blockchain.Block, error) {
	o := n.RandomOpts(r)
	if o.Directive != nil {
		o.Directive.Change = nil
	}
	o.SlotsAhead = 1
	return n.NextBlock(o)
}

func chainStress(k *mon.Case, readers, writerOps int) {
	r := k.R
	n, err := node.New(node.Config{Genesis: node.EqualGenesis(9), Universe: 9, BatchSize: 9, MaxBlockCache: 3 + r.Intn(6)})
	if err != nil {
		k.Inconclusive("node-init")
		return
	}
	defer n.Close()
	// base chain with transactions
	var txIDs [][]byte
	var hdrIDs [][]byte
	// one repetition in three has a long base chain, so that bulk lookups carry hundreds of items
	// (more items than any fan-out limit a lookup may use) and mostly miss the block cache
	baseLen := 30
	if r.Intn(3) == 0 {
		baseLen = 120 + r.Intn(200)
		k.Count("chain_long_base", 1)
	}
	for i := 0; i < baseLen; i++ {
		b, err := plainValid(n, r)
		if err != nil || n.Apply(b) != nil {
			k.Inconclusive("build")
			return
		}
		hdrIDs = append(hdrIDs, b.Header.ID)
		for _, tx := range b.Transactions {
			txIDs = append(txIDs, tx.ID)
		}
	}
	baseHeight := n.Tip().Header.Height // finality is below; writer works above this height
	// pre-built branch the writer pushes/pops (blocks on top of the base chain)
	var branch []*blockchain.Block
	for i := 0; i < 6; i++ {
		b, err := plainValid(n, r)
		if err != nil || n.Apply(b) != nil {
			k.Inconclusive("build")
			return
		}
		branch = append(branch, b)
	}
	// transactions of the branch blocks: readers look them up while the writer adds and removes the
	// blocks; once the writer is done, those of removed blocks must be gone and those of kept blocks there
	var branchTx [][]byte
	for _, b := range branch {
		for _, tx := range b.Transactions {
			branchTx = append(branchTx, tx.ID)
		}
	}
	for i := len(branch) - 1; i >= 0; i-- {
		if err := n.DeleteTip(false); err != nil {
			k.Inconclusive("build-delete:" + err.Error())
			return
		}
	}
	n.TakeEvents()
	da := n.Chain.DataAccess()
	var clk stamp
	var hmu sync.Mutex
	var history []porcupine.Operation
	rec := func(client int, in tipOp, call int64, out string, ret int64) {
		hmu.Lock()
		if len(history) < 3000 {
			history = append(history, porcupine.Operation{ClientId: client, Input: in, Call: call, Output: out, Return: ret})
		}
		hmu.Unlock()
	}
	var stop atomic.Bool
	var paused atomic.Bool
	var tipCommittedChecks, tipCommittedChecksAboveBase, branchTxLookups atomic.Int64
	var readOps atomic.Int64
	var wg sync.WaitGroup
	fail := func(key, what string, w map[string]any) { k.Violation(key, what, w) }

	// popsStarted/popsDone bracket every removal of the writer: a reader window in which both stay
	// equal and unchanged saw no removal in flight, so the tip it obtained cannot have been removed
	// meanwhile and must be in the database (committed), whatever the cache says
	var popsStarted, popsDone atomic.Int64
	fresh := blockchain.NewDataAccess(n.DB, 1, -1) // own (empty) cache: reads the database
	reader := func(id int, rr *rand.Rand) {
		defer wg.Done()
		for !stop.Load() {
			readOps.Add(1)
			switch rr.Intn(12) {
			case 10, 11:
				// look a transaction of the writer's blocks up (it may or may not be on the chain right now)
				if len(branchTx) > 0 {
					id := branchTx[rr.Intn(len(branchTx))]
					if rr.Intn(2) == 0 {
						_, _ = da.GetTransaction(id)
					} else {
						_, _ = da.GetTransactions([][]byte{id})
					}
					branchTxLookups.Add(1)
				}
			case 8, 9:
				d0, s0 := popsDone.Load(), popsStarted.Load()
				if d0 != s0 {
					continue
				}
				b := n.Chain.LastBlock()
				if completeBlock(b) != "" {
					continue // judged by case 0
				}
				_, herr := fresh.GetBlockHeader(b.Header.ID)
				var terr error
				for _, tx := range b.Transactions {
					if _, err := fresh.GetTransaction(tx.ID); err != nil {
						terr = err
					}
				}
				if popsStarted.Load() != s0 {
					continue // a removal started meanwhile: the tip may legitimately be gone
				}
				tipCommittedChecks.Add(1)
				if b.Header.Height > baseHeight {
					tipCommittedChecksAboveBase.Add(1)
				}
				if herr != nil || terr != nil {
					fail("tip:not-committed:database-does-not-hold-the-tip-handed-to-a-reader", "a reader obtained a tip whose header or transactions are not in the database although no removal was in flight", map[string]any{"height": b.Header.Height, "header_error": fmt.Sprint(herr), "transaction_error": fmt.Sprint(terr)})
				}
			case 0, 1:
				c0 := clk.now()
				b := n.Chain.LastBlock()
				c1 := clk.now()
				if why := completeBlock(b); why != "" {
					fail("tip:incomplete:"+why, "a reader obtained an incomplete tip", nil)
					continue
				}
				if b.Header.Height >= baseHeight {
					rec(id, tipOp{kind: "read"}, c0, string(b.Header.ID), c1)
				}
			case 2:
				b, err := da.GetLastBlock()
				if err != nil || completeBlock(b) != "" {
					fail("tip:GetLastBlock-incomplete", "GetLastBlock returned no or an incomplete block", nil)
				}
			case 3:
				m := 1 + rr.Intn(len(hdrIDs))
				if rr.Intn(3) == 0 {
					m = len(hdrIDs)
				}
				ids := make([][]byte, 0, m)
				for _, i := range rr.Perm(len(hdrIDs))[:m] {
					ids = append(ids, hdrIDs[i])
				}
				missing := rr.Intn(3)
				for j := 0; j < missing; j++ {
					ids = append(ids, crypto.Hash([]byte{byte(j), byte(id)}))
				}
				hs, err := da.GetBlockHeaders(ids)
				checkSet(k, "GetBlockHeaders", err, len(hs), m, func(i int) string { return string(hs[i].ID) }, idSet(ids[:m]))
			case 4:
				m := 1 + rr.Intn(int(baseHeight))
				if rr.Intn(3) == 0 {
					m = int(baseHeight)
				}
				hts := make([]uint32, 0, m)
				want := map[string]bool{}
				for _, i := range rr.Perm(int(baseHeight))[:m] {
					hts = append(hts, uint32(i+1))
					want[string(hdrIDs[i])] = true
				}
				for j := 0; j < rr.Intn(3); j++ {
					hts = append(hts, 100000+uint32(j))
				}
				hs, err := da.GetBlockHeadersByHeights(hts)
				checkSet(k, "GetBlockHeadersByHeights", err, len(hs), m, func(i int) string { return string(hs[i].ID) }, want)
			case 5:
				if len(txIDs) == 0 {
					continue
				}
				m := 1 + rr.Intn(len(txIDs))
				if rr.Intn(3) == 0 {
					m = len(txIDs)
				}
				ids := make([][]byte, 0, m)
				for _, i := range rr.Perm(len(txIDs))[:m] {
					ids = append(ids, txIDs[i])
				}
				for j := 0; j < rr.Intn(3); j++ {
					ids = append(ids, crypto.Hash([]byte{0xee, byte(j)}))
				}
				ts, err := da.GetTransactions(ids)
				checkSet(k, "GetTransactions", err, len(ts), m, func(i int) string { return string(ts[i].ID) }, idSet(ids[:m]))
			case 6:
				from := uint32(1 + rr.Intn(int(baseHeight)))
				to := from + uint32(rr.Intn(int(baseHeight-from)+1))
				bs, err := da.GetBlocksBetweenHeight(from, to)
				if err != nil {
					fail("bulk:GetBlocksBetweenHeight:error", "range lookup below the stable height failed: "+err.Error(), nil)
					continue
				}
				if len(bs) != int(to-from+1) {
					fail("bulk:GetBlocksBetweenHeight:count", "range lookup returned a wrong number of blocks", map[string]any{"want": to - from + 1, "got": len(bs)})
					continue
				}
				for i, b := range bs {
					if b == nil || b.Header.Height != from+uint32(i) || !bytes.Equal(b.Header.ID, hdrIDs[from-1+uint32(i)]) {
						fail("bulk:GetBlocksBetweenHeight:content", "range lookup returned wrong or unordered blocks", nil)
						break
					}
				}
			case 7:
				h := uint32(1 + rr.Intn(int(baseHeight)))
				b, err := da.GetBlockByHeight(h)
				if err != nil || !bytes.Equal(b.Header.ID, hdrIDs[h-1]) {
					fail("lookup:GetBlockByHeight", "height lookup below the stable height failed", nil)
				}
			}
			if paused.Load() {
				time.Sleep(time.Microsecond)
			}
		}
	}
	for i := 0; i < readers; i++ {
		wg.Add(1)
		go reader(i+1, rand.New(rand.NewSource(r.Int63())))
	}
	// two readers that do nothing but look up the transactions of whatever block is the tip right
	// now (a wallet polling its latest transaction): they are the ones that meet a removal
	for i := 0; i < 2; i++ {
		wg.Add(1)
		go func() {
			defer wg.Done()
			for !stop.Load() {
				b := n.Chain.LastBlock()
				if b == nil {
					continue
				}
				for _, tx := range b.Transactions {
					_, _ = da.GetTransaction(tx.ID)
					branchTxLookups.Add(1)
				}
				time.Sleep(10 * time.Microsecond)
			}
		}()
	}
	// the writer plays the consensus goroutine: push / pop blocks of the branch
	depth := 0
	for op := 0; op < writerOps; op++ {
		if depth < len(branch) && (depth == 0 || r.Intn(2) == 0) {
			b := branch[depth]
			c0 := clk.now()
			// one block in three is applied the way the node's own generated blocks are (publish to
			// the network from a goroutine of processValidated)
			publish := r.Intn(3) == 0
			if publish {
				k.Count("writer_blocks_applied_with_publish", 1)
			}
			err := n.Exec.VerifProcessValidated(context.Background(), node.CloneBlock(b), publish, false)
			c1 := clk.now()
			if err != nil {
				k.Inconclusive("writer-apply:" + err.Error())
				break
			}
			rec(0, tipOp{kind: "push", id: string(b.Header.ID)}, c0, "", c1)
			depth++
		} else {
			c0 := clk.now()
			popsStarted.Add(1)
			err := n.DeleteTip(false)
			popsDone.Add(1)
			c1 := clk.now()
			if err != nil {
				k.Inconclusive("writer-delete:" + err.Error())
				break
			}
			rec(0, tipOp{kind: "pop"}, c0, "", c1)
			depth--
		}
		n.TakeEvents()
	}
	stop.Store(true)
	wg.Wait()
	k.Count("reader_ops", int(readOps.Load()))
	k.Count("lookups_of_transactions_of_blocks_being_added_and_removed", int(branchTxLookups.Load()))
	// quiescent: what is served by ID must be what is on the chain
	for i, b := range branch {
		for _, tx := range b.Transactions {
			got, err := da.GetTransaction(tx.ID)
			many, _ := da.GetTransactions([][]byte{tx.ID})
			served := (err == nil && got != nil) || len(many) > 0
			k.Count("branch_transactions_checked_after_the_run", 1)
			if i >= depth && served {
				k.Violation("removed:transaction-of-a-removed-block-still-served-by-id", "after the writer removed a block (readers looking its transactions up meanwhile) a transaction of it is still served by ID", map[string]any{"block_height": b.Header.Height, "blocks_on_chain": depth})
			}
			if i < depth && !served {
				k.Violation("added:transaction-of-a-block-on-the-chain-not-served-by-id", "a transaction of a block that is on the chain is not served by ID", map[string]any{"block_height": b.Header.Height, "blocks_on_chain": depth})
			}
		}
	}
	k.Count("writer_ops", writerOps)
	k.Count("tip_committed_checks_without_removal_in_flight", int(tipCommittedChecks.Load()))
	k.Count("tip_committed_checks_on_blocks_the_writer_added", int(tipCommittedChecksAboveBase.Load()))
	// linearizability of the tip (the base tip is the initial state)
	hmu.Lock()
	ops := append([]porcupine.Operation{{ClientId: 0, Input: tipOp{kind: "push", id: string(hdrIDs[len(hdrIDs)-1])}, Call: -2, Output: "", Return: -1}}, history...)
	hmu.Unlock()
	res, _ := porcupine.CheckOperationsVerbose(tipModel(), ops, 60*time.Second)
	switch res {
	case porcupine.Ok:
		k.Count("tip_histories_linearizable", 1)
	case porcupine.Illegal:
		k.Violation("tip:history-not-linearizable", "AddBlock/RemoveBlock/LastBlock history is not linearizable against a stack-top register", map[string]any{"ops": len(ops)})
	default:
		k.Inconclusive("porcupine-unknown")
	}
	k.Nontrivial(fmt.Sprintf("chain|r%d|w%d|ops%d", readers, writerOps/20, len(ops)/200))
	k.Sample(map[string]any{"readers": readers, "writer_ops": writerOps, "reader_ops": readOps.Load(), "tip_history_ops": len(ops)})
}

func idSet(ids [][]byte) map[string]bool {
	m := map[string]bool{}
	for _, id := range ids {
		m[string(id)] = true
	}
	return m
}

func checkSet(k *mon.Case, name string, err error, got, want int, key func(i int) string, wantSet map[string]bool) {
	if err != nil {
		k.Violation("bulk:"+name+":error", "bulk lookup of existing items failed: "+err.Error(), nil)
		return
	}
	seen := map[string]int{}
	for i := 0; i < got; i++ {
		seen[key(i)]++
	}
	for id := range wantSet {
		if seen[id] != 1 {
			k.Violation("bulk:"+name+":missing-or-duplicated-item", "bulk lookup did not return every existing item exactly once", map[string]any{"requested_existing": len(wantSet), "returned": got, "occurrences_of_one_item": seen[id]})
			return
		}
	}
	if got != len(wantSet) {
		k.Violation("bulk:"+name+":extra-items", "bulk lookup returned items that were not requested", map[string]any{"requested_existing": len(wantSet), "returned": got})
	}
}

func poolStress(k *mon.Case) {
	r := k.R
	p := certificate.NewPool()
	const G = 8
	per := 40 + r.Intn(60)
	var wg sync.WaitGroup
	var bad, cleanups atomic.Int64
	mk := func(g, i int) *certificate.SingleCommit {
		id := crypto.Hash([]byte{byte(g), byte(i), byte(i >> 8)})
		return certificate.VerifNewSingleCommit(id, uint32(1+i), crypto.Hash([]byte{byte(g)})[:20], bytes.Repeat([]byte{byte(g)}, 96), i%2 == 0)
	}
	for g := 0; g < G; g++ {
		wg.Add(1)
		go func(g int, rr *rand.Rand) {
			defer wg.Done()
			for i := 0; i < per; i++ {
				sc := mk(g, i)
				p.Add(sc)
				if !p.Has(sc) {
					bad.Add(1)
				}
				switch rr.Intn(5) {
				case 0:
					sel := p.Select(uint32(rr.Intn(per)), 1+rr.Intn(10))
					if rr.Intn(2) == 0 {
						p.Upgrade(sel)
					}
				case 1:
					p.Get(uint32(1 + rr.Intn(per)))
				case 2:
					p.Size()
				case 3:
					// the periodic clean-up runs while commits keep arriving; its checker (which
					// reads BFT parameters in the node) keeps everything here: nothing may get lost
					if rr.Intn(4) == 0 {
						p.Cleanup(func(h uint32) bool { runtime.Gosched(); return true })
						cleanups.Add(1)
					}
				}
			}
		}(g, rand.New(rand.NewSource(r.Int63())))
	}
	wg.Wait()
	k.Count("pool_cleanups_concurrent_with_adds", int(cleanups.Load()))
	if bad.Load() > 0 {
		k.Violation("pool:added-commit-not-visible", "Has(x) false right after Add(x) returned", map[string]any{"count": bad.Load()})
	}
	if p.Size() != G*per {
		k.Violation("pool:lost-or-duplicated-commits", "pool size after concurrent Add/Select/Upgrade differs from the number of adds", map[string]any{"size": p.Size(), "adds": G * per})
	}
	ga, ng := p.VerifAll()
	seen := map[string]int{}
	for _, sc := range append(ga, ng...) {
		seen[string(sc.BlockID())]++
	}
	for g := 0; g < G; g++ {
		for i := 0; i < per; i++ {
			if seen[string(mk(g, i).BlockID())] != 1 {
				k.Violation("pool:commit-not-exactly-once", "a single commit is missing or duplicated across the gossiped / non-gossiped lists", nil)
				g = G
				break
			}
		}
	}
	// cleanup racing with readers
	bound := uint32(per / 2)
	wg.Add(2)
	go func() { defer wg.Done(); p.Cleanup(func(h uint32) bool { return h >= bound }) }()
	go func() {
		defer wg.Done()
		for i := 0; i < 50; i++ {
			p.Get(uint32(i))
			p.Size()
		}
	}()
	wg.Wait()
	ga, ng = p.VerifAll()
	for _, sc := range append(ga, ng...) {
		if sc.Height() < bound {
			k.Violation("pool:cleanup-left-old-commit", "Cleanup left a commit below the bound", nil)
			break
		}
	}
	k.Count("pool_ops", G*per)
	k.Nontrivial(fmt.Sprintf("pool|per%d", per/10))
}

func emitterStress(k *mon.Case) {
	r := k.R
	ee := event.New()
	const P = 4
	msgs := 200 + r.Intn(300)
	// permanent subscribers drain until close
	type got struct {
		mu  sync.Mutex
		seq map[int][]int
	}
	subs := 3
	results := make([]*got, subs)
	var swg sync.WaitGroup
	for s := 0; s < subs; s++ {
		ch := ee.Subscribe("t")
		g := &got{seq: map[int][]int{}}
		results[s] = g
		swg.Add(1)
		go func() {
			defer swg.Done()
			for m := range ch {
				pm := m.([2]int)
				g.mu.Lock()
				g.seq[pm[0]] = append(g.seq[pm[0]], pm[1])
				g.mu.Unlock()
			}
		}()
	}
	var pwg sync.WaitGroup
	for p := 0; p < P; p++ {
		pwg.Add(1)
		go func(p int) {
			defer pwg.Done()
			for i := 0; i < msgs; i++ {
				ee.Publish("t", [2]int{p, i})
			}
		}(p)
	}
	// transient subscribers join, drain a little, leave
	var twg sync.WaitGroup
	for t := 0; t < 4; t++ {
		twg.Add(1)
		go func(rr *rand.Rand) {
			defer twg.Done()
			for j := 0; j < 20; j++ {
				ch := make(chan interface{})
				done := make(chan struct{})
				go func() {
					for range ch {
					}
					close(done)
				}()
				ee.On("t", ch)
				time.Sleep(time.Duration(rr.Intn(200)) * time.Microsecond)
				ee.Unsubscribe("t", ch) //nolint:errcheck
				<-done
			}
		}(rand.New(rand.NewSource(r.Int63())))
	}
	pwg.Wait()
	twg.Wait()
	ee.Close() //nolint:errcheck
	swg.Wait()
	for s, g := range results {
		for p := 0; p < P; p++ {
			seq := g.seq[p]
			if len(seq) != msgs {
				k.Violation("emitter:message-lost", "a subscriber that drained until close missed published messages", map[string]any{"subscriber": s, "publisher": p, "got": len(seq), "published": msgs})
				return
			}
			if !sort.IntsAreSorted(seq) {
				k.Violation("emitter:message-reordered", "a subscriber received one publisher's messages out of order", nil)
				return
			}
		}
	}
	k.Count("emitter_messages", P*msgs*subs)
	k.Nontrivial(fmt.Sprintf("emitter|m%d", msgs/50))
}

func stagedStoreStress(k *mon.Case) {
	r := k.R
	d, err := db.NewInMemoryDB()
	if err != nil {
		k.Inconclusive("db")
		return
	}
	defer d.Close()
	for i := 0; i < 50; i++ {
		d.Set([]byte{1, byte(i % 4), byte(i)}, []byte{byte(i)})
	}
	root := diffdb.New(d, []byte{1})
	const G = 6
	var wg sync.WaitGroup
	per := 100 + r.Intn(100)
	for g := 0; g < G; g++ {
		view := root.WithPrefix([]byte{byte(g % 4)})
		wg.Add(1)
		go func(g int, rr *rand.Rand) {
			defer wg.Done()
			for i := 0; i < per; i++ {
				key := []byte{0x80 | byte(g), byte(i), byte(i >> 8)}
				view.Set(key, []byte{byte(g), byte(i)})
				if v, ok := view.Get(key); !ok || !bytes.Equal(v, []byte{byte(g), byte(i)}) {
					k.Violation("staged:own-write-not-read", "a goroutine did not read back its own staged write through a shared prefix view", nil)
					return
				}
				switch rr.Intn(4) {
				case 0:
					view.Range([]byte{0}, []byte{0xff, 0xff, 0xff}, -1, rr.Intn(2) == 0)
				case 1:
					view.Iterate([]byte{}, 5, false)
				case 2:
					view.Has([]byte{byte(rr.Intn(60))})
				}
			}
		}(g, rand.New(rand.NewSource(r.Int63())))
	}
	wg.Wait()
	// hot keys: stored in the database, not yet in the overlay; for each key one goroutine
	// reads it while another one overwrites it, both walking the keys in the same order. At
	// quiescence the staged value must be the written one (a read must never undo a write).
	hot := 3000
	for i := 0; i < hot; i++ {
		d.Set([]byte{1, 9, byte(i >> 8), byte(i)}, []byte{0xaa})
	}
	hv := root.WithPrefix([]byte{9})
	hv2 := root.WithPrefix([]byte{9})
	var hwg sync.WaitGroup
	hwg.Add(2)
	go func() {
		defer hwg.Done()
		for i := 0; i < hot; i++ {
			hv.Get([]byte{byte(i >> 8), byte(i)})
		}
	}()
	go func() {
		defer hwg.Done()
		for i := 0; i < hot; i++ {
			hv2.Set([]byte{byte(i >> 8), byte(i)}, []byte{0xbb, byte(i)})
		}
	}()
	hwg.Wait()
	for i := 0; i < hot; i++ {
		if v, ok := hv.Get([]byte{byte(i >> 8), byte(i)}); !ok || !bytes.Equal(v, []byte{0xbb, byte(i)}) {
			k.Violation("staged:write-undone-by-concurrent-read", "a staged write to a key was lost because another goroutine read the same key at the same time", map[string]any{"key_index": i, "got": fmt.Sprintf("%x", v)})
			break
		}
	}
	batch := d.NewBatch()
	root.Commit(batch)
	d.Write(batch)
	for g := 0; g < G; g++ {
		for i := 0; i < per; i++ {
			key := []byte{1, byte(g % 4), 0x80 | byte(g), byte(i), byte(i >> 8)}
			if v, ok := d.Get(key); !ok || !bytes.Equal(v, []byte{byte(g), byte(i)}) {
				k.Violation("staged:write-lost", "a staged write made through a shared prefix view is missing after commit", nil)
				return
			}
		}
	}
	k.Count("staged_ops", G*per)
	k.Nontrivial(fmt.Sprintf("staged|per%d", per/20))
}

// handlers: the sync RPC handlers run on p2p goroutines while the writer works
type capWriter struct {
	data []byte
	err  error
}

func (w *capWriter) Write(b []byte) { w.data = b }
func (w *capWriter) Error(e error)  { w.err = e }

func handlerStress(k *mon.Case) {
	r := k.R
	n, err := node.New(node.Config{Genesis: node.EqualGenesis(3), Universe: 3, BatchSize: 3, MaxBlockCache: 5})
	if err != nil {
		k.Inconclusive("node-init")
		return
	}
	defer n.Close()
	var ids [][]byte
	for i := 0; i < 25; i++ {
		b, _, err := n.RandomValid(r)
		if err != nil || n.Apply(b) != nil {
			k.Inconclusive("build")
			return
		}
		ids = append(ids, b.Header.ID)
	}
	s := n.Exec.VerifSyncer()
	hc := s.HandleRPCEndpointGetHighestCommonBlock()
	hb := s.HandleRPCEndpointGetBlocksFromID()
	hl := s.HandleRPCEndpointGetLastBlock()
	var stop atomic.Bool
	var wg sync.WaitGroup
	var calls atomic.Int64
	for g := 0; g < 8; g++ {
		wg.Add(1)
		go func(rr *rand.Rand) {
			defer wg.Done()
			for !stop.Load() {
				calls.Add(1)
				w := &capWriter{}
				switch rr.Intn(3) {
				case 0:
					m := 1 + rr.Intn(10)
					sel := [][]byte{}
					for _, i := range rr.Perm(len(ids))[:m] {
						sel = append(sel, ids[i])
					}
					hc(w, &p2p.Request{Data: lsync.VerifEncodeGetHighestCommonBlockRequest(sel), PeerID: "x"})
				case 1:
					hb(w, &p2p.Request{Data: lsync.VerifEncodeGetBlocksFromIDRequest(ids[rr.Intn(len(ids))]), PeerID: "x"})
				case 2:
					hl(w, &p2p.Request{PeerID: "x"})
				}
			}
		}(rand.New(rand.NewSource(r.Int63())))
	}
	for op := 0; op < 60; op++ {
		if op%3 != 2 {
			b, _, err := n.RandomValid(r)
			if err != nil || n.Apply(b) != nil {
				break
			}
		} else if n.Tip().Header.Height > n.Finalized()+1 {
			n.DeleteTip(false) //nolint:errcheck
		}
		n.TakeEvents()
	}
	stop.Store(true)
	wg.Wait()
	k.Count("handler_calls", int(calls.Load()))
	k.Nontrivial("handlers")
}

func main() {
	mon.Main(mon.Options{
		Property: "C20", Level: "exploration",
		Rule: "-race build; per repetition: (chain) one writer applying/removing blocks through the real Executer while N readers mix LastBlock/GetLastBlock/bulk lookups by ids, heights, ranges and transaction ids below the stable height (expected sets exact), tip history checked for linearizability with porcupine against a stack-top register; (pool) 8 goroutines Add/Has/Get/Size/Select/Upgrade then Cleanup; (emitter) 4 publishers, permanent and transient subscribers; (staged) goroutines sharing one diffdb.Database through prefix views; (handlers) sync RPC handlers against a writer; (sync) a real fast sync between two libp2p-connected nodes while two goroutines poll Executer.Syncing() and the tip as the generator and the system endpoint do. Each sub-workload runs under the deadlock rule (two identical goroutine dumps). Race reports with a frame in the listed packages are violations, deduplicated by innermost function pair. non-trivial+distinct = (sub-workload, size bucket)",
		Assumptions: []string{
			"race detector and checkptr see only the interleavings the scheduler produced in these repetitions",
			"bulk-lookup expectations are judged for items below the stable height only (exact expected set while the writer works above it)",
		},
		Shards:            8,
		RacePkgs:          []string{"blockchain", "consensus/certificate", "event", "db/diffdb", "consensus/sync", "consensus", "db"},
		ChildTimeoutQuick: 15 * time.Minute, ChildTimeoutThorough: 90 * time.Minute,
	}, func(c *mon.Ctx) {
		reps := c.N(40, 600)
		c.Cases("chain", reps, func(k *mon.Case) {
			k.Watch("chain-stress", 180*time.Second, func() { chainStress(k, 4+k.R.Intn(9), 60+k.R.Intn(60)) })
		})
		c.Cases("pool", reps, func(k *mon.Case) { k.Watch("pool-stress", 60*time.Second, func() { poolStress(k) }) })
		c.Cases("emitter", reps, func(k *mon.Case) { k.Watch("emitter-stress", 60*time.Second, func() { emitterStress(k) }) })
		c.Cases("staged", reps, func(k *mon.Case) { k.Watch("staged-stress", 60*time.Second, func() { stagedStoreStress(k) }) })
		c.Cases("handlers", c.N(24, 300), func(k *mon.Case) { k.Watch("handler-stress", 180*time.Second, func() { handlerStress(k) }) })
		c.Cases("sync", c.N(24, 300), func(k *mon.Case) { k.Watch("sync-status", 180*time.Second, func() { syncFlagStress(k, c.Shard()) }) })
	})
}
