// Sub-workload "sync": consensus state that the generator and RPC goroutines read while the
// consensus goroutine synchronises with a peer.  The generator asks Executer.Syncing() before every
// slot and the system endpoint reports it; both read the chain tip.  Here a node processes a block of
// a peer that is a few blocks ahead (fast sync over real libp2p connections) while two goroutines
// poll exactly those getters.  Verdicts: race reports (scope of this worker), the deadlock rule, and
// that the node ends on the peer's chain.
package main

import (
	"bytes"
	"context"
	"fmt"
	"sync"
	"sync/atomic"
	"time"

	"github.com/LiskHQ/lisk-engine/pkg/p2p"

	"verifharness/internal/mon"
	"verifharness/internal/node"
)

var syncIPCounter atomic.Int32

func syncListen(shard int) []string {
	n := syncIPCounter.Add(1)
	return []string{fmt.Sprintf("/ip4/127.%d.%d.%d/tcp/0", 40+shard, n/250, 1+n%250)}
}

func syncFlagStress(k *mon.Case, shard int) {
	r := k.R
	nv := 3 + r.Intn(2)
	base := node.Config{Genesis: node.EqualGenesis(nv), Universe: nv, BatchSize: nv, MaxBlockCache: 20}
	cfgA := base
	cfgA.P2PAddresses = syncListen(shard)
	a, err := node.New(cfgA)
	if err != nil {
		k.Inconclusive("node-init")
		return
	}
	defer a.Close()
	cfgB := base
	cfgB.GenesisTimestamp = a.Cfg.GenesisTimestamp
	cfgB.P2PAddresses = syncListen(shard)
	b, err := node.New(cfgB)
	if err != nil {
		k.Inconclusive("node-init")
		return
	}
	defer b.Close()
	prefix := 3 + r.Intn(10)
	for i := 0; i < prefix; i++ {
		blk, err := plainValid(a, r)
		if err != nil || a.Apply(blk) != nil || b.Apply(node.CloneBlock(blk)) != nil {
			k.Inconclusive("build-prefix")
			return
		}
	}
	b.GenHist = map[string]uint32{}
	for key, v := range a.GenHist {
		b.GenHist[key] = v
	}
	ahead := 2 + r.Intn(2*nv-2)
	for i := 0; i < ahead; i++ {
		blk, err := plainValid(b, r)
		if err != nil || b.Apply(blk) != nil {
			k.Inconclusive("build-ahead")
			return
		}
	}
	addrs, err := b.Conn.MultiAddress()
	if err != nil || len(addrs) == 0 {
		k.Inconclusive("peer-address")
		return
	}
	remote, err := p2p.AddrInfoFromMultiAddr(addrs[0])
	if err != nil {
		k.Inconclusive("peer-address")
		return
	}
	ctx, cancel := context.WithTimeout(context.Background(), 20*time.Second)
	err = a.Conn.Connect(ctx, *remote)
	cancel()
	if err != nil {
		k.Inconclusive("connect:" + err.Error())
		return
	}
	var stop atomic.Bool
	var wg sync.WaitGroup
	var polls, sawSyncing atomic.Int64
	for g := 0; g < 2; g++ {
		wg.Add(1)
		go func() {
			defer wg.Done()
			for !stop.Load() {
				polls.Add(1)
				if a.Exec.Syncing() { // generator: "skip the slot while syncing"; system endpoint: node status
					sawSyncing.Add(1)
				}
				_ = a.Chain.LastBlock().Header.Height
				time.Sleep(20 * time.Microsecond)
			}
		}()
	}
	pctx, pcancel := context.WithTimeout(context.Background(), 60*time.Second)
	perr := a.Exec.VerifProcess(pctx, node.CloneBlock(b.Tip()), remote.ID)
	pcancel()
	stop.Store(true)
	wg.Wait()
	k.Eval(1)
	k.Count("sync_status_polls", int(polls.Load()))
	k.Count("sync_status_polls_that_saw_syncing", int(sawSyncing.Load()))
	if !bytes.Equal(a.Tip().Header.ID, b.Tip().Header.ID) {
		k.Count("sync_did_not_converge(not judged here, C19): "+fmt.Sprint(perr), 1)
		return
	}
	if a.Exec.Syncing() {
		k.Violation("sync:status-still-syncing-after-the-sync-returned", "Executer.Syncing() is true after the synchronisation has returned", nil)
	}
	k.Count("syncs_completed_under_polling", 1)
	k.Nontrivial(fmt.Sprintf("sync|nv%d|ahead%d", nv, ahead))
}
