// Package lip14 is the reference model of LIP-0014 used by the C07 worker.
//
// It is written from the property statement, not from the code under test:
//
//	two distinct headers by the same generator contradict exactly when neither is a
//	legitimate successor of the other; headers by different generators never do.
//
// A later header B legitimately follows an earlier header A of the same generator iff
//   - B reports A: B.maxHeightGenerated >= A.height,
//   - B does not forget what A already reported: B.maxHeightGenerated >= A.maxHeightGenerated
//     (the statement: a generator "reports the largest height it generated so far", and a
//     largest-so-far value cannot decrease from an earlier to a later header; both this and
//     the previous conjunct are "violating its own maxHeightGenerated"),
//   - B does not build on a chain with lower maxHeightPrevoted: B.maxHeightPrevoted >= A.maxHeightPrevoted,
//   - B is justified by the fork-choice order: it is not the case that both have the same
//     maxHeightPrevoted while A.height >= B.height (same or lower height on an equally
//     prevoted chain is double forging / an unjustified chain switch).
//
// Fork choice: an incoming block is classified against the tip by the LIP-0014 order on
// (maxHeightPrevoted, height).
package lip14

// H is the part of a block header that LIP-0014 looks at.
type H struct {
	Height, MaxHeightGenerated, MaxHeightPrevoted uint32
	Generator                                     string
}

// Follows reports whether "later" is a legitimate successor of "earlier" (same generator assumed).
func Follows(earlier, later H) bool {
	reports := later.MaxHeightGenerated >= earlier.Height && later.MaxHeightGenerated >= earlier.MaxHeightGenerated
	notLowerPrevoted := later.MaxHeightPrevoted >= earlier.MaxHeightPrevoted
	unjustified := later.MaxHeightPrevoted == earlier.MaxHeightPrevoted && earlier.Height >= later.Height
	return reports && notLowerPrevoted && !unjustified
}

// Contradicting is the relation on two DISTINCT headers.
func Contradicting(a, b H) bool {
	if a.Generator != b.Generator {
		return false
	}
	return !Follows(a, b) && !Follows(b, a)
}

// Why gives a canonical description of the region a pair falls into (used as the
// non-triviality key and in witnesses).
func Why(a, b H) string {
	if a.Generator != b.Generator {
		return "different-generators"
	}
	d := func(e, l H) string {
		s := ""
		if l.MaxHeightGenerated < e.Height {
			s += "G" // violates own maxHeightGenerated: does not report the earlier header
		}
		if l.MaxHeightGenerated < e.MaxHeightGenerated {
			s += "M" // violates own maxHeightGenerated: largest-so-far decreased
		}
		if l.MaxHeightPrevoted < e.MaxHeightPrevoted {
			s += "P" // builds on chain with lower maxHeightPrevoted
		}
		if l.MaxHeightPrevoted == e.MaxHeightPrevoted && e.Height >= l.Height {
			if e.Height == l.Height {
				s += "D" // double forging
			} else {
				s += "L" // lower height without higher prevoted
			}
		}
		if s == "" {
			return "ok"
		}
		return s
	}
	return "ab=" + d(a, b) + ",ba=" + d(b, a)
}

// Prior is the strict LIP-0014 order: (p1,h1) is strictly worse than (p2,h2).
func Prior(p1, h1, p2, h2 uint32) bool {
	return p1 < p2 || (p1 == p2 && h1 < h2)
}

// Class of an incoming block relative to the tip.
type Class string

const (
	Identical     Class = "identical"
	Extends       Class = "extends-tip"
	DoubleForging Class = "double-forging"
	TieBreak      Class = "tie-break"
	BetterChain   Class = "better-chain"
	Discard       Class = "discard"
)

// B is what fork choice looks at.
type B struct {
	ID, Prev, Generator string
	Height              uint32
	MaxHeightPrevoted   uint32
	Slot                int64 // slot number of the block's timestamp
}

// Classify follows LIP-0014 "fork choice rule", cases 1-6.
//
//	tipReceivedInSlot: the tip was received within its own forging slot (true when it
//	                   came from syncing, i.e. no receive time is recorded)
//	incReceivedInSlot: the incoming block is being received within its own forging slot
func Classify(tip, inc B, tipReceivedInSlot, incReceivedInSlot bool) Class {
	if inc.ID == tip.ID {
		return Identical
	}
	if inc.Prev == tip.ID && inc.Height == tip.Height+1 {
		return Extends
	}
	competing := inc.Height == tip.Height && inc.MaxHeightPrevoted == tip.MaxHeightPrevoted && inc.Prev == tip.Prev
	if competing {
		if inc.Generator == tip.Generator {
			return DoubleForging
		}
		if tip.Slot < inc.Slot && !tipReceivedInSlot && incReceivedInSlot {
			return TieBreak
		}
		// equal in the order (maxHeightPrevoted, height): not strictly better
		return Discard
	}
	if Prior(tip.MaxHeightPrevoted, tip.Height, inc.MaxHeightPrevoted, inc.Height) {
		return BetterChain
	}
	return Discard
}
