package hostile

import (
	"encoding/hex"
	"flag"
	"fmt"
	"os"
	"path/filepath"
	"runtime"
	"runtime/debug"
	"strings"
	"sync"
	"sync/atomic"
	"syscall"
	"time"

	"verifharness/internal/mon"
)

// Oracle constants (stated in the evidence rule as well).
const (
	// AllocPerByte / AllocConst: a call may allocate at most AllocPerByte*len(input)+AllocConst
	// bytes (runtime.MemStats.TotalAlloc delta, single-goroutine worker). The constants are
	// generous: the densest legitimate consumer found (a block of minimal 14-byte transactions
	// through NewBlock+Validate: per transaction a struct, three re-encodings, an ID, two
	// goroutines and two channels in rmt.CalculateRoot) stays below ~250 bytes per input byte;
	// handlers that answer from the database (up to 103 blocks) stay below 2 MiB.
	AllocPerByte = 1024
	AllocConst   = 8 << 20
	// CPUAbsurd: process user CPU time (getrusage ru_utime) of one call on an input below
	// CPUSmallInput bytes above which the call is reported.
	CPUAbsurd     = 5 * time.Second
	CPUSmallInput = 64 << 10
	// Hang rule: a call that has not returned after HangWall while the process burned at
	// least HangCPU of CPU time in that period.
	HangWall = 60 * time.Second
	HangCPU  = 30 * time.Second
)

type active struct {
	k     *mon.Case
	entry string
	class string
	input []byte
	wall  time.Time
	cpu   time.Duration // user time at the start of the call
	all   time.Duration // user+system time at the start of the call
}

// Harness runs single calls under the C09 oracle.
type Harness struct {
	c      *mon.Ctx
	dir    string // shared work directory of the run ("" in replay mode)
	cur    atomic.Pointer[active]
	mu     sync.Mutex
	hung   map[string]bool
	before runtime.MemStats
	after  runtime.MemStats
	cpuBy  map[string]time.Duration // per entry point: CPU time of the calls (incl. oracle overhead)
}

// Report adds the per-entry CPU totals to the counters (call once, when the body is done).
func (h *Harness) Report() {
	for e, d := range h.cpuBy {
		h.c.Count("cpu_ms:"+e, int(d.Milliseconds()))
	}
}

// cpuTime is the USER CPU time of the process. System time is deliberately left out: on a
// machine under memory pressure direct page reclaim is charged to the allocating process as
// system time (observed: "200 s" for decoding a 2-byte string), while a spinning loop in the
// code under test accrues user time.
func cpuTime() time.Duration {
	var ru syscall.Rusage
	if err := syscall.Getrusage(syscall.RUSAGE_SELF, &ru); err != nil {
		return 0
	}
	return time.Duration(ru.Utime.Nano())
}

// allCPUTime is user+system time (bookkeeping of where the run's CPU goes; no verdict).
func allCPUTime() time.Duration {
	var ru syscall.Rusage
	if err := syscall.Getrusage(syscall.RUSAGE_SELF, &ru); err != nil {
		return 0
	}
	return time.Duration(ru.Utime.Nano() + ru.Stime.Nano())
}

// New creates the harness of this child process and starts its watchdog goroutine.
func New(c *mon.Ctx) *Harness {
	h := &Harness{c: c, hung: map[string]bool{}, cpuBy: map[string]time.Duration{}}
	if f := flag.Lookup("out"); f != nil && f.Value.String() != "" && !c.Replay() {
		h.dir = filepath.Dir(f.Value.String())
	}
	go h.watchdog()
	return h
}

func safe(s string) string {
	return strings.Map(func(r rune) rune {
		if r >= 'a' && r <= 'z' || r >= 'A' && r <= 'Z' || r >= '0' && r <= '9' || r == '.' || r == '-' {
			return r
		}
		return '_'
	}, s)
}

// Hung reports whether entry was already found hanging in this run (by any shard). Each
// hanging call costs a full watchdog period and a shard restart, so an entry point is not
// driven again once the violation is on record; the skipped calls are counted.
func (h *Harness) Hung(entry string) bool {
	if h.dir == "" {
		return false
	}
	h.mu.Lock()
	defer h.mu.Unlock()
	if h.hung[entry] {
		return true
	}
	if _, err := os.Stat(filepath.Join(h.dir, "hung-"+safe(entry))); err == nil {
		h.hung[entry] = true
		return true
	}
	return false
}

// MarkHung records that entry hangs (see Hung).
func (h *Harness) MarkHung(entry string) {
	if h.dir != "" {
		os.WriteFile(filepath.Join(h.dir, "hung-"+safe(entry)), []byte("1"), 0o644) //nolint:errcheck
	}
}

func (h *Harness) watchdog() {
	for {
		time.Sleep(time.Second)
		a := h.cur.Load()
		if a == nil || time.Since(a.wall) < HangWall {
			continue
		}
		burned := cpuTime() - a.cpu
		// re-check that the same call is still running
		if h.cur.Load() != a {
			continue
		}
		// The machine is shared: under load a spinning call may get less than HangCPU of CPU
		// time within HangWall. The verdict needs both; a call that is neither idle nor has
		// burned HangCPU yet is given more time (up to 10 x HangWall).
		// idle: neither user nor system time consumed (a process stalled inside the kernel,
		// e.g. in page reclaim, is slow, not idle)
		idle := allCPUTime()-a.all < 2*time.Second
		if burned < HangCPU && !idle && time.Since(a.wall) < 10*HangWall {
			continue
		}
		wit := map[string]any{"entry": a.entry, "class": a.class, "input_len": len(a.input), "input_hex": hexCap(a.input), "cpu_burned_s": burned.Seconds(), "stack": callStack()}
		switch {
		case burned >= HangCPU:
			a.k.Violation("hang:"+a.entry, fmt.Sprintf("call did not return within %v and burned %.0f s of user CPU time without returning", HangWall, burned.Seconds()), wit)
			h.MarkHung(a.entry)
		case idle:
			// not spinning: blocked. Blocked for good (a hang in the sense of the property) only if
			// the deadlock rule holds: the same goroutines parked at the same frames in two dumps
			if sig, stable, dump := mon.StableBlocked(3 * time.Second); stable && h.cur.Load() == a {
				wit["blocked"] = sig
				wit["dump"] = dump
				a.k.Violation("hang:"+a.entry+":blocked-forever", fmt.Sprintf("call did not return within %v: every goroutine involved is parked at the same frames in two dumps 3 s apart", HangWall), wit)
				h.MarkHung(a.entry)
			} else {
				a.k.Inconclusive("no-return-without-cpu:" + a.entry)
			}
		default:
			a.k.Inconclusive("no-return-slow:" + a.entry)
		}
		h.c.Flush()
		os.Exit(3)
	}
}

func callStack() string {
	buf := make([]byte, 1<<18)
	n := runtime.Stack(buf, true)
	s := string(buf[:n])
	// keep the goroutines that have a lisk-engine frame
	var keep []string
	for _, g := range strings.Split(s, "\n\n") {
		if strings.Contains(g, "github.com/LiskHQ/lisk-engine/pkg/") {
			lines := strings.Split(g, "\n")
			if len(lines) > 24 {
				lines = lines[:24]
			}
			keep = append(keep, strings.Join(lines, "\n"))
		}
		if len(keep) >= 4 {
			break
		}
	}
	return strings.Join(keep, "\n\n")
}

func hexCap(b []byte) string {
	if len(b) > 2048 {
		return hex.EncodeToString(b[:2048]) + fmt.Sprintf("...(%d bytes)", len(b))
	}
	return hex.EncodeToString(b)
}

// Result of one call.
type Result struct {
	Panicked bool
	Skipped  bool
	Alloc    uint64
	CPU      time.Duration
}

// Call runs fn (one call of entry point `entry` on `input`, produced by mutation class
// `class`) under the oracle. The input is staged first so that a process-fatal error is
// attributable. Violation keys: panic:<entry>:<innermost repo frame>:<message class>,
// alloc:<entry>, cpu:<entry>, hang:<entry>.
func (h *Harness) Call(k *mon.Case, entry, class string, input []byte, fn func()) (res Result) {
	if h.Hung(entry) {
		k.Count("skipped_after_hang:"+entry, 1)
		res.Skipped = true
		return
	}
	cpu0 := allCPUTime()
	k.Stage(input)
	k.Eval(1)
	k.Count("calls:"+entry, 1)
	a := &active{k: k, entry: entry, class: class, input: input}
	runtime.ReadMemStats(&h.before)
	a.wall, a.cpu, a.all = time.Now(), cpuTime(), allCPUTime()
	h.cur.Store(a)
	func() {
		defer func() {
			if r := recover(); r != nil {
				res.Panicked = true
				st := string(debug.Stack())
				h.cur.Store(nil)
				lines := strings.Split(st, "\n")
				if len(lines) > 40 {
					lines = lines[:40]
				}
				k.Violation("panic:"+entry+":"+mon.PanicKey(r, st), fmt.Sprintf("panic in %s: %v", entry, r),
					map[string]any{"entry": entry, "class": class, "input_len": len(input), "input_hex": hexCap(input), "panic": fmt.Sprint(r), "stack": strings.Join(lines, "\n")})
			}
		}()
		fn()
	}()
	h.cur.Store(nil)
	res.CPU = cpuTime() - a.cpu
	runtime.ReadMemStats(&h.after)
	h.cpuBy[entry] += allCPUTime() - cpu0
	res.Alloc = h.after.TotalAlloc - h.before.TotalAlloc
	if bound := uint64(AllocPerByte)*uint64(len(input)) + AllocConst; res.Alloc > bound {
		k.Violation("alloc:"+entry, fmt.Sprintf("call allocated %d bytes for an input of %d bytes (bound %d*len+%d)", res.Alloc, len(input), AllocPerByte, AllocConst),
			map[string]any{"entry": entry, "class": class, "input_len": len(input), "input_hex": hexCap(input), "allocated": res.Alloc})
	}
	if res.Alloc > 1<<20 {
		k.Count("alloc_above_1MiB:"+entry, 1)
	}
	if res.CPU > CPUAbsurd && len(input) < CPUSmallInput {
		k.Violation("cpu:"+entry, fmt.Sprintf("call used %.1f s of user CPU time for an input of %d bytes", res.CPU.Seconds(), len(input)),
			map[string]any{"entry": entry, "class": class, "input_len": len(input), "input_hex": hexCap(input), "cpu_s": res.CPU.Seconds()})
	}
	if res.CPU > time.Second {
		k.Count("cpu_above_1s:"+entry, 1)
	}
	return
}
