// Package hostile generates hostile inputs for lisk-engine's network-facing code (property
// C09) and runs single calls under the C09 oracle (no panic, allocation bounded by the input
// size, CPU time not absurd, no CPU-burning hang).
//
// wire.go: a small parser of the lisk codec wire format (key varint = fieldNumber<<3|wireType,
// wire type 0 = varint, wire type 2 = length-delimited) and structure-aware mutators.
package hostile

import (
	"encoding/binary"
	"fmt"
	"math/rand"
)

// Node is one field of a parsed message.
type Node struct {
	Key     []byte  // raw key varint
	Num     uint64  // field number
	WT      int     // wire type (0 or 2 after a successful parse)
	Varint  []byte  // WT 0: raw value varint
	Len     []byte  // WT 2: raw length varint; nil = recomputed from the content when serialised
	Payload []byte  // WT 2 leaf content
	Kids    []*Node // WT 2 content that itself parses as a message (then Payload is ignored)
	Nested  bool
}

func uvarint(v uint64) []byte {
	b := make([]byte, binary.MaxVarintLen64)
	return b[:binary.PutUvarint(b, v)]
}

// readVarint is a tolerant varint reader (accepts over-long encodings, at most 10 bytes).
func readVarint(b []byte, off int) (v uint64, n int, ok bool) {
	for shift := uint(0); n < 10; shift += 7 {
		if off+n >= len(b) {
			return 0, 0, false
		}
		c := b[off+n]
		n++
		v |= uint64(c&0x7f) << shift
		if c&0x80 == 0 {
			return v, n, true
		}
	}
	return 0, 0, false
}

// Parse parses b as a sequence of fields; ok is false unless every byte was consumed.
// Length-delimited contents that parse completely (and non-trivially) are parsed recursively.
func Parse(b []byte, depth int) ([]*Node, bool) {
	var out []*Node
	off := 0
	for off < len(b) {
		key, kn, ok := readVarint(b, off)
		if !ok {
			return out, false
		}
		n := &Node{Key: append([]byte{}, b[off:off+kn]...), Num: key >> 3, WT: int(key & 7)}
		off += kn
		switch n.WT {
		case 0:
			_, vn, ok := readVarint(b, off)
			if !ok {
				return out, false
			}
			n.Varint = append([]byte{}, b[off:off+vn]...)
			off += vn
		case 2:
			l, ln, ok := readVarint(b, off)
			if !ok || l > uint64(len(b)-off-ln) {
				return out, false
			}
			off += ln
			n.Payload = append([]byte{}, b[off:off+int(l)]...)
			off += int(l)
			if depth < 4 && l >= 2 {
				if kids, ok := Parse(n.Payload, depth+1); ok && len(kids) > 0 && plausible(kids) {
					n.Kids, n.Nested = kids, true
				}
			}
		default:
			return out, false
		}
		out = append(out, n)
	}
	return out, true
}

// plausible: field numbers small and non-decreasing - what the generated encoders emit.
func plausible(kids []*Node) bool {
	var last uint64
	for _, k := range kids {
		if k.Num == 0 || k.Num > 64 || k.Num < last {
			return false
		}
		last = k.Num
	}
	return true
}

// Bytes serialises a field list.
func Bytes(nodes []*Node) []byte {
	var out []byte
	for _, n := range nodes {
		out = n.append(out)
	}
	return out
}

func (n *Node) content() []byte {
	if n.Nested {
		return Bytes(n.Kids)
	}
	return n.Payload
}

func (n *Node) append(out []byte) []byte {
	out = append(out, n.Key...)
	switch n.WT {
	case 0:
		out = append(out, n.Varint...)
	case 2:
		c := n.content()
		if n.Len != nil {
			out = append(out, n.Len...)
		} else {
			out = append(out, uvarint(uint64(len(c)))...)
		}
		out = append(out, c...)
	default:
		out = append(out, n.Varint...)
		out = append(out, n.Payload...)
	}
	return out
}

func clone(nodes []*Node) []*Node {
	out := make([]*Node, len(nodes))
	for i, n := range nodes {
		c := *n
		c.Kids = clone(n.Kids)
		out[i] = &c
	}
	return out
}

// Mutant is one hostile input with the class of mutation that produced it.
type Mutant struct {
	Class string
	Data  []byte
}

// VarintBoundaries are the values every varint is replaced with.
var VarintBoundaries = []uint64{0, 1, 2, 127, 128, 255, 256, 16383, 16384, 1<<31 - 1, 1 << 31, 1<<32 - 1, 1 << 32, 1<<53 + 1, 1<<63 - 1, 1 << 63, 1<<64 - 1}

// RawVarints are malformed varint encodings.
var RawVarints = map[string][]byte{
	"overlong-zero":     {0x80, 0x00},
	"overlong-one":      {0x81, 0x80, 0x00},
	"overlong-9":        {0x81, 0x80, 0x80, 0x80, 0x80, 0x80, 0x80, 0x80, 0x80, 0x00},
	"ten-bytes-high":    {0xff, 0xff, 0xff, 0xff, 0xff, 0xff, 0xff, 0xff, 0xff, 0x7f},
	"eleven-bytes":      {0xff, 0xff, 0xff, 0xff, 0xff, 0xff, 0xff, 0xff, 0xff, 0xff, 0x01},
	"unterminated":      {0xff, 0xff, 0xff, 0xff, 0xff, 0xff, 0xff, 0xff, 0xff, 0xff, 0xff, 0xff},
	"continuation-only": {0x80},
}

var rawVarintNames = []string{"overlong-zero", "overlong-one", "overlong-9", "ten-bytes-high", "eleven-bytes", "unterminated", "continuation-only"}

func lenName(v uint64, orig int) string {
	switch v {
	case 0:
		return "0"
	case uint64(orig) - 1:
		return "len-1"
	case uint64(orig) + 1:
		return "len+1"
	case 1 << 31:
		return "2^31"
	case 1<<63 - 1:
		return "2^63-1"
	case 1 << 63:
		return "2^63"
	case 1<<64 - 1:
		return "2^64-1"
	}
	return fmt.Sprint(v)
}

// walk calls fn for every node (pre-order) with its path (child indexes) and depth.
func walk(nodes []*Node, path []int, fn func(path []int, n *Node)) {
	for i, n := range nodes {
		p := append(append([]int{}, path...), i)
		fn(p, n)
		if n.Nested {
			walk(n.Kids, p, fn)
		}
	}
}

func at(nodes []*Node, path []int) (*[]*Node, int) {
	list := &nodes
	for d := 0; d < len(path)-1; d++ {
		list = &(*list)[path[d]].Kids
	}
	return list, path[len(path)-1]
}

// freezeAncestors makes the ancestors of path keep their ORIGINAL length prefixes (stale
// lengths: the inner change is not propagated outwards).
func freezeAncestors(orig, mut []*Node, path []int) {
	lo, lm := orig, mut
	for d := 0; d < len(path)-1; d++ {
		o, m := lo[path[d]], lm[path[d]]
		m.Len = uvarint(uint64(len(o.content())))
		lo, lm = o.Kids, m.Kids
	}
}

// StructureMutants enumerates the structure-aware mutants of msg (deterministic, no
// randomness): per length prefix {0, len-1, len+1, 2^31, 2^63-1, 2^63, 2^64-1} (ancestors
// fixed up, and once more with stale ancestors), per varint the boundary values and malformed
// encodings, per key other wire types / field number 0 / a huge field number, per field
// deletion, duplication, swap with the next sibling, move to the front. ok=false if msg does
// not parse as a lisk codec message.
func StructureMutants(msg []byte) (out []Mutant, ok bool) {
	lz, ok := LazyStructureMutants(msg)
	if !ok {
		return nil, false
	}
	for _, l := range lz {
		out = append(out, Mutant{l.Class, l.Build()})
	}
	return out, true
}

// Lazy is a structure mutant that is materialised only when Build is called (a 30 KB
// message has ~10^5 mutants; building all of them before sampling costs gigabytes).
type Lazy struct {
	Class string
	Build func() []byte
}

// SampleStructureMutants returns at most max structure mutants of msg (all of them if there
// are not more, otherwise a uniform sample drawn with r), not yet materialised.
func SampleStructureMutants(r *rand.Rand, msg []byte, max int) ([]Lazy, bool) {
	lz, ok := LazyStructureMutants(msg)
	if !ok {
		return nil, false
	}
	if max > 0 && len(lz) > max {
		r.Shuffle(len(lz), func(i, j int) { lz[i], lz[j] = lz[j], lz[i] })
		lz = lz[:max]
	}
	return lz, true
}

// LazyStructureMutants is StructureMutants without materialising the mutants.
func LazyStructureMutants(msg []byte) (out []Lazy, ok bool) {
	nodes, ok := Parse(msg, 0)
	if !ok {
		return nil, false
	}
	walk(nodes, nil, func(path []int, n *Node) {
		d := len(path) - 1
		tag := fmt.Sprintf("d%d", d)
		mutate := func(class string, stale bool, f func(x *Node)) {
			if stale && d > 0 {
				class += ":stale"
			}
			out = append(out, Lazy{class + "@" + tag, func() []byte {
				m := clone(nodes)
				list, i := at(m, path)
				f((*list)[i])
				if stale && d > 0 {
					freezeAncestors(nodes, m, path)
				}
				return Bytes(m)
			}})
		}
		if n.WT == 2 {
			l := len(n.content())
			for _, v := range []uint64{0, uint64(l) - 1, uint64(l) + 1, 1 << 31, 1<<63 - 1, 1 << 63, 1<<64 - 1} {
				if v == uint64(l) {
					continue
				}
				v := v
				mutate("len="+lenName(v, l), false, func(x *Node) { x.Len = uvarint(v) })
				if d > 0 {
					mutate("len="+lenName(v, l), true, func(x *Node) { x.Len = uvarint(v) })
				}
			}
			for _, name := range rawVarintNames {
				raw := RawVarints[name]
				mutate("len-raw="+name, false, func(x *Node) { x.Len = raw })
			}
			// the content replaced by nothing / one byte while the prefix stays
			mutate("content-dropped", false, func(x *Node) { x.Len = uvarint(uint64(l)); x.Nested = false; x.Payload = nil })
			// the content cut at every offset, all enclosing length prefixes consistent: the
			// inner decoder runs into the end of ITS data right after a key / inside a value
			if l > 0 && (n.Nested || d == 0) {
				step := 1
				if l > 400 {
					step = l / 200
				}
				for cut := 1; cut < l; cut += step {
					cut := cut
					mutate("content-truncated", false, func(x *Node) { c := x.content(); x.Nested = false; x.Payload = c[:cut:cut] })
				}
			}
			if l > 0 {
				mutate("content-emptied", false, func(x *Node) { x.Nested = false; x.Payload = nil })
				mutate("content-doubled", false, func(x *Node) { c := x.content(); x.Nested = false; x.Payload = append(append([]byte{}, c...), c...) })
			}
		}
		if n.WT == 0 {
			for _, v := range VarintBoundaries {
				v := v
				mutate(fmt.Sprintf("varint=%d", v), false, func(x *Node) { x.Varint = uvarint(v) })
			}
			for _, name := range rawVarintNames {
				raw := RawVarints[name]
				mutate("varint-raw="+name, false, func(x *Node) { x.Varint = raw })
			}
			mutate("varint-overlong-same", false, func(x *Node) {
				v := append([]byte{}, x.Varint...)
				v[len(v)-1] |= 0x80
				x.Varint = append(v, 0x00)
			})
			mutate("varint-missing", false, func(x *Node) { x.Varint = nil })
		}
		for _, wt := range []int{0, 1, 2, 3, 4, 5, 6, 7} {
			if wt == n.WT {
				continue
			}
			wt := wt
			mutate(fmt.Sprintf("wiretype=%d", wt), false, func(x *Node) { x.Key = uvarint(x.Num<<3 | uint64(wt)) })
		}
		mutate("fieldnumber=0", false, func(x *Node) { x.Key = uvarint(uint64(x.WT)) })
		mutate("fieldnumber+1", false, func(x *Node) { x.Key = uvarint((x.Num+1)<<3 | uint64(x.WT)) })
		mutate("fieldnumber=2^28", false, func(x *Node) { x.Key = uvarint(1<<31 | uint64(x.WT)) })
		mutate("fieldnumber=2^60", false, func(x *Node) { x.Key = uvarint(1<<63 | uint64(x.WT)) })
		for _, name := range rawVarintNames {
			raw := RawVarints[name]
			mutate("key-raw="+name, false, func(x *Node) { x.Key = raw })
		}
		mutate("key-overlong-same", false, func(x *Node) {
			v := append([]byte{}, x.Key...)
			v[len(v)-1] |= 0x80
			x.Key = append(v, 0x00)
		})
		// list operations
		listOp := func(class string, f func(list *[]*Node, i int)) {
			out = append(out, Lazy{class + "@" + tag, func() []byte {
				m := clone(nodes)
				list, i := at(m, path)
				f(list, i)
				return Bytes(m)
			}})
		}
		listOp("delete", func(list *[]*Node, i int) { *list = append((*list)[:i:i], (*list)[i+1:]...) })
		listOp("duplicate", func(list *[]*Node, i int) {
			l := append([]*Node{}, (*list)[:i+1]...)
			l = append(l, (*list)[i])
			*list = append(l, (*list)[i+1:]...)
		})
		listOp("swap-next", func(list *[]*Node, i int) {
			if i+1 < len(*list) {
				(*list)[i], (*list)[i+1] = (*list)[i+1], (*list)[i]
			}
		})
		listOp("move-front", func(list *[]*Node, i int) {
			x := (*list)[i]
			l := append([]*Node{x}, (*list)[:i]...)
			*list = append(l, (*list)[i+1:]...)
		})
		listOp("repeat-x40", func(list *[]*Node, i int) {
			x := (*list)[i]
			l := append([]*Node{}, (*list)[:i+1]...)
			for j := 0; j < 40; j++ {
				l = append(l, x)
			}
			*list = append(l, (*list)[i+1:]...)
		})
	})
	return out, true
}

// Truncations returns msg cut at every byte offset (all offsets up to sampleAbove bytes,
// otherwise every offset in the first and last 256 bytes, every field boundary found by the
// parser, and `samples` random offsets).
func Truncations(r *rand.Rand, msg []byte, sampleAbove, samples int) []Mutant {
	var out []Mutant
	if len(msg) <= sampleAbove {
		for i := 0; i < len(msg); i++ {
			out = append(out, Mutant{"truncate", msg[:i:i]})
		}
		return out
	}
	seen := map[int]bool{}
	addOff := func(i int) {
		if i >= 0 && i < len(msg) && !seen[i] {
			seen[i] = true
			out = append(out, Mutant{"truncate", msg[:i:i]})
		}
	}
	for i := 0; i < 256; i++ {
		addOff(i)
		addOff(len(msg) - 1 - i)
	}
	for _, o := range boundaries(msg) {
		addOff(o)
		addOff(o + 1)
		addOff(o - 1)
	}
	for i := 0; i < samples; i++ {
		addOff(r.Intn(len(msg)))
	}
	return out
}

// boundaries lists offsets right after each key / length prefix / field (outer two levels).
func boundaries(msg []byte) []int {
	var out []int
	var rec func(b []byte, base, depth int)
	rec = func(b []byte, base, depth int) {
		off := 0
		for off < len(b) {
			key, kn, ok := readVarint(b, off)
			if !ok {
				return
			}
			off += kn
			out = append(out, base+off)
			switch key & 7 {
			case 0:
				_, vn, ok := readVarint(b, off)
				if !ok {
					return
				}
				off += vn
			case 2:
				l, ln, ok := readVarint(b, off)
				if !ok || l > uint64(len(b)-off-ln) {
					return
				}
				off += ln
				out = append(out, base+off)
				if depth < 2 {
					rec(b[off:off+int(l)], base+off, depth+1)
				}
				off += int(l)
			default:
				return
			}
			out = append(out, base+off)
		}
	}
	rec(msg, 0, 0)
	return out
}

// RandomMutants returns n byte-level mutants: bit flips, byte replacement, insertion,
// deletion of a range, duplication of a range, random tail.
func RandomMutants(r *rand.Rand, msg []byte, n int) []Mutant {
	var out []Mutant
	for i := 0; i < n; i++ {
		m := append([]byte{}, msg...)
		class := ""
		switch op := r.Intn(7); {
		case len(m) == 0 || op == 0:
			class = "append-random"
			k := 1 + r.Intn(8)
			for j := 0; j < k; j++ {
				m = append(m, byte(r.Intn(256)))
			}
		case op == 1:
			class = "bitflip"
			k := 1 + r.Intn(3)
			for j := 0; j < k; j++ {
				m[r.Intn(len(m))] ^= 1 << uint(r.Intn(8))
			}
		case op == 2:
			class = "byte-set"
			vals := []byte{0x00, 0x01, 0x7f, 0x80, 0xff, byte(r.Intn(256))}
			m[r.Intn(len(m))] = vals[r.Intn(len(vals))]
		case op == 3:
			class = "insert"
			p := r.Intn(len(m) + 1)
			ins := []byte{byte(r.Intn(256))}
			if r.Intn(2) == 0 {
				ins = []byte{0x80, 0x80, 0x80, 0x80}
			}
			m = append(m[:p:p], append(ins, m[p:]...)...)
		case op == 4:
			class = "delete-range"
			p := r.Intn(len(m))
			q := p + 1 + r.Intn(minInt(8, len(m)-p))
			m = append(m[:p:p], m[q:]...)
		case op == 5:
			class = "duplicate-range"
			p := r.Intn(len(m))
			q := p + 1 + r.Intn(minInt(32, len(m)-p))
			seg := append([]byte{}, m[p:q]...)
			m = append(m[:q:q], append(seg, m[q:]...)...)
		default:
			class = "random-tail"
			p := r.Intn(len(m))
			for j := p; j < len(m); j++ {
				m[j] = byte(r.Intn(256))
			}
		}
		out = append(out, Mutant{class, m})
	}
	return out
}

func minInt(a, b int) int {
	if a < b {
		return a
	}
	return b
}

// ShortStrings calls fn with every byte string of length <= 2 whose index i (in the order
// "", 1-byte strings, 2-byte strings) satisfies keep(i); total is 1+256+65536.
const ShortStringCount = 1 + 256 + 65536

func ShortString(i int) []byte {
	switch {
	case i == 0:
		return []byte{}
	case i <= 256:
		return []byte{byte(i - 1)}
	default:
		j := i - 257
		return []byte{byte(j >> 8), byte(j)}
	}
}
