package hostile

import (
	"encoding/binary"
	"math/rand"
	"reflect"
	"sort"
	"strconv"
)

// RandomWire builds the wire bytes of a random value of struct type t purely from the type
// description (fieldNumber tags and field kinds; unexported fields are fine because nothing
// is set through reflection), following the conventions of the generated encoders: scalar
// fields always present, empty repeated fields absent, nested structs length-delimited,
// numeric / bool slices packed. ok=false if t has a field kind the generator does not know.
func RandomWire(r *rand.Rand, t reflect.Type, depth int) (out []byte, ok bool) {
	for t.Kind() == reflect.Ptr {
		t = t.Elem()
	}
	if t.Kind() != reflect.Struct {
		return nil, false
	}
	type fld struct {
		num int
		t   reflect.Type
	}
	var fields []fld
	for i := 0; i < t.NumField(); i++ {
		f := t.Field(i)
		tag, has := f.Tag.Lookup("fieldNumber")
		if !has {
			continue
		}
		n, err := strconv.Atoi(tag)
		if err != nil {
			return nil, false
		}
		fields = append(fields, fld{n, f.Type})
	}
	sort.Slice(fields, func(i, j int) bool { return fields[i].num < fields[j].num })
	ok = true
	key := func(num, wt int) { out = append(out, uvarint(uint64(num)<<3|uint64(wt))...) }
	lenDelim := func(num int, b []byte) {
		key(num, 2)
		out = append(out, uvarint(uint64(len(b)))...)
		out = append(out, b...)
	}
	count := func() int {
		switch r.Intn(6) {
		case 0:
			return 0
		case 1:
			return 1
		case 2:
			return 2 + r.Intn(3)
		}
		return r.Intn(9)
	}
	for _, f := range fields {
		ft := f.t
		switch ft.Kind() {
		case reflect.String:
			lenDelim(f.num, randString(r))
		case reflect.Bool:
			key(f.num, 0)
			out = append(out, byte(r.Intn(2)))
		case reflect.Uint, reflect.Uint32, reflect.Uint64, reflect.Uint16, reflect.Uint8:
			key(f.num, 0)
			out = append(out, uvarint(randUint(r, ft.Bits()))...)
		case reflect.Int, reflect.Int32, reflect.Int64:
			key(f.num, 0)
			out = append(out, zigzag(randInt(r, ft.Bits()))...)
		case reflect.Ptr, reflect.Struct:
			if depth > 3 {
				lenDelim(f.num, nil)
				continue
			}
			b, o := RandomWire(r, ft, depth+1)
			if !o {
				return nil, false
			}
			lenDelim(f.num, b)
		case reflect.Slice:
			et := ft.Elem()
			switch et.Kind() {
			case reflect.Uint8: // bytes
				lenDelim(f.num, randBytes(r))
			case reflect.String:
				for i, n := 0, count(); i < n; i++ {
					lenDelim(f.num, randString(r))
				}
			case reflect.Slice:
				if et.Elem().Kind() != reflect.Uint8 {
					return nil, false
				}
				for i, n := 0, count(); i < n; i++ {
					lenDelim(f.num, randBytes(r))
				}
			case reflect.Ptr, reflect.Struct:
				if depth > 3 {
					continue
				}
				for i, n := 0, count(); i < n; i++ {
					b, o := RandomWire(r, et, depth+1)
					if !o {
						return nil, false
					}
					lenDelim(f.num, b)
				}
			case reflect.Bool:
				if n := count(); n > 0 {
					var p []byte
					for i := 0; i < n; i++ {
						p = append(p, byte(r.Intn(2)))
					}
					lenDelim(f.num, p)
				}
			case reflect.Uint, reflect.Uint32, reflect.Uint64:
				if n := count(); n > 0 {
					var p []byte
					for i := 0; i < n; i++ {
						p = append(p, uvarint(randUint(r, et.Bits()))...)
					}
					lenDelim(f.num, p)
				}
			case reflect.Int, reflect.Int32, reflect.Int64:
				if n := count(); n > 0 {
					var p []byte
					for i := 0; i < n; i++ {
						p = append(p, zigzag(randInt(r, et.Bits()))...)
					}
					lenDelim(f.num, p)
				}
			default:
				return nil, false
			}
		default:
			return nil, false
		}
	}
	return out, true
}

func zigzag(v int64) []byte {
	b := make([]byte, binary.MaxVarintLen64)
	return b[:binary.PutVarint(b, v)]
}

func randUint(r *rand.Rand, bits int) uint64 {
	var v uint64
	switch r.Intn(5) {
	case 0:
		v = uint64(r.Intn(3))
	case 1:
		v = uint64(r.Intn(300))
	case 2:
		v = 1<<uint(r.Intn(bits)) - uint64(r.Intn(2))
	default:
		v = r.Uint64()
	}
	if bits < 64 {
		v &= 1<<uint(bits) - 1
	}
	return v
}

func randInt(r *rand.Rand, bits int) int64 {
	v := int64(randUint(r, bits-1))
	if r.Intn(2) == 0 {
		v = -v
	}
	return v
}

var byteLens = []int{0, 1, 2, 8, 20, 32, 33, 48, 64, 96}

func randBytes(r *rand.Rand) []byte {
	n := byteLens[r.Intn(len(byteLens))]
	if r.Intn(4) == 0 {
		n = r.Intn(200)
	}
	b := make([]byte, n)
	r.Read(b)
	return b
}

func randString(r *rand.Rand) []byte {
	const alpha = "abcdefghijklmnopqrstuvwxyzABCDEFGHIJKLMNOPQRSTUVWXYZ0123456789"
	n := r.Intn(12)
	b := make([]byte, n)
	for i := range b {
		b[i] = alpha[r.Intn(len(alpha))]
	}
	if r.Intn(8) == 0 {
		b = append(b, []byte("é日本")...) // NFC-normal multi-byte characters
	}
	return b
}
