//go:build verif

package lip14sim

import (
	"encoding/json"
	"math/rand"
	"os"
	"testing"
)

func TestProbeUnjudged(t *testing.T) {
	if os.Getenv("PROBE") == "" {
		t.Skip()
	}
	best := 1 << 30
	var bestOut []byte
	for seed := int64(1); seed < 9000; seed++ {
		res := Run(rand.New(rand.NewSource(seed)), Options{Family: os.Getenv("PROBE")})
		if res.Conflict != nil && res.Hypothesis == "" && len(res.Nodes) < best {
			best = len(res.Nodes)
			c := res.Conflict
			out := map[string]any{"seed": seed, "scenario": res.Describe(), "conflict": c, "A": res.Branch(c.A), "B": res.Branch(c.B), "chg": res.Nodes}
			delete(out, "chg")
			bestOut, _ = json.MarshalIndent(out, "", " ")
			os.WriteFile("/dev/shm/c01mut/probe.json", bestOut, 0o644)
		}
	}
	os.WriteFile("/dev/shm/c01mut/probe.json", bestOut, 0o644)
}
