// Package lip14sim holds (1) a private LIP-0014 helper - the contradiction oracle for two
// block headers of one generator and the fork-choice order - and (2) a simulated validator
// network over a fork tree whose per-node BFT state is computed by the real liskbft code.
// It is used by the C01 worker (finality safety) and by the forktree stream of the C02 worker.
package lip14sim

// Hdr is the BFT-relevant part of a block header.
type Hdr struct {
	Height uint32 `json:"height"`
	Gen    int    `json:"generator"`
	MHG    uint32 `json:"maxHeightGenerated"`
	MHP    uint32 `json:"maxHeightPrevoted"`
}

// Contradicting is the LIP-0014 definition for two distinct headers of the same generator:
// order the pair so that b1 is the "earlier" one (smaller maxHeightGenerated, then smaller
// maxHeightPrevoted, then smaller height); they contradict iff
//
//	(i)   same maxHeightPrevoted and b1.height >= b2.height   (double forging / shorter chain), or
//	(ii)  b1.height > b2.maxHeightGenerated                   (b2 does not acknowledge b1), or
//	(iii) b1.maxHeightPrevoted > b2.maxHeightPrevoted         (moved to a chain with lower prevoted height).
func Contradicting(x, y Hdr) bool {
	if x.Gen != y.Gen {
		return false
	}
	b1, b2 := x, y
	later := func(a, b Hdr) bool { // a is later than b
		if a.MHG != b.MHG {
			return a.MHG > b.MHG
		}
		if a.MHP != b.MHP {
			return a.MHP > b.MHP
		}
		return a.Height > b.Height
	}
	if later(b1, b2) {
		b1, b2 = b2, b1
	}
	switch {
	case b1.MHP == b2.MHP && b1.Height >= b2.Height:
		return true
	case b1.Height > b2.MHG:
		return true
	case b1.MHP > b2.MHP:
		return true
	}
	return false
}

// legitimateSuccessor: b2 may follow b1 for a validator obeying the protocol: it
// acknowledges b1 (maxHeightGenerated >= b1.height), did not move to a chain with a lower
// prevoted height, and with an equal prevoted height it is on a longer chain.
func legitimateSuccessor(b1, b2 Hdr) bool {
	return b1.Height <= b2.MHG && b1.MHP <= b2.MHP && (b1.MHP < b2.MHP || b1.Height < b2.Height)
}

// ContradictingDecl is the declarative form used as a second opinion: two distinct headers
// of one generator contradict iff neither is a legitimate successor of the other.  For
// headers that imply votes (maxHeightGenerated < height) it coincides with Contradicting
// (checked exhaustively by the test of this package); the simulation requires BOTH to say
// "not contradicting" for every pair of headers signed by a non-Byzantine validator.
func ContradictingDecl(x, y Hdr) bool {
	if x.Gen != y.Gen {
		return false
	}
	return !legitimateSuccessor(x, y) && !legitimateSuccessor(y, x)
}

// HasPriority is the LIP-0014 fork-choice order used by the simulated honest validators: a
// candidate tip replaces the current tip only if it has a strictly larger maxHeightPrevoted
// in its header, or the same and a strictly larger height.  (The LIP's tie-break cases for
// equal height are not used: the first received block is kept.)
func HasPriority(candidate, tip Hdr) bool {
	if candidate.MHP != tip.MHP {
		return candidate.MHP > tip.MHP
	}
	return candidate.Height > tip.Height
}
