package lip14sim

import "testing"

func TestExamples(t *testing.T) {
	// double forging: same height, same everything else
	a := Hdr{Height: 10, Gen: 1, MHG: 5, MHP: 3}
	b := Hdr{Height: 10, Gen: 1, MHG: 5, MHP: 3}
	if !Contradicting(a, b) || !ContradictingDecl(a, b) {
		t.Fatal("double forging must contradict")
	}
	// honest successor
	c := Hdr{Height: 14, Gen: 1, MHG: 10, MHP: 4}
	if Contradicting(a, c) || ContradictingDecl(a, c) || Contradicting(c, a) {
		t.Fatal("honest successor must not contradict")
	}
	// forgets its block at height 10
	d := Hdr{Height: 14, Gen: 1, MHG: 5, MHP: 4}
	if !Contradicting(a, d) || !ContradictingDecl(a, d) {
		t.Fatal("not acknowledging the earlier block must contradict")
	}
	// moves to a chain with lower prevoted height
	e := Hdr{Height: 14, Gen: 1, MHG: 10, MHP: 2}
	if !Contradicting(a, e) || !ContradictingDecl(a, e) {
		t.Fatal("lower maxHeightPrevoted must contradict")
	}
	// same prevoted height but shorter chain
	f := Hdr{Height: 9, Gen: 1, MHG: 10, MHP: 3}
	if !Contradicting(a, f) || !ContradictingDecl(a, f) {
		t.Fatal("same maxHeightPrevoted and lower height must contradict")
	}
	// higher prevoted height justifies a lower height
	g := Hdr{Height: 9, Gen: 1, MHG: 10, MHP: 4}
	if Contradicting(a, g) || ContradictingDecl(a, g) {
		t.Fatal("higher maxHeightPrevoted justifies the switch")
	}
	// different generators never contradict
	if Contradicting(a, Hdr{Height: 10, Gen: 2, MHG: 5, MHP: 3}) {
		t.Fatal("different generators")
	}
}

// The two forms coincide for every pair of distinct vote-implying headers (mhg < height) of
// one generator over a small domain.
func TestFormsCoincide(t *testing.T) {
	const N = 6
	n := 0
	for h1 := uint32(1); h1 <= N; h1++ {
		for g1 := uint32(0); g1 < h1; g1++ {
			for p1 := uint32(0); p1 <= N; p1++ {
				for h2 := uint32(1); h2 <= N; h2++ {
					for g2 := uint32(0); g2 < h2; g2++ {
						for p2 := uint32(0); p2 <= N; p2++ {
							a := Hdr{h1, 1, g1, p1}
							b := Hdr{h2, 1, g2, p2}
							if Contradicting(a, b) != ContradictingDecl(a, b) {
								t.Fatalf("forms differ on %+v %+v: %v %v", a, b, Contradicting(a, b), ContradictingDecl(a, b))
							}
							if Contradicting(a, b) != Contradicting(b, a) {
								t.Fatalf("not symmetric on %+v %+v", a, b)
							}
							n++
						}
					}
				}
			}
		}
	}
	t.Log(n, "pairs")
}
