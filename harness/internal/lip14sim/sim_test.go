//go:build verif

package lip14sim

import (
	"math/rand"
	"testing"
)

// The hypothesis check must notice an "honest" validator that double-forges.
func TestHypothesisCheckFires(t *testing.T) {
	for seed := int64(1); seed < 20; seed++ {
		res := Run(rand.New(rand.NewSource(seed)), Options{Template: "split", Family: "byz<1/3"})
		if res.Err != nil {
			t.Fatal(res.Err)
		}
		if res.Hypothesis != "" {
			t.Fatalf("seed %d: hypothesis fails in a regular run: %s", seed, res.Hypothesis)
		}
	}
	testForceDoubleForge = true
	defer func() { testForceDoubleForge = false }()
	fired := 0
	for seed := int64(1); seed < 20; seed++ {
		res := Run(rand.New(rand.NewSource(seed)), Options{Template: "split", Family: "byz<1/3"})
		if res.Hypothesis != "" {
			fired++
		}
	}
	if fired < 15 {
		t.Fatalf("double forging by an honest validator noticed in only %d of 19 runs", fired)
	}
}

// A tree in which two views finalized conflicting blocks must be reported.
func TestConflictDetection(t *testing.T) {
	res := &Result{Genesis: 0, Batch: 3, Counters: map[string]int{}, Initial: &ParamSet{Vals: []Val{{0, 1, false}}, Pre: 1}}
	mk := func(id, parent int, h, pc uint32) *Node {
		n := &Node{ID: id, Parent: parent, H: Hdr{Height: h}, PC: pc, PV: pc}
		if parent >= 0 {
			res.Nodes[parent].Children = append(res.Nodes[parent].Children, id)
		}
		res.Nodes = append(res.Nodes, n)
		return n
	}
	mk(0, -1, 0, 0)
	mk(1, 0, 1, 0)
	mk(2, 1, 2, 0) // branch A
	mk(3, 2, 3, 2) // view 3 finalized height 2 = node 2
	mk(4, 1, 2, 0) // branch B
	mk(5, 4, 3, 1) // view 5 finalized height 1 = node 1 (common): fine
	s := &sim{res: res, r: rand.New(rand.NewSource(1))}
	s.finish()
	if res.Conflict != nil {
		t.Fatalf("no conflict expected: %+v", res.Conflict)
	}
	mk(6, 5, 4, 2) // view 6 finalized height 2 = node 4, conflicts with node 2
	res.Forks = 0
	s.finish()
	if res.Conflict == nil || res.Conflict.Height != 2 {
		t.Fatalf("conflict at height 2 expected: %+v", res.Conflict)
	}
}
