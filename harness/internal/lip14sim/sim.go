package lip14sim

import (
	"encoding/binary"
	"fmt"
	"math/rand"
	"sort"

	"github.com/LiskHQ/lisk-engine/pkg/consensus/liskbft"
	"github.com/LiskHQ/lisk-engine/pkg/db"

	"verifharness/internal/lip58"
	"verifharness/internal/lip58/drv"
)

// Judged families added for changes that only show across branches / after pruning:
const (
	// FamPrivate: byz<1/3 with full thresholds; in addition the Byzantine validators build a
	// private branch (never shown to an honest validator, extended by Byzantine validators only)
	// whose first block lowers the precommit threshold towards floor(W/3)+1 for that branch.
	// Safe: blocks above the change exist on that branch only, carry Byzantine votes only (weight
	// < W/3 < any legal threshold), so no view finalizes one of them; every other view never sees
	// those parameters.  What it adds: BFT parameters that differ between branches at one height.
	FamPrivate = "byz<1/3+private-branch-with-lowered-threshold"
	// FamRaised: the chain starts with a precommit threshold below floor(2W/3)+1 although
	// Byzantine validators exist, and a block of the trunk raises it to floor(2W/3)+1 (same
	// validators and weights).  Judged only if every block at or below the height of that change
	// lies on one chain (then conflicts can only arise above it, where all branches count with
	// the full threshold).  Blocks carry aggregate commits, so the superseded parameters are pruned.
	FamRaised = "byz<1/3+low-threshold-raised-on-trunk-before-any-fork"
)

// Val is one validator of a scenario.
type Val struct {
	ID  int    `json:"id"`
	W   uint64 `json:"weight"`
	Byz bool   `json:"byzantine"`
}

// Options of a simulation run.
type Options struct {
	Thorough  bool
	Reference bool   // keep a lip58 model per tree node and compare after every block
	Template  string // force a template ("" = chosen by the rng)
	Family    string // force a family ("" = chosen by the rng)
}

// Node is one block of the fork tree with the BFT heights the real code computed for the
// chain ending in it.
type Node struct {
	ID       int
	Parent   int
	H        Hdr
	PV, PC   uint32
	Cert     uint32 // certified height of the chain ending here
	CommitH  uint32 // height of the aggregate commit carried by this block (0 = empty commit)
	Children []int
	Trunk    bool
	// Private: block of a branch that only Byzantine validators build and that is never shown
	// to an honest validator
	Private bool
	Set     *ParamSet // parameters set by this block (valid from the next height), if any
	st      *drv.Node
	ref     *lip58.Model
}

// ParamSet is a validator set with thresholds.
type ParamSet struct {
	Vals []Val  `json:"validators"`
	Pre  uint64 `json:"precommitThreshold"`
	Cert uint64 `json:"certificateThreshold"`
}

func (p *ParamSet) total() uint64 {
	var t uint64
	for _, v := range p.Vals {
		t += v.W
	}
	return t
}

func (p *ParamSet) refValidators() []lip58.Validator {
	out := make([]lip58.Validator, len(p.Vals))
	for i, v := range p.Vals {
		out[i] = drv.V(v.ID, v.W)
	}
	return out
}

func (p *ParamSet) gens() []string {
	out := make([]string, len(p.Vals))
	for i, v := range p.Vals {
		out[i] = drv.Addr(v.ID)
	}
	return out
}

// RefMismatch is a disagreement between the real code and the lip58 model on a tree node.
type RefMismatch struct {
	Node   int
	Key    string
	Detail string
}

// Conflict is a refutation of finality safety.
type Conflict struct {
	A, B        int // tree nodes (chain views)
	Height      uint32
	BlockA      int // ancestor(A, Height)
	BlockB      int // ancestor(B, Height)
	FinalizedA  uint32
	FinalizedB  uint32
	CommonBlock int
}

// Result of one simulated scenario.
type Result struct {
	Template   string
	Family     string // "byz<1/3" | "low-precommit-threshold-no-byz" | "unjudged:*"
	Judged     bool
	Initial    *ParamSet
	Batch      int
	Genesis    uint32
	Nodes      []*Node
	Forks      int
	MaxDepth   int
	Hypothesis string // non-empty: the hypothesis of C01 does not hold in this scenario (discard)
	Conflict   *Conflict
	Counters   map[string]int
	Log        []string

	BothBranchesProgress bool
	ConflictingPrevoted  bool
	BranchBeyondWindow   bool
	RefMismatches        []RefMismatch
	Err                  error
}

type val struct {
	Val
	tip    int
	known  map[int]bool
	maxGen uint32
	signed []int
	group  int
}

type sim struct {
	r     *rand.Rand
	o     Options
	res   *Result
	db    *db.DB
	mod   *liskbft.Module
	vals  []*val
	byID  map[int]*val
	cur   *ParamSet
	pend  map[int][]int // validator id -> undelivered node ids
	chgAt uint32        // trunk height whose block sets new parameters (0 = none)
	// chgCertOnly: the change keeps validators, weights, prevote and precommit thresholds and
	// only moves the certificate threshold; finality is reasoned about exactly as without it, so
	// it may sit above fork points (every branch reaching chgAt installs it)
	chgCertOnly bool
	chg         *ParamSet
	limit       int
	// certP: probability that a block carries an aggregate commit (height in (certified,
	// precommitted] of its parent state, as verifyAggregateCommit demands) when one is possible
	certP float64
	// privSet: parameters that the next block added with privNext installs (private branch)
	privSet  *ParamSet
	privNext bool
	// raised: family in which the initial precommit threshold is low and the trunk change raises it
	raised bool
}

func (s *sim) logf(f string, a ...any) {
	if len(s.res.Log) < 400 {
		s.res.Log = append(s.res.Log, fmt.Sprintf(f, a...))
	}
}

func (s *sim) count(k string, n int) { s.res.Counters[k] += n }

func suffix(id int) []byte {
	b := make([]byte, 4)
	binary.BigEndian.PutUint32(b, uint32(id)+1)
	return b
}

func toRef(h Hdr) lip58.Header {
	return lip58.Header{Height: h.Height, Generator: drv.Addr(h.Gen), MaxHeightGenerated: h.MHG, MaxHeightPrevoted: h.MHP}
}

func toRefCommit(h Hdr, commitH uint32) lip58.Header {
	rh := toRef(h)
	if commitH > 0 {
		rh.CommitHeight, rh.CommitNonEmpty = commitH, true
	} else {
		rh.CommitHeight = 0
	}
	return rh
}

// Run generates and executes one scenario from the rng.
func Run(r *rand.Rand, o Options) *Result {
	s := &sim{r: r, o: o, res: &Result{Counters: map[string]int{}}, pend: map[int][]int{}, byID: map[int]*val{}}
	s.db = drv.NewDB()
	defer func() {
		defer func() { _ = recover() }()
		_ = s.db.Close()
	}()
	s.setup()
	if s.res.Err != nil {
		return s.res
	}
	s.prelude()
	switch s.res.Template {
	case "random":
		s.tRandom()
	case "split", "long-split":
		s.tSplit()
	case "lone-finisher":
		s.tLone()
	case "vote-and-leave":
		s.tVoteAndLeave()
	}
	s.finish()
	return s.res
}

// prelude runs before the template for the families that need a prepared chain.
func (s *sim) prelude() {
	r := s.r
	switch s.res.Family {
	case FamRaised:
		// the trunk passes the height of the change and then grows until the superseded
		// parameters have left the vote window (certificates follow finality, so the pruning
		// bound min(oldest height of the window, certified+1) passes the change as well)
		s.trunk(int(s.chgAt-s.res.Genesis) + 3*s.res.Batch + 2 + r.Intn(2*len(s.vals)+1))
	case FamPrivate:
		byz := s.byz()
		if len(byz) == 0 {
			return
		}
		s.trunk(r.Intn(len(s.vals) + 2))
		if !s.ok() {
			return
		}
		t := s.cur.total()
		lo := t/3 + 1
		low := &ParamSet{Vals: append([]Val(nil), s.cur.Vals...), Pre: lo, Cert: s.cur.Cert}
		if r.Intn(3) == 0 {
			low.Pre = lo + uint64(r.Int63n(int64((2*t)/3+1-lo)+1))
		}
		at := s.honest()[0].tip
		for i := r.Intn(3); i > 0 && s.node(at).Parent >= 0; i-- {
			at = s.node(at).Parent
		}
		s.privSet, s.privNext = low, true
		tip := s.byzForge(byz[r.Intn(len(byz))], at, "two-faced")
		s.privNext = false
		// the branch runs ahead of everything the honest validators will build
		for i, n := 0, 2*s.res.Batch+r.Intn(2*s.res.Batch+1); i < n && tip >= 0 && s.ok(); i++ {
			mode := "two-faced"
			if r.Intn(4) == 0 {
				mode = s.randByzMode()
			}
			if id := s.byzForge(byz[r.Intn(len(byz))], tip, mode); id >= 0 {
				tip = id
			}
		}
	}
}

var templates = []string{"random", "split", "split", "long-split", "lone-finisher", "lone-finisher", "vote-and-leave", "vote-and-leave"}

func (s *sim) setup() {
	r := s.r
	res := s.res
	res.Template = s.o.Template
	if res.Template == "" {
		res.Template = templates[r.Intn(len(templates))]
	}
	fam := s.o.Family
	if fam == "" {
		switch x := r.Intn(24); {
		case x >= 22:
			fam = FamRaised
		case x >= 20:
			fam = FamPrivate
		case x < 13:
			fam = "byz<1/3"
		case x < 18:
			fam = "low-precommit-threshold-no-byz"
		case x < 19:
			fam = "unjudged:validator-change-above-fork"
		default:
			fam = "unjudged:low-threshold-with-byz"
		}
	}
	res.Family = fam
	res.Judged = fam == "byz<1/3" || fam == "low-precommit-threshold-no-byz" || fam == FamPrivate || fam == FamRaised
	s.raised = fam == FamRaised
	s.certP = []float64{0, 0.5, 1}[r.Intn(3)]
	if s.raised {
		s.certP = []float64{0.5, 1}[r.Intn(2)]
	}
	n := 3 + r.Intn(5)
	if s.o.Thorough && r.Intn(5) == 0 {
		n = 8 + r.Intn(4)
	}
	ws := make([]uint64, n)
	switch r.Intn(4) {
	case 0, 1:
		for i := range ws {
			ws[i] = 1
		}
	case 2:
		for i := range ws {
			ws[i] = 1 + uint64(r.Intn(4))
		}
	default:
		for i := range ws {
			ws[i] = 1 + uint64(r.Intn(2))
		}
		ws[r.Intn(n)] = uint64(n) / 2
		if ws[0] == 0 {
			ws[0] = 1
		}
	}
	var total uint64
	for _, w := range ws {
		total += w
	}
	ps := &ParamSet{}
	for i, w := range ws {
		ps.Vals = append(ps.Vals, Val{ID: i, W: w})
	}
	// Byzantine set: as much weight as possible below one third (or none)
	if fam == "byz<1/3" || fam == "unjudged:low-threshold-with-byz" || fam == "unjudged:validator-change-above-fork" || fam == FamPrivate || fam == FamRaised {
		if r.Intn(8) != 0 || fam == FamPrivate || fam == FamRaised {
			var bw uint64
			for _, i := range r.Perm(n) {
				if 3*(bw+ws[i]) < total {
					bw += ws[i]
					ps.Vals[i].Byz = true
					if r.Intn(3) == 0 {
						break
					}
				}
			}
		}
	}
	ps.Pre = (2*total)/3 + 1
	switch fam {
	case "byz<1/3", "unjudged:validator-change-above-fork", FamPrivate:
		if r.Intn(10) == 0 {
			ps.Pre += uint64(r.Int63n(int64(total - ps.Pre + 1)))
		}
	default:
		lo := total/3 + 1
		ps.Pre = lo + uint64(r.Int63n(int64((2*total)/3+1-lo)+1))
		if r.Intn(2) == 0 {
			ps.Pre = lo
		}
	}
	// the certificate threshold is independent of the precommit threshold and must play no role
	// in finality: draw it anywhere in its legal range [W/3+1, W]
	ps.Cert = total/3 + 1 + uint64(r.Int63n(int64(total-(total/3+1))+1))
	res.Initial = ps
	s.cur = ps
	res.Batch = n + r.Intn(3)
	res.Genesis = []uint32{0, 0, 10, 5000}[r.Intn(4)]
	s.mod = drv.NewModule(res.Batch)
	s.limit = 160
	if s.o.Thorough {
		s.limit = 400
	}
	// genesis node
	g := &Node{ID: 0, Parent: -1, H: Hdr{Height: res.Genesis}, Trunk: true, Set: ps}
	g.st = drv.NewNodeOn(s.db, suffix(0), s.mod, false)
	// read through drv.TidyReader (same pebble instance, closes its iterators): a scenario makes
	// ~10^4 range reads over hundreds of forked states, see the comment on TidyReader
	g.st.Tidy = true
	if err := g.st.Genesis(res.Genesis); err != nil {
		res.Err = err
		return
	}
	if err := g.st.SetParams(ps.Pre, ps.Cert, ps.refValidators()); err != nil {
		res.Err = err
		return
	}
	_ = g.st.SetGenerators(ps.gens())
	g.st.Commit()
	g.PV, g.PC, g.Cert = res.Genesis, res.Genesis, res.Genesis
	if s.o.Reference {
		g.ref = lip58.NewGenesis(res.Genesis, res.Batch)
		_ = g.ref.SetParameters(ps.Pre, ps.Cert, ps.refValidators())
		g.ref.SetGenerators(ps.gens())
	}
	res.Nodes = []*Node{g}
	for _, v := range ps.Vals {
		vv := &val{Val: v, tip: 0, known: map[int]bool{0: true}}
		s.vals = append(s.vals, vv)
		s.byID[v.ID] = vv
	}
	// validator change on the trunk (judged: below every fork) - re-weight / leave / join
	if fam == FamRaised {
		// the trunk raises the precommit threshold to floor(2W/3)+1 (validators and weights kept)
		// before the first fork; see finish() for the condition under which this is judged
		n := &ParamSet{Vals: append([]Val(nil), ps.Vals...), Pre: (2*total)/3 + 1, Cert: ps.Cert}
		s.chg = n
		s.chgAt = res.Genesis + 1 + uint32(r.Intn(4))
	} else if fam == FamPrivate {
		// no trunk change: the private branch changes the parameters
	} else if r.Intn(4) == 0 || fam == "unjudged:validator-change-above-fork" {
		s.planChange()
	} else if r.Intn(3) == 0 {
		n := &ParamSet{Vals: append([]Val(nil), ps.Vals...), Pre: ps.Pre, Cert: ps.Cert}
		t := n.total()
		for try := 0; try < 8 && n.Cert == ps.Cert; try++ {
			n.Cert = t/3 + 1 + uint64(r.Int63n(int64(t-(t/3+1))+1))
		}
		if n.Cert != ps.Cert {
			s.chg, s.chgCertOnly = n, true
			s.chgAt = res.Genesis + 1 + uint32(r.Intn(14))
		}
	}
}

// planChange prepares a parameter change that keeps the Byzantine weight below one third.
func (s *sim) planChange() {
	r := s.r
	old := s.cur
	for try := 0; try < 20; try++ {
		n := &ParamSet{Vals: append([]Val(nil), old.Vals...)}
		switch r.Intn(3) {
		case 0:
			i := r.Intn(len(n.Vals))
			n.Vals[i].W = 1 + uint64(r.Intn(4))
		case 1:
			if len(n.Vals) <= 3 {
				continue
			}
			i := r.Intn(len(n.Vals))
			n.Vals = append(n.Vals[:i:i], n.Vals[i+1:]...)
		default:
			if len(n.Vals) >= s.res.Batch {
				continue
			}
			n.Vals = append(n.Vals, Val{ID: 50 + len(n.Vals), W: 1 + uint64(r.Intn(2))})
		}
		t := n.total()
		var bw uint64
		for _, v := range n.Vals {
			if v.Byz {
				bw += v.W
			}
		}
		if 3*bw >= t {
			continue
		}
		if s.res.Family == "low-precommit-threshold-no-byz" {
			n.Pre = t/3 + 1 + uint64(r.Int63n(int64((2*t)/3+1-(t/3+1))+1))
		} else {
			n.Pre = (2*t)/3 + 1
		}
		n.Cert = n.Pre
		s.chg = n
		s.chgAt = s.res.Genesis + 1 + uint32(r.Intn(4))
		return
	}
}

func (s *sim) node(id int) *Node { return s.res.Nodes[id] }

func (s *sim) full() bool { return len(s.res.Nodes) >= s.limit }

// Ancestor returns the ancestor of node a at height h (a itself if h == height(a)).
func (res *Result) Ancestor(a int, h uint32) int {
	for a >= 0 && res.Nodes[a].H.Height > h {
		a = res.Nodes[a].Parent
	}
	return a
}

func (res *Result) isAncestor(x, y int) bool { // x is y or an ancestor of y
	return res.Ancestor(y, res.Nodes[x].H.Height) == x
}

// Branch returns the headers from the first block after genesis to node id, with the
// parameter sets installed on the way.
func (res *Result) Branch(id int) []map[string]any {
	var ids []int
	for a := id; a > 0; a = res.Nodes[a].Parent {
		ids = append(ids, a)
	}
	out := []map[string]any{}
	for i := len(ids) - 1; i >= 0; i-- {
		n := res.Nodes[ids[i]]
		e := map[string]any{"node": n.ID, "header": n.H, "prevotedAfter": n.PV, "precommittedAfter": n.PC}
		if n.Set != nil {
			e["setsParameters"] = n.Set
		}
		out = append(out, e)
	}
	return out
}

// addBlock tries to append a block; returns the node id or -1 if an honest node would reject
// the header (it contradicts the generator's latest block on that chain).
func (s *sim) addBlock(parent int, gen int, mhg uint32, who string) int {
	if s.full() {
		return -1
	}
	p := s.node(parent)
	h := Hdr{Height: p.H.Height + 1, Gen: gen, MHG: mhg, MHP: p.PV}
	// aggregate commit: any height above the certified and up to the precommitted height of the
	// parent state (the range verifyAggregateCommit admits; signatures are C06's subject)
	var commitH uint32
	kind := drv.CommitEmpty
	if s.certP > 0 && p.PC > p.Cert && s.r.Float64() < s.certP {
		commitH = p.PC
		if s.r.Intn(3) == 0 {
			commitH = p.Cert + 1 + uint32(s.r.Intn(int(p.PC-p.Cert)))
		}
		kind = drv.CommitBoth
	}
	rh := toRefCommit(h, commitH)
	bh := drv.MakeHeader(rh, kind, nil, uint32(len(s.res.Nodes)))
	// validity as the engine's verifyBlock sees it (maxHeightPrevoted is right by construction)
	contra, err := s.mod.API().IsHeaderContradictingChain(p.st.Store(), bh.Readonly())
	p.st.Discard()
	if err != nil {
		s.res.Err = err
		return -1
	}
	// cross-check (counter only; classification is C07's subject): the private oracle applied to
	// the generator's latest block among the last 3*batchSize blocks of that chain
	expect := false
	for a, i := parent, 0; a > 0 && i < 3*s.res.Batch; a, i = s.node(a).Parent, i+1 {
		if s.node(a).H.Gen == gen {
			expect = Contradicting(s.node(a).H, h)
			break
		}
	}
	if expect == contra {
		s.count("contradicting_chain_verdict_agrees_with_oracle", 1)
	} else {
		s.count("contradicting_chain_verdict_differs_from_oracle", 1)
	}
	if contra {
		s.count("blocks_rejected_contradicting_own_chain:"+who, 1)
		return -1
	}
	id := len(s.res.Nodes)
	n := &Node{ID: id, Parent: parent, H: h, Trunk: false, CommitH: commitH, Private: p.Private || s.privNext}
	if commitH > 0 {
		s.count("blocks_with_aggregate_commit", 1)
	}
	n.st = p.st.Fork(suffix(id))
	if err := n.st.Process(bh); err != nil {
		s.res.Err = fmt.Errorf("BeforeTransactionsExecute failed on node %d: %w", id, err)
		return -1
	}
	if s.o.Reference {
		n.ref = p.ref.Clone()
		if err := n.ref.Process(rh); err != nil {
			s.res.Err = err
			return -1
		}
	}
	// parameter change installed by the block at height chgAt (on every branch reaching that
	// height, so that it is a function of the height only)
	if s.chg != nil && h.Height == s.chgAt && !n.Private {
		if err := n.st.SetParams(s.chg.Pre, s.chg.Cert, s.chg.refValidators()); err != nil {
			s.res.Err = err
			return -1
		}
		_ = n.st.SetGenerators(s.chg.gens())
		n.Set = s.chg
		if n.ref != nil {
			_ = n.ref.SetParameters(s.chg.Pre, s.chg.Cert, s.chg.refValidators())
			n.ref.SetGenerators(s.chg.gens())
		}
		s.count("parameter_changes_applied", 1)
		if s.chgCertOnly && !n.Trunk {
			s.count("certificate_threshold_changes_applied_above_a_fork", 1)
		}
	}
	if s.privNext {
		// first block of the private branch: lowers the precommit threshold for its descendants
		s.privNext = false
		if err := n.st.SetParams(s.privSet.Pre, s.privSet.Cert, s.privSet.refValidators()); err != nil {
			s.res.Err = err
			return -1
		}
		n.Set = s.privSet
		if n.ref != nil {
			_ = n.ref.SetParameters(s.privSet.Pre, s.privSet.Cert, s.privSet.refValidators())
		}
		s.count("private_branch_parameter_changes", 1)
	}
	n.st.Commit()
	pv, pc, ct, err := s.mod.API().GetBFTHeights(n.st.Store())
	if err != nil {
		s.res.Err = err
		return -1
	}
	n.PV, n.PC, n.Cert = pv, pc, ct
	if ct > p.Cert {
		s.count("certified_height_raises", 1)
	}
	if n.ref != nil {
		for _, mm := range drv.Compare(s.mod.API(), n.st.Store(), n.ref, drv.CompareOpts{BelowWindow: true}) {
			s.res.RefMismatches = append(s.res.RefMismatches, RefMismatch{Node: id, Key: mm.Key, Detail: mm.Detail})
		}
	}
	n.st.Discard()
	s.res.Nodes = append(s.res.Nodes, n)
	p.Children = append(p.Children, id)
	s.count("blocks:"+who, 1)
	return id
}

// ---------------------------------------------------------------------------------------
// validators

func (s *sim) honest() []*val {
	var o []*val
	for _, v := range s.vals {
		if !v.Byz {
			o = append(o, v)
		}
	}
	return o
}

func (s *sim) byz() []*val {
	var o []*val
	for _, v := range s.vals {
		if v.Byz {
			o = append(o, v)
		}
	}
	return o
}

// deliver makes v learn a node and its ancestors and applies the fork choice.
func (s *sim) deliver(v *val, id int) {
	if id < 0 || v.known[id] {
		return
	}
	if s.node(id).Private && !v.Byz {
		return // a private Byzantine branch is never shown to an honest validator
	}
	for a := id; a >= 0 && !v.known[a]; a = s.node(a).Parent {
		v.known[a] = true
	}
	if v.Byz {
		return
	}
	if HasPriority(s.node(id).H, s.node(v.tip).H) {
		if !s.res.isAncestor(v.tip, id) {
			s.count("honest_chain_switches", 1)
		}
		v.tip = id
	}
}

// testForceDoubleForge makes "honest" validators occasionally forge on the parent of their
// tip (a protocol violation); only the package's own test sets it, to show that the
// hypothesis check notices.
var testForceDoubleForge bool

// honestForge: v extends its tip, reporting the largest height it ever generated.
func (s *sim) honestForge(v *val) int {
	if testForceDoubleForge && len(v.signed) > 0 && s.r.Intn(4) == 0 {
		if p := s.node(v.signed[len(v.signed)-1]).Parent; p >= 0 {
			v.tip = p
		}
	}
	id := s.addBlock(v.tip, v.ID, v.maxGen, "honest")
	if id < 0 {
		if !s.full() && s.res.Err == nil {
			// a validator following the protocol produced a header that nodes reject:
			// the simulation (not the code under test) is wrong, or the hypothesis fails
			s.res.Hypothesis = fmt.Sprintf("honest validator %d produced a header contradicting its chain", v.ID)
		}
		return -1
	}
	n := s.node(id)
	if n.H.Height > v.maxGen {
		v.maxGen = n.H.Height
	}
	v.signed = append(v.signed, id)
	v.known[id] = true
	v.tip = id
	return id
}

// ownLatestOn returns the height of z's latest block on the chain ending in node id (0 if none).
func (s *sim) ownLatestOn(z int, id int) uint32 {
	for a := id; a > 0; a = s.node(a).Parent {
		if s.node(a).H.Gen == z {
			return s.node(a).H.Height
		}
	}
	return 0
}

// byzForge: z extends an arbitrary parent with a maxHeightGenerated chosen by a strategy.
func (s *sim) byzForge(z *val, parent int, mode string) int {
	p := s.node(parent)
	h := p.H.Height + 1
	var mhg uint32
	switch mode {
	case "two-faced": // behaves like an honest validator that only ever saw this chain
		mhg = s.ownLatestOn(z.ID, parent)
	case "global": // honest-looking maxHeightGenerated, but forging on several tips
		mhg = z.maxGen
	case "amnesia":
		mhg = 0
	case "claims-parent":
		mhg = h - 1
	case "no-votes":
		mhg = h + uint32(s.r.Intn(2))
	default:
		mhg = p.H.Height - uint32(s.r.Intn(int(min(p.H.Height-s.res.Genesis, 6))+1))
	}
	id := s.addBlock(parent, z.ID, mhg, "byzantine")
	if id < 0 {
		return -1
	}
	s.count("byz_strategy:"+mode, 1)
	if h > z.maxGen {
		z.maxGen = h
	}
	z.signed = append(z.signed, id)
	return id
}

var byzModes = []string{"two-faced", "two-faced", "two-faced", "global", "amnesia", "claims-parent", "no-votes", "random"}

func (s *sim) randByzMode() string { return byzModes[s.r.Intn(len(byzModes))] }

// syncGroup: every honest member learns everything any member (honest or Byzantine block
// delivered to the group) knows.
func (s *sim) syncGroup(members []*val) {
	union := map[int]bool{}
	for _, m := range members {
		if m.Byz {
			continue
		}
		for id := range m.known {
			union[id] = true
		}
	}
	ids := make([]int, 0, len(union))
	for id := range union {
		ids = append(ids, id)
	}
	sort.Ints(ids)
	for _, m := range members {
		if m.Byz {
			continue
		}
		for _, id := range ids {
			s.deliver(m, id)
		}
	}
}

func (s *sim) deliverAll(members []*val, id int) {
	for _, m := range members {
		s.deliver(m, id)
	}
}

// trunk: fault-free rounds with full delivery.
func (s *sim) trunk(blocks int) {
	order := s.r.Perm(len(s.vals))
	for i := 0; i < blocks && !s.full() && s.res.Err == nil && s.res.Hypothesis == ""; i++ {
		v := s.vals[order[i%len(order)]]
		var id int
		if v.Byz {
			tip := s.honest()[0].tip
			id = s.byzForge(v, tip, "two-faced")
		} else {
			id = s.honestForge(v)
		}
		if id >= 0 {
			s.node(id).Trunk = true
			s.deliverAll(s.vals, id)
		}
	}
}

func (s *sim) ok() bool { return !s.full() && s.res.Err == nil && s.res.Hypothesis == "" }

// ---------------------------------------------------------------------------------------
// templates

// tRandom: random forging order, every block reaches every other validator after a random delay.
func (s *sim) tRandom() {
	r := s.r
	s.trunk(r.Intn(2*len(s.vals) + 1))
	steps := 40 + r.Intn(80)
	pDeliver := []float64{0.2, 0.5, 0.8}[r.Intn(3)]
	pFlush := []float64{0.05, 0.2, 0.5}[r.Intn(3)]
	for i := 0; i < steps && s.ok(); i++ {
		v := s.vals[r.Intn(len(s.vals))]
		var id int
		if v.Byz {
			var parent int
			switch r.Intn(4) {
			case 0:
				parent = r.Intn(len(s.res.Nodes))
			case 1:
				parent = max(0, len(s.res.Nodes)-1-r.Intn(6))
			default:
				h := s.honest()
				parent = h[r.Intn(len(h))].tip
			}
			id = s.byzForge(v, parent, s.randByzMode())
		} else {
			id = s.honestForge(v)
		}
		if id >= 0 {
			for _, u := range s.honest() {
				if u == v {
					continue
				}
				if r.Float64() < pDeliver {
					s.deliver(u, id)
				} else {
					s.pend[u.ID] = append(s.pend[u.ID], id)
				}
			}
		}
		for _, u := range s.honest() {
			if len(s.pend[u.ID]) > 0 && r.Float64() < pFlush {
				for _, id := range s.pend[u.ID] {
					s.deliver(u, id)
				}
				s.pend[u.ID] = nil
			}
		}
	}
	s.heal(len(s.vals) + r.Intn(2*len(s.vals)))
}

// heal: everything is delivered to everyone, then fault-free rounds.
func (s *sim) heal(blocks int) {
	for _, u := range s.honest() {
		for id := range s.res.Nodes {
			s.deliver(u, id)
		}
	}
	order := s.r.Perm(len(s.vals))
	for i := 0; i < blocks && s.ok(); i++ {
		v := s.vals[order[i%len(order)]]
		var id int
		if v.Byz {
			id = s.byzForge(v, s.honest()[s.r.Intn(len(s.honest()))].tip, "two-faced")
		} else {
			id = s.honestForge(v)
		}
		if id >= 0 {
			s.deliverAll(s.honest(), id)
		}
	}
}

// tSplit: split brain with equivocators.  The honest validators are partitioned into groups;
// Byzantine validators forge on every group's tip; validators may migrate between groups;
// the partition heals at the end (possibly after a second split).
func (s *sim) tSplit() {
	r := s.r
	s.trunk(r.Intn(2*len(s.vals) + 2))
	episodes := 1 + r.Intn(2)
	for e := 0; e < episodes && s.ok(); e++ {
		ng := 2
		if len(s.honest()) >= 4 && r.Intn(4) == 0 {
			ng = 3
		}
		hs := s.honest()
		r.Shuffle(len(hs), func(i, j int) { hs[i], hs[j] = hs[j], hs[i] })
		// group sizes: random cut points
		for i, v := range hs {
			v.group = i % ng
			if r.Intn(3) == 0 {
				v.group = r.Intn(ng)
			}
		}
		rounds := 1 + r.Intn(4)
		if s.res.Template == "long-split" {
			rounds = 3*s.res.Batch/max(1, len(s.vals)/ng) + 2 + r.Intn(4)
		}
		byzMode := s.randByzMode()
		if r.Intn(2) == 0 {
			byzMode = "two-faced"
		}
		pMigrate := []float64{0, 0, 0.05, 0.2}[r.Intn(4)]
		for rd := 0; rd < rounds && s.ok(); rd++ {
			for _, i := range r.Perm(len(s.vals)) {
				v := s.vals[i]
				if !s.ok() {
					break
				}
				if v.Byz {
					// equivocate: one block per group, on the tip of a member
					for g := 0; g < ng; g++ {
						members := s.group(g)
						if len(members) == 0 || r.Intn(6) == 0 {
							continue
						}
						mode := byzMode
						if r.Intn(5) == 0 {
							mode = s.randByzMode()
						}
						id := s.byzForge(v, members[r.Intn(len(members))].tip, mode)
						if id >= 0 {
							s.deliverAll(members, id)
						}
					}
					continue
				}
				if r.Intn(8) == 0 {
					continue // misses its slot
				}
				if r.Float64() < pMigrate {
					// moves to another partition: learns what that group knows
					v.group = r.Intn(ng)
					s.syncGroup(append(s.group(v.group), v))
					s.count("migrations", 1)
				}
				id := s.honestForge(v)
				if id >= 0 {
					s.deliverAll(s.group(v.group), id)
				}
			}
		}
		s.heal(r.Intn(2*len(s.vals) + 1))
	}
	s.heal(len(s.vals) + r.Intn(2*len(s.vals)+1))
}

func (s *sim) group(g int) []*val {
	var o []*val
	for _, v := range s.vals {
		if !v.Byz && v.group == g {
			o = append(o, v)
		}
	}
	return o
}

// tLone: "lone finisher".  After the trunk a few validators extend one branch with chain
// delivery (each sees only up to the block it builds on); a small subset S keeps extending it
// alone; meanwhile a second, longer branch is built from the fork point by Byzantine
// validators (or by an honest validator that has seen nothing of the first branch); the
// validators outside S adopt whatever the fork choice tells them and continue together; then
// everything heals.  Premature finality on the first branch (double-counted or unjustified
// precommits) shows up as a conflict with what the second branch finalizes.
func (s *sim) tLone() {
	r := s.r
	s.trunk(r.Intn(2*len(s.vals) + 2))
	if !s.ok() {
		return
	}
	fork := s.honest()[0].tip
	hs := s.honest()
	r.Shuffle(len(hs), func(i, j int) { hs[i], hs[j] = hs[j], hs[i] })
	// a possible honest builder of the second branch is kept away from the first branch
	var outsider *val
	if len(s.byz()) == 0 || r.Intn(3) == 0 {
		outsider = hs[len(hs)-1]
		hs = hs[:len(hs)-1]
	}
	// phase 2: chain delivery
	k := 1 + r.Intn(2*len(hs)+2)
	last := -1
	for i := 0; i < k && s.ok(); i++ {
		v := hs[i%len(hs)]
		if r.Intn(5) == 0 {
			v = hs[r.Intn(len(hs))]
		}
		s.deliver(v, last)
		if id := s.honestForge(v); id >= 0 {
			last = id
		}
	}
	// phase 3: subset S continues alone
	nS := 1 + r.Intn(2)
	if nS > len(hs) {
		nS = len(hs)
	}
	S := hs[:nS]
	m := r.Intn(4*len(s.vals) + 2)
	for i := 0; i < m && s.ok(); i++ {
		v := S[i%len(S)]
		s.deliver(v, last)
		if id := s.honestForge(v); id >= 0 {
			last = id
		}
	}
	// phase 4: the second branch
	back := 0
	if len(s.byz()) > 0 {
		back = r.Intn(3)
	}
	alt := fork
	for i := 0; i < back && s.node(alt).Parent >= 0; i++ {
		alt = s.node(alt).Parent
	}
	maxTipH := uint32(0)
	for _, v := range hs[nS:] {
		if h := s.node(v.tip).H.Height; h > maxTipH {
			maxTipH = h
		}
	}
	want := int(maxTipH) - int(s.node(alt).H.Height) + 1 + r.Intn(3)
	if r.Intn(4) == 0 {
		want = 1 + r.Intn(4)
	}
	builders := s.byz()
	altTip := alt
	for i := 0; i < want && s.ok(); i++ {
		var id int
		if outsider != nil && (len(builders) == 0 || r.Intn(2) == 0) && s.res.isAncestor(altTip, outsider.tip) || outsider != nil && outsider.tip == altTip {
			id = s.honestForge(outsider)
		} else if len(builders) > 0 {
			id = s.byzForge(builders[r.Intn(len(builders))], altTip, "two-faced")
		} else {
			break
		}
		if id < 0 {
			break
		}
		altTip = id
		if outsider != nil {
			s.deliver(outsider, id)
		}
	}
	// phase 5: the others adopt (or not) and continue together with the builders
	others := append([]*val(nil), hs[nS:]...)
	if outsider != nil {
		others = append(others, outsider)
	}
	for _, v := range others {
		s.deliver(v, altTip)
	}
	rounds := 1 + r.Intn(4)
	everyone := append(append([]*val(nil), others...), builders...)
	for rd := 0; rd < rounds && s.ok(); rd++ {
		for _, i := range r.Perm(len(everyone)) {
			v := everyone[i]
			if !s.ok() {
				break
			}
			var id int
			if v.Byz {
				if len(others) == 0 {
					continue
				}
				id = s.byzForge(v, others[r.Intn(len(others))].tip, "two-faced")
			} else {
				id = s.honestForge(v)
			}
			if id >= 0 {
				s.deliverAll(others, id)
			}
		}
		// S may keep going on its own branch meanwhile
		if r.Intn(2) == 0 {
			v := S[r.Intn(len(S))]
			s.deliver(v, last)
			if id := s.honestForge(v); id >= 0 {
				last = id
			}
		}
	}
	s.heal(len(s.vals) + r.Intn(2*len(s.vals)+1))
}

// tVoteAndLeave: validators prevote a block on one branch and leave before they learn that
// their own block completed the quorum (stale tips); one or two "stayers" remain and
// precommit; the leavers join a longer branch built meanwhile by validators that never saw the
// first branch, help it to quorums and finality; later some of the builders / leavers are shown
// the first branch again and return to it whenever the fork choice allows.  A validator
// returning to a branch must not precommit blocks at or below the height up to which it was
// forging elsewhere (heightNotPrevoted); with a lowered precommit threshold a single such
// precommit can complete finality of a block conflicting with what the other branch finalized.
func (s *sim) tVoteAndLeave() {
	r := s.r
	s.trunk(r.Intn(2*len(s.vals) + 2))
	if !s.ok() {
		return
	}
	fork := s.honest()[0].tip
	hs := s.honest()
	if len(hs) < 3 {
		s.tLone()
		return
	}
	r.Shuffle(len(hs), func(i, j int) { hs[i], hs[j] = hs[j], hs[i] })
	nD := 1
	if len(hs) >= 5 && r.Intn(3) == 0 {
		nD = 2
	}
	D := hs[:nD] // builders of the other branch: see nothing of the first branch at first
	P := hs[nD:]
	byz := s.byz()
	// first branch: chain delivery among P (and, two-faced, the Byzantine validators)
	k := len(P) - 1 + r.Intn(len(P)+2)
	lastA := fork
	order := r.Perm(len(P))
	for i := 0; i < k && s.ok(); i++ {
		v := P[order[i%len(P)]]
		if len(byz) > 0 && r.Intn(len(P)+1) == 0 {
			if id := s.byzForge(byz[r.Intn(len(byz))], lastA, "two-faced"); id >= 0 {
				lastA = id
			}
			continue
		}
		s.deliver(v, lastA)
		if id := s.honestForge(v); id >= 0 {
			lastA = id
		}
	}
	// stayers
	nS := 1 + r.Intn(2)
	if nS >= len(P) {
		nS = 1
	}
	var S, L []*val
	for i, idx := range r.Perm(len(P)) {
		if i < nS {
			S = append(S, P[idx])
		} else {
			L = append(L, P[idx])
		}
	}
	extendA := func(n int) {
		for i := 0; i < n && s.ok(); i++ {
			v := S[r.Intn(len(S))]
			s.deliver(v, lastA)
			if id := s.honestForge(v); id >= 0 {
				lastA = id
				s.deliverAll(S, id)
			}
		}
	}
	extendA(r.Intn(4))
	// the other branch
	var maxTip uint32
	for _, v := range L {
		if h := s.node(v.tip).H.Height; h > maxTip {
			maxTip = h
		}
	}
	want := int(maxTip) - int(s.node(fork).H.Height) + 1 + r.Intn(2)
	lastB := fork
	for i := 0; i < want && s.ok(); i++ {
		var id int
		if len(byz) > 0 && r.Intn(3) == 0 {
			id = s.byzForge(byz[r.Intn(len(byz))], lastB, "two-faced")
		} else {
			v := D[i%len(D)]
			s.deliver(v, lastB)
			id = s.honestForge(v)
		}
		if id >= 0 {
			lastB = id
		}
	}
	for _, v := range D {
		s.deliver(v, lastB)
	}
	// leavers adopt the longer branch and work on it with the builders
	for _, v := range L {
		s.deliver(v, lastB)
	}
	campB := append(append([]*val(nil), L...), D...)
	stale := r.Intn(2) == 0 // chain delivery (tips stay stale) or full delivery inside the camp
	rounds := 1 + r.Intn(3)
	for rd := 0; rd < rounds && s.ok(); rd++ {
		seq := append(append([]*val(nil), campB...), byz...)
		r.Shuffle(len(seq), func(i, j int) { seq[i], seq[j] = seq[j], seq[i] })
		for _, v := range seq {
			if !s.ok() {
				break
			}
			var id int
			if v.Byz {
				id = s.byzForge(v, lastB, "two-faced")
			} else {
				if stale {
					s.deliver(v, lastB)
				}
				id = s.honestForge(v)
			}
			if id >= 0 {
				if s.res.isAncestor(lastB, id) {
					lastB = id
				}
				if !stale {
					s.deliverAll(campB, id)
				}
			}
		}
		if r.Intn(2) == 0 {
			extendA(1 + r.Intn(2))
		}
	}
	// return: the first branch grows beyond what the returnees generated, then it is shown to them
	var maxGen uint32
	cands := append(append([]*val(nil), D...), L...)
	for _, v := range cands {
		if v.maxGen > maxGen {
			maxGen = v.maxGen
		}
	}
	need := int(maxGen) - int(s.node(lastA).H.Height) + r.Intn(3)
	if need > 0 {
		extendA(need)
	}
	nR := 1 + r.Intn(len(cands))
	var R []*val
	for _, idx := range r.Perm(len(cands))[:nR] {
		R = append(R, cands[idx])
	}
	for _, v := range R {
		s.deliver(v, lastA)
	}
	for rd := 0; rd < 1+r.Intn(3) && s.ok(); rd++ {
		for _, v := range R {
			if !s.ok() {
				break
			}
			if id := s.honestForge(v); id >= 0 {
				if s.res.isAncestor(lastA, id) {
					lastA = id
					s.deliverAll(S, id)
					s.deliverAll(R, id)
				}
			}
		}
		for _, z := range byz {
			if id := s.byzForge(z, lastA, "two-faced"); id >= 0 {
				lastA = id
				s.deliverAll(S, id)
				s.deliverAll(R, id)
			}
		}
		extendA(r.Intn(2))
		// the rest of the other camp keeps going
		for _, v := range campB {
			if !s.ok() {
				break
			}
			if s.res.isAncestor(fork, v.tip) && !s.res.isAncestor(v.tip, lastA) && r.Intn(2) == 0 {
				if id := s.honestForge(v); id >= 0 {
					for _, u := range campB {
						if !containsVal(R, u) {
							s.deliver(u, id)
						}
					}
				}
			}
		}
	}
	s.heal(len(s.vals) + r.Intn(2*len(s.vals)+1))
}

func containsVal(vs []*val, x *val) bool {
	for _, v := range vs {
		if v == x {
			return true
		}
	}
	return false
}

// ---------------------------------------------------------------------------------------
// verdicts

func (s *sim) finish() {
	res := s.res
	for _, n := range res.Nodes {
		n.st = nil
	}
	if res.Err != nil {
		return
	}
	// hypothesis: every pair of headers signed by a non-Byzantine validator is non-contradicting
	for _, v := range s.vals {
		if v.Byz {
			continue
		}
		for i := 0; i < len(v.signed) && res.Hypothesis == ""; i++ {
			for j := i + 1; j < len(v.signed); j++ {
				a, b := s.node(v.signed[i]).H, s.node(v.signed[j]).H
				c1, c2 := Contradicting(a, b), ContradictingDecl(a, b)
				if c1 != c2 {
					s.count("oracle_forms_disagree", 1)
				}
				if c1 || c2 {
					res.Hypothesis = fmt.Sprintf("honest validator %d signed contradicting headers %+v and %+v", v.ID, a, b)
					break
				}
			}
		}
		s.count("honest_header_pairs_checked", len(v.signed)*(len(v.signed)-1)/2)
	}
	// Byzantine weight below one third in every parameter set in force
	for _, ps := range []*ParamSet{res.Initial, s.chg, s.privSet} {
		if ps == nil {
			continue
		}
		var bw uint64
		for _, v := range ps.Vals {
			if v.Byz {
				bw += v.W
			}
		}
		if 3*bw >= ps.total() {
			res.Hypothesis = "Byzantine weight not below one third"
		}
	}
	// a private branch is built by Byzantine validators only
	byzID := map[int]bool{}
	for _, v := range s.vals {
		byzID[v.ID] = v.Byz
	}
	for _, n := range res.Nodes {
		if n.Private {
			s.count("private_branch_blocks", 1)
			if !byzID[n.H.Gen] {
				res.Hypothesis = fmt.Sprintf("honest validator %d generated block %d of the private branch", n.H.Gen, n.ID)
			}
		}
	}
	// FamRaised is judged only if no fork exists at or below the height of the change, and the
	// change was installed
	if s.raised && res.Judged {
		perHeight := map[uint32]int{}
		installed := false
		for _, n := range res.Nodes {
			if n.H.Height <= s.chgAt {
				perHeight[n.H.Height]++
			}
			if n.Set == s.chg && n.ID != 0 {
				installed = true
			}
		}
		for _, c := range perHeight {
			if c > 1 {
				installed = false
			}
		}
		if !installed {
			res.Judged = false
			res.Family = "unjudged:fork-at-or-below-the-threshold-raise"
		}
	}
	// a parameter change above a fork point is outside the judged families
	if s.chg != nil && !s.chgCertOnly {
		for _, n := range res.Nodes {
			if n.Set != nil && n.ID != 0 && !n.Trunk && res.Judged {
				res.Judged = false
				res.Family = "unjudged:validator-change-above-fork"
			}
		}
	}
	// shape
	for _, n := range res.Nodes {
		if len(n.Children) >= 2 {
			res.Forks++
		}
		if d := int(n.H.Height - res.Genesis); d > res.MaxDepth {
			res.MaxDepth = d
		}
	}
	// subtree maxima of the finalized height
	maxPC := make([]uint32, len(res.Nodes))
	depthBelow := make([]int, len(res.Nodes))
	for i := len(res.Nodes) - 1; i >= 0; i-- {
		n := res.Nodes[i]
		if n.PC > maxPC[i] {
			maxPC[i] = n.PC
		}
		if n.Parent >= 0 {
			if maxPC[i] > maxPC[n.Parent] {
				maxPC[n.Parent] = maxPC[i]
			}
			if depthBelow[i]+1 > depthBelow[n.Parent] {
				depthBelow[n.Parent] = depthBelow[i] + 1
			}
		}
	}
	for _, n := range res.Nodes {
		if len(n.Children) < 2 {
			continue
		}
		prog, long := 0, 0
		for _, c := range n.Children {
			if maxPC[c] > n.PC {
				prog++
			}
			if depthBelow[c]+1 > 3*res.Batch {
				long++
			}
		}
		if prog >= 2 {
			res.BothBranchesProgress = true
		}
		if long >= 2 {
			res.BranchBeyondWindow = true
		}
	}
	// finality safety: the finalized tips of all views must lie on one chain
	type fin struct{ view, block int }
	seen := map[int]int{}
	var fins []fin
	var pvs []fin
	seenPV := map[int]bool{}
	for _, n := range res.Nodes {
		if n.PC > n.H.Height || n.PC < res.Genesis {
			res.Err = fmt.Errorf("node %d reports precommitted height %d outside [genesis, own height %d]", n.ID, n.PC, n.H.Height)
			return
		}
		b := res.Ancestor(n.ID, n.PC)
		if _, ok := seen[b]; !ok {
			seen[b] = n.ID
			fins = append(fins, fin{n.ID, b})
		}
		if n.PV <= n.H.Height {
			pb := res.Ancestor(n.ID, n.PV)
			if !seenPV[pb] {
				seenPV[pb] = true
				pvs = append(pvs, fin{n.ID, pb})
			}
		}
	}
	s.count("distinct_finalized_blocks", len(fins))
	for i := 0; i < len(fins) && res.Conflict == nil; i++ {
		for j := i + 1; j < len(fins); j++ {
			x, y := fins[i].block, fins[j].block
			if res.isAncestor(x, y) || res.isAncestor(y, x) {
				continue
			}
			// lowest height at which the two views differ
			hx, hy := res.Nodes[x].H.Height, res.Nodes[y].H.Height
			h := min(hx, hy)
			for h > res.Genesis && res.Ancestor(x, h-1) != res.Ancestor(y, h-1) {
				h--
			}
			res.Conflict = &Conflict{A: fins[i].view, B: fins[j].view, Height: h, BlockA: res.Ancestor(x, h), BlockB: res.Ancestor(y, h),
				FinalizedA: hx, FinalizedB: hy, CommonBlock: res.Ancestor(x, h-1)}
			break
		}
	}
	for i := 0; i < len(pvs) && !res.ConflictingPrevoted; i++ {
		for j := i + 1; j < len(pvs); j++ {
			x, y := pvs[i].block, pvs[j].block
			if !res.isAncestor(x, y) && !res.isAncestor(y, x) {
				res.ConflictingPrevoted = true
				break
			}
		}
	}
}

// Describe returns a JSON-able description of the scenario.
func (res *Result) Describe() map[string]any {
	return map[string]any{"template": res.Template, "family": res.Family, "validators": res.Initial, "batchSize": res.Batch, "genesisHeight": res.Genesis, "nodes": len(res.Nodes), "forks": res.Forks}
}
