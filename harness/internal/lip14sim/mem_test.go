//go:build verif

package lip14sim

import (
	"math/rand"
	"os"
	"runtime"
	"strings"
	"testing"
)

func rss() string {
	b, _ := os.ReadFile("/proc/self/status")
	for _, l := range strings.Split(string(b), "\n") {
		if strings.HasPrefix(l, "VmRSS") {
			return l
		}
	}
	return ""
}

func TestMem(t *testing.T) {
	if os.Getenv("MEMPROBE") == "" {
		t.Skip()
	}
	for i := 0; i < 1200; i++ {
		Run(rand.New(rand.NewSource(int64(i))), Options{Thorough: true})
		if i%200 == 0 {
			runtime.GC()
			var m runtime.MemStats
			runtime.ReadMemStats(&m)
			t.Logf("i=%d heapInuse=%dMB sys=%dMB goroutines=%d %s", i, m.HeapInuse>>20, m.Sys>>20, runtime.NumGoroutine(), rss())
		}
	}
}
