// Package p2pnet holds what the C17 and C18 workers share: a recording logger, in-process
// lisk-engine p2p connections on distinct loopback addresses, and a global logical clock.
package p2pnet

import (
	"context"
	"fmt"
	"strings"
	"sync"
	"sync/atomic"
	"time"

	"github.com/libp2p/go-libp2p/core/network"
	ma "github.com/multiformats/go-multiaddr"

	"github.com/LiskHQ/lisk-engine/pkg/log"
	"github.com/LiskHQ/lisk-engine/pkg/p2p"
)

// Clock is a process-wide logical clock: Tick() values are totally ordered and consistent
// with real time (atomic fetch-add), which is all the oracles ever use for ordering.
var clock atomic.Int64

func Tick() int64 { return clock.Add(1) }

// LogEvent is one classified log line.
type LogEvent struct {
	Seq   int64
	Class string // unknown-id | dup-response | banpeer-error | ratelimit-error | respond-error | decode-error | unregistered | other-error
	Arg   string
}

// RecLogger implements log.Logger; it prints nothing, classifies the few messages the
// monitors care about and hands them to OnEvent (called synchronously on the logging
// goroutine - for "unknown-id" that goroutine holds MessageProtocol.resMu).
type RecLogger struct {
	Name    string
	OnEvent func(ev LogEvent)
	mu      sync.Mutex
	counts  map[string]int
}

func NewRecLogger(name string, on func(ev LogEvent)) *RecLogger {
	return &RecLogger{Name: name, OnEvent: on, counts: map[string]int{}}
}

func (l *RecLogger) classify(msg string, others []interface{}) {
	cls := ""
	switch {
	case strings.HasPrefix(msg, "Response message received for unknown request ID"):
		cls = "unknown-id"
	case strings.HasPrefix(msg, "Response message received more than once"):
		cls = "dup-response"
	case strings.HasPrefix(msg, "banPeer error"):
		cls = "banpeer-error"
	case strings.HasPrefix(msg, "Rate limit error"):
		cls = "ratelimit-error"
	case strings.HasPrefix(msg, "Error sending response message"):
		cls = "respond-error"
	case strings.HasPrefix(msg, "Error while decoding message"):
		cls = "decode-error"
	case strings.HasPrefix(msg, "rpcHandler") && strings.Contains(msg, "not registered"):
		cls = "unregistered"
	case strings.HasPrefix(msg, "Failed to ban peer"), strings.HasPrefix(msg, "Failed to apply penalty"):
		cls = "penalty-error"
	case strings.HasPrefix(msg, "Error onRequest"), strings.HasPrefix(msg, "Error onResponse"):
		cls = "stream-read-error"
	default:
		return
	}
	arg := ""
	if len(others) > 0 {
		arg = fmt.Sprint(others[0])
	}
	l.mu.Lock()
	l.counts[cls]++
	l.mu.Unlock()
	if l.OnEvent != nil {
		l.OnEvent(LogEvent{Seq: Tick(), Class: cls, Arg: arg})
	}
}

// Counts returns a copy of the per-class counters.
func (l *RecLogger) Counts() map[string]int {
	l.mu.Lock()
	defer l.mu.Unlock()
	out := make(map[string]int, len(l.counts))
	for k, v := range l.counts {
		out[k] = v
	}
	return out
}

func (l *RecLogger) Count(cls string) int {
	l.mu.Lock()
	defer l.mu.Unlock()
	return l.counts[cls]
}

func (l *RecLogger) Debug(msg string, others ...interface{})    {}
func (l *RecLogger) Info(msg string, others ...interface{})     {}
func (l *RecLogger) Error(msg string, others ...interface{})    { l.classify(msg, others) }
func (l *RecLogger) Debugf(msg string, others ...interface{})   {}
func (l *RecLogger) Infof(msg string, others ...interface{})    {}
func (l *RecLogger) Errorf(msg string, others ...interface{})   { l.classify(msg, others) }
func (l *RecLogger) Warning(msg string, others ...interface{})  { l.classify(msg, others) }
func (l *RecLogger) Warningf(msg string, others ...interface{}) { l.classify(msg, others) }
func (l *RecLogger) With(kv ...interface{}) log.Logger          { return l }

// ChainID / Version used by all harness nodes.
var ChainID = []byte{0x0c, 0x17, 0x0c, 0x18}

const Version = "2.0"

// Node is one started lisk-engine p2p connection on a loopback address.
type Node struct {
	IP     string
	Conn   *p2p.ExtendedConnection
	Logger *RecLogger
}

// NodeOptions configure a node before Start.
type NodeOptions struct {
	IP        string
	Seed      string
	Blacklist []string
	OnLog     func(ev LogEvent)
	// QUIC: also listen on /ip4/<IP>/udp/0/quic-v1
	QUIC bool
	// Setup runs before Start (register handlers, tune hooks).
	Setup func(c *p2p.ExtendedConnection)
}

// StartNode creates and starts a connection listening on /ip4/<IP>/tcp/0.
func StartNode(o NodeOptions) (*Node, error) {
	lg := NewRecLogger(o.IP, o.OnLog)
	cfg := &p2p.Config{
		Addresses:          []string{"/ip4/" + o.IP + "/tcp/0"},
		ChainID:            ChainID,
		Version:            Version,
		BlacklistedIPs:     o.Blacklist,
		ConnectionSecurity: "noise",
	}
	if o.QUIC {
		cfg.Addresses = append(cfg.Addresses, "/ip4/"+o.IP+"/udp/0/quic-v1")
	}
	c := p2p.NewExtendedConnection(lg, cfg)
	if o.Setup != nil {
		o.Setup(c)
	}
	seed := o.Seed
	if seed == "" {
		seed = "verif-node-" + o.IP
	}
	if err := c.Start([]byte(seed)); err != nil {
		return nil, err
	}
	return &Node{IP: o.IP, Conn: c, Logger: lg}, nil
}

func (n *Node) ID() p2p.PeerID { return n.Conn.ID() }

// ConnectTo dials other (clearing the swarm's dial back-off first).
func (n *Node) ConnectTo(ctx context.Context, other *Node) error {
	n.Conn.SwarmClear(other.ID())
	return n.Conn.Connect(ctx, *other.Conn.Info())
}

// Connected reports whether n currently has an open connection to other.
func (n *Node) Connected(other *Node) bool {
	return n.Conn.VerifPeer().VerifHost().Network().Connectedness(other.ID()) == network.Connected
}

func (n *Node) Stop() { _ = n.Conn.Stop() }

// DoubleConnect makes a dial b over b's QUIC address while b dials a over a's TCP address at the same
// moment, until each sees two connections to the other (one peer, two transports, two different
// remote addresses); false if that did not work out within the given number of rounds (then the
// two are left disconnected).
func DoubleConnect(a, b *Node, rounds int) bool {
	only := func(n *Node, proto int) *p2p.AddrInfo {
		for _, ad := range n.Conn.VerifPeer().VerifHost().Addrs() {
			if _, err := ad.ValueForProtocol(proto); err == nil {
				return &p2p.AddrInfo{ID: n.ID(), Addrs: []ma.Multiaddr{ad}}
			}
		}
		return nil
	}
	bQUIC, aTCP := only(b, ma.P_QUIC_V1), only(a, ma.P_TCP)
	if bQUIC == nil || aTCP == nil {
		return false
	}
	conns := func(x, y *Node) int { return len(x.Conn.VerifPeer().VerifHost().Network().ConnsToPeer(y.ID())) }
	wait := func(d time.Duration, cond func() bool) bool {
		end := time.Now().Add(d)
		for time.Now().Before(end) {
			if cond() {
				return true
			}
			time.Sleep(20 * time.Millisecond)
		}
		return cond()
	}
	for i := 0; i < rounds; i++ {
		var wg sync.WaitGroup
		start := make(chan struct{})
		wg.Add(2)
		go func() {
			defer wg.Done()
			<-start
			ctx, cancel := context.WithTimeout(context.Background(), 5*time.Second)
			defer cancel()
			a.Conn.SwarmClear(b.ID())
			_ = a.Conn.Connect(ctx, *bQUIC)
		}()
		go func() {
			defer wg.Done()
			<-start
			ctx, cancel := context.WithTimeout(context.Background(), 5*time.Second)
			defer cancel()
			b.Conn.SwarmClear(a.ID())
			_ = b.Conn.Connect(ctx, *aTCP)
		}()
		close(start)
		wg.Wait()
		if wait(500*time.Millisecond, func() bool { return conns(a, b) >= 2 && conns(b, a) >= 2 }) {
			return true
		}
		_ = a.Conn.Disconnect(b.ID())
		_ = b.Conn.Disconnect(a.ID())
		wait(2*time.Second, func() bool { return conns(a, b) == 0 && conns(b, a) == 0 })
	}
	return false
}

// CMA is a network.ConnMultiaddrs for driving Intercept* directly.
type CMA struct{ Local, Remote ma.Multiaddr }

func (c CMA) LocalMultiaddr() ma.Multiaddr  { return c.Local }
func (c CMA) RemoteMultiaddr() ma.Multiaddr { return c.Remote }
