// Package node is the node-in-a-process of the verification harness: a real
// blockchain.Chain + consensus.Executer over a real pebble DB on an in-memory file system,
// a scripted application (abi.go), deterministic validator keys and a block factory.
package node

import (
	"bytes"
	"context"
	"crypto/sha256"
	"fmt"
	"sort"
	"sync"
	"time"

	"github.com/cockroachdb/pebble"
	"github.com/cockroachdb/pebble/vfs"

	"github.com/LiskHQ/lisk-engine/pkg/blockchain"
	"github.com/LiskHQ/lisk-engine/pkg/consensus"
	"github.com/LiskHQ/lisk-engine/pkg/consensus/validator"
	"github.com/LiskHQ/lisk-engine/pkg/crypto"
	"github.com/LiskHQ/lisk-engine/pkg/db"
	"github.com/LiskHQ/lisk-engine/pkg/log"
	"github.com/LiskHQ/lisk-engine/pkg/p2p"
)

// one small block cache for every DB of the process (pebble allocates 8 MB per DB otherwise,
// which the leaked iterators of db.IterateRange keep alive after Close)
var sharedCache = pebble.NewCache(8 << 20)

// Validator is one member of the key universe.
type Validator struct {
	Index   int
	EdPub   []byte
	EdPriv  []byte
	Address []byte
	BLS     *crypto.BLSKeyPair
}

var (
	universeMu    sync.Mutex
	universeCache = map[int]*Validator{}
)

// Universe returns n deterministic validators (keys derived from the index only).
func Universe(n int) []*Validator {
	universeMu.Lock()
	defer universeMu.Unlock()
	out := make([]*Validator, n)
	for i := 0; i < n; i++ {
		v, ok := universeCache[i]
		if !ok {
			pub, priv, err := crypto.GetKeys(fmt.Sprintf("verif validator %d", i))
			if err != nil {
				panic(err)
			}
			seed := sha256.Sum256([]byte(fmt.Sprintf("verif bls key %d", i)))
			v = &Validator{Index: i, EdPub: pub, EdPriv: priv, Address: crypto.GetAddress(pub), BLS: crypto.BLSKeyGen(seed[:])}
			universeCache[i] = v
		}
		out[i] = v
	}
	return out
}

// ---------------------------------------------------------------------------------------
// capturing logger

type Logger struct {
	mu     *sync.Mutex
	Errors *[]string
	Warns  *[]string
}

func NewLogger() *Logger {
	return &Logger{mu: &sync.Mutex{}, Errors: &[]string{}, Warns: &[]string{}}
}

func (l *Logger) add(dst *[]string, msg string, others ...interface{}) {
	l.mu.Lock()
	defer l.mu.Unlock()
	if len(*dst) < 2000 {
		*dst = append(*dst, fmt.Sprint(append([]interface{}{msg}, others...)...))
	}
}
func (l *Logger) addf(dst *[]string, msg string, others ...interface{}) {
	l.mu.Lock()
	defer l.mu.Unlock()
	if len(*dst) < 2000 {
		*dst = append(*dst, fmt.Sprintf(msg, others...))
	}
}
func (l *Logger) Debug(msg string, others ...interface{})    {}
func (l *Logger) Info(msg string, others ...interface{})     {}
func (l *Logger) Error(msg string, others ...interface{})    { l.add(l.Errors, msg, others...) }
func (l *Logger) Debugf(msg string, others ...interface{})   {}
func (l *Logger) Infof(msg string, others ...interface{})    {}
func (l *Logger) Errorf(msg string, others ...interface{})   { l.addf(l.Errors, msg, others...) }
func (l *Logger) Warning(msg string, others ...interface{})  { l.add(l.Warns, msg, others...) }
func (l *Logger) Warningf(msg string, others ...interface{}) { l.addf(l.Warns, msg, others...) }
func (l *Logger) With(kv ...interface{}) log.Logger          { return l }
func (l *Logger) TakeErrors() []string {
	l.mu.Lock()
	defer l.mu.Unlock()
	x := *l.Errors
	*l.Errors = nil
	return x
}
func (l *Logger) TakeWarnings() []string {
	l.mu.Lock()
	defer l.mu.Unlock()
	x := *l.Warns
	*l.Warns = nil
	return x
}

// ---------------------------------------------------------------------------------------

type Config struct {
	Universe  int          // size of the key universe (>= members of any ParamChange)
	Genesis   *ParamChange // genesis validator set
	BatchSize int
	BlockTime uint32
	// GenesisAge: genesis timestamp = now - GenesisAge seconds (default 1e6 block times).
	GenesisAge           uint32
	GenesisTimestamp     uint32 // overrides GenesisAge when non-zero
	MaxBlockCache        int
	KeepEventsForHeights int
	// MaxTransactionsLength: payload limit of a block (default 15 KiB).
	MaxTransactionsLength uint32
	ChainID               []byte
	FS                    vfs.FS // default: fresh vfs.NewMem()
	PebbleOpts            *pebble.Options
	// P2PAddresses: when non-nil the connection is started on these listen addresses.
	P2PAddresses []string
	P2PSeed      []byte
}

// EqualGenesis returns a genesis set of n validators with equal weight 1 and thresholds
// floor(2n/3)+1.
func EqualGenesis(n int) *ParamChange {
	pc := &ParamChange{}
	for i := 0; i < n; i++ {
		pc.Members = append(pc.Members, i)
		pc.Weights = append(pc.Weights, 1)
	}
	pc.Precommit = uint64(2*n/3 + 1)
	pc.Cert = uint64(2*n/3 + 1)
	return pc
}

type Recorded struct {
	Topic string
	Msg   interface{}
}

type Node struct {
	Cfg      Config
	Universe []*Validator
	ABI      *ABI
	FS       vfs.FS
	DB       *db.DB
	Chain    *blockchain.Chain
	Exec     *consensus.Executer
	Conn     *p2p.Connection
	Log      *Logger
	Genesis  *blockchain.Block
	Slot     *validator.BlockSlot
	ctx      context.Context
	cancel   context.CancelFunc

	evMu   sync.Mutex
	events []Recorded
	subWG  sync.WaitGroup
	// GenHist: per validator address, the largest height it has generated (factory bookkeeping).
	GenHist map[string]uint32
}

var Topics = []string{consensus.EventBlockNew, consensus.EventBlockDelete, consensus.EventBlockFinalize, consensus.EventValidatorsChange}

type fence struct{}

func (c *Config) defaults() {
	if c.BatchSize == 0 {
		c.BatchSize = len(c.Genesis.Members)
	}
	if c.MaxTransactionsLength == 0 {
		c.MaxTransactionsLength = 15 * 1024
	}
	if c.BlockTime == 0 {
		c.BlockTime = 10
	}
	if c.MaxBlockCache == 0 {
		c.MaxBlockCache = 515
	}
	if c.ChainID == nil {
		c.ChainID = []byte{0, 0, 0, 9}
	}
	if c.GenesisTimestamp == 0 {
		age := c.GenesisAge
		if age == 0 {
			age = 1000000 * c.BlockTime
		}
		c.GenesisTimestamp = uint32(time.Now().Unix()) - age
	}
	if c.Universe < len(c.Genesis.Members) {
		c.Universe = len(c.Genesis.Members)
	}
	for _, m := range c.Genesis.Members {
		if m >= c.Universe {
			c.Universe = m + 1
		}
	}
}

// BuildGenesis builds the genesis block for a configuration.
func BuildGenesis(cfg *Config, universe []*Validator) *blockchain.Block {
	g := blockchain.NewGenesisBlock(0, cfg.GenesisTimestamp, bytes.Repeat([]byte{0}, 32), blockchain.BlockAssets{})
	hv := []validator.HashValidator{}
	for i, m := range cfg.Genesis.Members {
		if cfg.Genesis.Weights[i] > 0 {
			hv = append(hv, validator.NewHashValidator(universe[m].BLS.PublicKey, cfg.Genesis.Weights[i]))
		}
	}
	vh, err := validator.ComputeValidatorsHash(hv, cfg.Genesis.Cert)
	if err != nil {
		panic(err)
	}
	g.Header.ValidatorsHash = vh
	g.Header.StateRoot = GenesisRoot()
	er, err := blockchain.CalculateEventRoot([]*blockchain.Event{})
	if err != nil {
		panic(err)
	}
	g.Header.EventRoot = er
	g.Init()
	return g
}

// New creates and initialises a node (genesis applied).
func New(cfg Config) (*Node, error) {
	cfg.defaults()
	n := &Node{Cfg: cfg, GenHist: map[string]uint32{}}
	n.Universe = Universe(cfg.Universe)
	n.ABI = NewABI(n.Universe, cfg.Genesis)
	n.FS = cfg.FS
	if n.FS == nil {
		n.FS = vfs.NewMem()
	}
	n.Genesis = BuildGenesis(&n.Cfg, n.Universe)
	if err := n.open(); err != nil {
		return nil, err
	}
	return n, nil
}

// NewWithABI creates a node sharing nothing but an existing application object (twin nodes
// use ABI.Clone()).
func NewWithABI(cfg Config, abi *ABI) (*Node, error) {
	cfg.defaults()
	n := &Node{Cfg: cfg, GenHist: map[string]uint32{}}
	n.Universe = Universe(cfg.Universe)
	n.ABI = abi
	n.FS = cfg.FS
	if n.FS == nil {
		n.FS = vfs.NewMem()
	}
	n.Genesis = BuildGenesis(&n.Cfg, n.Universe)
	if err := n.open(); err != nil {
		return nil, err
	}
	return n, nil
}

func (n *Node) open() error {
	// small memtables: lisk-engine's db.IterateRange leaks its pebble iterator, which pins the
	// memtable arena of every node the harness ever opened (4 MB each by default)
	opts := &pebble.Options{MemTableSize: 256 << 10, Cache: sharedCache, MaxOpenFiles: 16}
	opts.Experimental.TableCacheShards = 1
	if n.Cfg.PebbleOpts != nil {
		o := *n.Cfg.PebbleOpts
		opts = &o
	}
	d, err := db.NewDBWithFS("", n.FS, opts)
	if err != nil {
		return err
	}
	n.DB = d
	n.Log = NewLogger()
	n.ctx, n.cancel = context.WithCancel(context.Background())
	n.Conn = p2p.NewConnection(n.Log, &p2p.Config{
		ChainID:   n.Cfg.ChainID,
		Addresses: n.Cfg.P2PAddresses,
	})
	n.Chain = blockchain.NewChain(&blockchain.ChainConfig{
		ChainID:               n.Cfg.ChainID,
		MaxTransactionsLength: n.Cfg.MaxTransactionsLength,
		MaxBlockCache:         n.Cfg.MaxBlockCache,
		KeepEventsForHeights:  n.Cfg.KeepEventsForHeights,
	})
	n.Chain.Init(n.Genesis, n.DB)
	n.Exec = consensus.NewExecuter(&consensus.ExecuterConfig{
		CTX: n.ctx, ABI: n.ABI, Chain: n.Chain, Conn: n.Conn, BlockTime: n.Cfg.BlockTime, BatchSize: n.Cfg.BatchSize,
	})
	if err := n.Exec.Init(&consensus.ExecuterInitParam{CTX: n.ctx, Logger: n.Log, Database: n.DB, GenesisBlock: n.Genesis}); err != nil {
		return err
	}
	n.Slot = validator.NewBlockSlot(n.Genesis.Header.Timestamp, n.Cfg.BlockTime)
	n.subscribe()
	if n.Cfg.P2PAddresses != nil {
		seed := n.Cfg.P2PSeed
		if seed == nil {
			seed = crypto.RandomBytes(16)
		}
		if err := n.Conn.Start(seed); err != nil {
			return err
		}
	}
	return nil
}

func (n *Node) subscribe() {
	for _, t := range Topics {
		ch := n.Exec.Subscribe(t)
		topic := t
		n.subWG.Add(1)
		go func() {
			defer n.subWG.Done()
			for m := range ch {
				if _, ok := m.(fence); ok {
					continue
				}
				n.evMu.Lock()
				n.events = append(n.events, Recorded{topic, m})
				n.evMu.Unlock()
			}
		}()
	}
}

// TakeEvents fences every topic and returns the events published since the last call.
func (n *Node) TakeEvents() []Recorded {
	for _, t := range Topics {
		n.Exec.VerifEvents().Publish(t, fence{})
	}
	n.evMu.Lock()
	defer n.evMu.Unlock()
	x := n.events
	n.events = nil
	return x
}

// Close stops the node (the FS keeps the data).
func (n *Node) Close() {
	if n.Cfg.P2PAddresses != nil && n.Conn != nil {
		n.Conn.Stop() //nolint:errcheck
	}
	n.Exec.Stop() //nolint:errcheck
	n.subWG.Wait()
	n.cancel()
	n.DB.Close() //nolint:errcheck
}

// CloseDBOnly closes only the database handle (crash simulation keeps everything else).
func (n *Node) Abandon() {
	n.Exec.Stop() //nolint:errcheck
	n.subWG.Wait()
	n.cancel()
}

// Restart closes the node and reopens it on the same file system with the same
// application object.
func (n *Node) Restart() error {
	n.Close()
	return n.open()
}

// Reopen opens a fresh Chain/Executer over the current FS without closing anything first
// (used after a simulated crash where the old handles were abandoned).
func (n *Node) Reopen() error { return n.open() }

func (n *Node) Tip() *blockchain.Block { return n.Chain.LastBlock() }

func (n *Node) Finalized() uint32 {
	h, err := n.Chain.DataAccess().GetFinalizedHeight()
	if err != nil {
		return 0
	}
	return h
}

func (n *Node) Heights() (prevoted, precommitted, certified uint32) {
	p, q, c, err := n.Exec.GetBFTHeights(n.Exec.VerifStateStore())
	if err != nil {
		panic(err)
	}
	return p, q, c
}

// ---------------------------------------------------------------------------------------
// DB dump

type KV struct{ K, V []byte }

// Dump returns every key/value of the blockchain DB in key order.
func Dump(d *db.DB) []KV {
	kvs := d.IterateRange([]byte{0x00}, bytes.Repeat([]byte{0xff}, 64), -1, false)
	out := make([]KV, len(kvs))
	for i, kv := range kvs {
		out[i] = KV{kv.Key(), kv.Value()}
	}
	sort.Slice(out, func(i, j int) bool { return bytes.Compare(out[i].K, out[j].K) < 0 })
	return out
}

// DumpHash is a digest of a dump.
func DumpHash(kvs []KV) string {
	h := sha256.New()
	for _, kv := range kvs {
		fmt.Fprintf(h, "%d:", len(kv.K))
		h.Write(kv.K)
		fmt.Fprintf(h, "%d:", len(kv.V))
		h.Write(kv.V)
	}
	return fmt.Sprintf("%x", h.Sum(nil)[:8])
}

type DiffEntry struct {
	Key    string `json:"key"`
	Before string `json:"before"` // hex or "<absent>"
	After  string `json:"after"`
}

// Diff lists keys whose presence or value differs; filter decides which keys are ignored.
func Diff(a, b []KV, ignore func(key []byte, before, after []byte, hasBefore, hasAfter bool) bool) []DiffEntry {
	out := []DiffEntry{}
	i, j := 0, 0
	rend := func(v []byte) string {
		if len(v) > 24 {
			return fmt.Sprintf("%x..(%d)", v[:24], len(v))
		}
		return fmt.Sprintf("%x", v)
	}
	for i < len(a) || j < len(b) {
		var c int
		switch {
		case i >= len(a):
			c = 1
		case j >= len(b):
			c = -1
		default:
			c = bytes.Compare(a[i].K, b[j].K)
		}
		switch {
		case c < 0:
			if ignore == nil || !ignore(a[i].K, a[i].V, nil, true, false) {
				out = append(out, DiffEntry{fmt.Sprintf("%x", a[i].K), rend(a[i].V), "<absent>"})
			}
			i++
		case c > 0:
			if ignore == nil || !ignore(b[j].K, nil, b[j].V, false, true) {
				out = append(out, DiffEntry{fmt.Sprintf("%x", b[j].K), "<absent>", rend(b[j].V)})
			}
			j++
		default:
			if !bytes.Equal(a[i].V, b[j].V) {
				if ignore == nil || !ignore(a[i].K, a[i].V, b[j].V, true, true) {
					out = append(out, DiffEntry{fmt.Sprintf("%x", a[i].K), rend(a[i].V), rend(b[j].V)})
				}
			}
			i++
			j++
		}
	}
	return out
}

// AlignABI resynchronises the scripted application with the engine's chain.
func (n *Node) AlignABI() error {
	tip := n.Tip()
	if tip == nil {
		return fmt.Errorf("no tip")
	}
	roots := make([][]byte, tip.Header.Height+1)
	for h := uint32(0); h <= tip.Header.Height; h++ {
		hdr, err := n.Chain.DataAccess().GetBlockHeaderByHeight(h)
		if err != nil {
			return fmt.Errorf("height %d: %w", h, err)
		}
		roots[h] = hdr.StateRoot
	}
	n.ABI.AlignTo(roots)
	return nil
}
