package node

import (
	"bytes"
	"sort"

	"github.com/LiskHQ/lisk-engine/pkg/blockchain"
	"github.com/LiskHQ/lisk-engine/pkg/consensus/certificate"
	"github.com/LiskHQ/lisk-engine/pkg/consensus/liskbft"
	"github.com/LiskHQ/lisk-engine/pkg/crypto"
)

var certTag = []byte("LSK_CE_")

// CertMessage is the message a validator signs to certify the block with this header.
func CertMessage(chainID []byte, h *blockchain.BlockHeader) []byte {
	c := certificate.NewCertificateFromBlock(h)
	return crypto.Hash(append(append(append([]byte{}, certTag...), chainID...), c.SigningBytes()...))
}

// CertifiableAggregate returns an honest aggregate commit signed by every validator of a
// height h in (certified, min(precommitted, nextChange-1)] chosen by pick (0 = lowest, 1 = highest),
// or nil if no height is certifiable at the moment.
func (n *Node) CertifiableAggregate(pickHighest bool) *blockchain.AggregateCommit {
	return n.certifiableAggregate(pickHighest, nil)
}

// UnderweightAggregate returns an aggregate commit for a certifiable height that is honest in every
// respect (right block, right bit positions, real signatures) except that its signers - a subset
// drawn by perm (a permutation source) and filled up as far as possible - hold less weight than
// the certificate threshold of that height.  nil if no height is certifiable or no such non-empty
// subset exists.
func (n *Node) UnderweightAggregate(pickHighest bool, perm func(n int) []int) *blockchain.AggregateCommit {
	return n.certifiableAggregate(pickHighest, perm)
}

func (n *Node) certifiableAggregate(pickHighest bool, underweight func(n int) []int) *blockchain.AggregateCommit {
	store := n.Exec.VerifStateStore()
	_, pre, cert, err := n.Exec.GetBFTHeights(store)
	if err != nil {
		return nil
	}
	params, err := liskbft.VerifDumpParams(store)
	if err != nil {
		return nil
	}
	hi := pre
	for _, p := range params {
		if p.Height > cert+1 {
			if p.Height-1 < hi {
				hi = p.Height - 1
			}
			break
		}
	}
	if hi <= cert {
		return nil
	}
	h := cert + 1
	if pickHighest {
		h = hi
	}
	var at *liskbft.VerifParams
	for i := range params {
		if params[i].Height <= h {
			at = &params[i]
		}
	}
	if at == nil {
		return nil
	}
	hdr, err := n.Chain.DataAccess().GetBlockHeaderByHeight(h)
	if err != nil {
		return nil
	}
	type kv struct {
		v *Validator
	}
	vals := []*Validator{}
	for _, pv := range at.Validators {
		v := n.ValidatorByAddress(pv.Address)
		if v == nil {
			return nil
		}
		vals = append(vals, v)
	}
	sort.Slice(vals, func(i, j int) bool { return bytes.Compare(vals[i].BLS.PublicKey, vals[j].BLS.PublicKey) < 0 })
	keys := make([][]byte, len(vals))
	pairs := []*crypto.BLSPublicKeySignaturePair{}
	msg := CertMessage(n.Chain.ChainID(), hdr)
	signs := map[int]bool{}
	if underweight != nil {
		weight := map[string]uint64{}
		for _, pv := range at.Validators {
			weight[string(pv.Address)] = pv.Weight
		}
		var sum uint64
		for _, i := range underweight(len(vals)) {
			w := weight[string(vals[i].Address)]
			if w > 0 && sum+w < at.CertificateThreshold {
				signs[i] = true
				sum += w
			}
		}
		if len(signs) == 0 {
			return nil
		}
	}
	for i, v := range vals {
		keys[i] = v.BLS.PublicKey
		if underweight != nil && !signs[i] {
			continue
		}
		pairs = append(pairs, &crypto.BLSPublicKeySignaturePair{PublicKey: v.BLS.PublicKey, Signature: crypto.BLSSign(msg, v.BLS.PrivateKey)})
	}
	bits, sig := crypto.BLSCreateAggSig(keys, pairs)
	return &blockchain.AggregateCommit{Height: h, AggregationBits: bits, CertificateSignature: sig}
}
