package node

import (
	"bytes"
	"context"
	"errors"
	"fmt"

	"github.com/LiskHQ/lisk-engine/pkg/blockchain"
	"github.com/LiskHQ/lisk-engine/pkg/codec"
	"github.com/LiskHQ/lisk-engine/pkg/consensus/validator"
	"github.com/LiskHQ/lisk-engine/pkg/trie/rmt"
)

// BlockOpts selects the content of the next block.
type BlockOpts struct {
	SlotsAhead int // slots after the tip's slot (default 1)
	Txs        []*blockchain.Transaction
	Directive  *Directive
	Extra      []*blockchain.BlockAsset
	// MaxHeightGenerated overrides the honest value (largest height generated so far).
	MaxHeightGenerated *uint32
	AggregateCommit    *blockchain.AggregateCommit
	// NoRecord: do not update GenHist (the block is a probe that will not be applied).
	NoRecord bool
}

var ErrWouldContradict = errors.New("honest header would contradict the chain (generator forged higher on another branch)")

// ValidatorByAddress finds the universe member with this address.
func (n *Node) ValidatorByAddress(addr []byte) *Validator {
	for _, v := range n.Universe {
		if bytes.Equal(v.Address, addr) {
			return v
		}
	}
	return nil
}

// SlotGenerator returns the validator assigned to the slot `slotsAhead` after the tip's slot
// for the next height.
func (n *Node) SlotGenerator(slotsAhead int) (*Validator, uint32, error) {
	tip := n.Tip().Header
	store := n.Exec.VerifStateStore()
	gens, err := n.Exec.GetGeneratorKeys(store, tip.Height+1)
	if err != nil {
		return nil, 0, err
	}
	slot := n.Slot.GetSlotNumber(tip.Timestamp) + slotsAhead
	ts := n.Slot.GetSlotTime(slot)
	g := gens[slot%len(gens)]
	v := n.ValidatorByAddress(g.Address())
	if v == nil {
		return nil, 0, fmt.Errorf("generator %x not in universe", []byte(g.Address()))
	}
	return v, ts, nil
}

// ValidatorsHashFor computes the validatorsHash for a parameter set.
func ValidatorsHashFor(universe []*Validator, pc *ParamChange) []byte {
	hv := []validator.HashValidator{}
	for i, m := range pc.Members {
		if pc.Weights[i] > 0 {
			hv = append(hv, validator.NewHashValidator(universe[m].BLS.PublicKey, pc.Weights[i]))
		}
	}
	vh, err := validator.ComputeValidatorsHash(hv, pc.Cert)
	if err != nil {
		panic(err)
	}
	return vh
}

// NextBlock builds the valid successor of the current tip with the requested content,
// signed by the slot's generator.
func (n *Node) NextBlock(o BlockOpts) (*blockchain.Block, error) {
	if o.SlotsAhead <= 0 {
		o.SlotsAhead = 1
	}
	tip := n.Tip().Header
	store := n.Exec.VerifStateStore()
	gen, ts, err := n.SlotGenerator(o.SlotsAhead)
	if err != nil {
		return nil, err
	}
	height := tip.Height + 1
	prevoted, _, certified, err := n.Exec.GetBFTHeights(store)
	if err != nil {
		return nil, err
	}
	mhg := n.GenHist[string(gen.Address)]
	if o.MaxHeightGenerated != nil {
		mhg = *o.MaxHeightGenerated
	}
	assets := blockchain.BlockAssets{}
	if o.Directive != nil {
		assets = append(assets, &blockchain.BlockAsset{Module: VerifModule, Data: o.Directive.Encode()})
	}
	assets = append(assets, o.Extra...)
	assets.Sort()
	txs := o.Txs
	if txs == nil {
		txs = []*blockchain.Transaction{}
	}
	txIDs := make([][]byte, len(txs))
	for i, tx := range txs {
		txIDs[i] = tx.ID
	}
	var vhash []byte
	if o.Directive != nil && o.Directive.Change != nil {
		vhash = ValidatorsHashFor(n.Universe, o.Directive.Change)
	} else {
		p, err := n.Exec.GetBFTParameters(store, height+1)
		if err != nil {
			return nil, err
		}
		vhash = p.ValidatorsHash()
	}
	events := PredictEvents(height, assets, txs)
	eventRoot, err := blockchain.CalculateEventRoot(events)
	if err != nil {
		return nil, err
	}
	ac := o.AggregateCommit
	if ac == nil {
		ac = &blockchain.AggregateCommit{Height: certified, AggregationBits: codec.Hex{}, CertificateSignature: codec.Hex{}}
	}
	h := &blockchain.BlockHeader{
		Version:            2,
		Timestamp:          ts,
		Height:             height,
		PreviousBlockID:    tip.ID,
		GeneratorAddress:   gen.Address,
		TransactionRoot:    rmt.CalculateRoot(txIDs),
		AssetRoot:          assets.GetRoot(),
		EventRoot:          eventRoot,
		StateRoot:          RootFor(tip.StateRoot, height, assets, txIDs),
		MaxHeightPrevoted:  prevoted,
		MaxHeightGenerated: mhg,
		ValidatorsHash:     vhash,
		AggregateCommit:    ac,
	}
	h.Sign(n.Chain.ChainID(), gen.EdPriv)
	b := &blockchain.Block{Header: h, Transactions: txs, Assets: assets}
	if o.MaxHeightGenerated == nil {
		contra, err := n.Exec.VerifLiskBFT().API().IsHeaderContradictingChain(store, h.Readonly())
		if err != nil {
			return nil, err
		}
		if contra {
			return nil, ErrWouldContradict
		}
	}
	if !o.NoRecord && height > n.GenHist[string(gen.Address)] {
		n.GenHist[string(gen.Address)] = height
	}
	return b, nil
}

// Resign recomputes signature and ID after a header mutation (signer = priv).
func Resign(n *Node, b *blockchain.Block, priv []byte) {
	b.Header.Sign(n.Chain.ChainID(), priv)
}

// CloneBlock deep-copies a block through its encoding.
func CloneBlock(b *blockchain.Block) *blockchain.Block {
	c, err := blockchain.NewBlock(b.Encode())
	if err != nil {
		panic(err)
	}
	return c
}

// Apply drives the block through Executer.process as a block received from a peer.
func (n *Node) Apply(b *blockchain.Block) error {
	return n.Exec.VerifProcess(context.Background(), b, "peer")
}

// ApplyValidated drives the block through processValidated (the path sync uses).
func (n *Node) ApplyValidated(b *blockchain.Block) error {
	return n.Exec.VerifProcessValidated(context.Background(), b, false, false)
}

// DeleteTip removes the tip through Executer.deleteBlock.
func (n *Node) DeleteTip(saveTemp bool) error {
	return n.Exec.VerifDeleteBlock(context.Background(), n.Tip(), saveTemp)
}

// NewTx builds a signed transaction of the scripted application.
func (n *Node) NewTx(sender *Validator, nonce, fee uint64, verify, exec byte, pad int) *blockchain.Transaction {
	params := make([]byte, 2+pad)
	params[0], params[1] = verify, exec
	for i := 0; i < pad; i++ {
		params[2+i] = byte(i * 7)
	}
	tx := &blockchain.Transaction{
		Module: VerifModule, Command: VerifCommand, Nonce: nonce, Fee: fee,
		SenderPublicKey: sender.EdPub, Params: params, Signatures: []codec.Hex{},
	}
	sig := tx.GetSignature(n.Chain.ChainID(), sender.EdPriv)
	tx.Signatures = []codec.Hex{sig}
	tx.Init()
	return tx
}

// Grow applies k honest empty blocks (each next slot); returns the blocks.
func (n *Node) Grow(k int) ([]*blockchain.Block, error) {
	out := []*blockchain.Block{}
	for i := 0; i < k; i++ {
		b, err := n.NextBlock(BlockOpts{})
		if err != nil {
			return out, err
		}
		if err := n.Apply(b); err != nil {
			return out, fmt.Errorf("honest block at height %d rejected: %w", b.Header.Height, err)
		}
		out = append(out, b)
	}
	return out, nil
}
