package node

import (
	"fmt"
	"math/rand"

	"github.com/LiskHQ/lisk-engine/pkg/blockchain"
)

// RandomChange draws a legal parameter change over the universe (at most maxMembers members).
func RandomChange(r *rand.Rand, universe, maxMembers int) *ParamChange {
	k := 1 + r.Intn(maxMembers)
	if k > universe {
		k = universe
	}
	perm := r.Perm(universe)[:k]
	pc := &ParamChange{}
	var w uint64
	for i, m := range perm {
		wt := uint64(1 + r.Intn(3))
		if i > 0 && r.Intn(6) == 0 {
			wt = 0 // generator-only member
		}
		pc.Members = append(pc.Members, m)
		pc.Weights = append(pc.Weights, wt)
		w += wt
	}
	lo := w/3 + 1
	pc.Precommit = lo + uint64(r.Int63n(int64(w-lo+1)))
	pc.Cert = lo + uint64(r.Int63n(int64(w-lo+1)))
	return pc
}

// RandomOpts draws the content of a valid block.
func (n *Node) RandomOpts(r *rand.Rand) BlockOpts {
	o := BlockOpts{SlotsAhead: 1}
	if r.Intn(5) == 0 {
		o.SlotsAhead = 1 + r.Intn(3)
	}
	d := &Directive{Salt: r.Intn(1 << 20)}
	if r.Intn(2) == 0 {
		d.Events = r.Intn(3)
	}
	if r.Intn(4) == 0 {
		d.AfterEvents = r.Intn(2)
	}
	if r.Intn(8) == 0 {
		d.Change = RandomChange(r, len(n.Universe), n.Cfg.BatchSize)
	}
	if r.Intn(4) != 0 {
		o.Directive = d
	}
	if r.Intn(6) == 0 {
		// certify a block (honest aggregate of all validators of that height)
		o.AggregateCommit = n.CertifiableAggregate(r.Intn(2) == 0)
	}
	if r.Intn(3) == 0 {
		o.Extra = append(o.Extra, &blockchain.BlockAsset{Module: "aux", Data: []byte{byte(r.Intn(256))}})
	}
	if r.Intn(2) == 0 {
		k := 1 + r.Intn(4)
		for i := 0; i < k; i++ {
			s := n.Universe[r.Intn(len(n.Universe))]
			ex := byte(TxExecOK)
			if r.Intn(4) == 0 {
				ex = TxExecFail
			}
			o.Txs = append(o.Txs, n.NewTx(s, uint64(r.Intn(1000)), uint64(1000+r.Intn(100000)), TxVerifyOK, ex, r.Intn(40)))
		}
	}
	return o
}

// RandomValid builds a random valid successor; it retries other slots when the honest
// header of the slot owner would contradict the chain.
func (n *Node) RandomValid(r *rand.Rand) (*blockchain.Block, BlockOpts, error) {
	o := n.RandomOpts(r)
	for try := 0; try < 12; try++ {
		b, err := n.NextBlock(o)
		if err == nil {
			return b, o, nil
		}
		if err != ErrWouldContradict {
			return nil, o, err
		}
		o.SlotsAhead++
	}
	return nil, o, fmt.Errorf("no non-contradicting slot found")
}

// DescribeBlock is a short JSON-able description.
func DescribeBlock(b *blockchain.Block) map[string]any {
	d := DirectiveFromAssets(b.Assets)
	return map[string]any{
		"height": b.Header.Height, "ts": b.Header.Timestamp, "gen": fmt.Sprintf("%x", []byte(b.Header.GeneratorAddress)[:4]),
		"mhp": b.Header.MaxHeightPrevoted, "mhg": b.Header.MaxHeightGenerated, "txs": len(b.Transactions), "assets": len(b.Assets),
		"events": d.Events + d.AfterEvents, "change": d.Change != nil, "ac": b.Header.AggregateCommit.Height,
	}
}
