package node

import (
	"bytes"
	"crypto/sha256"
	"encoding/binary"
	"encoding/json"
	"errors"
	"fmt"
	"sort"
	"sync"

	"github.com/LiskHQ/lisk-engine/pkg/blockchain"
	"github.com/LiskHQ/lisk-engine/pkg/codec"
	"github.com/LiskHQ/lisk-engine/pkg/labi"
)

// Scripted application (labi.ABI). Its behaviour is a function of the *content* of the
// block being executed (a block asset of module "verif" carries the directives, the
// params of each transaction carry the per-transaction verdicts), so it is fork-safe and
// deterministic: every node executes the same block the same way.
//
// Application state = stack of (height, root). root(h) = H(root(h-1) | h | H(assets) | tx ids).

const (
	VerifModule  = "verif"
	VerifCommand = "run"
)

// Directive is carried in the data of the block asset with module "verif".
type Directive struct {
	// Events: number of extra block-level events emitted in BeforeTransactionsExecute.
	Events int `json:"e,omitempty"`
	// AfterEvents: events emitted in AfterTransactionsExecute.
	AfterEvents int `json:"a,omitempty"`
	// Change: next validator set (indices into the universe) with weights; nil = no change.
	Change *ParamChange `json:"c,omitempty"`
	// Salt makes otherwise identical blocks distinct.
	Salt int `json:"s,omitempty"`
}

type ParamChange struct {
	Members   []int    `json:"m"` // universe indices; generators in this order
	Weights   []uint64 `json:"w"` // BFT weight per member (0 = generator only)
	Precommit uint64   `json:"p"`
	Cert      uint64   `json:"t"`
}

func (d *Directive) Encode() []byte {
	b, _ := json.Marshal(d)
	return b
}

func DirectiveFromAssets(assets []*blockchain.BlockAsset) *Directive {
	for _, a := range assets {
		if a.Module == VerifModule {
			d := &Directive{}
			if json.Unmarshal(a.Data, d) == nil {
				return d
			}
		}
	}
	return &Directive{}
}

// Tx params: byte0 = verify result (0 ok, 1 pending, 2 invalid, 3 error),
// byte1 = execute result (0 success, 1 fail, 2 invalid result, 3 error), rest padding.
const (
	TxVerifyOK = iota
	TxVerifyPending
	TxVerifyInvalid
	TxVerifyError
)
const (
	TxExecOK = iota
	TxExecFail
	TxExecInvalid
	TxExecError
)

type appLevel struct {
	Height uint32
	Root   []byte
}

type abiCtx struct {
	header *blockchain.BlockHeader
	assets []*blockchain.BlockAsset
	txIDs  [][]byte
	id     []byte
}

// Call is one recorded ABI call.
type Call struct {
	Name   string
	Height uint32
}

type ABI struct {
	mu       sync.Mutex
	universe []*Validator
	genesis  *ParamChange
	stack    []appLevel
	ctx      *abiCtx
	ctxSeq   uint64
	Calls    []Call
	// FailAt: name of the call that must fail once (test of error paths); cleared when used.
	FailAt string
	// NextAssets: assets handed out by InsertAssets (generator path).
	NextAssets []*blockchain.BlockAsset
	// Anomalies are inconsistencies the application observed (e.g. engine passes a previous
	// state root different from the application's own).
	Anomalies []string
	// TxOverride lets a harness change a transaction's verdict by id (hex) at run time.
	TxOverride map[string][2]byte
}

func NewABI(universe []*Validator, genesis *ParamChange) *ABI {
	return &ABI{universe: universe, genesis: genesis, TxOverride: map[string][2]byte{}}
}

func (a *ABI) record(name string) error {
	h := uint32(0)
	if a.ctx != nil && a.ctx.header != nil {
		h = a.ctx.header.Height
	}
	a.Calls = append(a.Calls, Call{name, h})
	if len(a.Calls) > 4096 {
		a.Calls = a.Calls[len(a.Calls)-2048:]
	}
	if a.FailAt == name {
		a.FailAt = ""
		return fmt.Errorf("scripted failure at %s", name)
	}
	return nil
}

// hashAssets: the application state depends on the assets a block carries, not on the order in
// which InsertAssets happened to list them (a block carries them sorted by module).
func hashAssets(in []*blockchain.BlockAsset) []byte {
	assets := append([]*blockchain.BlockAsset{}, in...)
	sort.SliceStable(assets, func(i, j int) bool { return assets[i].Module < assets[j].Module })
	h := sha256.New()
	for _, as := range assets {
		h.Write(as.Encode())
	}
	return h.Sum(nil)
}

// RootFor is the application's state root after executing a block with this content on top
// of prevRoot.
func RootFor(prevRoot []byte, height uint32, assets []*blockchain.BlockAsset, txIDs [][]byte) []byte {
	h := sha256.New()
	h.Write(prevRoot)
	var hb [4]byte
	binary.BigEndian.PutUint32(hb[:], height)
	h.Write(hb[:])
	h.Write(hashAssets(assets))
	for _, id := range txIDs {
		h.Write(id)
	}
	return h.Sum(nil)
}

func GenesisRoot() []byte { s := sha256.Sum256([]byte("verif-genesis-state")); return s[:] }

func (a *ABI) validatorsOf(pc *ParamChange) []*labi.Validator {
	out := make([]*labi.Validator, len(pc.Members))
	for i, m := range pc.Members {
		v := a.universe[m]
		out[i] = &labi.Validator{Address: v.Address, BFTWeight: pc.Weights[i], GeneratorKey: v.EdPub, BLSKey: v.BLS.PublicKey}
	}
	return out
}

// LabiValidators converts a ParamChange to labi validators over the universe.
func LabiValidators(universe []*Validator, pc *ParamChange) []*labi.Validator {
	a := &ABI{universe: universe}
	return a.validatorsOf(pc)
}

func blockEvents(module, name string, height uint32, n int, salt int) []*blockchain.Event {
	out := []*blockchain.Event{}
	for i := 0; i < n; i++ {
		out = append(out, &blockchain.Event{
			Module: module, Name: name,
			Data:   []byte{byte(i), byte(salt)},
			Topics: []codec.Hex{[]byte{byte(height), byte(i), 0x01}},
			Height: height,
		})
	}
	return out
}

func txEvent(tx *blockchain.Transaction, height uint32, success bool) *blockchain.Event {
	return &blockchain.Event{
		Module: tx.Module, Name: blockchain.EventNameDefault,
		Data:   blockchain.NewStandardTransactionEventData(success),
		Topics: []codec.Hex{tx.ID},
		Height: height,
	}
}

func (a *ABI) verdicts(tx *blockchain.Transaction) (byte, byte) {
	if o, ok := a.TxOverride[string(tx.ID)]; ok {
		return o[0], o[1]
	}
	var v, e byte
	if len(tx.Params) > 0 {
		v = tx.Params[0]
	}
	if len(tx.Params) > 1 {
		e = tx.Params[1]
	}
	return v, e
}

// PredictEvents returns the events the application will emit for a block with this content,
// with indexes assigned as the engine does (UpdateIndex).
func PredictEvents(height uint32, assets []*blockchain.BlockAsset, txs []*blockchain.Transaction) []*blockchain.Event {
	d := DirectiveFromAssets(assets)
	evs := blockchain.Events(blockEvents(VerifModule, "before", height, d.Events, d.Salt))
	for _, tx := range txs {
		e := byte(0)
		if len(tx.Params) > 1 {
			e = tx.Params[1]
		}
		evs = append(evs, txEvent(tx, height, e == TxExecOK))
	}
	evs = append(evs, blockEvents(VerifModule, "after", height, d.AfterEvents, d.Salt)...)
	evs.UpdateIndex()
	return evs
}

func (a *ABI) Init(req *labi.InitRequest) (*labi.InitResponse, error) {
	a.mu.Lock()
	defer a.mu.Unlock()
	if err := a.record("Init"); err != nil {
		return nil, err
	}
	return &labi.InitResponse{}, nil
}

func (a *ABI) InitStateMachine(req *labi.InitStateMachineRequest) (*labi.InitStateMachineResponse, error) {
	a.mu.Lock()
	defer a.mu.Unlock()
	a.ctxSeq++
	id := make([]byte, 8)
	binary.BigEndian.PutUint64(id, a.ctxSeq)
	a.ctx = &abiCtx{header: req.Header, id: id}
	if err := a.record("InitStateMachine"); err != nil {
		return nil, err
	}
	return &labi.InitStateMachineResponse{ContextID: id}, nil
}

func (a *ABI) checkCtx(id []byte) error {
	if a.ctx == nil || !bytes.Equal(a.ctx.id, id) {
		return errors.New("invalid context id")
	}
	return nil
}

func (a *ABI) InitGenesisState(req *labi.InitGenesisStateRequest) (*labi.InitGenesisStateResponse, error) {
	a.mu.Lock()
	defer a.mu.Unlock()
	if err := a.checkCtx(req.ContextID); err != nil {
		return nil, err
	}
	if err := a.record("InitGenesisState"); err != nil {
		return nil, err
	}
	return &labi.InitGenesisStateResponse{
		Events:               []*blockchain.Event{},
		PreCommitThreshold:   a.genesis.Precommit,
		CertificateThreshold: a.genesis.Cert,
		NextValidators:       a.validatorsOf(a.genesis),
	}, nil
}

func (a *ABI) InsertAssets(req *labi.InsertAssetsRequest) (*labi.InsertAssetsResponse, error) {
	a.mu.Lock()
	defer a.mu.Unlock()
	if err := a.checkCtx(req.ContextID); err != nil {
		return nil, err
	}
	if err := a.record("InsertAssets"); err != nil {
		return nil, err
	}
	as := a.NextAssets
	a.NextAssets = nil
	if as == nil {
		as = []*blockchain.BlockAsset{}
	}
	a.ctx.assets = as
	return &labi.InsertAssetsResponse{Assets: as}, nil
}

func (a *ABI) VerifyAssets(req *labi.VerifyAssetsRequest) (*labi.VerifyAssetsResponse, error) {
	a.mu.Lock()
	defer a.mu.Unlock()
	if err := a.checkCtx(req.ContextID); err != nil {
		return nil, err
	}
	if err := a.record("VerifyAssets"); err != nil {
		return nil, err
	}
	return &labi.VerifyAssetsResponse{}, nil
}

func (a *ABI) BeforeTransactionsExecute(req *labi.BeforeTransactionsExecuteRequest) (*labi.BeforeTransactionsExecuteResponse, error) {
	a.mu.Lock()
	defer a.mu.Unlock()
	if err := a.checkCtx(req.ContextID); err != nil {
		return nil, err
	}
	if err := a.record("BeforeTransactionsExecute"); err != nil {
		return nil, err
	}
	a.ctx.assets = req.Assets
	d := DirectiveFromAssets(req.Assets)
	return &labi.BeforeTransactionsExecuteResponse{Events: blockEvents(VerifModule, "before", a.ctx.header.Height, d.Events, d.Salt)}, nil
}

func (a *ABI) AfterTransactionsExecute(req *labi.AfterTransactionsExecuteRequest) (*labi.AfterTransactionsExecuteResponse, error) {
	a.mu.Lock()
	defer a.mu.Unlock()
	if err := a.checkCtx(req.ContextID); err != nil {
		return nil, err
	}
	if err := a.record("AfterTransactionsExecute"); err != nil {
		return nil, err
	}
	d := DirectiveFromAssets(req.Assets)
	resp := &labi.AfterTransactionsExecuteResponse{Events: blockEvents(VerifModule, "after", a.ctx.header.Height, d.AfterEvents, d.Salt)}
	if d.Change != nil {
		resp.PreCommitThreshold = d.Change.Precommit
		resp.CertificateThreshold = d.Change.Cert
		resp.NextValidators = a.validatorsOf(d.Change)
	}
	return resp, nil
}

func (a *ABI) VerifyTransaction(req *labi.VerifyTransactionRequest) (*labi.VerifyTransactionResponse, error) {
	a.mu.Lock()
	defer a.mu.Unlock()
	// context id is optional for pool verification (the pool verifies without a context)
	if err := a.record("VerifyTransaction"); err != nil {
		return nil, err
	}
	v, _ := a.verdicts(req.Transaction)
	switch v {
	case TxVerifyOK:
		return &labi.VerifyTransactionResponse{Result: labi.TxVerifyResultOk}, nil
	case TxVerifyPending:
		return &labi.VerifyTransactionResponse{Result: labi.TxVerifyResultPending}, nil
	case TxVerifyInvalid:
		return &labi.VerifyTransactionResponse{Result: labi.TxVerifyResultInvalid}, nil
	}
	return nil, errors.New("scripted verify error")
}

func (a *ABI) ExecuteTransaction(req *labi.ExecuteTransactionRequest) (*labi.ExecuteTransactionResponse, error) {
	a.mu.Lock()
	defer a.mu.Unlock()
	if err := a.record("ExecuteTransaction"); err != nil {
		return nil, err
	}
	_, e := a.verdicts(req.Transaction)
	height := uint32(0)
	if a.ctx != nil && a.ctx.header != nil {
		height = a.ctx.header.Height
	}
	switch e {
	case TxExecOK, TxExecFail:
		if a.ctx != nil && !req.DryRun {
			a.ctx.txIDs = append(a.ctx.txIDs, req.Transaction.ID)
		}
		res := labi.TxExecuteResultSuccess
		if e == TxExecFail {
			res = labi.TxExecuteResultFail
		}
		return &labi.ExecuteTransactionResponse{Events: []*blockchain.Event{txEvent(req.Transaction, height, e == TxExecOK)}, Result: res}, nil
	case TxExecInvalid:
		// as in the real state machine, hooks that ran before the failure may have emitted events
		return &labi.ExecuteTransactionResponse{Events: []*blockchain.Event{txEvent(req.Transaction, height, false)}, Result: labi.TxExecuteResultInvalid}, nil
	}
	return nil, errors.New("scripted execute error")
}

func (a *ABI) top() appLevel {
	if len(a.stack) == 0 {
		return appLevel{}
	}
	return a.stack[len(a.stack)-1]
}

func (a *ABI) Commit(req *labi.CommitRequest) (*labi.CommitResponse, error) {
	a.mu.Lock()
	defer a.mu.Unlock()
	if err := a.checkCtx(req.ContextID); err != nil {
		return nil, err
	}
	if err := a.record("Commit"); err != nil {
		return nil, err
	}
	h := a.ctx.header
	var root []byte
	if h.Version == 0 {
		root = GenesisRoot()
	} else {
		prev := a.top()
		if !bytes.Equal(prev.Root, req.StateRoot) {
			a.Anomalies = append(a.Anomalies, fmt.Sprintf("Commit at height %d: engine's previous root differs from the application's", h.Height))
		}
		if !req.DryRun && prev.Height+1 != h.Height {
			return nil, fmt.Errorf("application at height %d cannot commit height %d", prev.Height, h.Height)
		}
		root = RootFor(prev.Root, h.Height, a.ctx.assets, a.ctx.txIDs)
	}
	if len(req.ExpectedStateRoot) != 0 && !bytes.Equal(req.ExpectedStateRoot, root) {
		return nil, fmt.Errorf("state root mismatch at height %d", h.Height)
	}
	if !req.DryRun {
		a.stack = append(a.stack, appLevel{Height: h.Height, Root: root})
	}
	return &labi.CommitResponse{StateRoot: root}, nil
}

func (a *ABI) Revert(req *labi.RevertRequest) (*labi.RevertResponse, error) {
	a.mu.Lock()
	defer a.mu.Unlock()
	if err := a.checkCtx(req.ContextID); err != nil {
		return nil, err
	}
	if err := a.record("Revert"); err != nil {
		return nil, err
	}
	if len(a.stack) < 2 {
		return nil, errors.New("nothing to revert")
	}
	cur := a.top()
	if !bytes.Equal(cur.Root, req.StateRoot) {
		return nil, fmt.Errorf("revert: current root mismatch at height %d", cur.Height)
	}
	prev := a.stack[len(a.stack)-2]
	if len(req.ExpectedStateRoot) != 0 && !bytes.Equal(prev.Root, req.ExpectedStateRoot) {
		return nil, fmt.Errorf("revert: expected root mismatch at height %d", prev.Height)
	}
	a.stack = a.stack[:len(a.stack)-1]
	return &labi.RevertResponse{StateRoot: prev.Root}, nil
}

func (a *ABI) Clear(req *labi.ClearRequest) (*labi.ClearResponse, error) {
	a.mu.Lock()
	defer a.mu.Unlock()
	a.ctx = nil
	a.Calls = append(a.Calls, Call{"Clear", 0})
	return &labi.ClearResponse{}, nil
}

func (a *ABI) Finalize(req *labi.FinalizeRequest) (*labi.FinalizeResponse, error) {
	if err := a.record("Finalize"); err != nil {
		return nil, err
	}
	return &labi.FinalizeResponse{}, nil
}
func (a *ABI) GetMetadata(req *labi.MetadataRequest) (*labi.MetadataResponse, error) {
	return &labi.MetadataResponse{Data: []byte("{}")}, nil
}
func (a *ABI) Query(req *labi.QueryRequest) (*labi.QueryResponse, error) {
	return &labi.QueryResponse{Data: []byte("{}")}, nil
}
func (a *ABI) Prove(req *labi.ProveRequest) (*labi.ProveResponse, error) {
	return nil, errors.New("not supported")
}

// State returns a copy of the application's (height, root) stack.
func (a *ABI) State() []appLevel {
	a.mu.Lock()
	defer a.mu.Unlock()
	return append([]appLevel{}, a.stack...)
}

// StateString is a canonical rendering of the application state.
func (a *ABI) StateString() string {
	a.mu.Lock()
	defer a.mu.Unlock()
	var b bytes.Buffer
	for _, l := range a.stack {
		fmt.Fprintf(&b, "%d:%x;", l.Height, l.Root[:6])
	}
	return b.String()
}

func (a *ABI) TopRoot() []byte {
	a.mu.Lock()
	defer a.mu.Unlock()
	return a.top().Root
}

func (a *ABI) TopHeight() uint32 {
	a.mu.Lock()
	defer a.mu.Unlock()
	return a.top().Height
}

// Clone copies the application (for twin nodes).
func (a *ABI) Clone() *ABI {
	a.mu.Lock()
	defer a.mu.Unlock()
	c := NewABI(a.universe, a.genesis)
	c.stack = append([]appLevel{}, a.stack...)
	return c
}

func (a *ABI) TakeAnomalies() []string {
	a.mu.Lock()
	defer a.mu.Unlock()
	x := a.Anomalies
	a.Anomalies = nil
	return x
}

func (a *ABI) CallCount() int {
	a.mu.Lock()
	defer a.mu.Unlock()
	return len(a.Calls)
}

// AlignTo rebuilds the application's (height, root) stack from the state roots of the
// engine's chain (harness-level recovery after a simulated crash; the engine itself leaves
// that to labi.Init, which is property C16's subject).
func (a *ABI) AlignTo(roots [][]byte) {
	a.mu.Lock()
	defer a.mu.Unlock()
	a.stack = a.stack[:0]
	for h, r := range roots {
		a.stack = append(a.stack, appLevel{Height: uint32(h), Root: append([]byte{}, r...)})
	}
	a.ctx = nil
}
