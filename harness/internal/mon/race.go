package mon

import (
	"os"
	"path/filepath"
	"sort"
	"strings"
)

// RaceReport is one deduplicated data race.
type RaceReport struct {
	Key   string
	Count int
	Text  string
}

type RaceSummary struct {
	Total   int
	Outside int
	Reports []RaceReport
}

// ParseRaceLogs reads race.* files written through GORACE=log_path, splits them into
// "WARNING: DATA RACE" blocks, keeps blocks with at least one frame in one of pkgs (path
// fragments below pkg/, e.g. "blockchain"), and deduplicates by the sorted pair of the
// innermost lisk-engine functions of the two conflicting accesses.
func ParseRaceLogs(dir string, pkgs []string) RaceSummary {
	var sum RaceSummary
	files, _ := filepath.Glob(filepath.Join(dir, "race.*"))
	byKey := map[string]*RaceReport{}
	for _, f := range files {
		b, err := os.ReadFile(f)
		if err != nil {
			continue
		}
		blocks := strings.Split(string(b), "WARNING: DATA RACE")
		for _, blk := range blocks[1:] {
			if i := strings.Index(blk, "=================="); i >= 0 {
				blk = blk[:i]
			}
			sum.Total++
			key, inScope := raceKey(blk, pkgs)
			if !inScope {
				sum.Outside++
				continue
			}
			r, ok := byKey[key]
			if !ok {
				txt := blk
				if len(txt) > 6000 {
					txt = txt[:6000]
				}
				r = &RaceReport{Key: key, Text: txt}
				byKey[key] = r
			}
			r.Count++
		}
	}
	for _, r := range byKey {
		sum.Reports = append(sum.Reports, *r)
	}
	sort.Slice(sum.Reports, func(i, j int) bool { return sum.Reports[i].Key < sum.Reports[j].Key })
	return sum
}

func raceKey(blk string, pkgs []string) (string, bool) {
	// sections: "Read at ... by goroutine N:", "Previous write at ... by goroutine M:", then "Goroutine N (running) created at:"
	secs := strings.Split(blk, "\n\n")
	var access []string
	inScope := false
	for _, s := range secs {
		t := strings.TrimSpace(s)
		isAccess := strings.HasPrefix(t, "Read at") || strings.HasPrefix(t, "Write at") || strings.HasPrefix(t, "Previous read at") || strings.HasPrefix(t, "Previous write at") || strings.HasPrefix(t, "Atomic") || strings.HasPrefix(t, "Previous atomic")
		fn := ""
		for _, ln := range strings.Split(t, "\n") {
			ln = strings.TrimSpace(ln)
			if strings.HasPrefix(ln, repoPrefix) {
				f := strings.TrimPrefix(ln, repoPrefix)
				if i := strings.LastIndex(f, "("); i > 0 {
					f = f[:i]
				}
				if fn == "" {
					fn = f
				}
				if len(pkgs) == 0 {
					inScope = true
				}
				for _, p := range pkgs {
					if strings.HasPrefix(f, p+".") || strings.HasPrefix(f, p+"/") {
						inScope = true
					}
				}
			}
		}
		if isAccess {
			if fn == "" {
				fn = "(non-repo)"
			}
			access = append(access, fn)
		}
	}
	sort.Strings(access)
	return strings.Join(access, "|"), inScope
}
